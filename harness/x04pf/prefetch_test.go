package x04pf

// Conformance drivers of tla/Prefetch/Prefetch.tla on the real middleware/cache
// with the prefetch queue switched on (Prefetch = threshold percent):
//
//   TestPrefetchReplay  spec -> code.  Sequential call orders chosen by TLC (-simulate of the
//     Atomic/Eager configs) are replayed on a real cache.Cache whose prefetch queue has the
//     model's worker count and channel capacity (overlay shim), with
//       Cache.ServeDNS on [cache, scripted downstream]         Hit (msg / msg+byte path / wire-born / ECS client), Miss
//       the scripted downstream handler (parks until released)   MissFinish  (client-path write through ResponseWriter.WriteMsg)
//       Store.SetFromResponseWithCut / SetFromResponseScoped     DirectWrite
//       Cache.Purge, the overlay timestamp shifter, Cache.Stop   Purge, Tick, Stop
//       the scripted prefetch Queryer (parks every refresh        WTake = the refresh reached the Queryer,
//        inside prefetchExchange until the driver releases it)    WResp/WCas/WRelease = it returned and the worker finished
//     so the interleaving of hit / claim / enqueue / worker / client-path write / completion
//     is the one TLC chose.  After every call the projection (holder of every key, claim
//     flags, queue length, refreshes in flight, the reply) is compared with the model: a
//     difference is drift.
//
//   TestPrefetchStress  code -> spec.  Client goroutines hit two keys while a writer stores new
//     data and two workers refresh through a free-running Queryer; every invocation / response
//     and every Queryer entry / exit gets one harness-side sequence number; the history is
//     written as NDJSON for Trace_Prefetch.tla and judged by the predicates below.
//
// Verdicts (property C04) come from an oracle the driver keeps from its own inputs only: the
// TTLs it put into the records, the leases its resolver stand-ins reported, the instants of its
// calls, the clock steps it applied.  Every record served carries the id of the stored entry
// it came from in its rdata.
//
//   ServedLive      a record of entry x is served only before x's lifetime ends, where the
//                   lifetime of a refreshed entry is what the statement grants a client-path
//                   admission of the same response: min(floor/cap(TTLs, SOA minimum), ECS cap,
//                   lease reported by its own resolution)
//   TTLShown        its TTL <= what x has left;   TTLMonotone  never more than the hit before
//   LateWriteLoses  a refresh that completes after newer data was stored for the key stores nothing
//
// The module's protocol properties that C04's statement cannot bear (single flight, claim
// released after a refused Add / after the refresh, scoped or not-yet-due entries never
// enqueued, Stop drains the workers) are evaluated too and reported as breaches: counted,
// printed, exit 0 unless VERIF_X04PF_STRICT=1.

import (
	"context"
	"encoding/json"
	"errors"
	"fmt"
	"net"
	"net/netip"
	"os"
	"path/filepath"
	"runtime"
	"sort"
	"strings"
	"sync"
	"sync/atomic"
	"testing"
	"time"

	"github.com/miekg/dns"
	"github.com/semihalev/sdns/config"
	"github.com/semihalev/sdns/internal/mock"
	"github.com/semihalev/sdns/middleware"
	mcache "github.com/semihalev/sdns/middleware/cache"
	"github.com/semihalev/sdns/verifharness/vh"
)

const (
	floorS = 5
	capS   = 86400
)

var scope = netip.MustParsePrefix("192.0.2.0/24")

type expReply struct {
	E     int64 `json:"e"`
	Shown int64 `json:"shown"`
}

type expState struct {
	Cur      map[string]int64 `json:"cur"`
	Flag     []int64          `json:"flag"`
	QLen     int              `json:"qlen"` // -1: not stable (an idle worker may be receiving)
	Inflight []int64          `json:"inflight"`
	Reply    *expReply        `json:"reply"`
	StopRet  bool             `json:"stopRet"`
	Residue  []int64          `json:"residue"`
}

type step struct {
	Op    string    `json:"op"`
	C     int       `json:"c"`
	W     int       `json:"w"`
	K     string    `json:"k"`
	Route string    `json:"route"`
	Kind  string    `json:"kind"`
	N     int64     `json:"n"`
	T     int64     `json:"t"`
	L     int64     `json:"l"`
	D     int64     `json:"d"`
	Path  []string  `json:"path"`
	Exp   *expState `json:"exp"`
}

type behaviour struct {
	ID    string `json:"id"`
	Steps []step `json:"steps"`
}

type groups struct {
	Groups []input `json:"groups"`
}

type input struct {
	Name       string      `json:"name"`
	Workers    int         `json:"workers"`
	QCap       int         `json:"qcap"`
	Thr        int         `json:"thr"`
	EcsCap     int64       `json:"ecsCap"`
	Scoped     []string    `json:"scoped"`
	NegKeys    []string    `json:"negKeys"`
	CDKeys     []string    `json:"cdKeys"`
	Behaviours []behaviour `json:"behaviours"`
}

// ------------------------------------------------------------------ keys ----
type keyset struct {
	scoped, neg, cd map[string]bool
}

func newKeyset(in *input) *keyset {
	ks := &keyset{scoped: map[string]bool{}, neg: map[string]bool{}, cd: map[string]bool{}}
	for _, k := range in.Scoped {
		ks.scoped[k] = true
	}
	for _, k := range in.NegKeys {
		ks.neg[k] = true
	}
	for _, k := range in.CDKeys {
		ks.cd[k] = true
	}
	return ks
}

func qname(key string) string { return key + ".ex." }

func keyOfName(name string) string {
	name = strings.ToLower(name)
	if strings.HasSuffix(name, ".ex.") {
		return strings.TrimSuffix(name, ".ex.")
	}
	return ""
}

func (ks *keyset) question(key string) *dns.Msg {
	req := new(dns.Msg)
	req.SetQuestion(qname(key), dns.TypeA)
	req.RecursionDesired = true
	req.CheckingDisabled = ks.cd[key]
	return req
}

func (ks *keyset) key64(key string) uint64 {
	ck := mcache.CacheKey{Question: ks.question(key).Question[0], CD: ks.cd[key]}
	if ks.scoped[key] {
		ck.Scope = scope
	}
	return ck.Hash()
}

func sigRR(owner string, covered uint16, ttl uint32, tag int64) *dns.RRSIG {
	exp := time.Now().Add(48 * time.Hour).Unix()
	return &dns.RRSIG{
		Hdr:         dns.RR_Header{Name: owner, Rrtype: dns.TypeRRSIG, Class: dns.ClassINET, Ttl: ttl},
		TypeCovered: covered, Algorithm: dns.RSASHA256, Labels: uint8(dns.CountLabel(owner)), OrigTtl: ttl,
		Expiration: uint32(exp), Inception: uint32(exp - 100000), KeyTag: uint16(tag), SignerName: "ex.",
		Signature: "Tm90QVJlYWxTaWduYXR1cmVCdXRWYWxpZEJhc2U2NA==",
	}
}

// the response an authority would give; the entry id rides in the rdata / SOA serial
func answerFor(req *dns.Msg, kind string, id, raw int64) *dns.Msg {
	m := new(dns.Msg)
	m.SetReply(req)
	m.RecursionAvailable = true
	name := req.Question[0].Name
	ttl := uint32(raw)
	switch kind {
	case "neg":
		m.Rcode = dns.RcodeNameError
		hdr, min := ttl, ttl
		if id%2 == 0 {
			hdr += 7 // the SOA minimum is the smaller one
		} else {
			min += 7 // the SOA's own TTL is the smaller one
		}
		m.Ns = []dns.RR{&dns.SOA{Hdr: dns.RR_Header{Name: "ex.", Rrtype: dns.TypeSOA, Class: dns.ClassINET, Ttl: hdr},
			Ns: "ns.ex.", Mbox: "h.ex.", Serial: uint32(id), Refresh: 60, Retry: 60, Expire: 60, Minttl: min}}
	case "servfail":
		m.Rcode = dns.RcodeServerFailure
	default:
		m.Answer = []dns.RR{&dns.A{Hdr: dns.RR_Header{Name: name, Rrtype: dns.TypeA, Class: dns.ClassINET, Ttl: ttl},
			A: net.IPv4(10, byte(id>>16), byte(id>>8), byte(id)).To4()}}
		if id%3 == 0 {
			m.Answer = append(m.Answer, sigRR(name, dns.TypeA, ttl, id))
		}
	}
	return m
}

// which stored entry a message was built from, and the largest TTL it shows
func decode(msg *dns.Msg) (key string, id int64, shown int64) {
	id, shown = -1, -1
	if msg == nil || len(msg.Question) == 0 {
		return "", -1, -1
	}
	key = keyOfName(msg.Question[0].Name)
	for _, rr := range append(append([]dns.RR{}, msg.Answer...), msg.Ns...) {
		switch v := rr.(type) {
		case *dns.A:
			if len(v.A) == 4 {
				id = int64(v.A[1])<<16 | int64(v.A[2])<<8 | int64(v.A[3])
			}
		case *dns.SOA:
			id = int64(v.Serial)
		}
		if t := int64(rr.Header().Ttl); t > shown {
			shown = t
		}
	}
	return key, id, shown
}

func effTTL(raw int64) time.Duration {
	b := raw
	if b < floorS {
		b = floorS
	}
	if b > capS {
		b = capS
	}
	return time.Duration(b) * time.Second
}

func minT(a, b time.Time) time.Time {
	switch {
	case a.IsZero():
		return b
	case b.IsZero():
		return a
	case b.Before(a):
		return b
	}
	return a
}

// ---------------------------------------------------------------- oracle ----
type entInfo struct {
	id     int64
	key    string
	src    string // "client" | "refresh"
	ptr    *mcache.CacheEntry
	expHi  time.Time // upper bound of the instant the lifetime ends (code timeline)
	ttlEff time.Duration
	lease  time.Time
	last   int64
	excess string
}

type hitInfo struct {
	h      uint16
	key    string
	ptr    *mcache.CacheEntry
	entID  int64
	ecs    bool
	cd     bool
	due    bool // the driver's own reading of the threshold at the hit
	scoped bool
}

type pfCmd struct {
	kind  string
	resp  *dns.Msg
	lease time.Time
}

type pfCall struct {
	h       uint16
	req     *dns.Msg
	hasECS  bool
	hasMeta bool
	cmd     chan pfCmd
	done    chan struct{}
	aborted atomic.Bool
	info    *hitInfo
}

type missSlot struct {
	c      int
	key    string
	id     uint16
	ev     chan context.Context
	cmd    chan pfCmd
	done   chan struct{}
	w      *mock.Writer
	parked bool
}

type run struct {
	in        *input
	ks        *keyset
	res       *vh.Result
	c         *mcache.Cache
	ref       *mcache.Cache // client-path admission of the same response, for comparison
	store     *mcache.Store
	chain     []middleware.Handler
	ents      map[int64]*entInfo
	mu        sync.Mutex
	hits      map[uint16]*hitInfo
	misses    map[uint16]*missSlot
	byC       map[int]*missSlot
	calls     map[int]*pfCall
	starts    chan *pfCall
	stray     atomic.Int64
	audit     atomic.Bool
	nextMsg   uint16
	nextDrain int64
	nsteps    int
	vnow      int64
	hist      []string
	bid       string
	cur       *behaviour
	stopped   bool
	strict    bool
}

func (r *run) violate(pred, what string) {
	r.res.Violate("x04pf/"+pred, fmt.Sprintf("middleware/cache prefetch %s after %v: %s", pred, r.hist, what),
		map[string]any{"driver": "x04pf-replay", "behaviour": r.bid, "history": r.hist,
			"input": map[string]any{"groups": []any{map[string]any{"name": r.in.Name, "workers": r.in.Workers, "qcap": r.in.QCap, "thr": r.in.Thr,
				"ecsCap": r.in.EcsCap, "scoped": r.in.Scoped, "negKeys": r.in.NegKeys, "cdKeys": r.in.CDKeys,
				"behaviours": []any{map[string]any{"id": r.bid, "steps": r.cur.Steps[:min(r.nsteps, len(r.cur.Steps))]}}}}}})
}

// a protocol property of the module that the statement of C04 does not bear
func (r *run) breach(prop, what string) {
	r.res.Count("breach_"+prop, 1)
	msg := fmt.Sprintf("[%s] %s after %v: %s", r.bid, prop, r.hist, what)
	if r.strict {
		r.res.Violate("x04pf/module/"+prop, "prefetch module property "+msg, map[string]any{"driver": "x04pf-replay", "behaviour": r.bid, "history": r.hist})
		return
	}
	r.res.DriftNote("BREACH(module property, not borne by C04) %s", msg)
}

func (r *run) clientEff(key string, raw int64) time.Duration {
	e := effTTL(raw)
	if r.ks.scoped[key] && r.in.EcsCap > 0 && e > time.Duration(r.in.EcsCap)*time.Second {
		e = time.Duration(r.in.EcsCap) * time.Second
	}
	return e
}

func (r *run) idOf(e *mcache.CacheEntry) int64 {
	if e == nil {
		return 0
	}
	_, id, _ := decode(e.VerifX04pfStored())
	return id
}

// ServedLive / TTLShown / TTLMonotone for a reply served from the cache at (or after) t0
func (r *run) checkReply(msg *dns.Msg, t0 time.Time, where string) (int64, int64) {
	if msg == nil {
		return 0, 0
	}
	_, id, shown := decode(msg)
	if id <= 0 {
		return 0, 0
	}
	e := r.ents[id]
	if e == nil {
		r.res.DriftNote("[%s] %s: the reply carries entry id %d which the driver never stored", r.bid, where, id)
		return id, shown
	}
	left := e.expHi.Sub(t0)
	if left <= 0 {
		r.violate("ServedLive", fmt.Sprintf("%s served a record of %s (entry e%d, %s-born) %.3fs after that entry's lifetime ended (ttl %v, lease %s%s)",
			where, e.key, id, e.src, (-left).Seconds(), e.ttlEff, relStr(e.lease, t0), e.excess))
		return id, shown
	}
	if float64(shown) > left.Seconds() {
		r.violate("TTLShown", fmt.Sprintf("%s showed TTL %d for %s (entry e%d, %s-born) which had only %.3fs left%s", where, shown, e.key, id, e.src, left.Seconds(), e.excess))
	}
	if e.last >= 0 && shown > e.last {
		r.violate("TTLMonotone", fmt.Sprintf("%s showed TTL %d for %s (entry e%d) after an earlier hit showed %d", where, shown, e.key, id, e.last))
	}
	e.last = shown
	return id, shown
}

func relStr(c time.Time, ref time.Time) string {
	if c.IsZero() {
		return "none"
	}
	return fmt.Sprintf("%+.3fs", c.Sub(ref).Seconds())
}

// book a freshly stored entry; tHi is an instant not before the admission
func (r *run) book(key string, id, raw int64, src string, tHi, lease time.Time) *entInfo {
	ttl := r.clientEff(key, raw)
	e := &entInfo{id: id, key: key, src: src, ttlEff: ttl, lease: lease, last: -1, expHi: minT(tHi.Add(ttl), lease)}
	r.ents[id] = e
	if p := r.store.VerifX04pfPeek(r.ks.key64(key)); p != nil && r.idOf(p) == id {
		e.ptr = p
		_, tt, cu := p.VerifX04pfTimes()
		switch {
		case tt > ttl:
			e.excess = fmt.Sprintf("; the stored entry has ttl %v, the statement allows %v", tt, ttl)
		case !lease.IsZero() && cu.IsZero():
			e.excess = "; the stored entry carries no delegation-cut bound although its resolution reported one"
		case !lease.IsZero() && cu.After(lease):
			e.excess = fmt.Sprintf("; the stored entry's cut ends %.3fs after the lease its resolution reported", cu.Sub(lease).Seconds())
		}
		if e.excess != "" {
			r.res.Count("stored_lifetime_excess_"+src, 1)
		}
	}
	return e
}

// ------------------------------------------------ scripted downstream ----
type downstream struct{ r *run }

func (d *downstream) Name() string { return "verif-downstream" }

func (d *downstream) ServeDNS(ctx context.Context, ch *middleware.Chain) {
	req := ch.Request.Msg()
	if req == nil || len(req.Question) == 0 {
		ch.Cancel()
		return
	}
	d.r.mu.Lock()
	sl := d.r.misses[req.Id]
	d.r.mu.Unlock()
	if sl == nil {
		if !d.r.audit.Load() {
			d.r.stray.Add(1)
		}
		ch.Cancel() // nothing is written: the client gets no answer
		return
	}
	sl.ev <- ctx
	cmd := <-sl.cmd
	if cmd.resp != nil {
		if !cmd.lease.IsZero() {
			middleware.ResponseMetaFrom(ctx).BoundCutFor(cmd.lease, 0x51)
		}
		m := cmd.resp.Copy()
		m.Id = req.Id
		_ = ch.Writer.WriteMsg(m)
	}
	ch.Cancel()
}

// ------------------------------------------------ scripted prefetch queryer --
type pfQueryer struct{ r *run }

func (q *pfQueryer) Query(ctx context.Context, req *dns.Msg) (*dns.Msg, error) {
	call := &pfCall{h: req.Id, req: req.Copy(), hasECS: middleware.HasClientECS(ctx),
		hasMeta: middleware.ResponseMetaFrom(ctx) != nil, cmd: make(chan pfCmd, 1), done: make(chan struct{})}
	defer close(call.done)
	q.r.starts <- call
	select {
	case cmd := <-call.cmd:
		if !cmd.lease.IsZero() {
			middleware.ResponseMetaFrom(ctx).BoundCutFor(cmd.lease, 0x52)
		}
		switch cmd.kind {
		case "err":
			return nil, errors.New("verif: scripted upstream failure")
		case "nil":
			return nil, nil
		}
		return cmd.resp, nil
	case <-ctx.Done():
		call.aborted.Store(true)
		return nil, ctx.Err()
	}
}

// ----------------------------------------------------------------- hits ----
func (r *run) newMsgID() uint16 {
	r.nextMsg++
	return r.nextMsg
}

func ecsOption() *dns.EDNS0_SUBNET {
	return &dns.EDNS0_SUBNET{Code: dns.EDNS0SUBNET, Family: 1, SourceNetmask: 24, Address: net.IPv4(192, 0, 2, 0).To4()}
}

// one synchronous client query through the real chain
func (r *run) serve(req *dns.Msg, route string) (*mock.Writer, time.Time, error) {
	w := mock.NewWriter("udp", "203.0.113.9:4000")
	ch := middleware.NewChain(r.chain)
	switch route {
	case "wire":
		raw, err := req.Pack()
		if err != nil {
			return nil, time.Time{}, err
		}
		wreq := new(middleware.Request)
		if !wreq.ParseWire(raw, time.Now(), nil) {
			return nil, time.Time{}, fmt.Errorf("ParseWire refused the query")
		}
		ch.ResetWire(w, wreq)
		ch.AllowDirectPack()
	case "msgw":
		ch.Reset(w, req)
		ch.AllowDirectPack()
	default:
		ch.Reset(w, req)
	}
	t0 := time.Now()
	done := make(chan struct{})
	go func() {
		defer close(done)
		ch.Next(context.Background())
	}()
	select {
	case <-done:
		return w, t0, nil
	case <-time.After(10 * time.Second):
		return nil, t0, fmt.Errorf("a cache hit did not return within 10 s")
	}
}

func (r *run) hitRequest(key, route string) (*dns.Msg, *hitInfo) {
	req := r.ks.question(key)
	req.Id = r.newMsgID()
	ecs := route == "ecs"
	switch {
	case ecs:
		req.SetEdns0(1232, req.Id%2 == 0)
		req.IsEdns0().Option = append(req.IsEdns0().Option, ecsOption())
	case req.Id%3 != 0:
		req.SetEdns0(1232, req.Id%2 == 0)
	}
	before := r.store.VerifX04pfPeek(r.ks.key64(key))
	hi := &hitInfo{h: req.Id, key: key, ptr: before, entID: r.idOf(before), ecs: ecs, cd: r.ks.cd[key], scoped: r.ks.scoped[key]}
	hi.due = r.dueNow(before)
	r.mu.Lock()
	r.hits[req.Id] = hi
	r.mu.Unlock()
	return req, hi
}

// ----------------------------------------------------------- projection ----
func (r *run) project() (cur map[string]int64, flagged []int64, qlen int, inflight []int64) {
	cur = map[string]int64{}
	for _, k := range []string{"a", "b", "c", "s"} {
		if id := r.idOf(r.store.VerifX04pfPeek(r.ks.key64(k))); id != 0 {
			cur[k] = id
		}
	}
	for id, e := range r.ents {
		if e.ptr != nil && e.ptr.VerifX04pfClaimed() {
			flagged = append(flagged, id)
		}
	}
	sort.Slice(flagged, func(i, j int) bool { return flagged[i] < flagged[j] })
	qlen, _, _ = r.c.VerifX04pfQueue()
	for _, c := range r.calls {
		if c.info != nil {
			inflight = append(inflight, c.info.entID)
		}
	}
	sort.Slice(inflight, func(i, j int) bool { return inflight[i] < inflight[j] })
	return
}

func sameIDs(a, b []int64) bool {
	if len(a) != len(b) {
		return false
	}
	for i := range a {
		if a[i] != b[i] {
			return false
		}
	}
	return true
}

func (r *run) compare(exp *expState, where string) string {
	if exp == nil {
		return ""
	}
	cur, flagged, qlen, inflight := r.project()
	for k, id := range exp.Cur {
		if id != cur[k] {
			return fmt.Sprintf("%s: key %s is held by e%d, the model says e%d", where, k, cur[k], id)
		}
	}
	for k, id := range cur {
		if exp.Cur[k] != id {
			return fmt.Sprintf("%s: key %s is held by e%d, the model says e%d", where, k, id, exp.Cur[k])
		}
	}
	want := append([]int64{}, exp.Flag...)
	sort.Slice(want, func(i, j int) bool { return want[i] < want[j] })
	if !sameIDs(flagged, want) {
		return fmt.Sprintf("%s: claimed entries %v, the model says %v", where, flagged, want)
	}
	if exp.QLen >= 0 && qlen != exp.QLen {
		return fmt.Sprintf("%s: %d requests queued, the model says %d", where, qlen, exp.QLen)
	}
	wi := append([]int64{}, exp.Inflight...)
	sort.Slice(wi, func(i, j int) bool { return wi[i] < wi[j] })
	if !sameIDs(inflight, wi) {
		return fmt.Sprintf("%s: refreshes in flight for %v, the model says %v", where, inflight, wi)
	}
	return ""
}

func waitUntil(f func() bool, d time.Duration) bool {
	deadline := time.Now().Add(d)
	for i := 0; ; i++ {
		if f() {
			return true
		}
		if time.Now().After(deadline) {
			return false
		}
		if i < 200 {
			runtime.Gosched()
		} else {
			time.Sleep(100 * time.Microsecond)
		}
	}
}

func workerGoroutines() int {
	buf := make([]byte, 1<<20)
	for {
		n := runtime.Stack(buf, true)
		if n < len(buf) {
			buf = buf[:n]
			break
		}
		buf = make([]byte, 2*len(buf))
	}
	return strings.Count(string(buf), "cache.(*PrefetchQueue).worker(")
}

func (r *run) tick(d int64) {
	dd := time.Duration(d) * time.Second
	r.c.VerifX04pfShift(dd)
	for _, e := range r.ents {
		e.expHi = e.expHi.Add(-dd)
		if !e.lease.IsZero() {
			e.lease = e.lease.Add(-dd)
		}
	}
	r.vnow += d
}

func leaseAt(l int64) time.Time {
	if l <= 0 {
		return time.Time{}
	}
	return time.Now().Add(time.Duration(l) * time.Second)
}

func (r *run) writeKind(key string) string {
	if r.ks.neg[key] {
		return "neg"
	}
	return "pos"
}

// ------------------------------------------------------------------ steps --
func (r *run) doStep(st step) (drift string, err error) {
	where := st.Op
	switch st.Op {
	case "write":
		where = fmt.Sprintf("write(%s,e%d,ttl %d,lease %d)", st.K, st.N, st.T, st.L)
		lease := leaseAt(st.L)
		resp := answerFor(r.ks.question(st.K), r.writeKind(st.K), st.N, st.T)
		if r.ks.scoped[st.K] {
			r.store.SetFromResponseScoped(r.ks.key64(st.K), resp, scope, lease, 0)
		} else {
			r.store.SetFromResponseWithCut(resp, r.ks.cd[st.K], lease, 0x77)
		}
		r.book(st.K, st.N, st.T, "client", time.Now(), lease)
	case "purge":
		r.c.Purge(r.ks.question(st.K).Question[0])
	case "tick":
		r.tick(st.D)
	case "hit":
		where = fmt.Sprintf("hit(%s via %s)", st.K, st.Route)
		req, hi := r.hitRequest(st.K, st.Route)
		claimedBefore := hi.ptr != nil && hi.ptr.VerifX04pfClaimed()
		qlenBefore, stoppedBefore, _ := r.c.VerifX04pfQueue()
		w, t0, err := r.serve(req, st.Route)
		if err != nil {
			return "", err
		}
		if n := r.stray.Swap(0); n > 0 {
			return fmt.Sprintf("%s: the model's hit went downstream (a miss) in the real cache", where), nil
		}
		var id, shown int64
		if w.Written() {
			id, shown = r.checkReply(w.Msg(), t0, where)
		}
		// module properties at the hit: eligibility and the release after a refused Add
		claimed := hi.ptr != nil && hi.ptr.VerifX04pfClaimed()
		fresh := claimed && !claimedBefore // this very hit set the claim
		if fresh && hi.scoped {
			r.breach("Eligible", fmt.Sprintf("%s claimed a refresh of the scoped entry e%d", where, hi.entID))
		}
		if fresh && !hi.due && !r.dueNow(hi.ptr) {
			r.breach("Eligible", fmt.Sprintf("%s claimed a refresh of e%d although its TTL is above the threshold", where, hi.entID))
		}
		if fresh && (qlenBefore >= r.in.QCap || stoppedBefore) {
			r.breach("NoOrphanClaim", fmt.Sprintf("%s: Add was refused (queue %d/%d, stopped=%v) and the claim on e%d was not released",
				where, qlenBefore, r.in.QCap, stoppedBefore, hi.entID))
		}
		if st.Exp != nil && st.Exp.Reply != nil {
			switch {
			case st.Exp.Reply.E != id:
				return fmt.Sprintf("%s answered from e%d, the model says e%d", where, id, st.Exp.Reply.E), nil
			case st.Exp.Reply.E != 0 && (shown > st.Exp.Reply.Shown || shown < st.Exp.Reply.Shown-1):
				return fmt.Sprintf("%s showed TTL %d, the model says %d", where, shown, st.Exp.Reply.Shown), nil
			}
		}
	case "take":
		where = fmt.Sprintf("take(w%d)", st.W)
		select {
		case call := <-r.starts:
			r.mu.Lock()
			call.info = r.hits[call.h]
			r.mu.Unlock()
			r.calls[st.W] = call
			r.observeRefreshQuery(call)
		case <-time.After(3 * time.Second):
			return fmt.Sprintf("%s: the model's worker received a request, no refresh reached the Queryer", where), nil
		}
	case "miss":
		where = fmt.Sprintf("miss(%s)", st.K)
		req := r.ks.question(st.K)
		req.Id = r.newMsgID()
		sl := &missSlot{c: st.C, key: st.K, id: req.Id, ev: make(chan context.Context, 1), cmd: make(chan pfCmd, 1), done: make(chan struct{})}
		r.mu.Lock()
		r.misses[req.Id] = sl
		r.mu.Unlock()
		r.byC[st.C] = sl
		sl.w = mock.NewWriter("udp", "203.0.113.9:4000")
		ch := middleware.NewChain(r.chain)
		ch.Reset(sl.w, req)
		go func() {
			defer close(sl.done)
			ch.Next(context.Background())
		}()
		select {
		case <-sl.ev:
			sl.parked = true
		case <-sl.done:
			delete(r.byC, st.C)
			return fmt.Sprintf("%s: the model's request goes downstream, the real one was answered from the cache", where), nil
		case <-time.After(5 * time.Second):
			return "", fmt.Errorf("%s neither completed nor reached the downstream handler", where)
		}
	case "missfin":
		sl := r.byC[st.C]
		if sl == nil || !sl.parked {
			return "no request parked downstream", nil
		}
		where = fmt.Sprintf("missfin(%s,e%d,ttl %d,lease %d)", sl.key, st.N, st.T, st.L)
		lease := leaseAt(st.L)
		sl.cmd <- pfCmd{resp: answerFor(r.ks.question(sl.key), r.writeKind(sl.key), st.N, st.T), lease: lease}
		select {
		case <-sl.done:
		case <-time.After(5 * time.Second):
			return "", fmt.Errorf("%s: the released request did not complete", where)
		}
		delete(r.byC, st.C)
		r.mu.Lock()
		delete(r.misses, sl.id)
		r.mu.Unlock()
		r.book(sl.key, st.N, st.T, "client", time.Now(), lease)
	case "done":
		call := r.calls[st.W]
		if call == nil || call.info == nil {
			return "no refresh in flight for this worker", nil
		}
		delete(r.calls, st.W)
		hi := call.info
		where = fmt.Sprintf("done(refresh of %s claimed on e%d: %s e%d ttl %d lease %d)", hi.key, hi.entID, st.Kind, st.N, st.T, st.L)
		k64 := r.ks.key64(hi.key)
		before := r.store.VerifX04pfPeek(k64)
		heldBefore := hi.ptr.VerifX04pfClaimed()
		if !heldBefore {
			r.breach("SingleFlight", fmt.Sprintf("%s: the claim on e%d was dropped while its refresh was still in flight", where, hi.entID))
		}
		lease := leaseAt(st.L)
		var resp *dns.Msg
		if st.Kind == "pos" || st.Kind == "neg" || st.Kind == "servfail" {
			resp = answerFor(call.req, st.Kind, st.N, st.T)
		}
		call.cmd <- pfCmd{kind: st.Kind, resp: resp, lease: lease}
		select {
		case <-call.done:
		case <-time.After(5 * time.Second):
			return "", fmt.Errorf("%s: the released Queryer call did not return", where)
		}
		released := waitUntil(func() bool { return !hi.ptr.VerifX04pfClaimed() }, 2*time.Second)
		if !heldBefore {
			time.Sleep(20 * time.Millisecond)
		}
		tHi := time.Now()
		after := r.store.VerifX04pfPeek(k64)
		if before != hi.ptr {
			r.res.Count("late_refreshes", 1)
		}
		if !released {
			r.breach("NoOrphanClaim", fmt.Sprintf("%s: the worker finished and the claim on e%d is still set", where, hi.entID))
		}
		beforeID, afterID := r.idOf(before), r.idOf(after)
		switch {
		case before != nil && before != hi.ptr && after != before:
			r.violate("LateWriteLoses", fmt.Sprintf("%s: newer data (e%d) had been stored for the key after the claim; the late refresh overwrote it (holder now e%d)",
				where, beforeID, afterID))
		case before == nil && after != nil:
			r.breach("LateWriteLoses", fmt.Sprintf("%s: the key had been purged after the claim; the late refresh stored e%d", where, afterID))
		case after != before && (resp == nil || st.Kind == "servfail"):
			r.res.DriftNote("[%s] %s: the holder changed from e%d to e%d although the refresh produced no cacheable answer", r.bid, where, beforeID, afterID)
		}
		if after != before && after != nil && afterID == st.N {
			e := r.book(hi.key, st.N, st.T, "refresh", tHi, lease)
			r.compareAdmission(e, resp, lease, where)
			// the replacement keeps the partition of the entry it replaced
			_, cd, sc := after.VerifX04pfIdentity()
			_, cd0, sc0 := hi.ptr.VerifX04pfIdentity()
			if cd != cd0 || sc != sc0 {
				r.res.DriftNote("[%s] %s: the refreshed entry is filed under CD=%v scope=%v, the claimed one under CD=%v scope=%v", r.bid, where, cd, sc, cd0, sc0)
			}
		}
	case "stop":
		done := make(chan struct{})
		go func() { r.c.Stop(); close(done) }()
		select {
		case <-done:
		case <-time.After(5 * time.Second):
			r.breach("StopDrains", "Cache.Stop did not return within 5 s although every Queryer call honours its context")
			return "", fmt.Errorf("Stop did not return")
		}
		r.stopped = true
		if n := workerGoroutines(); n != 0 {
			r.breach("StopDrains", fmt.Sprintf("%d prefetch worker goroutine(s) are still running after Stop returned", n))
		}
		for w, c := range r.calls {
			if !c.aborted.Load() {
				r.res.DriftNote("[%s] stop: the refresh of worker %d was not cancelled", r.bid, w)
			}
			delete(r.calls, w)
		}
		// drain Queryer calls that started during the shutdown (select race) and were cancelled at once
		for drained := false; !drained; {
			select {
			case <-r.starts:
			default:
				drained = true
			}
		}
		// claims: released, or owned by a request left behind in the channel
		residue := map[uint16]bool{}
		for _, id := range r.c.VerifX04pfQueued() {
			residue[id] = true
		}
		for id, e := range r.ents {
			if e.ptr == nil || !e.ptr.VerifX04pfClaimed() {
				continue
			}
			owned := false
			r.mu.Lock()
			for h := range residue {
				if hi := r.hits[h]; hi != nil && hi.ptr == e.ptr {
					owned = true
				}
			}
			r.mu.Unlock()
			if !owned {
				r.breach("NoOrphanClaim", fmt.Sprintf("after Stop the claim on e%d is set and no request for it is left in the queue", id))
			}
		}
		if st.Exp != nil {
			// which of {leave on cancel, receive one more} a worker's select picked is the runtime's choice
			cur, flagged, _, _ := r.project()
			want := append([]int64{}, st.Exp.Flag...)
			sort.Slice(want, func(i, j int) bool { return want[i] < want[j] })
			same := sameIDs(flagged, want)
			for k, id := range st.Exp.Cur {
				same = same && cur[k] == id
			}
			if !same {
				r.res.Count("stop_select_choice_differs", 1)
				return "stop: the runtime's select picked another branch than the model (not counted as drift)", nil
			}
		}
		return "", nil
	default:
		return "", fmt.Errorf("unknown op %q", st.Op)
	}
	if st.Op == "hit" && st.Exp != nil && st.Exp.QLen < 0 {
		// an idle worker is about to receive: wait until the channel is empty so that the projection is stable
		waitUntil(func() bool { n, _, _ := r.c.VerifX04pfQueue(); return n == 0 }, time.Second)
	}
	return r.compare(st.Exp, where), nil
}

func (r *run) dueNow(e *mcache.CacheEntry) bool {
	if e == nil {
		return false
	}
	_, ttl, _ := e.VerifX04pfTimes()
	return e.TTL() <= int(float64(r.in.Thr)/100.0*float64(uint32(ttl.Seconds())))
}

// what the refresh asks upstream: DO forced, CD and the client-ECS mark preserved, its own meta sink
func (r *run) observeRefreshQuery(call *pfCall) {
	hi := call.info
	if hi == nil {
		r.res.DriftNote("[%s] a refresh reached the Queryer with message id %d which no hit of the driver used", r.bid, call.h)
		return
	}
	opt := call.req.IsEdns0()
	if opt == nil || !opt.Do() {
		r.res.DriftNote("[%s] the refresh query for %s does not set DO", r.bid, hi.key)
	}
	if call.req.CheckingDisabled != hi.cd {
		r.res.DriftNote("[%s] the refresh query for %s has CD=%v, the claiming request had CD=%v", r.bid, hi.key, call.req.CheckingDisabled, hi.cd)
	}
	if call.hasECS != hi.ecs {
		r.res.DriftNote("[%s] the refresh of %s runs with client-ECS mark %v, the claiming request had ECS=%v", r.bid, hi.key, call.hasECS, hi.ecs)
	}
	if !call.hasMeta {
		r.res.DriftNote("[%s] the refresh of %s runs without a ResponseMeta sink", r.bid, hi.key)
	}
	if hi.ecs {
		r.res.Count("refresh_from_ecs_client", 1)
	}
	if hi.cd {
		r.res.Count("refresh_cd", 1)
	}
}

// the same response admitted on the client path of a reference cache: the refresh must not live longer
func (r *run) compareAdmission(e *entInfo, resp *dns.Msg, lease time.Time, where string) {
	if e == nil || e.ptr == nil || resp == nil {
		return
	}
	k64 := r.ks.key64(e.key)
	rs := r.ref.VerifX04pfStore()
	if r.ks.scoped[e.key] {
		rs.SetFromResponseScoped(k64, resp.Copy(), scope, lease, 0)
	} else {
		rs.SetFromResponseWithKey(k64, resp.Copy(), lease, 0)
	}
	p := rs.VerifX04pfPeek(k64)
	if p == nil {
		return
	}
	_, t1, c1 := e.ptr.VerifX04pfTimes()
	_, t2, c2 := p.VerifX04pfTimes()
	r.res.Count("admission_compared", 1)
	if t1 > t2 || (!c2.IsZero() && (c1.IsZero() || c1.After(c2))) {
		r.res.Count("admission_longer_than_client_path", 1)
		r.res.DriftNote("[%s] %s: the refreshed entry got ttl %v cut %s, a client-path admission of the same response gets ttl %v cut %s",
			r.bid, where, t1, relStr(c1, time.Now()), t2, relStr(c2, time.Now()))
	}
}

// after the model's steps (or after the step at which code and model parted): every refresh the code has
// in flight or queued -- whether the model expected it or not -- is answered with a long-lived record, so
// that the audit below judges what the code does with it by the statement's lifetime rule
func (r *run) drainRefreshes() {
	for round := 0; round < 8; round++ {
		_, flagged, qlen, _ := r.project()
		if len(r.calls) == 0 && len(flagged) == 0 && qlen == 0 {
			return
		}
		if len(r.calls) == 0 {
			select {
			case call := <-r.starts:
				r.mu.Lock()
				call.info = r.hits[call.h]
				r.mu.Unlock()
				r.calls[1000+round] = call
			case <-time.After(300 * time.Millisecond):
				return
			}
		}
		for w, call := range r.calls {
			if call.info == nil || call.info.ptr == nil {
				call.cmd <- pfCmd{kind: "err"}
				delete(r.calls, w)
				continue
			}
			r.nextDrain++
			st := step{Op: "done", W: w, Kind: "pos", N: 9000 + r.nextDrain, T: 30, L: 0}
			r.hist = append(r.hist, "drain:"+describe(st))
			if _, err := r.doStep(st); err != nil {
				return
			}
			r.res.Count("drained_refreshes", 1)
		}
	}
}

// after the model's steps: serve every refreshed holder one second past the lifetime the statement grants it
func (r *run) auditRefreshed() {
	r.audit.Store(true)
	defer r.audit.Store(false)
	type cand struct {
		key string
		e   *entInfo
	}
	var cs []cand
	for _, k := range []string{"a", "b", "c", "s"} {
		p := r.store.VerifX04pfPeek(r.ks.key64(k))
		if e := r.ents[r.idOf(p)]; p != nil && e != nil && e.src == "refresh" {
			cs = append(cs, cand{k, e})
		}
	}
	sort.Slice(cs, func(i, j int) bool { return cs[i].e.expHi.Before(cs[j].e.expHi) })
	for _, c := range cs {
		if d := int64(time.Until(c.e.expHi).Seconds()) + 2; d > 0 {
			r.tick(d)
		}
		route := "msg"
		if r.ks.scoped[c.key] {
			route = "ecs"
		}
		req, _ := r.hitRequest(c.key, route)
		r.hist = append(r.hist, fmt.Sprintf("audit:hit(%s) past the lifetime of refreshed e%d", c.key, c.e.id))
		w, t0, err := r.serve(req, route)
		r.res.Count("audits", 1)
		if err == nil && w.Written() {
			r.checkReply(w.Msg(), t0, "audit hit("+c.key+")")
		}
	}
}

func (r *run) runBehaviour(b behaviour) error {
	r.bid = b.ID
	r.cur = &b
	cfg := &config.Config{CacheSize: 1024, Expire: 600, RateLimit: 0, Prefetch: uint32(r.in.Thr)}
	cfg.ECS.Enabled = true
	cfg.ECS.CacheLimitTTL.Duration = time.Duration(r.in.EcsCap) * time.Second
	r.c = mcache.New(cfg)
	r.c.VerifX04pfSetQueue(r.in.Workers, r.in.QCap)
	rcfg := *cfg
	rcfg.Prefetch = 0
	r.ref = mcache.New(&rcfg)
	defer r.ref.Stop()
	r.store = r.c.VerifX04pfStore()
	r.chain = []middleware.Handler{r.c, &downstream{r: r}}
	r.c.SetPrefetchQueryer(&pfQueryer{r: r})
	r.ents = map[int64]*entInfo{}
	r.hits = map[uint16]*hitInfo{}
	r.misses = map[uint16]*missSlot{}
	r.byC = map[int]*missSlot{}
	r.calls = map[int]*pfCall{}
	r.starts = make(chan *pfCall, 64)
	r.stray.Store(0)
	r.nextMsg = 100
	r.vnow = 0
	r.hist = nil
	r.stopped = false
	start := r.res.NViolations()
	began := time.Now()
	slow := false
	defer func() {
		for c, sl := range r.byC {
			if sl.parked {
				sl.cmd <- pfCmd{}
				select {
				case <-sl.done:
				case <-time.After(5 * time.Second):
				}
			}
			delete(r.byC, c)
		}
		if !r.stopped && r.res.NViolations() == start {
			r.drainRefreshes()
		}
		if !r.stopped {
			done := make(chan struct{})
			go func() { r.c.Stop(); close(done) }()
			select {
			case <-done:
				if n := workerGoroutines(); n != 0 {
					r.breach("StopDrains", fmt.Sprintf("%d prefetch worker goroutine(s) are still running after Stop returned", n))
				}
			case <-time.After(5 * time.Second):
				r.breach("StopDrains", "Cache.Stop (end of behaviour) did not return within 5 s")
			}
		}
		if r.res.NViolations() == start {
			r.auditRefreshed()
		}
	}()
	r.nsteps = 0
	for _, st := range b.Steps {
		r.nsteps++
		r.hist = append(r.hist, describe(st))
		drift, err := r.doStep(st)
		if err != nil {
			return err
		}
		r.res.Count("steps", 1)
		r.res.Count("op_"+st.Op, 1)
		if r.res.NViolations() > start {
			return nil
		}
		if !slow && time.Since(began) > 400*time.Millisecond {
			slow = true
			r.res.Count("slow_behaviours", 1)
		}
		if drift != "" {
			if strings.HasPrefix(drift, "stop:") {
				return nil
			}
			if slow {
				r.res.Count("slow_mismatch", 1)
			} else {
				r.res.DriftNote("[%s] %s", b.ID, drift)
			}
			return nil
		}
	}
	return nil
}

func describe(st step) string {
	switch st.Op {
	case "hit":
		return fmt.Sprintf("Hit(c%d,%s,%s)%v", st.C, st.K, st.Route, st.Path)
	case "miss":
		return fmt.Sprintf("Miss(c%d,%s)", st.C, st.K)
	case "missfin":
		return fmt.Sprintf("MissFinish(c%d,e%d,ttl=%d,lease=%d)", st.C, st.N, st.T, st.L)
	case "write":
		return fmt.Sprintf("DirectWrite(%s,e%d,ttl=%d,lease=%d)", st.K, st.N, st.T, st.L)
	case "purge":
		return fmt.Sprintf("Purge(%s)", st.K)
	case "tick":
		return fmt.Sprintf("Tick(%d)", st.D)
	case "take":
		return fmt.Sprintf("WTake(w%d)", st.W)
	case "done":
		return fmt.Sprintf("WResp+WCas+WRelease(w%d,%s,e%d,ttl=%d,lease=%d)", st.W, st.Kind, st.N, st.T, st.L)
	}
	return st.Op
}

func TestPrefetchReplay(t *testing.T) {
	var gs groups
	vh.Input(t, &gs)
	res := vh.NewResult()
	defer res.Write(t)
	for gi := range gs.Groups {
		in := &gs.Groups[gi]
		r := &run{in: in, ks: newKeyset(in), res: res, strict: os.Getenv("VERIF_X04PF_STRICT") == "1"}
		for bi, b := range in.Behaviours {
			if err := r.runBehaviour(b); err != nil {
				res.Skip("behaviour %s: %v (history %v)", b.ID, err, r.hist)
				return
			}
			res.Case(strings.Join(r.hist, ";"))
			res.Count("behaviours_"+in.Name, 1)
			if bi < 1 {
				res.Sample(map[string]any{"history": r.hist})
			}
		}
	}
}

// ===================================================================== stress
type stressRun struct {
	Name     string `json:"name"`
	Rounds   int    `json:"rounds"`
	Clients  int    `json:"clients"`
	Hits     int    `json:"hits"`
	Writes   int    `json:"writes"`
	Workers  int    `json:"workers"`
	QCap     int    `json:"qcap"`
	TraceOut string `json:"traceOut"`
}

type stressInput struct {
	Runs []stressRun `json:"runs"`
}

type hline struct {
	Seq  int64            `json:"seq"`
	Ev   string           `json:"ev"`
	Op   string           `json:"op,omitempty"`
	C    int              `json:"c,omitempty"`
	K    string           `json:"k,omitempty"`
	H    int64            `json:"h,omitempty"`
	E    int64            `json:"e,omitempty"`
	ID   int64            `json:"id,omitempty"`
	Kind string           `json:"kind,omitempty"`
	Cur  map[string]int64 `json:"cur,omitempty"`
	Flag []int64          `json:"flag,omitempty"`
}

type recorder struct {
	mu    sync.Mutex
	seq   int64
	lines []hline
}

func (rc *recorder) add(l hline) int64 {
	rc.mu.Lock()
	rc.seq++
	l.Seq = rc.seq
	rc.lines = append(rc.lines, l)
	s := rc.seq
	rc.mu.Unlock()
	return s
}

type stressQueryer struct {
	rc     *recorder
	nextID *atomic.Int64
	rnd    func() int
}

func (q *stressQueryer) Query(ctx context.Context, req *dns.Msg) (*dns.Msg, error) {
	k := keyOfName(req.Question[0].Name)
	q.rc.add(hline{Ev: "qstart", H: int64(req.Id), K: k})
	switch q.rnd() % 4 {
	case 0:
		runtime.Gosched()
	case 1:
		time.Sleep(time.Duration(20+q.rnd()%200) * time.Microsecond)
	}
	if q.rnd()%5 == 0 {
		q.rc.add(hline{Ev: "qend", H: int64(req.Id), Kind: "err"})
		return nil, errors.New("verif: scripted upstream failure")
	}
	id := q.nextID.Add(1)
	resp := answerFor(req, "pos", id, 10)
	q.rc.add(hline{Ev: "qend", H: int64(req.Id), Kind: "pos", ID: id})
	return resp, nil
}

func TestPrefetchStress(t *testing.T) {
	var in stressInput
	vh.Input(t, &in)
	res := vh.NewResult()
	defer res.Write(t)
	strict := os.Getenv("VERIF_X04PF_STRICT") == "1"
	rng := vh.Rand()
	var rmu sync.Mutex
	rnd := func() int { rmu.Lock(); defer rmu.Unlock(); return rng.Intn(1 << 20) }
	ks := newKeyset(&input{})
	keys := []string{"a", "b"}
	for _, sr := range in.Runs {
		var out *os.File
		if sr.TraceOut != "" {
			var err error
			out, err = os.Create(filepath.Clean(sr.TraceOut))
			if err != nil {
				t.Fatal(err)
			}
		}
		for round := 0; round < sr.Rounds; round++ {
			cfg := &config.Config{CacheSize: 1024, Expire: 600, RateLimit: 0, Prefetch: 90}
			c := mcache.New(cfg)
			c.VerifX04pfSetQueue(sr.Workers, sr.QCap)
			store := c.VerifX04pfStore()
			rc := &recorder{}
			var nextID atomic.Int64
			c.SetPrefetchQueryer(&stressQueryer{rc: rc, nextID: &nextID, rnd: rnd})
			var strays atomic.Int64
			chain := []middleware.Handler{c, tailFn(func(ctx context.Context, ch *middleware.Chain) {
				strays.Add(1)
				ch.Cancel()
			})}
			rc.add(hline{Ev: "Reset"})
			write := func(cw int, k string) {
				id := nextID.Add(1)
				rc.add(hline{Ev: "inv", Op: "write", C: cw, K: k, ID: id})
				store.SetFromResponseWithCut(answerFor(ks.question(k), "pos", id, 10), false, time.Time{}, 0)
				rc.add(hline{Ev: "res", Op: "write", C: cw, K: k, ID: id})
			}
			for _, k := range keys {
				write(sr.Clients+1, k)
			}
			var wg sync.WaitGroup
			var hseq atomic.Int64
			startGate := make(chan struct{})
			for ci := 1; ci <= sr.Clients; ci++ {
				wg.Add(1)
				go func(ci int) {
					defer wg.Done()
					<-startGate
					for i := 0; i < sr.Hits; i++ {
						k := keys[rnd()%len(keys)]
						h := hseq.Add(1)
						req := ks.question(k)
						req.Id = uint16(h)
						route := []string{"msg", "msgw", "wire"}[rnd()%3]
						rc.add(hline{Ev: "inv", Op: "hit", C: ci, K: k, H: h})
						w := mock.NewWriter("udp", "203.0.113.9:4000")
						ch := middleware.NewChain(chain)
						switch route {
						case "wire":
							raw, _ := req.Pack()
							wreq := new(middleware.Request)
							wreq.ParseWire(raw, time.Now(), nil)
							ch.ResetWire(w, wreq)
							ch.AllowDirectPack()
						case "msgw":
							ch.Reset(w, req)
							ch.AllowDirectPack()
						default:
							ch.Reset(w, req)
						}
						ch.Next(context.Background())
						var e int64
						if w.Written() {
							_, e, _ = decode(w.Msg())
						}
						rc.add(hline{Ev: "res", Op: "hit", C: ci, K: k, H: h, E: e})
						if rnd()%3 == 0 {
							runtime.Gosched()
						}
					}
				}(ci)
			}
			wg.Add(1)
			go func() {
				defer wg.Done()
				<-startGate
				for i := 0; i < sr.Writes; i++ {
					time.Sleep(time.Duration(rnd()%300) * time.Microsecond)
					write(sr.Clients+1, keys[rnd()%len(keys)])
				}
			}()
			close(startGate)
			wg.Wait()
			// quiescence: queue empty, nothing in flight (every qstart has its qend and the worker released)
			quiet := waitUntil(func() bool {
				n, _, _ := c.VerifX04pfQueue()
				if n != 0 {
					return false
				}
				rc.mu.Lock()
				defer rc.mu.Unlock()
				open := 0
				for _, l := range rc.lines {
					switch l.Ev {
					case "qstart":
						open++
					case "qend":
						open--
					}
				}
				return open == 0
			}, 5*time.Second)
			if !quiet {
				res.Skip("stress %s round %d: the queue did not drain", sr.Name, round)
				c.Stop()
				return
			}
			// Stop waits for the workers: the CAS and the release that follow the last qend are done when it
			// returns (nothing is queued or inside the Queryer any more, so Stop changes nothing else)
			c.Stop()
			if n := workerGoroutines(); n != 0 {
				judgeBreach(res, strict, "StopDrains", fmt.Sprintf("stress %s round %d: %d worker goroutine(s) alive after Stop", sr.Name, round, n))
			}
			// end line: holders and claim flags at rest
			cur := map[string]int64{}
			flagged := []int64{}
			for _, k := range keys {
				p := store.VerifX04pfPeek(ks.key64(k))
				if p == nil {
					continue
				}
				_, id, _ := decode(p.VerifX04pfStored())
				cur[k] = id
				if p.VerifX04pfClaimed() {
					flagged = append(flagged, id)
				}
			}
			rc.add(hline{Ev: "end", Cur: cur, Flag: flagged})
			if strays.Load() != 0 {
				res.DriftNote("stress %s round %d: %d hits went downstream", sr.Name, round, strays.Load())
			}
			judgeHistory(res, strict, sr, round, rc.lines, len(flagged))
			res.Count("rounds_"+sr.Name, 1)
			res.Count("lines_"+sr.Name, len(rc.lines))
			res.Case(fmt.Sprintf("%s/%d/%d", sr.Name, round, len(rc.lines)))
			if out != nil {
				for _, l := range rc.lines {
					m := map[string]any{"seq": l.Seq, "ev": l.Ev, "op": l.Op, "c": l.C, "k": l.K, "h": l.H, "e": l.E, "id": l.ID, "kind": l.Kind}
					if l.Ev == "end" {
						m["cur"] = l.Cur
						m["flag"] = append([]int64{}, l.Flag...)
					}
					b, _ := json.Marshal(m)
					out.Write(append(b, '\n'))
				}
				res.Count("traces_"+sr.Name, 1)
			}
			if res.NViolations() > 0 {
				break
			}
		}
		if out != nil {
			out.Close()
		}
	}
}

type tailFn func(ctx context.Context, ch *middleware.Chain)

func (f tailFn) Name() string                                       { return "verif-tail" }
func (f tailFn) ServeDNS(ctx context.Context, ch *middleware.Chain) { f(ctx, ch) }

func judgeBreach(res *vh.Result, strict bool, prop, what string) {
	res.Count("breach_"+prop, 1)
	if strict {
		res.Violate("x04pf/module/"+prop, "prefetch module property "+prop+": "+what, map[string]any{"driver": "x04pf-stress"})
		return
	}
	res.DriftNote("BREACH(module property, not borne by C04) %s: %s", prop, what)
}

// the predicates on a recorded concurrent history
func judgeHistory(res *vh.Result, strict bool, sr stressRun, round int, lines []hline, stuck int) {
	type hit struct {
		inv, res int64
		k        string
		e        int64
	}
	type wr struct {
		inv, res int64
		k        string
		id       int64
	}
	type rf struct {
		start, end int64
		kind       string
		id         int64
	}
	hits := map[int64]*hit{}
	var writes []*wr
	refr := map[int64]*rf{}
	served := map[int64]bool{}
	var endCur map[string]int64
	overlap := 0
	openHits := 0
	for _, l := range lines {
		switch {
		case l.Ev == "inv" && l.Op == "hit":
			hits[l.H] = &hit{inv: l.Seq, k: l.K}
			if openHits > 0 {
				overlap++
			}
			openHits++
		case l.Ev == "res" && l.Op == "hit":
			hits[l.H].res, hits[l.H].e = l.Seq, l.E
			served[l.E] = true
			openHits--
		case l.Ev == "inv" && l.Op == "write":
			writes = append(writes, &wr{inv: l.Seq, k: l.K, id: l.ID})
		case l.Ev == "res" && l.Op == "write":
			for _, w := range writes {
				if w.id == l.ID {
					w.res = l.Seq
				}
			}
		case l.Ev == "qstart":
			if refr[l.H] != nil {
				judgeBreach(res, strict, "SingleFlight", fmt.Sprintf("stress %s round %d: the request of hit %d reached the Queryer twice", sr.Name, round, l.H))
			}
			refr[l.H] = &rf{start: l.Seq}
		case l.Ev == "qend":
			if r := refr[l.H]; r != nil {
				r.end, r.kind, r.id = l.Seq, l.Kind, l.ID
			}
		case l.Ev == "end":
			endCur = l.Cur
		}
	}
	res.Count("overlapping_hits_"+sr.Name, overlap)
	res.Count("refreshes_"+sr.Name, len(refr))
	// single flight: two refreshes claimed on the same stored entry never overlap
	byEntry := map[int64][]*rf{}
	for h, r := range refr {
		hi := hits[h]
		if hi == nil || hi.res == 0 {
			continue
		}
		byEntry[hi.e] = append(byEntry[hi.e], r)
	}
	for e, rs := range byEntry {
		for i := range rs {
			for j := i + 1; j < len(rs); j++ {
				if rs[i].start < rs[j].end && rs[j].start < rs[i].end {
					judgeBreach(res, strict, "SingleFlight", fmt.Sprintf("stress %s round %d: two refreshes claimed on entry e%d were in flight at once", sr.Name, round, e))
				}
			}
		}
	}
	if stuck > 0 {
		judgeBreach(res, strict, "NoOrphanClaim", fmt.Sprintf("stress %s round %d: %d holder(s) still claimed at rest with an empty queue and idle workers", sr.Name, round, stuck))
	}
	// LateWriteLoses: the refresh claimed on e (served by hit h).  A write to the same key that was
	// invoked after the hit returned (so after e was the holder) and returned before the Queryer
	// did (so before the CAS) is newer data: the refreshed entry must never become visible.
	late := 0
	for h, r := range refr {
		hi := hits[h]
		if hi == nil || r.kind != "pos" || r.end == 0 {
			continue
		}
		for _, w := range writes {
			if w.k == hi.k && w.inv > hi.res && w.res != 0 && w.res < r.end {
				late++
				seen := served[r.id]
				for _, id := range endCur {
					seen = seen || id == r.id
				}
				if seen {
					res.Violate("x04pf/LateWriteLoses/stress", fmt.Sprintf(
						"middleware/cache prefetch LateWriteLoses: in a concurrent run (%s round %d) the refresh claimed on e%d (hit %d of %s) "+
							"returned after newer data e%d had been stored for the key, and its entry e%d became visible", sr.Name, round, hi.e, h, hi.k, w.id, r.id),
						map[string]any{"driver": "x04pf-stress", "seed": vh.Seed(), "run": sr, "round": round, "history": lines})
				}
				break
			}
		}
	}
	res.Count("late_refreshes_"+sr.Name, late)
	// every reply names an entry that was stored (a write or a refresh) -- nothing invented
	known := map[int64]bool{0: true}
	for _, w := range writes {
		known[w.id] = true
	}
	for _, r := range refr {
		if r.id != 0 {
			known[r.id] = true
		}
	}
	for h, hi := range hits {
		if !known[hi.e] {
			res.DriftNote("stress %s round %d: hit %d was answered from an unknown entry id %d", sr.Name, round, h, hi.e)
		}
	}
}
