package x13fe

// Kit of the X13FE tier (FailEcs.tla): the real cache.Cache with ECS-aware
// caching on and a virtual failure-cache clock, clients of four kinds (no ECS,
// ECS /0 = the RFC 7871 opt-out, two scoped audiences), a scripted upstream
// tail that parks every resolution at a gate, the runtime's own record of who
// is parked behind a leader (goroutine dump: [select] inside Cache.ServeDNS),
// and the NDJSON history both stages record for Monitor_FailEcs.tla.
//
// Nothing here decides a verdict: the property predicates are evaluated by the
// monitor spec on the recorded history (what was asked, what the upstream
// tail was told to do, what every client got back, when).  The drivers only
// compare the observed roles / projected failure-cache state with FailEcs.tla
// (drift) and keep the counters the check uses against vacuity.

import (
	"context"
	"encoding/json"
	"fmt"
	"math/rand"
	"net"
	"net/netip"
	"os"
	"regexp"
	"runtime"
	"sort"
	"strings"
	"sync"
	"time"

	"github.com/miekg/dns"
	"github.com/semihalev/sdns/config"
	"github.com/semihalev/sdns/internal/dnsutil"
	"github.com/semihalev/sdns/internal/mock"
	"github.com/semihalev/sdns/middleware"
	mcache "github.com/semihalev/sdns/middleware/cache"
	"github.com/semihalev/sdns/middleware/edns"
	"github.com/semihalev/sdns/verifharness/vh"
)

const (
	unit           = 7 * time.Second // one model second
	probeLimitText = "Failure probe retry limit exceeded"
	settleLong     = 10 * time.Second
)

// ---------------------------------------------------------------- shapes

type qShape struct {
	name  string
	qtype uint16
	cd    bool
}

type shape struct {
	name string
	q    map[string]qShape
	a, b netip.Prefix
}

var shapeDefs = []shape{
	{name: "cd-split", q: map[string]qShape{"q1": {"fe-one.example.", dns.TypeA, false}, "q2": {"fe-one.example.", dns.TypeA, true}},
		a: netip.MustParsePrefix("192.0.2.0/24"), b: netip.MustParsePrefix("198.51.100.0/24")},
	{name: "type-split-v6", q: map[string]qShape{"q1": {"Fe-Two.Example.", dns.TypeAAAA, false}, "q2": {"fe-two.example.", dns.TypeTXT, false}},
		a: netip.MustParsePrefix("2001:db8:1::/56"), b: netip.MustParsePrefix("203.0.113.0/24")},
	{name: "name-split", q: map[string]qShape{"q1": {"x.fe3.test.", dns.TypeA, true}, "q2": {"y.fe3.test.", dns.TypeA, true}},
		a: netip.MustParsePrefix("192.0.2.0/25"), b: netip.MustParsePrefix("192.0.2.128/25")},
}

func norm(raw string) string {
	if raw == "plain" || raw == "zero" {
		return "G"
	}
	return raw
}

// ---------------------------------------------------------------- clock

type vclock struct {
	mu  sync.Mutex
	now time.Time
	n   int
}

func newClock() *vclock { return &vclock{now: time.Date(2026, 9, 26, 12, 0, 0, 0, time.UTC)} }
func (c *vclock) Now() time.Time {
	c.mu.Lock()
	defer c.mu.Unlock()
	return c.now
}
func (c *vclock) Units() int {
	c.mu.Lock()
	defer c.mu.Unlock()
	return c.n
}
func (c *vclock) Tick(n int) {
	c.mu.Lock()
	c.now = c.now.Add(time.Duration(n) * unit)
	c.n += n
	c.mu.Unlock()
}

// ---------------------------------------------------------------- history

type tlog struct {
	mu sync.Mutex
	f  *os.File
	n  int
}

func newLog(path string) (*tlog, error) {
	if path == "" {
		return &tlog{}, nil
	}
	f, err := os.Create(path)
	if err != nil {
		return nil, err
	}
	return &tlog{f: f}, nil
}

type line struct {
	Ev     string     `json:"ev"`
	C      int        `json:"c"`
	Q      string     `json:"q"`
	A      string     `json:"a"`
	Raw    string     `json:"raw"`
	O      string     `json:"o"`
	K      string     `json:"k"`
	Up     bool       `json:"up"`
	N      int        `json:"n"`
	Clk    int        `json:"clk"`
	Parked []int      `json:"parked"`
	Fc     [][]string `json:"fc"`
	Run    string     `json:"run"`
}

func (t *tlog) emit(l line) {
	if l.Q == "" {
		l.Q = "-"
	}
	if l.A == "" {
		l.A = "-"
	}
	if l.Raw == "" {
		l.Raw = "-"
	}
	if l.O == "" {
		l.O = "-"
	}
	if l.K == "" {
		l.K = "-"
	}
	if l.Run == "" {
		l.Run = "-"
	}
	if l.Parked == nil {
		l.Parked = []int{}
	}
	if l.Fc == nil {
		l.Fc = [][]string{}
	}
	t.mu.Lock()
	defer t.mu.Unlock()
	t.n++
	if t.f == nil {
		return
	}
	b, _ := json.Marshal(l)
	t.f.Write(append(b, '\n'))
}

func (t *tlog) close() {
	if t.f != nil {
		t.f.Close()
	}
}

// ---------------------------------------------------------------- clients

type reply struct {
	written bool
	rcode   int
	ede     int
	text    string
}

func (rp reply) kind() string {
	switch {
	case !rp.written:
		return "none"
	case rp.rcode == dns.RcodeSuccess:
		return "answer"
	case rp.rcode == dns.RcodeServerFailure && rp.ede == int(dns.ExtendedErrorCodeCachedError):
		return "hit"
	case rp.rcode == dns.RcodeServerFailure && rp.text == probeLimitText:
		return "shed"
	case rp.rcode == dns.RcodeServerFailure:
		return "servfail"
	}
	return fmt.Sprintf("rcode%d", rp.rcode)
}

type client struct {
	id     int
	raw    string
	state  string // idle | run | up | wait
	q      string
	gate   chan string
	w      *mock.Writer
	fin    chan struct{}
	gid    string
	born   string
	cancel context.CancelFunc
	rp     reply
	wasUp  bool
	addr   string
	repN   int // replies seen so far (driver side)
}

type event struct {
	id   int
	kind string // entered | done
}

type fixture struct {
	min, max int
	res      *vh.Result
	log      *tlog
	rng      *rand.Rand
	sh       *shape
	clock    *vclock
	c        *mcache.Cache
	mu       sync.Mutex
	clients  map[int]*client
	byAddr   map[string]*client
	events   chan event
	serial   int
	endMu    sync.Mutex
	runID    string
	stalled  bool
}

var ednsLayer *edns.EDNS

func newFixture(min, max int, res *vh.Result, log *tlog, rng *rand.Rand, shapeIdx int, runID string) *fixture {
	f := &fixture{min: min, max: max, res: res, log: log, rng: rng, clock: newClock(), clients: map[int]*client{},
		byAddr: map[string]*client{}, events: make(chan event, 1024), runID: runID}
	s := shapeDefs[((shapeIdx%len(shapeDefs))+len(shapeDefs))%len(shapeDefs)]
	f.sh = &s
	cfg := &config.Config{CacheSize: 1024, Expire: 300}
	cfg.RecursionFirewall.FailureCacheMinTTL.Duration = time.Duration(min) * unit
	cfg.RecursionFirewall.FailureCacheMaxTTL.Duration = time.Duration(max) * unit
	cfg.RecursionFirewall.FailureCacheSize = 4096
	cfg.ECS = config.ECSConfig{Enabled: true, ForwardV4Max: 25, ForwardV6Max: 56, MinScopeV4: 25, MinScopeV6: 56}
	f.c = mcache.New(cfg)
	f.c.VerifX13feSetNow(f.clock.Now)
	if ednsLayer == nil {
		ednsLayer = edns.New(cfg)
	}
	log.emit(line{Ev: "reset", Run: runID, N: min, Clk: max})
	return f
}

func (f *fixture) stop() { f.c.Stop() }

func (f *fixture) addClient(id int, raw string) {
	f.clients[id] = &client{id: id, raw: raw, state: "idle"}
}

// scopeOf is the ECS option a client of this kind sends (nil = none) and the
// prefix the cache will key on.
func (f *fixture) ecsOption(raw string) *dns.EDNS0_SUBNET {
	mk := func(p netip.Prefix, hostBits bool) *dns.EDNS0_SUBNET {
		fam := uint16(1)
		if p.Addr().Is6() {
			fam = 2
		}
		ip := net.IP(p.Addr().AsSlice())
		bits := p.Bits()
		if hostBits && f.rng.Intn(2) == 0 {
			// a longer source prefix inside the audience: the forwarding ceiling clamps it back
			ip = append(net.IP(nil), ip...)
			ip[len(ip)-1] |= byte(1 + f.rng.Intn(100))
			if fam == 1 {
				bits = 32
			} else {
				bits = 128
			}
		}
		return &dns.EDNS0_SUBNET{Code: dns.EDNS0SUBNET, Family: fam, SourceNetmask: uint8(bits), Address: ip}
	}
	switch raw {
	case "zero":
		if f.rng.Intn(3) == 0 {
			return &dns.EDNS0_SUBNET{Code: dns.EDNS0SUBNET, Family: 2, SourceNetmask: 0, Address: net.ParseIP("::")}
		}
		return &dns.EDNS0_SUBNET{Code: dns.EDNS0SUBNET, Family: 1, SourceNetmask: 0, Address: net.IPv4(0, 0, 0, 0).To4()}
	case "A":
		return mk(f.sh.a, f.sh.a.Bits() == 25 || f.sh.a.Bits() == 56)
	case "B":
		return mk(f.sh.b, f.sh.b.Bits() == 25 || f.sh.b.Bits() == 56)
	}
	return nil
}

func (f *fixture) audPrefix(a string) netip.Prefix {
	switch a {
	case "A":
		return f.sh.a
	case "B":
		return f.sh.b
	}
	return netip.Prefix{}
}

func (f *fixture) buildReq(raw, q string) *dns.Msg {
	qs := f.sh.q[q]
	name := qs.name
	if f.rng.Intn(2) == 0 { // 0x20 spelling
		b := []byte(name)
		for i := range b {
			if b[i] >= 'a' && b[i] <= 'z' && f.rng.Intn(2) == 0 {
				b[i] -= 'a' - 'A'
			}
		}
		name = string(b)
	}
	req := new(dns.Msg)
	req.SetQuestion(name, qs.qtype)
	req.RecursionDesired = true
	req.CheckingDisabled = qs.cd
	req.SetEdns0(1232, f.rng.Intn(2) == 0)
	if o := f.ecsOption(raw); o != nil {
		opt := req.IsEdns0()
		opt.Option = append(opt.Option, o)
	}
	return req
}

// fcRows projects the real failure cache: [[key, "streak|rel"], ...] sorted.
func (f *fixture) fcRows() [][]string {
	now := f.clock.Now()
	rows := [][]string{}
	for _, e := range f.c.VerifX13feSnapshot() {
		key := ""
		if e.Kind != mcache.FailureKindQuestion {
			key = "zone:" + e.Zone
		} else {
			qid := "?" + e.Question.Name
			for id, qs := range f.sh.q {
				if strings.EqualFold(dns.CanonicalName(qs.name), e.Question.Name) && qs.qtype == e.Question.Qtype && qs.cd == e.CD {
					qid = id
				}
			}
			aud := "?" + e.Scope.String()
			switch {
			case !e.Scope.IsValid():
				aud = "G"
			case e.Scope.Bits() == 0:
				aud = "Z"
			case e.Scope == f.sh.a:
				aud = "A"
			case e.Scope == f.sh.b:
				aud = "B"
			}
			key = qid + "|" + aud
		}
		st := int(e.Streak)
		scap := 1
		for b := f.min; b < f.max; b *= 2 {
			scap++
		}
		if st > scap {
			st = scap
		}
		d := e.RetryAfter.Sub(now)
		rel := int(d / unit)
		if d > 0 && d%unit != 0 {
			rel++
		}
		if rel < -f.max {
			rel = -f.max
		}
		rows = append(rows, []string{key, fmt.Sprintf("%d|%d", st, rel)})
	}
	sort.Slice(rows, func(i, j int) bool { return rows[i][0] < rows[j][0] })
	return rows
}

// ---------------------------------------------------------------- the upstream tail

func (f *fixture) tail(ctx context.Context, ch *middleware.Chain) {
	f.mu.Lock()
	cl := f.byAddr[ch.Writer.RemoteAddr().String()]
	f.mu.Unlock()
	if cl == nil {
		ch.CancelWithRcode(dns.RcodeServerFailure, false)
		return
	}
	f.mu.Lock()
	cl.wasUp = true
	f.mu.Unlock()
	f.log.emit(line{Ev: "up", C: cl.id, Q: cl.q, A: norm(cl.raw), Raw: cl.raw, Clk: f.clock.Units()})
	f.events <- event{cl.id, "entered"}
	o := <-cl.gate
	req := ch.Request.Msg()
	f.endMu.Lock()
	defer f.endMu.Unlock()
	f.log.emit(line{Ev: "endB", C: cl.id, Q: cl.q, A: norm(cl.raw), Raw: cl.raw, O: o, Clk: f.clock.Units(), Fc: f.fcRows()})
	var resp *dns.Msg
	switch o {
	case "answer":
		resp = f.answer(req, cl.raw)
	case "fail":
		resp = servfail(req, f.rng)
		f.res.Count("ends_fail", 1)
	default: // local
		resp = servfail(req, f.rng)
		variant := f.rng.Intn(3)
		if variant == 2 && (cl.born != "msg" || cl.cancel == nil) {
			variant = f.rng.Intn(2)
		}
		switch variant {
		case 0: // capacity shed, as the resolver handler marks it
			mctx, _ := middleware.EnsureResolutionAttemptGuard(ctx)
			middleware.MarkRequestLocalFailureResponse(mctx, resp, middleware.ErrResolutionShed)
			f.res.Count("local_shed", 1)
		case 1: // a derived deadline that ran out inside the resolution
			mctx, _ := middleware.EnsureResolutionAttemptGuard(ctx)
			dctx, cancel := context.WithDeadline(mctx, time.Time{})
			middleware.MarkRequestLocalFailureResponse(dctx, resp, dctx.Err())
			cancel()
			f.res.Count("local_deadline", 1)
		default: // the client went away
			cl.cancel()
			f.res.Count("local_cancel", 1)
		}
	}
	_ = ch.Writer.WriteMsg(resp)
	f.log.emit(line{Ev: "endE", C: cl.id, Q: cl.q, A: norm(cl.raw), Raw: cl.raw, O: o, Clk: f.clock.Units(), Fc: f.fcRows()})
	ch.Cancel()
}

func servfail(req *dns.Msg, rng *rand.Rand) *dns.Msg {
	m := new(dns.Msg)
	m.SetRcode(req, dns.RcodeServerFailure)
	if req.IsEdns0() != nil && rng.Intn(3) != 0 {
		m.SetEdns0(1232, true)
		dnsutil.SetEDE(m, dns.ExtendedErrorCodeDNSBogus, "validation failure")
	}
	return m
}

// answer: a useful reply; for a scoped audience the authority tailors it (SCOPE = SOURCE), so the cache
// files it under that audience only.
func (f *fixture) answer(req *dns.Msg, raw string) *dns.Msg {
	m := new(dns.Msg)
	m.SetReply(req)
	q := req.Question[0]
	hdr := dns.RR_Header{Name: q.Name, Rrtype: q.Qtype, Class: q.Qclass, Ttl: 300}
	switch q.Qtype {
	case dns.TypeA:
		m.Answer = []dns.RR{&dns.A{Hdr: hdr, A: net.IPv4(192, 0, 2, 80).To4()}}
	case dns.TypeAAAA:
		m.Answer = []dns.RR{&dns.AAAA{Hdr: hdr, AAAA: net.ParseIP("2001:db8::80")}}
	default:
		m.Answer = []dns.RR{&dns.TXT{Hdr: hdr, Txt: []string{"v=ok"}}}
	}
	if p := f.audPrefix(norm(raw)); p.IsValid() {
		fam := uint16(1)
		if p.Addr().Is6() {
			fam = 2
		}
		m.SetEdns0(1232, false)
		opt := m.IsEdns0()
		opt.Option = append(opt.Option, &dns.EDNS0_SUBNET{Code: dns.EDNS0SUBNET, Family: fam,
			SourceNetmask: uint8(p.Bits()), SourceScope: uint8(p.Bits()), Address: net.IP(p.Addr().AsSlice())})
	}
	return m
}

// ---------------------------------------------------------------- starting a request

var goroutineHdr = regexp.MustCompile(`(?m)^goroutine (\d+) \[([^\]]*)\]:`)

func myGid() string {
	var buf [64]byte
	n := runtime.Stack(buf[:], false)
	if m := goroutineHdr.FindSubmatch(buf[:n]); m != nil {
		return string(m[1])
	}
	fl := strings.Fields(string(buf[:n]))
	if len(fl) >= 2 {
		return fl[1]
	}
	return ""
}

// start launches the request of cl for q on its own goroutine; hold (may be nil) is waited for first.
func (f *fixture) start(cl *client, q string, hold <-chan struct{}) {
	f.serial++
	cl.q, cl.state, cl.wasUp = q, "run", false
	cl.gate = make(chan string, 1)
	cl.fin = make(chan struct{})
	cl.addr = fmt.Sprintf("203.0.113.%d:%d", 10+cl.id, 20000+f.serial)
	cl.w = mock.NewWriter("udp", cl.addr)
	cl.gid = ""
	f.mu.Lock()
	f.byAddr[cl.addr] = cl
	f.mu.Unlock()
	req := f.buildReq(cl.raw, q)
	ctx, cancel := context.WithCancel(context.Background())
	cl.cancel = cancel
	ch := middleware.NewChain([]middleware.Handler{ednsLayer, f.c, middleware.HandlerFunc(f.tail)})
	cl.born = "msg"
	if f.rng.Intn(3) == 0 {
		if raw, err := req.Pack(); err == nil {
			wr := new(middleware.Request)
			if wr.ParseWire(raw, time.Now(), nil) {
				ch.ResetWire(cl.w, wr)
				ch.AllowDirectPack()
				cl.born = "wire"
			}
		}
	}
	if cl.born == "msg" {
		ch.Reset(cl.w, req)
	}
	f.res.Count("requests_"+cl.born, 1)
	f.res.Count("requests_"+cl.raw, 1)
	gidc := make(chan string, 1)
	go func() {
		defer close(cl.fin)
		gidc <- myGid()
		if hold != nil {
			<-hold
		}
		f.log.emit(line{Ev: "arr", C: cl.id, Q: q, A: norm(cl.raw), Raw: cl.raw, Clk: f.clock.Units()})
		ch.Next(ctx)
		rp := reply{ede: -1}
		if m := cl.w.Msg(); m != nil {
			rp.written, rp.rcode = true, m.Rcode
			if e := dnsutil.GetEDE(m); e != nil {
				rp.ede, rp.text = int(e.InfoCode), e.ExtraText
			}
		}
		f.mu.Lock()
		cl.rp = rp
		up := cl.wasUp
		f.mu.Unlock()
		f.log.emit(line{Ev: "rep", C: cl.id, Q: q, A: norm(cl.raw), Raw: cl.raw, K: rp.kind(), Up: up, Clk: f.clock.Units()})
		f.events <- event{cl.id, "done"}
	}()
	cl.gid = <-gidc
}

// parked: goroutine ids the runtime reports as blocked in the select of Cache.ServeDNS.
var dumpBuf = make([]byte, 256<<10)

func parkedInServeDNS() map[string]bool {
	var buf []byte
	for {
		n := runtime.Stack(dumpBuf, true)
		if n < len(dumpBuf) {
			buf = dumpBuf[:n]
			break
		}
		dumpBuf = make([]byte, 2*len(dumpBuf))
	}
	out := map[string]bool{}
	for _, blk := range strings.Split(string(buf), "\n\n") {
		m := goroutineHdr.FindStringSubmatch(blk)
		if m == nil || !strings.HasPrefix(m[2], "select") {
			continue
		}
		for _, ln := range strings.Split(blk, "\n")[1:] {
			if ln == "" || strings.HasPrefix(ln, "\t") {
				continue
			}
			if strings.Contains(ln, "middleware/cache.(*Cache).ServeDNS(") {
				out[m[1]] = true
			}
			break // innermost user frame only
		}
	}
	return out
}

func (f *fixture) absorb(e event) {
	cl := f.clients[e.id]
	if cl == nil {
		return
	}
	switch e.kind {
	case "entered":
		cl.state = "up"
	case "done":
		cl.state = "idle"
		cl.repN++
	}
}

// settle waits until every client is idle, at the upstream gate, or parked behind a leader.
func (f *fixture) settle() bool {
	deadline := time.Now().Add(settleLong)
	stable := 0
	for {
		for drained := false; !drained; {
			select {
			case e := <-f.events:
				f.absorb(e)
				stable = 0
			default:
				drained = true
			}
		}
		pending := false
		var parked map[string]bool
		for _, cl := range f.clients {
			if cl.state == "idle" || cl.state == "up" {
				continue
			}
			if parked == nil {
				parked = parkedInServeDNS()
			}
			if cl.gid != "" && parked[cl.gid] {
				cl.state = "wait"
			} else {
				cl.state = "run"
				pending = true
			}
		}
		if !pending {
			stable++
			if stable >= 2 && len(f.events) == 0 {
				return true
			}
			runtime.Gosched()
			continue
		}
		stable = 0
		if time.Now().After(deadline) {
			f.stalled = true
			return false
		}
		time.Sleep(50 * time.Microsecond)
	}
}

func (f *fixture) emitSettle() {
	var parked []int
	for _, cl := range f.clients {
		if cl.state == "wait" {
			parked = append(parked, cl.id)
		}
	}
	sort.Ints(parked)
	f.log.emit(line{Ev: "settle", Parked: parked, Clk: f.clock.Units(), Fc: f.fcRows(), N: f.c.VerifX13feFlights()})
}

// release hands a parked resolution its outcome and waits for that request to return.
func (f *fixture) release(cl *client, o string) bool {
	cl.gate <- o
	select {
	case <-cl.fin:
	case <-time.After(settleLong):
		f.stalled = true
		return false
	}
	// everything this ending released is no longer parked on a finished generation: re-classify
	for _, x := range f.clients {
		if x.state == "wait" {
			x.state = "run"
		}
	}
	return true
}

// drain ends everything still in flight (answers), so the fixture can be stopped.
func (f *fixture) drain() {
	for guard := 0; guard < 64; guard++ {
		f.settle()
		var next *client
		for _, cl := range f.clients {
			if cl.state == "up" && (next == nil || cl.id < next.id) {
				next = cl
			}
		}
		if next == nil {
			break
		}
		if !f.release(next, "answer") {
			break
		}
	}
	for _, cl := range f.clients {
		if cl.cancel != nil {
			cl.cancel()
		}
	}
	f.settle()
	f.emitSettle()
}

func (f *fixture) drop(q, a string) {
	qs := f.sh.q[q]
	f.c.VerifX13feDropAnswer(dns.Question{Name: dns.CanonicalName(qs.name), Qtype: qs.qtype, Qclass: dns.ClassINET}, qs.cd, f.audPrefix(a))
	f.log.emit(line{Ev: "drop", Q: q, A: a, Clk: f.clock.Units()})
}

func (f *fixture) tick(n int) {
	f.clock.Tick(n)
	f.log.emit(line{Ev: "tick", N: n, Clk: f.clock.Units()})
}
