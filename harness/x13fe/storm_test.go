package x13fe

// Free-running concurrent stage.  Nothing is scheduled by a model here: bursts
// of clients of all four kinds enter Cache.ServeDNS at once and race for the
// leadership of their dedup / probe key; the upstream resolutions that result
// are ended several at a time (their write-backs are serialised by the tail so
// that the order of the recorded endings is the order in which they happened;
// the followers they release run concurrently with the next ending and with
// late arrivals); the clock only moves when nothing is in flight.  The driver
// keeps no expectation at all -- it records arrivals, upstream starts, endings
// (with the projected failure cache before / after), replies, and at every
// settle point which clients the runtime shows parked behind a leader.
// Monitor_FailEcs.tla judges the history.

import (
	"fmt"
	"math/rand"
	"sort"
	"strconv"
	"testing"
	"time"

	"github.com/semihalev/sdns/verifharness/vh"
)

func TestStorm(t *testing.T) {
	var in input
	vh.Input(t, &in)
	res := vh.NewResult()
	defer res.Write(t)
	log, err := newLog(in.TraceOut)
	if err != nil {
		t.Fatal(err)
	}
	defer log.close()
	st := in.Storm
	for round := 1; round <= st.Rounds; round++ {
		if st.Only > 0 && round != st.Only {
			continue
		}
		if len(res.Skipped) > 0 {
			break
		}
		rng := rand.New(rand.NewSource(st.Seed*7919 + int64(round)))
		id := fmt.Sprintf("storm#%d", round)
		f := newFixture(in.Min, in.Max, res, log, rng, round, id)
		ids := []int{}
		for k, raw := range st.Clients {
			n, _ := strconv.Atoi(k)
			f.addClient(n, raw)
			ids = append(ids, n)
		}
		sort.Ints(ids)
		idle := func() []*client {
			var out []*client
			for _, n := range ids {
				if f.clients[n].state == "idle" {
					out = append(out, f.clients[n])
				}
			}
			return out
		}
		inflight := func() []*client {
			var out []*client
			for _, n := range ids {
				if f.clients[n].state == "up" {
					out = append(out, f.clients[n])
				}
			}
			return out
		}
		pickQ := func() string {
			if rng.Intn(5) == 0 {
				return "q2"
			}
			return "q1"
		}
		outcome := func() string {
			switch x := rng.Intn(100); {
			case x < 45:
				return "fail"
			case x < 80:
				return "local"
			}
			return "answer"
		}
		ok := true
		settle := func(what string) bool {
			if !f.settle() {
				res.Skip("%s: the clients did not settle after %s", id, what)
				ok = false
				return false
			}
			f.emitSettle()
			res.Count("settles", 1)
			n := 0
			for _, cl := range f.clients {
				if cl.state == "wait" {
					n++
				}
			}
			if n > res.Counters["max_parked"] {
				res.Counters["max_parked"] = n
			}
			return true
		}
		for burst := 0; burst < st.Bursts && ok; burst++ {
			// a burst of arrivals racing for leadership
			cands := idle()
			rng.Shuffle(len(cands), func(i, j int) { cands[i], cands[j] = cands[j], cands[i] })
			n := len(cands)
			if n > 2 && rng.Intn(3) == 0 {
				n = 2 + rng.Intn(n-1)
			}
			q := pickQ()
			hold := make(chan struct{})
			for _, cl := range cands[:n] {
				qq := q
				if rng.Intn(8) == 0 {
					qq = pickQ()
				}
				f.start(cl, qq, hold)
			}
			close(hold)
			res.Count("burst_arrivals", n)
			if !settle("a burst") {
				break
			}
			// end what is in flight, several at a time, with late arrivals on the side
			for guard := 0; guard < 12 && ok; guard++ {
				up := inflight()
				if len(up) == 0 {
					break
				}
				rng.Shuffle(len(up), func(i, j int) { up[i], up[j] = up[j], up[i] })
				k := len(up)
				if k > 1 && rng.Intn(2) == 0 {
					k = 1 + rng.Intn(k)
				}
				late := idle()
				rng.Shuffle(len(late), func(i, j int) { late[i], late[j] = late[j], late[i] })
				nl := 0
				if len(late) > 0 && rng.Intn(2) == 0 {
					nl = 1 + rng.Intn(min(2, len(late)))
				}
				hold := make(chan struct{})
				for _, cl := range late[:nl] {
					f.start(cl, q, hold)
				}
				for _, cl := range up[:k] {
					o := outcome()
					res.Count("ends_"+o, 1)
					cl.gate <- o
				}
				close(hold)
				res.Count("late_arrivals", nl)
				for _, cl := range up[:k] {
					select {
					case <-cl.fin:
					case <-time.After(settleLong):
						res.Skip("%s: request %d did not return after its outcome", id, cl.id)
						ok = false
					}
				}
				if !ok {
					break
				}
				for _, x := range f.clients {
					if x.state == "wait" {
						x.state = "run"
					}
				}
				if !settle("a round of endings") {
					break
				}
			}
			if !ok {
				break
			}
			if len(inflight()) > 0 {
				// never quiescent within the guard: finish with answers
				f.drain()
			}
			// quiescent: time passes, answers run out
			quiet := true
			for _, cl := range f.clients {
				if cl.state != "idle" {
					quiet = false
				}
			}
			if quiet {
				if n := f.c.VerifX13feFlights(); n != 0 {
					res.DriftNote("[%s] %d generation(s) registered in the dedup group at quiescence", id, n)
				}
				ticks := []int{0, 1, in.Min, in.Max, in.Max, in.Max + 1}[rng.Intn(6)]
				for i := 0; i < ticks; i++ {
					f.tick(1)
				}
				for _, qq := range []string{"q1", "q2"} {
					for _, a := range []string{"G", "A", "B"} {
						if rng.Intn(3) != 0 {
							f.drop(qq, a)
						}
					}
				}
			}
		}
		f.drain()
		f.stop()
		res.Case(id)
		if round <= 2 {
			res.Sample(map[string]any{"round": id, "shape": f.sh.name, "clients": len(ids), "bursts": st.Bursts})
		}
	}
	res.Count("trace_lines", log.n)
}
