package x13fe

import (
	"hash/fnv"
	"math/rand"

	"github.com/semihalev/sdns/verifharness/vh"
)

// pathRand: every choice made for one run depends only on VERIF_SEED and the run id.
func pathRand(id string) *rand.Rand {
	h := fnv.New64a()
	h.Write([]byte(id))
	return rand.New(rand.NewSource(vh.Seed()*1_000_003 + int64(h.Sum64()>>1)))
}
