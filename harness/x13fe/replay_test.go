package x13fe

// spec -> code: schedules TLC generated from FailEcs.tla (covering walks of the
// gated state graph, simulated behaviours, the counter-examples of the model
// mutants) are forced on the real cache.Cache.  Arrive / LeaderEnds / Tick /
// DropAnswer are forced; FollowerWakes is what the released followers do on
// their own.  Which of several released followers wins a re-election is the
// scheduler's choice: the driver keeps a model-client -> real-client map and
// swaps two interchangeable clients when the code picked the other one.
// After every step the observed roles and the projected failure cache are
// compared with TLC's successor state (drift, never a verdict); the recorded
// history is judged by Monitor_FailEcs.tla.

import (
	"fmt"
	"reflect"
	"sort"
	"strconv"
	"testing"

	"github.com/semihalev/sdns/verifharness/vh"
)

type expect struct {
	Fc  [][]string                `json:"fc"`
	Cls map[string]map[string]int `json:"cls"`
	Dec map[string]map[string]int `json:"dec"`
}

type step struct {
	Op  string  `json:"op"`
	C   int     `json:"c"`
	Q   string  `json:"q"`
	O   string  `json:"o"`
	A   string  `json:"a"`
	Exp *expect `json:"exp,omitempty"`
}

type runIn struct {
	ID    string            `json:"id"`
	Raw   map[string]string `json:"raw"`
	Steps []step            `json:"steps"`
	Shape int               `json:"shape"`
}

type stormIn struct {
	Rounds  int               `json:"rounds"`
	Clients map[string]string `json:"clients"`
	Bursts  int               `json:"bursts"`
	Seed    int64             `json:"seed"`
	Only    int               `json:"only"` // >0: run just this round (replay)
}

type input struct {
	Min      int     `json:"min"`
	Max      int     `json:"max"`
	TraceOut string  `json:"traceOut"`
	Runs     []runIn `json:"runs"`
	Storm    stormIn `json:"storm"`
}

func classKey(q, raw string) string { return q + "|" + norm(raw) }

func (f *fixture) classes() map[string]map[string]int {
	out := map[string]map[string]int{}
	for _, cl := range f.clients {
		if cl.state != "up" && cl.state != "wait" {
			continue
		}
		k := classKey(cl.q, cl.raw)
		if out[k] == nil {
			out[k] = map[string]int{}
		}
		out[k][cl.state]++
	}
	return out
}

func normCls(m map[string]map[string]int) map[string]map[string]int {
	out := map[string]map[string]int{}
	for k, v := range m {
		for s, n := range v {
			if n != 0 {
				if out[k] == nil {
					out[k] = map[string]int{}
				}
				out[k][s] = n
			}
		}
	}
	return out
}

func TestReplay(t *testing.T) {
	var in input
	vh.Input(t, &in)
	res := vh.NewResult()
	defer res.Write(t)
	log, err := newLog(in.TraceOut)
	if err != nil {
		t.Fatal(err)
	}
	defer log.close()
	for ri, r := range in.Runs {
		if len(res.Skipped) > 0 {
			break
		}
		f := newFixture(in.Min, in.Max, res, log, pathRand(r.ID), r.Shape, r.ID)
		ids := []int{}
		for k, raw := range r.Raw {
			id, _ := strconv.Atoi(k)
			f.addClient(id, raw)
			ids = append(ids, id)
		}
		sort.Ints(ids)
		m := map[int]int{}
		for _, id := range ids {
			m[id] = id
		}
		swap := func(c, real int) {
			for mc, rc := range m {
				if rc == real {
					m[mc], m[c] = m[c], real
					return
				}
			}
		}
		drifted := false
		for si, s := range r.Steps {
			before := map[int]string{}
			repN := map[int]int{}
			for id, cl := range f.clients {
				before[id], repN[id] = cl.state, cl.repN
			}
			switch s.Op {
			case "arrive":
				cl := f.clients[m[s.C]]
				if cl == nil || cl.state != "idle" {
					var sub *client
					want := r.Raw[strconv.Itoa(s.C)]
					for _, id := range ids {
						if x := f.clients[id]; x.state == "idle" && x.raw == want {
							sub = x
							break
						}
					}
					if sub == nil {
						res.Count("steps_not_enabled", 1)
						continue
					}
					swap(s.C, sub.id)
					cl = sub
					res.Count("client_swaps", 1)
				}
				f.start(cl, s.Q, nil)
			case "end":
				cl := f.clients[m[s.C]]
				if cl == nil || cl.state != "up" {
					var sub *client
					mc := f.clients[s.C]
					for pass := 0; pass < 2 && sub == nil && mc != nil; pass++ {
						for _, id := range ids {
							x := f.clients[id]
							if x.state == "up" && x.q == s.Q && norm(x.raw) == norm(r.Raw[strconv.Itoa(s.C)]) &&
								(pass == 1 || x.raw == r.Raw[strconv.Itoa(s.C)]) {
								sub = x
								break
							}
						}
					}
					if sub == nil {
						res.Count("steps_not_enabled", 1)
						continue
					}
					swap(s.C, sub.id)
					cl = sub
					res.Count("client_swaps", 1)
				}
				res.Count("ends_"+s.O, 1)
				if !f.release(cl, s.O) {
					res.Skip("run %s step %d: request %d did not return after its outcome %s", r.ID, si, cl.id, s.O)
				}
			case "tick":
				f.tick(1)
			case "drop":
				f.drop(s.Q, s.A)
			default:
				res.Skip("unknown step %q", s.Op)
			}
			if len(res.Skipped) > 0 {
				break
			}
			if !f.settle() {
				res.Skip("run %s step %d (%s): the clients did not settle", r.ID, si, s.Op)
				break
			}
			res.Count("steps", 1)
			f.emitSettle()
			// what happened in this step, for the counters and the drift comparison
			dec := map[string]map[string]int{}
			for id, cl := range f.clients {
				if s.Op == "end" && id == m[s.C] {
					continue
				}
				k := classKey(cl.q, cl.raw)
				switch {
				case before[id] == "wait" && cl.state == "up":
					res.Count("followers_to_upstream", 1)
				case before[id] != "wait" && cl.state == "wait":
					res.Count("followers_parked", 1)
					if cl.raw == "zero" {
						res.Count("followers_parked_zero", 1)
					}
					if cl.raw == "A" || cl.raw == "B" {
						res.Count("followers_parked_scoped", 1)
					}
				}
				if cl.repN > repN[id] {
					kind := cl.rp.kind()
					if dec[k] == nil {
						dec[k] = map[string]int{}
					}
					dec[k][kind]++
					res.Count("reply_"+kind, 1)
					if before[id] == "wait" {
						res.Count("follower_reply_"+kind, 1)
					}
					if kind == "hit" {
						res.Count("hit_"+cl.raw, 1)
					}
				}
			}
			ups := map[string]int{}
			for _, cl := range f.clients {
				if cl.state == "up" {
					ups[classKey(cl.q, cl.raw)]++
				}
			}
			for _, n := range ups {
				if n > 1 {
					res.Count("two_upstream_one_key", 1)
				}
			}
			if s.Exp != nil && !drifted {
				got := f.fcRows()
				want := s.Exp.Fc
				if want == nil {
					want = [][]string{}
				}
				if !reflect.DeepEqual(got, want) {
					res.DriftNote("[%s step %d %s] failure cache %v, FailEcs.tla %v", r.ID, si, stepString(s), got, want)
					drifted = true
				}
				if g, w := normCls(f.classes()), normCls(s.Exp.Cls); !reflect.DeepEqual(g, w) {
					res.DriftNote("[%s step %d %s] in flight / parked %v, FailEcs.tla %v", r.ID, si, stepString(s), g, w)
					drifted = true
				}
				if g, w := normCls(dec), normCls(s.Exp.Dec); !reflect.DeepEqual(g, w) {
					res.DriftNote("[%s step %d %s] replies %v, FailEcs.tla %v", r.ID, si, stepString(s), g, w)
					drifted = true
				}
				if !drifted {
					res.Count("steps_agreeing_with_model", 1)
				}
			}
		}
		f.drain()
		if n := f.c.VerifX13feFlights(); n != 0 && !f.stalled {
			res.DriftNote("[%s] %d generation(s) still registered in the dedup group after every request returned", r.ID, n)
		}
		f.stop()
		res.Case(fmt.Sprintf("%s/%s", r.ID, f.sh.name))
		if ri < 2 {
			res.Sample(map[string]any{"run": r.ID, "shape": f.sh.name, "steps": len(r.Steps)})
		}
	}
	res.Count("trace_lines", log.n)
}

func stepString(s step) string {
	switch s.Op {
	case "arrive":
		return fmt.Sprintf("Arrive(%d,%s)", s.C, s.Q)
	case "end":
		return fmt.Sprintf("LeaderEnds(%d,%s)", s.C, s.O)
	case "drop":
		return fmt.Sprintf("DropAnswer(%s,%s)", s.Q, s.A)
	}
	return "Tick"
}
