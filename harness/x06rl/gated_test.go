package x06rl

// Forced schedules: behaviours of RateLimit.tla with Atomic = "gate".  The
// scripted upstream (the tail of the real chain) is a gate: a call that was
// admitted by the limiter parks there, inside ch.Next, holding its limiter
// pointer, with its post-Next cookie store still to come.  TLC chooses which
// other calls (same client or not, any entry) and which ticks overtake it, and
// when it is released.  Every call runs on its own goroutine; the driver moves
// exactly one of them at a time, so the TLC schedule is the real schedule.

import (
	"fmt"
	"testing"
	"time"

	"github.com/semihalev/sdns/verifharness/vh"
)

type running struct {
	q      *request
	done   chan observation
	before map[string]bucketObs
	paid   int
	replay bool
	ran    bool
}

func TestGated(t *testing.T) {
	var in replayInput
	vh.Input(t, &in)
	res := vh.NewResult()
	defer res.Write(t)
	doGated(sink{res, ""}, in)
}

func doGated(res sink, in replayInput) {
	book := &cookieBook{}
	for bi := range in.Behaviours {
		b := &in.Behaviours[bi]
		err := runGated(res, book, b)
		switch err {
		case nil:
			res.Count("behaviours", 1)
		case errDrift:
			res.Count("behaviours", 1)
			res.Count("drifted", 1)
		case errStalled:
			res.Count("stalled", 1)
			continue
		default:
			res.Skip("%s: %v", b.Name, err)
			continue
		}
		key := ""
		for _, st := range b.Steps {
			key += st.Label + ";"
		}
		res.Case("gated:" + key)
	}
}

var errStalled = fmt.Errorf("stalled")

func runGated(res sink, book *cookieBook, b *behaviour) error {
	r, err := newRig(b.Burst, b.StoreCap, b.EntryBurst, b.Clients, b.Forms, book)
	if err != nil {
		return err
	}
	r.mu.Lock()
	r.gated = true
	r.mu.Unlock()
	j := &judge{res: res, r: r, b: b, variant: "gated"}
	live := map[int]*running{} // model process -> its call in flight
	inlinePaid := map[int]int{}
	inlineRan := map[int]bool{}
	defer func() {
		r.releaseAll()
		for _, c := range live {
			select {
			case <-c.done:
			case <-time.After(20 * time.Second):
			}
		}
	}()
	wait := func(c *running) (o observation, parked bool, err error) {
		deadline := time.After(30 * time.Second)
		for {
			select {
			case o = <-c.done:
				return o, false, nil
			case name := <-r.parked:
				if name == lower(c.q.name) {
					return observation{}, true, nil
				}
				return observation{}, false, fmt.Errorf("a call parked that the driver did not move: %s", name)
			case <-deadline:
				return observation{}, false, errStalled
			}
		}
	}
	t0 := time.Now()
	for si := range b.Steps {
		st := b.Steps[si]
		if j.drifted {
			return errDrift
		}
		if time.Since(t0) > 20*time.Second {
			return errStalled
		}
		switch st.Op {
		case "tick":
			before := r.projection()
			r.rl.VerifAdvance(time.Duration(st.K) * (r.period + time.Millisecond))
			after := r.projection()
			for _, k := range sortedKeys(before) {
				x, y := before[k], after[k]
				if x.Present && (!y.Present || y.Tok != min(b.Burst, x.Tok+st.K) || y.Cookie != x.Cookie) {
					j.violate(si, "rl/refill", fmt.Sprintf("%d refill periods took %s from %s to %s", st.K, k, describe(x), describe(y)), nil)
				}
			}
			j.comparePost(si, st, after)
			res.Count("ticks_while_parked", len(live))
		case "start", "start-replay":
			c := &running{done: make(chan observation, 1), before: r.projection()}
			lb := r.rl.VerifLen()
			if st.Op == "start" {
				c.q = r.build(st, si+1)
				go func() { c.done <- r.serve(c.q) }()
			} else {
				r.mu.Lock()
				pj := r.jobs[st.ID]
				r.mu.Unlock()
				if pj == nil {
					j.drift(si, "model replays job %d, the code never handed it off", st.ID)
					return errDrift
				}
				c.q, c.replay, c.ran, c.paid = pj.req, true, inlineRan[st.ID], inlinePaid[st.ID]
				go func() { o, _, _ := r.replay(st.ID); c.done <- o }()
			}
			o, parked, werr := wait(c)
			if werr != nil {
				live[st.P] = c
				return werr
			}
			after, la := r.projection(), r.rl.VerifLen()
			own := c.q.st.C + "/" + c.q.st.F
			seen := "parked"
			if !parked {
				seen = o.seen()
				j.replyVerdicts(si, c.q, o)
				if o.Handoff {
					inlineRan[st.ID] = o.WirePath
					if c.before[own].Present && after[own].Present {
						inlinePaid[st.ID] = c.before[own].Tok - after[own].Tok
					} else if after[own].Present {
						inlinePaid[st.ID] = b.Burst - after[own].Tok
					}
				}
			} else {
				live[st.P] = c
				res.Count("parked", 1)
				if len(live) > 1 {
					res.Count("parked_together", 1)
				}
			}
			j.storeVerdicts(si, c.q, o, seen, c.before, after, lb, la, c.replay, c.ran, c.paid)
			if parked != st.Parked {
				j.drift(si, "model parked=%v, code parked=%v (%s)", st.Parked, parked, seen)
				return errDrift
			}
			if !parked {
				j.compare(si, st, o, after)
				res.Count("seen_"+seen, 1)
			} else {
				j.comparePost(si, st, after)
			}
		case "release":
			c := live[st.P]
			if c == nil {
				return fmt.Errorf("release of process %d which is not parked", st.P)
			}
			delete(live, st.P)
			before := r.projection()
			r.release(lower(c.q.name))
			var o observation
			select {
			case o = <-c.done:
			case <-time.After(30 * time.Second):
				live[st.P] = c
				return errStalled
			}
			after := r.projection()
			j.replyVerdicts(si, c.q, o)
			own := c.q.st.C + "/" + c.q.st.F
			// coming back up through the limiter: nothing but the own remembered cookie may change
			for _, k := range sortedKeys(before) {
				x, y := before[k], after[k]
				if x.Present != y.Present || (x.Present && (x.Tok != y.Tok || (x.Cookie != y.Cookie && k != own))) {
					j.violate(si, "rl/foreign-bucket-changed", fmt.Sprintf("the return path of a request of %s changed %s: %s -> %s",
						own, k, describe(x), describe(y)), nil)
				}
			}
			if o.seen() != "answer" {
				j.violate(si, "rl/parked-call-lost", "a call admitted by the limiter and answered by the upstream ended as "+o.seen(), nil)
			}
			j.compare(si, st, o, after)
			res.Count("seen_"+o.seen(), 1)
			res.Count("released", 1)
		default:
			return fmt.Errorf("unknown op %q", st.Op)
		}
	}
	if j.drifted {
		return errDrift
	}
	return nil
}

func lower(s string) string {
	b := []byte(s)
	for i, c := range b {
		if 'A' <= c && c <= 'Z' {
			b[i] = c + 32
		}
	}
	return string(b)
}
