package x06rl

// spec -> code: TLC behaviours of RateLimit.tla (Atomic = "call": call orders,
// ticks, cleanups) replayed on the real pipeline.  After every step the
// observable projection of the real limiter store is compared with the model
// (differences are drift) and the property predicates are evaluated on what the
// real code did (a false predicate is a violation):
//
//  c06/...   the reply contract of C06 on every reply, BADCOOKIE included
//  cookie/.. a server cookie is returned only against the client cookie sent, is the
//            same for one (address, client cookie) whatever the history and the entry,
//            and differs between addresses
//  rl/...    one token per question at most (inline pass + replay together); a client
//            within its budget is served, a cookie-less client over it gets nothing;
//            a refused request leaves no trace; no call changes another client's
//            bucket or remembered cookie; a new bucket is full; exempt origins are
//            neither limited nor recorded; refill is the configured rate, capped at
//            the burst; BADCOOKIE only over UDP, only against a cookie, with the
//            server cookie it remembers; the entry does not change the outcome.

import (
	"bytes"
	"encoding/hex"
	"fmt"
	"net"
	"testing"
	"time"

	"github.com/semihalev/sdns/verifharness/vh"
)

type replayInput struct {
	Behaviours []behaviour `json:"behaviours"`
	Twin       bool        `json:"twin"`
}

// stepRecord is what the twin comparison looks at.
type stepRecord struct {
	Seen   string
	Cookie string
	Tail   int
	Proj   map[string]bucketObs
	Etok   string // tokens of the per-entry limiters of the model's questions
	Valid  bool
}

type judge struct {
	res     sink
	r       *rig
	b       *behaviour
	variant string
	quiet   bool // twin run: predicates only, no case / drift accounting
	drifted bool
	checked bool // configured rate verified on this rig
}

func (j *judge) replayOf(si int, what string, extra map[string]any) map[string]any {
	m := map[string]any{"driver": "pipeline-" + j.variant, "behaviour": j.b.Name, "step": si, "what": what,
		"config": map[string]any{"burst": j.b.Burst, "storeCap": j.b.StoreCap, "entryBurst": j.b.EntryBurst,
			"clients": j.b.Clients, "forms": j.b.Forms, "aliases": j.b.Aliases, "aliasTarget": j.b.AliasTarget},
		"steps": j.b.Steps[:min(si+1, len(j.b.Steps))]}
	for k, v := range extra {
		m[k] = v
	}
	return m
}

func (j *judge) violate(si int, key, what string, extra map[string]any) {
	st := j.b.Steps[si]
	j.res.Violate(key, fmt.Sprintf("%s [%s step %d %s, %s]", what, j.b.Name, si, st.Label, j.variant), j.replayOf(si, what, extra))
}

func (j *judge) drift(si int, format string, a ...any) {
	if j.drifted {
		return
	}
	j.drifted = true
	if !j.quiet {
		j.res.DriftNote("%s step %d (%s): %s", j.b.Name, si, j.b.Steps[si].Label, fmt.Sprintf(format, a...))
	}
}

func projString(p map[string]bucketObs) string {
	s := ""
	for _, k := range sortedKeys(p) {
		b := p[k]
		if !b.Present {
			s += k + ":absent "
			continue
		}
		c := b.Cookie
		if len(c) > 20 {
			c = c[:20] + ".."
		}
		s += fmt.Sprintf("%s:%d(%.4f)/%s ", k, b.Tok, b.Raw, c)
	}
	return s
}

// verdicts evaluates every predicate on one completed entry-point call.
// inlinePaid is the number of client tokens the inline pass of this question took
// (replay passes only); ranInline says the inline pass ran the chain.
func (j *judge) verdicts(si int, q *request, o observation, before, after map[string]bucketObs, lenBefore, lenAfter int,
	isReplay, ranInline bool, inlinePaid int) {
	j.replyVerdicts(si, q, o)
	j.storeVerdicts(si, q, o, o.seen(), before, after, lenBefore, lenAfter, isReplay, ranInline, inlinePaid)
}

// replyVerdicts: the predicates on the reply itself (C06 contract, cookie stability and address binding).
func (j *judge) replyVerdicts(si int, q *request, o observation) {
	st := q.st
	ctx := map[string]any{"seen": o.seen(), "query": hex.EncodeToString(q.raw), "reply": hex.EncodeToString(o.Reply),
		"remote": q.addr.String(), "entry": st.Entry}
	// ---- C06 on the reply ---------------------------------------------------------
	for _, c := range o.Contract {
		j.violate(si, "c06/"+contractClass(c), "reply breaks the contract: "+c, ctx)
	}
	if o.NWrites > 1 {
		j.violate(si, "c06/two-replies", fmt.Sprintf("%d replies to one query", o.NWrites), ctx)
	}
	if o.Foreign != "" {
		j.violate(si, "rl/answer-not-for-question", "a complete answer is not the upstream's answer for the question: "+o.Foreign, ctx)
	}
	// ---- cookies ---------------------------------------------------------------------
	if o.Replied && len(o.Cookie) >= 8 {
		if prev, changed := j.r.book.learn(q.ip, o.Cookie); changed {
			j.violate(si, "cookie/unstable", fmt.Sprintf("the server cookie for one (address, client cookie) changed: %x, earlier %x", o.Cookie, prev), ctx)
		}
		if len(o.Cookie) > 8 && !q.exempt {
			for _, oc := range j.r.clients {
				if oc == st.C {
					continue
				}
				for _, f := range j.r.forms {
					if k := j.r.book.get(clientIP(oc, f), o.Cookie[:8]); k != nil && len(k) > 8 && bytes.Equal(k[8:], o.Cookie[8:]) {
						j.violate(si, "cookie/shared-across-clients",
							fmt.Sprintf("client %s (%s) was given the server cookie of client %s: %x", st.C, q.ip, oc, o.Cookie), ctx)
					}
				}
			}
		}
	}
}

// storeVerdicts: the predicates on the limiter store across one call (or, for a call parked at the
// upstream, across its part above the limiter: seen = "parked").
func (j *judge) storeVerdicts(si int, q *request, o observation, seen string, before, after map[string]bucketObs,
	lenBefore, lenAfter int, isReplay, ranInline bool, inlinePaid int) {
	st := q.st
	own := st.C + "/" + st.F
	ctx := map[string]any{"seen": seen, "before": projString(before), "after": projString(after),
		"query": hex.EncodeToString(q.raw), "reply": hex.EncodeToString(o.Reply), "remote": q.addr.String(), "entry": st.Entry}
	if q.exempt {
		// ---- exempt origins: not limited, not recorded ---------------------------------
		if lenBefore != lenAfter || !sameProjection(before, after) {
			j.violate(si, "rl/exempt-touched-store", "a "+st.Ex+" request changed the limiter store", ctx)
		}
		if seen == "badcookie" || (seen == "silent" && j.b.EntryBurst == 0) {
			j.violate(si, "rl/exempt-limited", "a "+st.Ex+" request was limited ("+seen+")", ctx)
		}
		return
	}
	bb, ab := before[own], after[own]
	passThrough := isReplay && ranInline
	// ---- one token per question ------------------------------------------------------
	delta := 0
	switch {
	case bb.Present && ab.Present:
		delta = bb.Tok - ab.Tok
	case !bb.Present && ab.Present:
		delta = j.b.Burst - ab.Tok
		if ab.Tok > j.b.Burst || ab.Tok < j.b.Burst-1 {
			j.violate(si, "rl/new-bucket-not-full", fmt.Sprintf("a new bucket starts with %d tokens (burst %d)", ab.Tok, j.b.Burst), ctx)
		}
		if ab.Cookie != "" && len(q.cookie) < 8 {
			j.violate(si, "rl/new-bucket-remembers", "a new bucket remembers a cookie its client never sent: "+ab.Cookie, ctx)
		}
	}
	if ab.Present && (delta < 0 || delta > 1) {
		j.violate(si, "rl/charge", fmt.Sprintf("one question changed the client's bucket by %d tokens", -delta), ctx)
	}
	if isReplay && inlinePaid+delta > 1 {
		j.violate(si, "rl/double-charge", fmt.Sprintf("one question was charged %d tokens (inline pass %d + replay pass %d)", inlinePaid+delta, inlinePaid, delta), ctx)
	}
	if j.b.StoreCap > 0 && lenAfter > j.b.StoreCap {
		j.violate(si, "rl/store-over-capacity", fmt.Sprintf("the limiter store holds %d clients, its bound is %d", lenAfter, j.b.StoreCap), ctx)
	}
	if !ab.Present && seen != "silent" && !(isReplay && ranInline) && !(o.Handoff && !o.WirePath) {
		// the shim cannot see the bucket of a client that was just served: the projection is blind
		j.res.Count("projection_blind", 1)
	}
	if ab.Present && ab.Tok > j.b.Burst {
		j.violate(si, "rl/over-burst", fmt.Sprintf("bucket holds %d tokens, burst %d", ab.Tok, j.b.Burst), ctx)
	}
	// ---- within budget => served; over budget (no cookie) => nothing ---------------------
	silent := seen == "silent"
	entryCanDrop := j.b.EntryBurst > 0
	if silent && !entryCanDrop {
		if passThrough {
			j.violate(si, "rl/replay-dropped", "the replay pass of an admitted question was dropped", ctx)
		} else if !bb.Present || bb.Tok >= 1 {
			j.violate(si, "rl/refused-within-budget", fmt.Sprintf("a client within its budget (%s) got no reply", describe(bb)), ctx)
		}
		if o.TailDelta != 0 || lenBefore != lenAfter || !sameProjection(before, after) {
			j.violate(si, "rl/drop-left-trace", "a refused request changed later-visible state", ctx)
		}
	}
	// (an inline call whose packet the strict parser refuses is handed off before any handler ran)
	outright := o.Handoff && !o.WirePath
	if !passThrough && !outright && bb.Present && bb.Tok < 1 && len(q.cookie) < 8 {
		if !silent || o.TailDelta != 0 {
			j.violate(si, "rl/served-over-budget", "a cookie-less client with an empty bucket was served ("+seen+")", ctx)
		}
	}
	// ---- no call changes another client's bucket -----------------------------------------
	for _, k := range sortedKeys(before) {
		if k == own {
			continue
		}
		x, y := before[k], after[k]
		if x.Present && y.Present && (x.Tok != y.Tok || x.Cookie != y.Cookie) {
			j.violate(si, "rl/foreign-bucket-changed", fmt.Sprintf("a request of %s changed the bucket of %s: %s -> %s", own, k, describe(x), describe(y)), ctx)
		}
		if !x.Present && y.Present {
			j.violate(si, "rl/foreign-bucket-created", fmt.Sprintf("a request of %s created the bucket of %s", own, k), ctx)
		}
	}
	if ab.Present && ab.Cookie != "" {
		if raw, err := hex.DecodeString(ab.Cookie); err == nil && len(raw) >= 8 && len(q.cookie) >= 8 && !bytes.Equal(raw[:8], q.cookie[:8]) &&
			ab.Cookie != bb.Cookie {
			j.violate(si, "rl/remembered-foreign-cookie", "the bucket now remembers a cookie that is not for the client cookie sent: "+ab.Cookie, ctx)
		}
	}
	// ---- BADCOOKIE ---------------------------------------------------------------------------
	if seen == "badcookie" {
		if st.Proto != "udp" || len(q.cookie) < 8 || o.TailDelta != 0 {
			j.violate(si, "rl/badcookie-unsound", fmt.Sprintf("BADCOOKIE over %s, cookie sent %x, upstream asked %d times", st.Proto, q.cookie, o.TailDelta), ctx)
		}
		if len(o.Cookie) <= 8 {
			j.violate(si, "rl/badcookie-without-server-cookie", "BADCOOKIE does not carry a server cookie", ctx)
		} else if ab.Present && ab.Cookie != hex.EncodeToString(o.Cookie) {
			j.violate(si, "rl/badcookie-not-remembered", "the cookie handed out with BADCOOKIE is not the one remembered: "+ab.Cookie, ctx)
		}
	}
}

// entryVerdicts: the cache's per-entry limiter (cfg.RateLimit) -- one token per answered hit, nothing on an empty one.
func (j *judge) entryVerdicts(si int, q *request, o observation, before int, cached bool, inlinePaid int) (paid int) {
	if j.b.EntryBurst <= 0 || before < 0 {
		return 0
	}
	after := j.r.entryTokens(q.name)
	paid = before - after
	ctx := map[string]any{"seen": o.seen(), "entry_tokens_before": before, "entry_tokens_after": after, "cached_before": cached, "entry": q.st.Entry}
	if d := before - after; d < 0 || d > 1 {
		j.violate(si, "rl/entry-charge", fmt.Sprintf("one question changed its cache entry's limiter by %d tokens", -d), ctx)
	}
	if before-after == 1 && !o.Replied {
		j.violate(si, "rl/entry-charged-unanswered", "the entry limiter was charged for a question that got no reply ("+o.seen()+")", ctx)
	}
	if inlinePaid+paid > 1 {
		j.violate(si, "rl/entry-double-charge", fmt.Sprintf("one question cost its cache entry %d tokens (inline pass %d + replay pass %d)",
			inlinePaid+paid, inlinePaid, paid), ctx)
	}
	if cached && before == 0 && q.st.Ex != "internal" && o.Replied && o.Rcode == 0 {
		j.violate(si, "rl/entry-served-over-budget", "a cached answer was served although its entry limiter was empty", ctx)
	}
	// ---- C17: resolver-internal sub-queries are never subjected to client rate-limit policy ---------------
	if q.st.Ex == "internal" && before != after {
		j.violate(si, "c17/internal-charged/request", "an internal request was charged to the cache's per-entry client rate limiter", ctx)
	}
	if q.st.Ex == "internal" && !o.Replied && !o.Handoff {
		j.violate(si, "c17/internal-refused/request", fmt.Sprintf("an internal request got no answer: the cache's per-entry client rate "+
			"limiter (ratelimit = %d, %d tokens left, entry cached: %v) was applied to it", j.b.EntryBurst, before, cached), ctx)
	}
	return paid
}

// chaseVerdicts: a client's alias question makes the cache chase the CNAME target through its internal Queryer; that
// sub-query is not a client's (C17): the target entry's limiter neither refuses it nor is charged for it.
// tb / ta: tokens of the TARGET entry's limiter before / after the call (-1 unknown); tcached: the target was cached.
func (j *judge) chaseVerdicts(si int, q *request, o observation, target string, tb, ta int, tcached bool) {
	if j.b.EntryBurst <= 0 || target == "" {
		return
	}
	ctx := map[string]any{"seen": o.seen(), "alias": q.name, "target": target, "target_tokens_before": tb, "target_tokens_after": ta,
		"target_cached_before": tcached, "entry": q.st.Entry, "reply": hex.EncodeToString(o.Reply)}
	if o.Replied && o.Rcode == 0 && !o.TC && tcached && tb == 0 {
		j.res.Count("chase_on_empty", 1) // the state the guard exists for was driven
	}
	origin := "" // the headline cases are a client's question; a chase run for an internal request is booked apart
	if q.st.Ex == "internal" {
		origin = "-of-internal"
	}
	if o.Partial {
		if tcached && tb == 0 {
			j.violate(si, "c17/internal-refused/chase"+origin, fmt.Sprintf("the cache's internal chase of the CNAME target %s was refused by the target "+
				"entry's client rate limiter (ratelimit = %d, 0 tokens left): the client asking %s got the CNAME alone", target, j.b.EntryBurst, q.name), ctx)
		} else {
			j.violate(si, "rl/chase-incomplete", fmt.Sprintf("the answer to the alias question %s carries the CNAME alone (target %s: cached %v, %d tokens)",
				q.name, target, tcached, tb), ctx)
		}
	}
	if tb >= 0 && ta >= 0 && ta < tb {
		j.violate(si, "c17/internal-charged/chase"+origin, fmt.Sprintf("the cache's internal chase of the CNAME target %s was charged to the target "+
			"entry's client rate limiter (%d -> %d tokens) although no client asked for it", target, tb, ta), ctx)
	}
}

func describe(b bucketObs) string {
	if !b.Present {
		return "absent"
	}
	return fmt.Sprintf("%d tokens, cookie %q", b.Tok, b.Cookie)
}

func sameProjection(a, b map[string]bucketObs) bool {
	for k, x := range a {
		y := b[k]
		if x.Present != y.Present || (x.Present && (x.Tok != y.Tok || x.Cookie != y.Cookie)) {
			return false
		}
	}
	return true
}

func contractClass(c string) string {
	for _, k := range []struct{ has, cls string }{
		{"QR", "qr"}, {"ID ", "id"}, {"opcode", "opcode"}, {"question", "question"}, {"AD set", "ad"}, {"DNSSEC", "dnssec"},
		{"OPT in the reply", "opt"}, {"more than one OPT", "opt"}, {"server cookie returned although", "cookie-unasked"},
		{"returned against", "cookie-foreign"}, {"cookie option", "cookie"}, {"client subnet", "ecs"}, {"keepalive", "keepalive"},
		{"option ", "foreign-option"}, {"UDP reply", "size"}, {"does not decode", "decode"}, {"inline pass had already", "two-replies"}} {
		if bytes.Contains([]byte(c), []byte(k.has)) {
			return k.cls
		}
	}
	return "other"
}

// compare checks one completed call against the model; any difference is drift.
func (j *judge) compare(si int, st step, o observation, after map[string]bucketObs) {
	if j.drifted {
		return
	}
	if st.Exp != nil {
		want := st.Exp.Kind
		if want == "drop" || want == "edrop" {
			want = "silent"
		}
		if want != o.seen() {
			j.drift(si, "model %s, code %s", st.Exp.Kind, o.seen())
			return
		}
		if st.Exp.Tl != o.TailDelta {
			j.drift(si, "model asks the upstream %d times, code %d", st.Exp.Tl, o.TailDelta)
			return
		}
		if st.Exp.Part != o.Partial {
			j.drift(si, "model: reply lacks the chase target = %v, code %v", st.Exp.Part, o.Partial)
			return
		}
		if o.Replied {
			have := "-"
			if len(o.Cookie) >= 8 {
				have = ccName(o.Cookie)
			}
			want := st.Exp.Rcc
			if st.Exp.Rc == "-" {
				want = "-"
			}
			if want != have {
				j.drift(si, "model reply cookie %s, code %s", want, have)
				return
			}
		}
	}
	j.comparePost(si, st, after)
}

func (j *judge) comparePost(si int, st step, after map[string]bucketObs) {
	if st.Post == nil || j.drifted {
		return
	}
	for _, k := range sortedKeys(st.Post.Tok) {
		want := st.Post.Tok[k]
		have, ok := after[k]
		if !ok {
			continue
		}
		switch {
		case want < 0 && have.Present:
			j.drift(si, "model: %s absent, code: %s", k, describe(have))
		case want >= 0 && !have.Present:
			j.drift(si, "model: %s has %d tokens, code: absent", k, want)
		case want >= 0 && want != have.Tok:
			j.drift(si, "model: %s has %d tokens, code %d (%.5f)", k, want, have.Tok, have.Raw)
		case want >= 0 && st.Post.Ck[k] != j.r.cookieModelName(have.Cookie):
			j.drift(si, "model: %s remembers %s, code %s", k, st.Post.Ck[k], j.r.cookieModelName(have.Cookie))
		}
		if j.drifted {
			return
		}
	}
	for q, want := range st.Post.Etok {
		if q == "fresh" || j.b.EntryBurst == 0 {
			continue
		}
		if have := j.r.entryTokens(j.r.qname(q)); have >= 0 && have != want {
			j.drift(si, "model: entry limiter of %s has %d tokens, code %d", q, want, have)
			return
		}
	}
}

// checkConfigured: the bucket carries the configured rate (per minute) and burst.
func (j *judge) checkConfigured(si int, ip net.IP) {
	if j.checked {
		return
	}
	b := j.r.rl.VerifPeek(ip)
	if !b.Present {
		return
	}
	j.checked = true
	if b.Burst != j.b.Burst || b.PerMin < float64(j.b.Burst)-1e-6 || b.PerMin > float64(j.b.Burst)+1e-6 {
		j.violate(si, "rl/configured-rate", fmt.Sprintf("clientratelimit = %d per minute, the bucket refills %.4f per minute with burst %d", j.b.Burst, b.PerMin, b.Burst), nil)
	}
}

// runBehaviour replays one behaviour; forceMsg runs the decoded entry for every call
// (an inline call and its immediately following replay collapse into one ServeMsg).
func runBehaviour(res sink, book *cookieBook, b *behaviour, forceMsg bool) (recs []stepRecord, stalled bool, err error) {
	variant := "replay"
	if forceMsg {
		variant = "replay-msg-twin"
	}
	r, rerr := newRig(b.Burst, b.StoreCap, b.EntryBurst, b.Clients, b.Forms, book)
	if rerr != nil {
		return nil, false, rerr
	}
	r.setAliases(b.Aliases, b.AliasTarget)
	isAlias := map[string]bool{}
	for _, a := range b.Aliases {
		isAlias[a] = true
	}
	j := &judge{res: res, r: r, b: b, variant: variant, quiet: forceMsg}
	if !r.clientOnly {
		j.violate(0, "rl/not-client-only", "the limiter does not declare itself client-only: internal sub-pipelines would run it", nil)
	}
	recs = make([]stepRecord, len(b.Steps))
	inlinePaid := map[int]int{}
	inlineRan := map[int]bool{}
	inlineTail := map[int]int{}
	inlineEntryPaid := map[int]int{}
	skip := map[int]bool{} // twin: replay steps folded into their inline call
	overBudget := false
	t0 := time.Now()
	for si := range b.Steps {
		st := b.Steps[si]
		if time.Since(t0) > 3*time.Second {
			return recs, true, nil
		}
		// after a drift the model's expectations are no longer compared (judge.drift latches), but the
		// behaviour is still a sequence of real requests: the predicates keep being evaluated on it
		switch st.Op {
		case "tick":
			before := r.projection()
			r.rl.VerifAdvance(time.Duration(st.K) * (r.period + time.Millisecond))
			r.refillEntryLimiters()
			after := r.projection()
			for _, k := range sortedKeys(before) {
				x, y := before[k], after[k]
				if !x.Present {
					continue
				}
				want := min(b.Burst, x.Tok+st.K)
				if !y.Present || y.Tok != want || y.Cookie != x.Cookie {
					j.violate(si, "rl/refill", fmt.Sprintf("%d refill periods (%s each) took %s from %s to %s, want %d tokens",
						st.K, r.period, k, describe(x), describe(y), want), map[string]any{"before": projString(before), "after": projString(after)})
				}
			}
			j.comparePost(si, st, after)
			recs[si] = stepRecord{Seen: "tick", Proj: after, Valid: true}
		case "cleanup":
			before := r.projection()
			r.rl.VerifCleanup(time.Duration(st.K)*r.period - r.period/2)
			after := r.projection()
			for _, k := range sortedKeys(before) {
				x, y := before[k], after[k]
				if x.Present && y.Present && (x.Tok != y.Tok || x.Cookie != y.Cookie) {
					j.violate(si, "rl/cleanup-changed-bucket", fmt.Sprintf("Cleanup changed %s: %s -> %s", k, describe(x), describe(y)), nil)
				}
				if !x.Present && y.Present {
					j.violate(si, "rl/cleanup-created-bucket", "Cleanup created "+k, nil)
				}
			}
			j.comparePost(si, st, after)
			recs[si] = stepRecord{Seen: "cleanup", Proj: after, Valid: true}
		case "call":
			if st.Q != "fresh" && b.EntryBurst > 0 {
				if _, bad := r.entryLimiter(r.qname(st.Q)); bad == "collision" {
					return recs, false, fmt.Errorf("entry limiter pool collision")
				} else if bad != "" {
					j.violate(si, "rl/entry-configured-rate", bad, nil)
				}
			}
			eff := st
			folded := false
			if forceMsg && st.Entry != "msg" {
				eff.Entry = "msg"
				if st.Entry == "inline" && si+1 < len(b.Steps) && b.Steps[si+1].Op == "replay" && b.Steps[si+1].ID == st.ID {
					skip[si+1] = true
					folded = true
				}
			}
			q := r.build(eff, si+1)
			target, tb, tcached := "", -1, false
			if isAlias[st.Q] && b.EntryBurst > 0 {
				// the chase target's limiter is watched (and frozen) as well
				target = r.qname(b.AliasTarget)
				if _, bad := r.entryLimiter(target); bad == "collision" {
					return recs, false, fmt.Errorf("entry limiter pool collision")
				}
				tb, tcached = r.entryState(target)
			}
			before, lb := r.projection(), r.rl.VerifLen()
			eb, ecached := r.entryState(q.name)
			o := r.serve(q)
			after, la := r.projection(), r.rl.VerifLen()
			epaid := j.entryVerdicts(si, q, o, eb, ecached, 0)
			if target != "" {
				j.chaseVerdicts(si, q, o, target, tb, r.entryTokens(target), tcached)
				if !forceMsg {
					res.Count("alias_calls", 1)
				}
			}
			if o.Handoff {
				inlineEntryPaid[st.ID] = epaid
			}
			own := st.C + "/" + st.F
			if o.Handoff {
				inlineRan[st.ID] = o.WirePath
				inlineTail[st.ID] = o.TailDelta
				if before[own].Present && after[own].Present {
					inlinePaid[st.ID] = before[own].Tok - after[own].Tok
				} else if after[own].Present {
					inlinePaid[st.ID] = b.Burst - after[own].Tok
				}
				if o.Replied {
					j.violate(si, "c06/two-replies", "the inline pass wrote a reply and handed the query off as well", nil)
				}
			}
			j.verdicts(si, q, o, before, after, lb, la, false, false, 0)
			if !forceMsg && !q.exempt && len(b.Forms) > 1 && !overBudget {
				// observation (not a predicate of C06): tokens one ADDRESS has spent across its representations
				spent := 0
				for _, f := range b.Forms {
					if x := after[st.C+"/"+f]; x.Present {
						spent += b.Burst - x.Tok
					}
				}
				if spent > b.Burst {
					overBudget = true
					res.Count("address_over_budget", 1)
					res.Sample(map[string]any{"observation": "one address served beyond its budget through two representations",
						"behaviour": b.Name, "step": si, "client": st.C, "spent": spent, "burst": b.Burst, "store": projString(after)})
				}
			}
			if !q.exempt {
				j.checkConfigured(si, clientIP(st.C, st.F))
			}
			if !forceMsg {
				j.compare(si, st, o, after)
				if (st.Entry == "wire" || st.Entry == "inline") && o.WirePath {
					res.Count("wire_born", 1)
				}
				res.Count("seen_"+o.seen(), 1)
				res.Count("entry_"+st.Entry, 1)
			}
			recs[si] = stepRecord{Seen: o.seen(), Cookie: hex.EncodeToString(o.Cookie), Tail: o.TailDelta, Proj: after, Etok: r.entrySummary(), Valid: !folded}
			if folded {
				recs[si+1] = stepRecord{Seen: o.seen(), Cookie: hex.EncodeToString(o.Cookie), Tail: o.TailDelta, Proj: after, Etok: r.entrySummary(), Valid: true}
			}
		case "replay":
			if skip[si] {
				continue
			}
			before, lb := r.projection(), r.rl.VerifLen()
			eb, ecached := -1, false
			if pj := r.jobs[st.ID]; pj != nil {
				eb, ecached = r.entryState(pj.req.name)
			}
			o, q, ok := r.replay(st.ID)
			if !ok {
				if forceMsg {
					return recs, false, nil // the twin cannot follow a handoff that is not folded
				}
				j.drift(si, "model replays job %d, the code never handed it off", st.ID)
				continue
			}
			after, la := r.projection(), r.rl.VerifLen()
			j.entryVerdicts(si, q, o, eb, ecached, inlineEntryPaid[st.ID])
			j.verdicts(si, q, o, before, after, lb, la, true, inlineRan[st.ID], inlinePaid[st.ID])
			if !forceMsg {
				j.compare(si, st, o, after)
				res.Count("seen_"+o.seen(), 1)
				res.Count("entry_replay", 1)
			}
			recs[si] = stepRecord{Seen: o.seen(), Cookie: hex.EncodeToString(o.Cookie), Tail: o.TailDelta + inlineTail[st.ID], Proj: after, Etok: r.entrySummary(), Valid: true}
		default:
			return recs, false, fmt.Errorf("unknown op %q", st.Op)
		}
	}
	if j.drifted {
		return recs, false, errDrift
	}
	return recs, time.Since(t0) > 3*time.Second, nil
}

var errDrift = fmt.Errorf("drift")

// twinEligible: every handoff is replayed by the very next step (so a decoded call at the
// inline call's position is the same history).
func twinEligible(b *behaviour) bool {
	open := map[int]bool{}
	for i, st := range b.Steps {
		switch st.Op {
		case "call":
			if st.Entry == "inline" && st.Exp != nil && st.Exp.Kind == "handoff" {
				if i+1 >= len(b.Steps) || b.Steps[i+1].Op != "replay" || b.Steps[i+1].ID != st.ID {
					return false
				}
				open[st.ID] = true
			}
		case "replay":
			if !open[st.ID] {
				return false
			}
		}
	}
	return true
}

func TestReplay(t *testing.T) {
	var in replayInput
	vh.Input(t, &in)
	res := vh.NewResult()
	defer res.Write(t)
	doReplay(sink{res, ""}, in)
}

// TestAll runs the sequential replay, the gated schedules and (when asked) the slow refill in one process.
func TestAll(t *testing.T) {
	var in struct {
		Replay *replayInput `json:"replay"`
		Gated  *replayInput `json:"gated"`
		Refill *struct {
			PauseMs int `json:"pauseMs"`
		} `json:"refill"`
	}
	vh.Input(t, &in)
	res := vh.NewResult()
	defer res.Write(t)
	if in.Replay != nil {
		doReplay(sink{res, "replay_"}, *in.Replay)
	}
	if in.Gated != nil && res.NViolations() == 0 {
		doGated(sink{res, "gated_"}, *in.Gated)
	}
	if in.Refill != nil && res.NViolations() == 0 {
		runRefillSlow(sink{res, "refill_"}, in.Refill.PauseMs)
	}
}

func doReplay(res sink, in replayInput) {
	book := &cookieBook{}
	for bi := range in.Behaviours {
		b := &in.Behaviours[bi]
		recs, stalled, err := runBehaviour(res, book, b, false)
		if err != nil && err != errDrift {
			res.Skip("%s: %v", b.Name, err)
			continue
		}
		if stalled {
			res.Count("stalled", 1)
			continue
		}
		key := ""
		for _, st := range b.Steps {
			key += st.Label + ";"
		}
		res.Case(key)
		res.Count("behaviours", 1)
		res.Count("steps", len(b.Steps))
		if err == errDrift {
			res.Count("drifted", 1)
		}
		if bi < 3 {
			res.Sample(map[string]any{"behaviour": b.Name, "steps": len(b.Steps), "last": recs[len(recs)-1].Seen})
		}
		if !in.Twin || !twinEligible(b) {
			continue
		}
		// the entry does not change the outcome: the same history through ServeMsg only
		twin, tstalled, terr := runBehaviour(res, book, b, true)
		if terr != nil || tstalled {
			res.Count("twin_skipped", 1)
			continue
		}
		res.Count("twins", 1)
		for si := range recs {
			x, y := recs[si], twin[si]
			if !x.Valid || !y.Valid {
				continue
			}
			st := b.Steps[si]
			if x.Seen == "handoff" {
				// not an outcome yet: the replay step carries it.  A handoff the next step does not
				// replay (the model did not expect it) has no decoded counterpart from here on.
				if si+1 < len(b.Steps) && b.Steps[si+1].Op == "replay" && b.Steps[si+1].ID == st.ID {
					continue
				}
				break
			}
			diff := ""
			switch {
			case x.Seen != y.Seen:
				diff = fmt.Sprintf("entry %s: %s, decoded entry: %s", st.Entry, x.Seen, y.Seen)
			case x.Cookie != y.Cookie:
				diff = fmt.Sprintf("entry %s returns cookie %s, decoded entry %s", st.Entry, x.Cookie, y.Cookie)
			case x.Tail != y.Tail:
				diff = fmt.Sprintf("entry %s asks the upstream %d times, decoded entry %d times", st.Entry, x.Tail, y.Tail)
			case x.Etok != y.Etok:
				diff = fmt.Sprintf("per-entry limiters after entry %s: %s; after the decoded entry: %s", st.Entry, x.Etok, y.Etok)
			case !sameProjection(x.Proj, y.Proj):
				diff = fmt.Sprintf("limiter store after entry %s: %s; after the decoded entry: %s", st.Entry, projString(x.Proj), projString(y.Proj))
			}
			if diff != "" {
				j := &judge{res: res, r: nil, b: b, variant: "replay-vs-msg-twin"}
				j.violate(si, "rl/entry-changes-outcome", "the same request history gives a different outcome depending on the entry point: "+diff, nil)
				break
			}
		}
	}
}
