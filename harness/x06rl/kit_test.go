package x06rl

// X06RL: client rate limiting and DNS cookies -- the shared kit of the drivers.
//
// A rig is ONE real server: the default chain recovery .. cache with the
// scripted tail in the resolver's place (pipe.NewServer(cfg, tail,
// "failover")), ClientRateLimit = the model's Burst, RateLimit = the model's
// EntryBurst.  Every entry of the model is an entry point of that server:
//
//   msg     Server.ServeMsg with the library-decoded message on a plain transport double
//   wire    Server.ServeRaw on a strict-slot transport (server.VerifStrictJob)
//   inline  Server.ServeRawInline on a strict-slot transport; a false return is the handoff
//   replay  Server.ServeRawReplay on the SAME job and packet
//
// so consecutive requests of one behaviour hit the same limiter store through
// different code paths.  The limiter store is observed (never touched) through
// the overlay shim RateLimit.VerifPeek, time is moved by RateLimit.VerifAdvance
// (the real x/time/rate arithmetic with the limit and burst the code
// configured; only "now" moves).

import (
	"bytes"
	"context"
	"crypto/sha256"
	"encoding/hex"
	"fmt"
	"hash/fnv"
	"math"
	"net"
	"os"
	"sort"
	"strings"
	"sync"
	"sync/atomic"
	"time"

	"github.com/miekg/dns"
	"github.com/semihalev/sdns/middleware"
	"github.com/semihalev/sdns/middleware/cache"
	"github.com/semihalev/sdns/middleware/ratelimit"
	"github.com/semihalev/sdns/server"
	"github.com/semihalev/sdns/verifharness/pipe"
	"github.com/semihalev/sdns/verifharness/vh"
	"golang.org/x/time/rate"
)

const cookieSecret = "6c6f6f6b61686172646c6f6f6b6168617264"

// sink is the driver result with a counter prefix (several drivers may share one result file).
type sink struct {
	*vh.Result
	pfx string
}

func (s sink) Count(name string, n int) { s.Result.Count(s.pfx+name, n) }

// ---- model vocabulary -------------------------------------------------------

type modelRes struct {
	Kind string `json:"kind"` // answer | badcookie | drop | edrop | handoff
	Rc   string `json:"rc"`   // reply cookie: client ("-" none)
	Rcc  string `json:"rcc"`  //               client cookie value
	Tl   int    `json:"tl"`
	Chg  int    `json:"chg"`
	Tot  int    `json:"tot"`
	Ech  int    `json:"ech"`
	St   bool   `json:"st"`
	// the chase dimension (gap C17-r3-1): entry tokens charged to the internal chase sub-query, the reply lacks the
	// chase target, the chase met a cached target with an empty entry limiter
	Ich  int  `json:"ich"`
	Part bool `json:"part"`
	Cz   bool `json:"cz"`
}

type modelPost struct {
	Tok    map[string]int    `json:"tok"`    // "c1/v4" -> tokens, -1 = absent
	Ck     map[string]string `json:"ck"`     // "c1/v4" -> "c1/a" | "-"
	Cached []string          `json:"cached"` // cached questions
	Etok   map[string]int    `json:"etok"`
}

type step struct {
	Op     string     `json:"op"` // call | replay | tick | cleanup  (gated: start | release)
	P      int        `json:"p"`
	ID     int        `json:"id"`
	C      string     `json:"c"`
	F      string     `json:"f"`
	Proto  string     `json:"proto"`
	CC     string     `json:"cc"`
	SV     string     `json:"sv"`
	Q      string     `json:"q"`
	Entry  string     `json:"entry"`
	Ex     string     `json:"ex"`
	Odd    bool       `json:"odd"`
	K      int        `json:"k"`
	Parked bool       `json:"parked"` // gated: the model leaves the call parked at the upstream
	Exp    *modelRes  `json:"exp"`
	Post   *modelPost `json:"post"`
	Label  string     `json:"label"`
}

type behaviour struct {
	Name       string   `json:"name"`
	Burst      int      `json:"burst"`
	StoreCap   int      `json:"storeCap"`
	EntryBurst int      `json:"entryBurst"`
	MaxAge     int      `json:"maxAge"`
	Clients    []string `json:"clients"`
	Forms      []string `json:"forms"`
	Steps      []step   `json:"steps"`
	// Aliases: model questions the scripted upstream answers with a bare CNAME to AliasTarget (the cache completes the
	// answer by chasing the target through its internal Queryer)
	Aliases     []string `json:"aliases"`
	AliasTarget string   `json:"aliasTarget"`
}

// ---- addresses and cookies ------------------------------------------------------

func clientIndex(c string) int {
	var i int
	_, _ = fmt.Sscanf(c, "c%d", &i)
	return i
}

// clientIP is the address of a model client in the given representation:
// "v4" the 4-byte form, "v6m" the 16-byte v4-mapped form of the SAME address.
func clientIP(c, f string) net.IP {
	ip := net.IPv4(198, 51, 100, byte(10+clientIndex(c)))
	if f == "v6m" {
		return ip.To16()
	}
	return ip.To4()
}

func loopbackIP(c string, id int) net.IP {
	if id%3 == 0 {
		return net.ParseIP("::1")
	}
	return net.IPv4(127, 0, 0, byte(20+clientIndex(c))).To4()
}

// ccBytes is the client cookie of the model value: the SAME bytes for every
// client (the server half is what has to tell clients apart).
func ccBytes(cc string) []byte {
	switch cc {
	case "a":
		return []byte{0xa1, 0xa2, 0xa3, 0xa4, 0xa5, 0xa6, 0xa7, 0xa8}
	case "b":
		return []byte{0xb1, 0xb2, 0xb3, 0xb4, 0xb5, 0xb6, 0xb7, 0xb8}
	}
	return nil
}

func ccName(b []byte) string {
	for _, n := range []string{"a", "b"} {
		if len(b) >= 8 && bytes.Equal(b[:8], ccBytes(n)) {
			return n
		}
	}
	return "?"
}

// formulaCookie is what the model's <<client, cc>> stands for: the cookie
// internal/dnsutil.GenerateServerCookie documents (client cookie + SHA-256 over
// address text, client cookie text and secret).  Used only to seed "good"
// cookies before the server returned one and to name remembered cookies; the
// verdict predicates compare cookies the server itself returned.
func formulaCookie(ip net.IP, cc []byte) []byte {
	h := sha256.New()
	h.Write([]byte(ip.String()))
	h.Write([]byte(hex.EncodeToString(cc)))
	h.Write([]byte(cookieSecret))
	return append(append([]byte(nil), cc...), h.Sum(nil)...)
}

// cookieBook remembers every server cookie the server returned, per (address text, client cookie).
type cookieBook struct {
	mu sync.Mutex
	m  map[string][]byte
}

func (b *cookieBook) key(ip net.IP, cc []byte) string { return ip.String() + "|" + hex.EncodeToString(cc) }

func (b *cookieBook) get(ip net.IP, cc []byte) []byte {
	b.mu.Lock()
	defer b.mu.Unlock()
	return b.m[b.key(ip, cc)]
}

// learn records a returned cookie; it reports a previously returned, different cookie for the same key.
func (b *cookieBook) learn(ip net.IP, full []byte) (prev []byte, changed bool) {
	if len(full) < 8 {
		return nil, false
	}
	b.mu.Lock()
	defer b.mu.Unlock()
	if b.m == nil {
		b.m = map[string][]byte{}
	}
	k := b.key(ip, full[:8])
	if old, ok := b.m[k]; ok {
		return old, !bytes.Equal(old, full)
	}
	b.m[k] = append([]byte(nil), full...)
	return nil, false
}

// ---- the rig ------------------------------------------------------------------------

type pendingJob struct {
	job *server.VerifStrictJob
	raw []byte
	req *request
}

type rig struct {
	srv        *server.Server
	rl         *ratelimit.RateLimit
	cache      *cache.Cache
	tail       *pipe.Tail
	burst      int
	entryBurst int
	period     time.Duration
	tag        string
	book       *cookieBook
	clients    []string
	forms      []string
	clientOnly bool // the limiter declares itself client-only (kept out of internal sub-pipelines)

	mu      sync.Mutex
	hits    map[string]int // lower-case qname -> times the scripted upstream was asked
	jobs    map[int]*pendingJob
	fresh   atomic.Int64
	elim    map[string]*rate.Limiter // question name -> the entry limiter the cache charges
	elimQ   []string                 // those names, in order of first use
	names   map[string]string        // model question -> name of this rig
	slots   map[*rate.Limiter]bool   // pool slots taken by this rig's names
	elimOrg map[*rate.Limiter]rate.Limit

	// the chase dimension: model alias questions, their common target, and (lower-case) alias name -> target name
	aliases     map[string]bool
	aliasTarget string
	aliasNames  map[string]string

	// gating of the scripted upstream
	gated  bool
	gates  map[string]chan struct{} // lower-case qname -> release
	parked chan string
}

var rigSeq atomic.Int64

func newRig(burst, storeCap, entryBurst int, clients, forms []string, book *cookieBook) (*rig, error) {
	r := &rig{burst: burst, entryBurst: entryBurst, book: book, clients: clients, forms: forms,
		hits: map[string]int{}, names: map[string]string{}, slots: map[*rate.Limiter]bool{}, jobs: map[int]*pendingJob{}, elim: map[string]*rate.Limiter{}, elimOrg: map[*rate.Limiter]rate.Limit{},
		gates: map[string]chan struct{}{}, parked: make(chan string, 64)}
	r.tag = fmt.Sprintf("r%d", rigSeq.Add(1))
	r.period = time.Minute / time.Duration(burst)
	r.tail = &pipe.Tail{Respond: r.respond}
	cfg := pipe.BaseConfig()
	cfg.CookieSecret = cookieSecret
	if d := os.Getenv("VERIF_SCRATCH"); d != "" {
		cfg.Directory = d // keeps the blocklist updater's working directory out of the harness tree
	} else {
		cfg.Directory = os.TempDir()
	}
	cfg.ClientRateLimit = burst
	cfg.RateLimit = entryBurst
	srv, release := pipe.NewServer(cfg, r.tail, "failover")
	r.srv = srv
	r.rl, _ = middleware.Get("ratelimit").(*ratelimit.RateLimit)
	r.cache, _ = middleware.Get("cache").(*cache.Cache)
	release()
	if r.rl == nil || r.cache == nil {
		return nil, fmt.Errorf("pipeline has no ratelimit / cache handler")
	}
	if co, ok := interface{}(r.rl).(middleware.ClientOnly); ok && co.ClientOnly() {
		r.clientOnly = true
	}
	r.rl.VerifResetStore(storeCap)
	// the store keys of every address of the model, derived by the code itself, before any traffic
	for _, c := range clients {
		for _, f := range forms {
			r.rl.VerifKey(clientIP(c, f))
		}
	}
	return r, nil
}

func (r *rig) respond(_ context.Context, _ *middleware.Chain, req *dns.Msg) *dns.Msg {
	name := strings.ToLower(req.Question[0].Name)
	r.mu.Lock()
	r.hits[name]++
	gated := r.gated
	r.mu.Unlock()
	if gated {
		r.mu.Lock()
		g, ok := r.gates[name]
		if !ok {
			g = make(chan struct{})
			r.gates[name] = g
		}
		r.mu.Unlock()
		r.parked <- name
		<-g
	}
	m := new(dns.Msg)
	m.SetReply(req)
	m.RecursionAvailable = true
	r.mu.Lock()
	target, isAlias := r.aliasNames[name]
	r.mu.Unlock()
	if isAlias {
		// a bare CNAME: the cache has to chase the target itself (an internal sub-query through its Queryer)
		m.Answer = []dns.RR{&dns.CNAME{Hdr: dns.RR_Header{Name: req.Question[0].Name, Rrtype: dns.TypeCNAME, Class: dns.ClassINET, Ttl: 300},
			Target: target}}
		return m
	}
	m.Answer = upstreamAnswer(req.Question[0].Name)
	return m
}

// setAliases declares the alias questions of a behaviour (before any traffic).
func (r *rig) setAliases(aliases []string, target string) {
	r.mu.Lock()
	r.aliases, r.aliasTarget, r.aliasNames = map[string]bool{}, target, map[string]string{}
	for _, a := range aliases {
		r.aliases[a] = true
	}
	r.mu.Unlock()
	for _, a := range aliases {
		r.qname(a) // registers alias name -> target name
	}
}

// targetOf: the name the cache chases for an alias name of this rig ("" = not an alias).
func (r *rig) targetOf(name string) string {
	r.mu.Lock()
	defer r.mu.Unlock()
	return r.aliasNames[strings.ToLower(name)]
}

// aliasAnswer checks a complete reply to an alias question: the CNAME, then the upstream's answer for the target.
// partial = the CNAME alone (the chase of the target came back empty).
func aliasAnswer(name, target string, m *dns.Msg) (foreign string, partial bool) {
	if len(m.Answer) == 0 {
		return "no answer records for an alias question", false
	}
	c, ok := m.Answer[0].(*dns.CNAME)
	if !ok || !strings.EqualFold(c.Hdr.Name, name) || !strings.EqualFold(c.Target, target) {
		return "first answer record " + m.Answer[0].String() + " is not the alias' CNAME", false
	}
	if len(m.Answer) == 1 {
		return "", true
	}
	rest := m.Copy()
	rest.Answer = rest.Answer[1:]
	return answerIsOwn(target, rest), false
}

// isBig: names of the model's big class -- their answer (~90 A records, > 1232 bytes) fits no UDP client of the class.
func isBig(name string) bool { return strings.HasPrefix(strings.ToLower(name), "big") }

// upstreamAnswer is what the scripted upstream answers for a name: rdata = f(name).
func upstreamAnswer(name string) []dns.RR {
	h := fnv.New32a()
	h.Write([]byte(strings.ToLower(name)))
	v := h.Sum32()
	n := 1
	if isBig(name) {
		n = 90
	}
	out := make([]dns.RR, 0, n)
	for i := 0; i < n; i++ {
		out = append(out, &dns.A{Hdr: dns.RR_Header{Name: name, Rrtype: dns.TypeA, Class: dns.ClassINET, Ttl: 300},
			A: net.IPv4(10, byte(v>>16), byte(v>>8), byte(i+1)).To4()})
	}
	return out
}

// answerIsOwn: the answer section of a complete reply is the upstream's answer for the name asked, nothing else.
func answerIsOwn(name string, m *dns.Msg) string {
	want := upstreamAnswer(name)
	if len(m.Answer) != len(want) {
		return fmt.Sprintf("%d answer records, the upstream answered %d", len(m.Answer), len(want))
	}
	seen := map[string]bool{}
	for _, rr := range m.Answer {
		a, ok := rr.(*dns.A)
		if !ok || !strings.EqualFold(a.Hdr.Name, name) {
			return "answer record " + rr.String() + " is not for the question"
		}
		seen[a.A.String()] = true
	}
	for _, rr := range want {
		if !seen[rr.(*dns.A).A.String()] {
			return "answer lacks " + rr.String()
		}
	}
	return ""
}

func (r *rig) release(name string) {
	r.mu.Lock()
	g, ok := r.gates[name]
	if !ok {
		g = make(chan struct{})
		r.gates[name] = g
	}
	r.mu.Unlock()
	select {
	case <-g:
	default:
		close(g)
	}
}

func (r *rig) releaseAll() {
	r.mu.Lock()
	defer r.mu.Unlock()
	r.gated = false
	for _, g := range r.gates {
		select {
		case <-g:
		default:
			close(g)
		}
	}
}

func (r *rig) asked(name string) int {
	r.mu.Lock()
	defer r.mu.Unlock()
	n := r.hits[strings.ToLower(name)]
	if t, ok := r.aliasNames[strings.ToLower(name)]; ok {
		n += r.hits[strings.ToLower(t)] // an alias question may make the cache ask for its target as well
	}
	return n
}

// qname maps a model question to a name of this rig; "fresh" is a new name every time.
func (r *rig) qname(q string) string {
	if q == "fresh" {
		return fmt.Sprintf("f%d.%s.x06rl.test.", r.fresh.Add(1), r.tag)
	}
	r.mu.Lock()
	defer r.mu.Unlock()
	if n, ok := r.names[q]; ok {
		return n
	}
	// the per-entry limiters live in a process-wide pool of 997 slots keyed by the question's cache key: two
	// questions of one rig must not share a slot, so a name is salted until its slot is unused by this rig
	name := fmt.Sprintf("%s.%s.x06rl.test.", q, r.tag)
	if r.entryBurst > 0 {
		for salt := 1; salt < 50; salt++ {
			key := cache.CacheKey{Question: dns.Question{Name: name, Qtype: dns.TypeA, Qclass: dns.ClassINET}}.Hash()
			l := cache.VerifX06EntryLimiter(r.entryBurst, key)
			if l == nil || !r.slots[l] {
				r.slots[l] = true
				break
			}
			name = fmt.Sprintf("%s.s%d%s.x06rl.test.", q, salt, r.tag)
		}
	}
	r.names[q] = name
	if r.aliases[q] && r.aliasTarget != "" {
		// (r.mu is held; the target's own name is fixed first so both stay consistent)
		tn, ok := r.names[r.aliasTarget]
		if !ok {
			r.mu.Unlock()
			tn = r.qname(r.aliasTarget)
			r.mu.Lock()
		}
		r.aliasNames[strings.ToLower(name)] = tn
	}
	return name
}

// ---- the per-entry limiter of the cache (cfg.RateLimit) ------------------------------------

// entryLimiter finds the limiter an entry for `name` charges and freezes its
// real-time refill (the configured rate is per SECOND; the model's clock only
// moves at Tick), after checking it carries the configured rate and burst.
func (r *rig) entryLimiter(name string) (*rate.Limiter, string) {
	if r.entryBurst <= 0 {
		return nil, ""
	}
	if l, ok := r.elim[name]; ok {
		return l, ""
	}
	key := cache.CacheKey{Question: dns.Question{Name: name, Qtype: dns.TypeA, Qclass: dns.ClassINET}}.Hash()
	l := cache.VerifX06EntryLimiter(r.entryBurst, key)
	if l == nil {
		return nil, ""
	}
	for _, o := range r.elim {
		if o == l {
			return nil, "collision"
		}
	}
	bad := ""
	org, seen := r.elimOrg[l]
	if !seen {
		org = l.Limit()
		if org == 0 {
			// frozen by an earlier rig of this process: the pool is process-wide
			org = rate.Limit(r.entryBurst)
		}
		r.elimOrg[l] = org
		if l.Burst() != r.entryBurst || math.Abs(float64(org)-float64(r.entryBurst)) > 1e-9 {
			bad = fmt.Sprintf("entry limiter has burst %d rate %.3f/s, configured ratelimit = %d", l.Burst(), float64(org), r.entryBurst)
		}
	}
	now := time.Now()
	l.SetLimitAt(now, org)
	l.SetLimitAt(now.Add(5*time.Second), org) // full
	l.SetLimit(0)                             // frozen
	r.elim[name] = l
	r.elimQ = append(r.elimQ, name)
	return l, bad
}

func (r *rig) refillEntryLimiters() {
	for _, l := range r.elim {
		org := r.elimOrg[l]
		now := time.Now()
		l.SetLimitAt(now, org)
		l.SetLimitAt(now.Add(5*time.Second), org)
		l.SetLimit(0)
	}
}

// entryState: tokens of the limiter of `name` (-1 unknown) and whether the cache holds an entry for it.
func (r *rig) entryState(name string) (int, bool) {
	if r.entryBurst <= 0 {
		return -1, false
	}
	key := cache.CacheKey{Question: dns.Question{Name: name, Qtype: dns.TypeA, Qclass: dns.ClassINET}}.Hash()
	return r.entryTokens(name), r.cache.VerifX06LimiterOf(key) != nil
}

// entrySummary: the tokens of the per-entry limiters in use, by the model's question name.
func (r *rig) entrySummary() string {
	if r.entryBurst <= 0 {
		return ""
	}
	names := append([]string(nil), r.elimQ...)
	sort.Strings(names)
	s := ""
	for _, n := range names {
		s += fmt.Sprintf("%s=%d ", n[:strings.Index(n, ".")], r.entryTokens(n))
	}
	return s
}

func (r *rig) entryTokens(name string) int {
	l := r.elim[name]
	if l == nil {
		return -1
	}
	return int(math.Floor(l.TokensAt(time.Now()) + 1e-3))
}

// ---- requests ---------------------------------------------------------------------------

type request struct {
	st      step
	id      uint16
	name    string
	ip      net.IP
	addr    net.Addr
	raw     []byte
	hadOPT  bool
	advSize int
	cookie  []byte // cookie option payload sent (nil = none)
	intern  bool   // the transport reports Internal()
	exempt  bool
}

type internalSink struct{ *pipe.Sink }

func (internalSink) Internal() bool { return true }

func (r *rig) build(st step, seq int) *request {
	q := &request{st: st, name: r.qname(st.Q)}
	q.id = uint16(0x1000 + (seq*7919)%0xe000)
	q.ip = clientIP(st.C, st.F)
	port := 20000 + seq%20000
	switch st.Ex {
	case "loopback":
		q.ip = loopbackIP(st.C, st.ID)
		q.exempt = true
	case "internal":
		q.exempt = true
		if st.ID%2 == 0 {
			// the sentinel address of synthesised internal queries
			q.ip = net.IPv4(127, 0, 0, 255)
			port = 0
		} else {
			// the supported channel: a transport that reports Internal(), whatever its address
			q.intern = true
		}
	}
	if st.Proto == "tcp" {
		q.addr = &net.TCPAddr{IP: q.ip, Port: port}
	} else {
		q.addr = &net.UDPAddr{IP: q.ip, Port: port}
	}
	m := new(dns.Msg)
	m.Id = q.id
	m.RecursionDesired = true
	m.Question = []dns.Question{{Name: q.name, Qtype: dns.TypeA, Qclass: dns.ClassINET}}
	var opts []dns.EDNS0
	switch {
	case st.CC == "short":
		q.cookie = []byte{0x51, 0x52, 0x53, 0x54}
	case ccBytes(st.CC) != nil:
		cc := ccBytes(st.CC)
		switch st.SV {
		case "bare":
			q.cookie = append([]byte(nil), cc...)
		case "good":
			if k := r.book.get(q.ip, cc); k != nil {
				q.cookie = append([]byte(nil), k...)
			} else {
				q.cookie = formulaCookie(q.ip, cc)
			}
		case "bad":
			// another client's server cookie for the same client cookie when one is known, garbage otherwise
			q.cookie = nil
			for _, oc := range r.clients {
				if oc == st.C {
					continue
				}
				if k := r.book.get(clientIP(oc, st.F), cc); k != nil && seq%2 == 0 {
					q.cookie = append([]byte(nil), k...)
					break
				}
			}
			if q.cookie == nil {
				// a server half that is not ours, of every legal length class (8..32 bytes) and a truncated one
				n := []int{32, 4, 8, 17}[(seq/2)%4]
				q.cookie = append(append([]byte(nil), cc...), bytes.Repeat([]byte{byte(0x30 + seq%7)}, n)...)
			}
		}
	}
	if q.cookie != nil {
		opts = append(opts, &dns.EDNS0_COOKIE{Code: dns.EDNS0COOKIE, Cookie: hex.EncodeToString(q.cookie)})
	}
	if st.Odd {
		opts = append(opts,
			&dns.EDNS0_SUBNET{Code: dns.EDNS0SUBNET, Family: 1, SourceNetmask: 24, Address: net.IPv4(203, 0, 113, 0).To4()},
			&dns.EDNS0_LOCAL{Code: 65001, Data: []byte{0xde, 0xad, 0x01}},
			&dns.EDNS0_PADDING{Padding: make([]byte, 5)})
	}
	// UDP clients of the big class speak plain DNS: no OPT, 512 bytes
	plain := isBig(q.name) && st.Proto == "udp"
	if !plain && (len(opts) > 0 || seq%2 == 0) {
		o := &dns.OPT{Hdr: dns.RR_Header{Name: ".", Rrtype: dns.TypeOPT}}
		q.advSize = []int{1232, 4096, 512, 900}[seq%4]
		o.SetUDPSize(uint16(q.advSize))
		o.Option = opts
		m.Extra = append(m.Extra, o)
		q.hadOPT = true
	}
	q.raw, _ = m.Pack()
	return q
}

// ---- observations --------------------------------------------------------------------------

type bucketObs struct {
	Present bool
	Tok     int
	Raw     float64
	Cookie  string
}

type observation struct {
	Replied   bool
	NWrites   int
	Rcode     int
	Cookie    []byte
	Handoff   bool
	TailDelta int
	WirePath  bool
	Contract  []string // C06 predicates that are false on the reply
	Foreign   string   // a complete NOERROR reply whose answer is not the upstream's answer for the question
	TC        bool
	Reply     []byte
	Partial   bool // a complete NOERROR reply to an alias question that carries the CNAME alone
}

func (o observation) seen() string {
	switch {
	case o.Handoff:
		return "handoff"
	case !o.Replied:
		return "silent"
	case o.Rcode == dns.RcodeBadCookie:
		return "badcookie"
	case o.Rcode == dns.RcodeSuccess && o.TC:
		return "tc"
	case o.Rcode == dns.RcodeSuccess:
		return "answer"
	}
	return "rcode-" + dns.RcodeToString[o.Rcode]
}

func (r *rig) peek(c, f string) bucketObs {
	b := r.rl.VerifPeek(clientIP(c, f))
	return bucketObs{Present: b.Present, Tok: int(math.Floor(b.Tokens + 1e-3)), Raw: b.Tokens, Cookie: b.Cookie}
}

func (r *rig) projection() map[string]bucketObs {
	out := map[string]bucketObs{}
	for _, c := range r.clients {
		for _, f := range r.forms {
			out[c+"/"+f] = r.peek(c, f)
		}
	}
	return out
}

// cookieModelName names a remembered cookie string the way the model does ("c1/a", "-"; "?..." unknown).
func (r *rig) cookieModelName(s string) string {
	if s == "" {
		return "-"
	}
	raw, err := hex.DecodeString(s)
	if err != nil || len(raw) < 8 {
		return "?" + s
	}
	cc := ccName(raw)
	for _, c := range r.clients {
		for _, f := range r.forms {
			ip := clientIP(c, f)
			if k := r.book.get(ip, raw[:8]); k != nil && bytes.Equal(k, raw) {
				return c + "/" + cc
			}
			if bytes.Equal(formulaCookie(ip, raw[:8]), raw) {
				return c + "/" + cc
			}
		}
	}
	return "?" + s
}

// serve runs one entry-point call and observes it.
func (r *rig) serve(q *request) observation {
	var o observation
	before := r.asked(q.name)
	var writes [][]byte
	switch q.st.Entry {
	case "msg":
		m := new(dns.Msg)
		if err := m.Unpack(q.raw); err != nil {
			panic("harness packet does not decode: " + err.Error())
		}
		sink := &pipe.Sink{Remote: q.addr}
		if q.intern {
			r.srv.ServeMsg(context.Background(), internalSink{sink}, m)
		} else {
			r.srv.ServeMsg(context.Background(), sink, m)
		}
		writes = sink.Writes
	case "wire":
		job := &server.VerifStrictJob{Remote: q.addr}
		r.srv.ServeRaw(job, q.raw, time.Now())
		writes = job.Writes
		o.WirePath = job.VerifTookWirePath()
	case "inline":
		job := &server.VerifStrictJob{Remote: q.addr}
		handled := r.srv.ServeRawInline(job, q.raw, time.Now())
		writes = job.Writes
		o.WirePath = job.VerifTookWirePath()
		if !handled {
			o.Handoff = true
			r.mu.Lock()
			r.jobs[q.st.ID] = &pendingJob{job: job, raw: q.raw, req: q}
			r.mu.Unlock()
		}
	default:
		panic("unknown entry " + q.st.Entry)
	}
	r.finishObs(&o, q, writes, before)
	return o
}

// replay finishes a handed-off job on its own transport and packet.
func (r *rig) replay(id int) (observation, *request, bool) {
	r.mu.Lock()
	pj := r.jobs[id]
	delete(r.jobs, id)
	r.mu.Unlock()
	if pj == nil {
		return observation{}, nil, false
	}
	var o observation
	before := r.asked(pj.req.name)
	n0 := len(pj.job.Writes)
	r.srv.ServeRawReplay(pj.job, pj.raw, time.Now())
	o.WirePath = pj.job.VerifTookWirePath()
	r.finishObs(&o, pj.req, pj.job.Writes[n0:], before)
	if n0 > 0 {
		o.Contract = append(o.Contract, "the inline pass had already written a reply for a query it handed off")
	}
	return o, pj.req, true
}

func (r *rig) finishObs(o *observation, q *request, writes [][]byte, tailBefore int) {
	o.TailDelta = r.asked(q.name) - tailBefore
	o.NWrites = len(writes)
	if len(writes) == 0 {
		return
	}
	o.Replied = true
	o.Reply = writes[len(writes)-1]
	m := new(dns.Msg)
	if err := m.Unpack(o.Reply); err != nil {
		o.Contract = append(o.Contract, "reply does not decode: "+err.Error())
		return
	}
	o.Rcode = m.Rcode
	o.TC = m.Truncated
	if m.Rcode == dns.RcodeSuccess && !m.Truncated {
		if t := r.targetOf(q.name); t != "" {
			o.Foreign, o.Partial = aliasAnswer(q.name, t, m)
		} else {
			o.Foreign = answerIsOwn(q.name, m)
		}
	}
	o.Contract = append(o.Contract, contract(q, m, len(o.Reply))...)
	if opt := m.IsEdns0(); opt != nil {
		for _, e := range opt.Option {
			if c, ok := e.(*dns.EDNS0_COOKIE); ok {
				o.Cookie, _ = hex.DecodeString(c.Cookie)
			}
		}
	}
}

// contract evaluates the C06 reply contract on one reply (nil = holds).
func contract(q *request, m *dns.Msg, size int) []string {
	var bad []string
	if !m.Response {
		bad = append(bad, "QR clear")
	}
	if m.Id != q.id {
		bad = append(bad, fmt.Sprintf("ID %d, query had %d", m.Id, q.id))
	}
	if m.Opcode != dns.OpcodeQuery {
		bad = append(bad, "opcode not echoed")
	}
	if len(m.Question) != 1 || !strings.EqualFold(m.Question[0].Name, q.name) || m.Question[0].Qtype != dns.TypeA || m.Question[0].Qclass != dns.ClassINET {
		bad = append(bad, "question not echoed")
	}
	if m.AuthenticatedData {
		bad = append(bad, "AD set although the query set neither DO nor AD")
	}
	for _, rr := range append(append([]dns.RR{}, m.Answer...), m.Ns...) {
		switch rr.Header().Rrtype {
		case dns.TypeRRSIG, dns.TypeNSEC, dns.TypeNSEC3:
			bad = append(bad, "DNSSEC record without DO")
		}
	}
	opt := m.IsEdns0()
	if opt != nil && !q.hadOPT {
		bad = append(bad, "OPT in the reply, none in the query")
	}
	nopt := 0
	for _, rr := range m.Extra {
		if rr.Header().Rrtype == dns.TypeOPT {
			nopt++
		}
	}
	if nopt > 1 {
		bad = append(bad, "more than one OPT")
	}
	if opt != nil {
		ncookie := 0
		for _, e := range opt.Option {
			switch v := e.(type) {
			case *dns.EDNS0_COOKIE:
				ncookie++
				raw, err := hex.DecodeString(v.Cookie)
				switch {
				case err != nil:
					bad = append(bad, "cookie option is not hex")
				case len(q.cookie) < 8:
					bad = append(bad, "server cookie returned although the query sent no (usable) client cookie")
				case len(raw) < 8 || !bytes.Equal(raw[:8], q.cookie[:8]):
					bad = append(bad, fmt.Sprintf("cookie %x returned against the client cookie %x", raw, q.cookie[:8]))
				}
			case *dns.EDNS0_SUBNET:
				bad = append(bad, "client subnet reflected")
			case *dns.EDNS0_TCP_KEEPALIVE:
				bad = append(bad, "keepalive in the reply, none asked")
			default:
				bad = append(bad, fmt.Sprintf("option %d in the reply (never asked for)", e.Option()))
			}
		}
		if ncookie > 1 {
			bad = append(bad, "more than one cookie option")
		}
	}
	if _, udp := q.addr.(*net.UDPAddr); udp && q.st.Ex != "internal" {
		limit := 512
		if q.hadOPT {
			adv := q.advSize
			if adv > 1232 {
				adv = 1232
			}
			if adv > limit {
				limit = adv
			}
		}
		if size > limit && !m.Truncated {
			bad = append(bad, fmt.Sprintf("UDP reply of %d bytes, limit %d", size, limit))
		}
	}
	return bad
}

func sortedKeys[V any](m map[string]V) []string {
	out := make([]string, 0, len(m))
	for k := range m {
		out = append(out, k)
	}
	sort.Strings(out)
	return out
}
