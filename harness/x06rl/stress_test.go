package x06rl

// code -> spec: free-running concurrency.  A few goroutines fire requests of two
// clients at one real server through every entry point at once (cookies of every
// kind, both transports, inline passes whose replay comes later).  Every call
// logs an invocation line before it starts and a response line after it
// returned, both stamped under one harness-side lock, so the line order respects
// real time; the quiescent limiter store closes each round.  TLC validates the
// log against Trace_RateLimit.tla (RateLimit.tla with every interleaving of the
// code's atomic steps as silent moves): acceptance = the history is linearizable
// with respect to the model, with every invariant holding on the way.
//
// Separately, TestRefillSlow watches a real bucket refill in real time.

import (
	"encoding/hex"
	"encoding/json"
	"fmt"
	"math/rand"
	"os"
	"sync"
	"testing"
	"time"

	"github.com/semihalev/sdns/verifharness/vh"
)

type stressInput struct {
	Rounds   int    `json:"rounds"`
	Procs    int    `json:"procs"`
	Ops      int    `json:"ops"`
	Burst    int    `json:"burst"`
	TraceOut string `json:"traceOut"`
}

type tracer struct {
	mu    sync.Mutex
	lines []map[string]any
	nid   int
	open  int // calls in flight
	over  int // invocations logged while another call was in flight
}

func (t *tracer) invCall(p int, st *step) {
	t.mu.Lock()
	defer t.mu.Unlock()
	t.nid++
	st.ID = t.nid
	if t.open > 0 {
		t.over++
	}
	t.open++
	t.lines = append(t.lines, map[string]any{"ev": "inv", "op": "call", "p": p, "id": st.ID, "c": st.C, "f": st.F, "proto": st.Proto,
		"cc": st.CC, "sv": st.SV, "q": st.Q, "entry": st.Entry, "ex": st.Ex, "odd": st.Odd})
}

func (t *tracer) invReplay(p, id int) {
	t.mu.Lock()
	defer t.mu.Unlock()
	if t.open > 0 {
		t.over++
	}
	t.open++
	t.lines = append(t.lines, map[string]any{"ev": "inv", "op": "replay", "p": p, "id": id, "c": "-", "f": "-", "proto": "-",
		"cc": "none", "sv": "bare", "q": "-", "entry": "replay", "ex": "none", "odd": false})
}

func (t *tracer) res(p int, o observation, r *rig) {
	rc, rcc := "-", "-"
	if o.Replied && len(o.Cookie) >= 8 {
		// named the way the model names cookies: whose server cookie it is, for which client cookie
		rc, rcc = "?", ccName(o.Cookie)
		if n := r.cookieModelName(hex.EncodeToString(o.Cookie)); len(n) > 2 && n[0] != '?' {
			rc = n[:len(n)-2]
		}
	}
	t.mu.Lock()
	defer t.mu.Unlock()
	t.open--
	line := map[string]any{"ev": "res", "p": p, "kind": o.seen(), "tl": o.TailDelta}
	line["rc"], line["rcc"] = rc, rcc
	t.lines = append(t.lines, line)
}

func TestStress(t *testing.T) {
	var in stressInput
	vh.Input(t, &in)
	res := vh.NewResult()
	defer res.Write(t)
	runStress(t, sink{res, ""}, in)
}

func runStress(t *testing.T, res sink, in stressInput) {
	rnd := rand.New(rand.NewSource(vh.Seed()*7919 + 17))
	book := &cookieBook{}
	clients, forms := []string{"c1", "c2"}, []string{"v4"}
	var all []map[string]any
	for round := 0; round < in.Rounds; round++ {
		r, err := newRig(in.Burst, 4, 0, clients, forms, book)
		if err != nil {
			res.Skip("stress rig: %v", err)
			return
		}
		tr := &tracer{}
		tr.lines = append(tr.lines, map[string]any{"ev": "Reset"})
		b := &behaviour{Name: fmt.Sprintf("stress-%d", round), Burst: in.Burst, StoreCap: 4, Clients: clients, Forms: forms}
		j := &judge{res: res, r: r, b: b, variant: "stress"}
		// the plans are drawn up front (one RNG), the goroutines only execute
		plans := make([][]step, in.Procs)
		for p := range plans {
			for k := 0; k < in.Ops; k++ {
				st := step{Op: "call", P: p + 1, C: clients[rnd.Intn(2)], F: "v4", Proto: []string{"udp", "udp", "tcp"}[rnd.Intn(3)],
					Q: "fresh", Entry: []string{"msg", "wire", "inline"}[rnd.Intn(3)], Ex: "none", CC: "none", SV: "bare"}
				if rnd.Intn(4) > 0 {
					st.CC = []string{"a", "b"}[rnd.Intn(2)]
					st.SV = []string{"bare", "good", "good", "bad"}[rnd.Intn(4)]
				}
				st.Label = fmt.Sprintf("%s/%s/%s/%s%s", st.C, st.Proto, st.Entry, st.CC, st.SV)
				plans[p] = append(plans[p], st)
			}
		}
		b.Steps = nil
		for _, pl := range plans {
			b.Steps = append(b.Steps, pl...)
		}
		var wg sync.WaitGroup
		start := make(chan struct{})
		var seq sync.Mutex
		nseq := 0
		for p := range plans {
			wg.Add(1)
			go func(p int) {
				defer wg.Done()
				lr := rand.New(rand.NewSource(int64(round*100 + p)))
				<-start
				var owed []int
				flush := func() {
					for _, id := range owed {
						tr.invReplay(p+1, id)
						o, q, ok := r.replay(id)
						if !ok {
							panic("stress: lost a handed-off job")
						}
						tr.res(p+1, o, r)
						j.replyVerdicts(0, q, o)
					}
					owed = nil
				}
				for k := range plans[p] {
					st := plans[p][k]
					tr.invCall(p+1, &st)
					seq.Lock()
					nseq++
					n := nseq
					seq.Unlock()
					q := r.build(st, round*1000+n)
					o := r.serve(q)
					tr.res(p+1, o, r)
					j.replyVerdicts(0, q, o)
					if o.Handoff {
						owed = append(owed, st.ID)
					}
					if len(owed) > 0 && lr.Intn(2) == 0 {
						flush()
					}
				}
				flush()
			}(p)
		}
		t0 := time.Now()
		close(start)
		wg.Wait()
		if time.Since(t0) > 4*time.Second {
			res.Count("stalled_rounds", 1) // real-time refill may have leaked into the round: not recorded
			continue
		}
		end := map[string]any{"ev": "end"}
		tok, ck := map[string]int{}, map[string]string{}
		for k, bo := range r.projection() {
			tok[k], ck[k] = -1, "-"
			if bo.Present {
				tok[k], ck[k] = bo.Tok, r.cookieModelName(bo.Cookie)
			}
		}
		end["tok"], end["ck"] = tok, ck
		tr.lines = append(tr.lines, end)
		all = append(all, tr.lines...)
		res.Count("rounds", 1)
		res.Count("calls", len(tr.lines)/2)
		res.Count("overlapping_calls", tr.over)
		res.Case(fmt.Sprintf("stress-round-%d-%d", vh.Seed(), round))
	}
	if in.TraceOut != "" {
		f, err := os.Create(in.TraceOut)
		if err != nil {
			t.Fatalf("trace file: %v", err)
		}
		enc := json.NewEncoder(f)
		for _, l := range all {
			_ = enc.Encode(l)
		}
		_ = f.Close()
		res.Count("trace_lines", len(all))
	}
}

// TestRefillSlow: a real bucket, the real clock.  clientratelimit = 60 is one
// token per second with a burst of 60: the bucket is drained, and after a pause
// of d seconds the client must get at least floor(d)-1 and at most ceil(d')+1
// further answers (d' measured around the burst), and never more than the burst
// after a long pause.
func TestRefillSlow(t *testing.T) {
	var in struct {
		PauseMs int `json:"pauseMs"`
	}
	vh.Input(t, &in)
	res := vh.NewResult()
	defer res.Write(t)
	runRefillSlow(sink{res, ""}, in.PauseMs)
}

func runRefillSlow(res sink, pauseMs int) {
	const burst = 60
	book := &cookieBook{}
	r, err := newRig(burst, 0, 0, []string{"c1", "c2"}, []string{"v4"}, book)
	if err != nil {
		res.Skip("refill rig: %v", err)
		return
	}
	b := &behaviour{Name: "refill-slow", Burst: burst, Clients: r.clients, Forms: r.forms}
	j := &judge{res: res, r: r, b: b, variant: "refill-slow"}
	n := 0
	fire := func(c string, max int) int {
		served := 0
		for i := 0; i < max; i++ {
			n++
			st := step{Op: "call", C: c, F: "v4", Proto: "udp", CC: "none", SV: "bare", Q: "fresh", Ex: "none",
				Entry: []string{"msg", "wire", "inline"}[n%3], ID: n}
			q := r.build(st, n)
			o := r.serve(q)
			if o.Handoff {
				o, _, _ = r.replay(st.ID)
			}
			j.replyVerdicts(0, q, o)
			if o.Replied {
				served++
			} else {
				break
			}
		}
		return served
	}
	t0 := time.Now()
	first := fire("c1", 3*burst)
	drain := time.Since(t0)
	lo, hi := burst, burst+int(drain.Seconds())+2
	if first < lo || first > hi {
		res.Violate("rl/slow-burst", fmt.Sprintf("a fresh client was served %d queries in a row within %s; clientratelimit = %d per minute allows %d..%d",
			first, drain, burst, lo, hi), map[string]any{"driver": "refill-slow", "served": first})
	}
	tEmpty := time.Now()
	time.Sleep(time.Duration(pauseMs) * time.Millisecond)
	waited := time.Since(tEmpty)
	second := fire("c1", 3*burst)
	total := time.Since(tEmpty)
	lo2, hi2 := int(waited.Seconds())-1, int(total.Seconds())+2
	if second < lo2 || second > hi2 {
		res.Violate("rl/slow-refill", fmt.Sprintf("after draining the bucket and pausing %s the client was served %d more queries; "+
			"one token per second allows %d..%d", waited, second, lo2, hi2), map[string]any{"driver": "refill-slow", "served": second})
	}
	// the other client was untouched by all this
	other := fire("c2", 5)
	if other != 5 {
		res.Violate("rl/slow-isolation", fmt.Sprintf("client c2 was served %d of 5 queries while only c1 had spent its budget", other),
			map[string]any{"driver": "refill-slow"})
	}
	res.Count("slow_first", first)
	res.Count("slow_second", second)
	res.Case("refill-slow")
}
