package c11eng

// C11, engine tier: TLC-enumerated upstream fault scripts (tla/UpFault) played
// by two authkit servers per zone against the REAL full pipeline (default chain
// incl. cache and resolver) started on real loopback UDP + TCP sockets with a
// one-deep ingress queue.  Per script: duplicate and distinct client queries in
// flight over UDP and TCP, plus clients that disconnect right after asking.
// Oracle (C11): every admitted query of a client that stayed gets exactly one
// reply, never two, no later than querytimeout + margin; the reply is its own
// (id, question) and is either the truth or SERVFAIL; afterwards the server is
// quiescent (Quiesced, slabs, tokens, resolver slots, goroutines) and still
// resolves.

import (
	"context"
	"encoding/binary"
	"errors"
	"fmt"
	"io"
	"net"
	"os"
	"reflect"
	"runtime"
	"sort"
	"strconv"
	"strings"
	"sync"
	"sync/atomic"
	"testing"
	"time"

	"github.com/miekg/dns"
	"github.com/prometheus/client_golang/prometheus"
	"github.com/semihalev/sdns/config"
	"github.com/semihalev/sdns/middleware"
	"github.com/semihalev/sdns/server"
	"github.com/semihalev/sdns/verifharness/authkit"
	"github.com/semihalev/sdns/verifharness/pipe"
	"github.com/semihalev/sdns/verifharness/vh"
)

type script struct {
	A []string `json:"A"`
	B []string `json:"B"`
}

type input struct {
	Scripts        []script `json:"scripts"`
	QueryTimeoutMs int      `json:"queryTimeoutMs"`
	MarginMs       int      `json:"marginMs"`
	UpTimeoutMs    int      `json:"upTimeoutMs"`
	Batch          int      `json:"batch"`
	Workers        int      `json:"workers"`
	Queue          int      `json:"queue"`
	MaxConcurrent  int      `json:"maxConcurrent"`
	Load           int      `json:"load"`
}

var truthIP = net.IPv4(10, 11, 12, 13)

// faultPlayer is the SetHook of one of the two servers.
type faultPlayer struct {
	label   string
	mu      sync.Mutex
	scripts map[string][]string // zone -> this server's per-UDP-attempt faults
	udpN    map[string]int      // qname/type -> UDP attempts seen
	pending map[string]string   // qname/type -> what the TCP retry must do
	upTO    time.Duration
	played  map[string]int
}

func zoneOf(name string) string {
	name = strings.ToLower(name)
	labels := dns.SplitDomainName(name)
	if len(labels) < 2 {
		return ""
	}
	return labels[len(labels)-2] + "." + labels[len(labels)-1] + "."
}

func (p *faultPlayer) hook(ex *authkit.Exchange) {
	name := strings.ToLower(ex.Q.Name)
	if !strings.HasPrefix(name, "q") {
		return // NS / address lookups of the zone itself stay honest
	}
	zn := zoneOf(name)
	key := fmt.Sprintf("%s/%d", name, ex.Q.Qtype)
	p.mu.Lock()
	sc, ok := p.scripts[zn]
	if !ok {
		p.mu.Unlock()
		return
	}
	if ex.Proto == "tcp" {
		what := p.pending[key]
		p.mu.Unlock()
		switch what {
		case "tcStall":
			ex.Delay = p.upTO + 700*time.Millisecond
			ex.Drop = true
			ex.CloseTCP = true
		case "tcReset":
			ex.CloseTCP = true
		}
		return
	}
	n := p.udpN[key]
	p.udpN[key] = n + 1
	f := "answer"
	if n < len(sc) {
		f = sc[n]
	}
	if f == "tcStall" || f == "tcReset" {
		p.pending[key] = f
	} else {
		delete(p.pending, key)
	}
	p.played[f]++
	p.mu.Unlock()
	switch f {
	case "answer":
	case "drop":
		ex.Drop = true
	case "delay":
		ex.Delay = p.upTO + 700*time.Millisecond
	case "tcStall", "tcReset":
		t := new(dns.Msg)
		t.SetReply(ex.Req)
		t.Truncated = true
		t.Authoritative = true
		ex.Resp = t
	case "wrongId":
		ex.Resp.Id ^= 0x5a5a
	case "wrongQuestion":
		r := ex.Resp.Copy()
		r.Question[0].Name = "other." + zn
		for _, rr := range r.Answer {
			rr.Header().Name = "other." + zn
		}
		ex.Resp = r
	case "garbage":
		ex.Garbage = true
	case "servfail", "refused":
		m := new(dns.Msg)
		m.SetRcode(ex.Req, dns.RcodeServerFailure)
		if f == "refused" {
			m.Rcode = dns.RcodeRefused
		}
		ex.Resp = m
	}
}

type world struct {
	n      *authkit.Net
	a, b   *authkit.Server
	pa, pb *faultPlayer
	srv    *server.Server
	cfg    *config.Config
	cancel context.CancelFunc
	udp    string
	tcp    string
}

func buildWorld(in *input) (*world, error) {
	n, err := authkit.NewNet(false)
	if err != nil {
		return nil, err
	}
	w := &world{n: n}
	tz, _, err := n.Delegate("test.", authkit.DelegateOpts{})
	if err != nil {
		return nil, err
	}
	if w.a, err = n.AddServer("fault-a"); err != nil {
		return nil, err
	}
	if w.b, err = n.AddServer("fault-b"); err != nil {
		return nil, err
	}
	upTO := time.Duration(in.UpTimeoutMs) * time.Millisecond
	mk := func(l string) *faultPlayer {
		return &faultPlayer{label: l, scripts: map[string][]string{}, udpN: map[string]int{}, pending: map[string]string{},
			upTO: upTO, played: map[string]int{}}
	}
	w.pa, w.pb = mk("A"), mk("B")
	addZone := func(zn string, sa, sb []string) {
		z := authkit.NewZone(zn, false)
		z.Remove(zn, dns.TypeNS)
		h1, h2 := "ns1."+zn, "ns2."+zn
		ip1, ip2 := n.AllocGlue(w.a), n.AllocGlue(w.b)
		z.AddRR(authkit.NSRR(zn, h1, 3600))
		z.AddRR(authkit.NSRR(zn, h2, 3600))
		z.AddRR(authkit.ARR(h1, ip1, 3600))
		z.AddRR(authkit.ARR(h2, ip2, 3600))
		z.AddRR(authkit.ARR("*."+zn, truthIP, 300))
		w.a.AddZone(z)
		w.b.AddZone(z)
		n.AdoptZone(z, w.a)
		tz.Delegate(&authkit.Cut{Name: zn,
			NS:   []dns.RR{authkit.NSRR(zn, h1, 3600), authkit.NSRR(zn, h2, 3600)},
			Glue: []dns.RR{authkit.ARR(h1, ip1, 3600), authkit.ARR(h2, ip2, 3600)}})
		w.pa.scripts[zn] = sa
		w.pb.scripts[zn] = sb
	}
	for i, sc := range in.Scripts {
		addZone(fmt.Sprintf("z%d.test.", i), sc.A, sc.B)
	}
	for i := 0; i < 24; i++ { // honest zones for the after-load probe
		addZone(fmt.Sprintf("ok%d.test.", i), nil, nil)
	}
	w.a.SetHook(w.pa.hook)
	w.b.SetHook(w.pb.hook)

	srv, cfg := pipe.NewResolverServer(pipe.ResolverOpts{RootAddr: n.RootSrv.Addr, Mapper: n.Mapper(), Dir: "",
		Mutate: func(c *config.Config) {
			c.Bind = "127.0.0.1:0"
			c.AccessList = []string{"0.0.0.0/0", "::0/0"}
			c.IngressWorkers = in.Workers
			c.IngressQueue = in.Queue
			c.QueryTimeout.Duration = time.Duration(in.QueryTimeoutMs) * time.Millisecond
			c.Timeout.Duration = upTO
			c.MaxConcurrentQueries = in.MaxConcurrent
		}})
	w.srv, w.cfg = srv, cfg
	if err := server.VerifC10Tune(srv, server.VerifC10Opts{UDPSockets: 1, UDPSpare: 512, TCPConns: 512, TCPSmall: 512, TCPLarge: 4}); err != nil {
		return nil, err
	}
	ctx, cancel := context.WithCancel(context.Background())
	w.cancel = cancel
	if err := srv.Run(ctx); err != nil {
		cancel()
		return nil, err
	}
	deadline := time.Now().Add(5 * time.Second)
	for !(srv.HasListener("udp") && srv.HasListener("tcp")) && time.Now().Before(deadline) {
		time.Sleep(5 * time.Millisecond)
	}
	w.udp, w.tcp, _ = server.VerifC10Addrs(srv)
	if w.udp == "" || w.tcp == "" {
		cancel()
		return nil, fmt.Errorf("listeners did not come up")
	}
	return w, nil
}

func (w *world) stop() bool {
	w.cancel()
	deadline := time.Now().Add(20 * time.Second)
	for !w.srv.Stopped() && time.Now().Before(deadline) {
		time.Sleep(10 * time.Millisecond)
	}
	ok := w.srv.Stopped()
	w.n.Stop()
	middleware.Reset()
	return ok
}

// resolverSlots reads the in-use count of the resolver's semaphores (unexported
// channel fields; reflect may take their length).
func resolverSlots() map[string]int {
	out := map[string]int{}
	h := middleware.Get("resolver")
	if h == nil {
		return nil
	}
	m := reflect.ValueOf(h).MethodByName("VerifResolver")
	if !m.IsValid() {
		return nil
	}
	rv := m.Call(nil)[0]
	if rv.Kind() == reflect.Pointer {
		rv = rv.Elem()
	}
	if rv.Kind() != reflect.Struct {
		return nil
	}
	for _, f := range []string{"maxConcurrent", "resolutionSlots", "probeSlots", "v6LookupSlots"} {
		fv := rv.FieldByName(f)
		if fv.IsValid() && fv.Kind() == reflect.Chan && !fv.IsNil() {
			out[f] = fv.Len()
		}
	}
	return out
}

// lossCounters are the places where a datagram or a connection can be dropped before it is a query the
// server admitted: the kernel's UDP error counters (system-wide) and the engines' own ingress drop counters.
type lossCounters struct {
	KernelUDP int64            `json:"kernelUdpErrors"`
	Ingress   map[string]int64 `json:"ingressDrops"`
}

func readLoss() lossCounters {
	lc := lossCounters{Ingress: map[string]int64{}}
	if b, err := os.ReadFile("/proc/net/snmp"); err == nil {
		var hdr []string
		for _, ln := range strings.Split(string(b), "\n") {
			if !strings.HasPrefix(ln, "Udp:") && !strings.HasPrefix(ln, "Ip:") {
				continue
			}
			f := strings.Fields(ln)
			if hdr == nil || hdr[0] != f[0] {
				hdr = f
				continue
			}
			for i := range f {
				if i < len(hdr) && (hdr[i] == "InErrors" || hdr[i] == "RcvbufErrors" || hdr[i] == "SndbufErrors" ||
					hdr[i] == "MemErrors" || hdr[i] == "OutDiscards" || hdr[i] == "InDiscards") {
					v, _ := strconv.ParseInt(f[i], 10, 64)
					lc.KernelUDP += v
				}
			}
		}
	}
	if mfs, err := prometheus.DefaultGatherer.Gather(); err == nil {
		for _, mf := range mfs {
			n := mf.GetName()
			if n != "dns_udp_ingress_drops_total" && n != "dns_tcp_ingress_drops_total" {
				continue
			}
			for _, m := range mf.GetMetric() {
				lab := n
				for _, l := range m.GetLabel() {
					lab += "/" + l.GetValue()
				}
				if c := m.GetCounter(); c != nil {
					lc.Ingress[lab] = int64(c.GetValue())
				}
			}
		}
	}
	return lc
}

func (a lossCounters) since(b lossCounters) (kernel int64, ingress int64, detail map[string]int64) {
	detail = map[string]int64{}
	for k, v := range a.Ingress {
		if d := v - b.Ingress[k]; d != 0 {
			detail[k] = d
			if !strings.HasSuffix(k, "/malformed") && !strings.HasSuffix(k, "/ignored") {
				ingress += d
			}
		}
	}
	return a.KernelUDP - b.KernelUDP, ingress, detail
}

type obs struct {
	local    string
	script   int
	role     string // udp-dup | udp-other | tcp-dup
	name     string
	id       uint16
	sent     time.Time
	replies  int
	first    time.Duration
	rcode    int
	problems []string
}

func checkOwn(q *dns.Msg, b []byte) (rcode int, problem string) {
	m := new(dns.Msg)
	if err := m.Unpack(b); err != nil {
		return -1, "reply does not unpack: " + err.Error()
	}
	if m.Id != q.Id || !m.Response {
		return m.Rcode, fmt.Sprintf("reply id %d / QR %v is not the query's (id %d)", m.Id, m.Response, q.Id)
	}
	if len(m.Question) != 1 || !strings.EqualFold(m.Question[0].Name, q.Question[0].Name) || m.Question[0].Qtype != q.Question[0].Qtype {
		return m.Rcode, fmt.Sprintf("reply question %v is not the query's %v", m.Question, q.Question)
	}
	switch m.Rcode {
	case dns.RcodeSuccess:
		ok := false
		for _, rr := range m.Answer {
			if a, isA := rr.(*dns.A); isA && strings.EqualFold(a.Hdr.Name, q.Question[0].Name) && a.A.Equal(truthIP) {
				ok = true
			} else {
				return m.Rcode, "NOERROR reply carries a record that is not the zone's truth: " + rr.String()
			}
		}
		if !ok {
			return m.Rcode, "NOERROR reply without the zone's answer"
		}
	case dns.RcodeServerFailure:
		if len(m.Answer) != 0 {
			return m.Rcode, "SERVFAIL with answers"
		}
	}
	return m.Rcode, ""
}

func TestFaultScripts(t *testing.T) {
	var in input
	vh.Input(t, &in)
	res := vh.NewResult()
	defer res.Write(t)
	qt := time.Duration(in.QueryTimeoutMs) * time.Millisecond
	margin := time.Duration(in.MarginMs) * time.Millisecond
	budget := qt + margin

	defer installEngineTrace()()
	w, err := buildWorld(&in)
	if err != nil {
		res.Skip("world: %v", err)
		t.Fatalf("world: %v", err)
	}
	uaddr, _ := net.ResolveUDPAddr("udp", w.udp)

	// warm the path to test. (root + TLD referrals cached) and take the baselines
	warm := func(name string) (int, time.Duration) {
		c, err := net.DialUDP("udp", nil, uaddr)
		if err != nil {
			return -1, 0
		}
		defer c.Close()
		q := new(dns.Msg)
		q.SetQuestion(name, dns.TypeA)
		b, _ := q.Pack()
		t0 := time.Now()
		_, _ = c.Write(b)
		_ = c.SetReadDeadline(t0.Add(budget))
		buf := make([]byte, 4096)
		n, err := c.Read(buf)
		if err != nil {
			return -1, time.Since(t0)
		}
		rc, _ := checkOwn(q, buf[:n])
		return rc, time.Since(t0)
	}
	for i := 0; i < 3; i++ {
		if rc, _ := warm(fmt.Sprintf("w%d.ok0.test.", i)); rc == dns.RcodeSuccess {
			break
		}
	}
	server0 := server.VerifC10Snapshot(w.srv)
	if !waitFor(10*time.Second, w.srv.Quiesced) {
		res.Skip("server not quiescent after warm-up")
	}
	time.Sleep(200 * time.Millisecond)
	baseG := runtime.NumGoroutine()
	baseSlots := resolverSlots()
	loss0 := readLoss()

	stopLoad := make(chan struct{})
	for i := 0; i < in.Load; i++ {
		go func() {
			x := uint64(1)
			for {
				select {
				case <-stopLoad:
					return
				default:
				}
				for k := 0; k < 200000; k++ {
					x = x*6364136223846793005 + 1442695040888963407
				}
				if x == 42 {
					runtime.Gosched()
				}
			}
		}()
	}

	var omu sync.Mutex
	var all []*obs
	var idNext atomic.Uint32
	idNext.Store(1000)

	udpAsk := func(wg *sync.WaitGroup, si int, role, name string) {
		defer wg.Done()
		o := &obs{script: si, role: role, name: name, id: uint16(idNext.Add(1)), rcode: -1}
		c, err := net.DialUDP("udp", nil, uaddr)
		if err != nil {
			return
		}
		defer c.Close()
		q := new(dns.Msg)
		q.SetQuestion(name, dns.TypeA)
		q.Id = o.id
		if si%2 == 0 {
			q.SetEdns0(1232, false)
		}
		b, _ := q.Pack()
		o.sent = time.Now()
		o.local = c.LocalAddr().String()
		if _, err := c.Write(b); err != nil {
			return
		}
		buf := make([]byte, 4096)
		end := o.sent.Add(budget + 500*time.Millisecond)
		for {
			_ = c.SetReadDeadline(end)
			n, err := c.Read(buf)
			if err != nil {
				break
			}
			o.replies++
			if o.replies == 1 {
				o.first = time.Since(o.sent)
			}
			rc, p := checkOwn(q, buf[:n])
			if o.replies == 1 {
				o.rcode = rc
			}
			if p != "" {
				o.problems = append(o.problems, p)
			}
		}
		omu.Lock()
		all = append(all, o)
		omu.Unlock()
	}
	tcpAsk := func(wg *sync.WaitGroup, si int, role, name string) {
		defer wg.Done()
		o := &obs{script: si, role: role, name: name, id: uint16(idNext.Add(1)), rcode: -1}
		c, err := net.DialTimeout("tcp", w.tcp, 3*time.Second)
		if err != nil {
			return
		}
		defer c.Close()
		q := new(dns.Msg)
		q.SetQuestion(name, dns.TypeA)
		q.Id = o.id
		b, _ := q.Pack()
		fr := make([]byte, 2+len(b))
		binary.BigEndian.PutUint16(fr, uint16(len(b)))
		copy(fr[2:], b)
		o.sent = time.Now()
		if _, err := c.Write(fr); err != nil {
			return
		}
		end := o.sent.Add(budget + 500*time.Millisecond)
		for {
			_ = c.SetReadDeadline(end)
			var hdr [2]byte
			if _, err := io.ReadFull(c, hdr[:]); err != nil {
				break
			}
			body := make([]byte, binary.BigEndian.Uint16(hdr[:]))
			if _, err := io.ReadFull(c, body); err != nil {
				o.problems = append(o.problems, "torn frame")
				break
			}
			o.replies++
			if o.replies == 1 {
				o.first = time.Since(o.sent)
			}
			rc, p := checkOwn(q, body)
			if o.replies == 1 {
				o.rcode = rc
			}
			if p != "" {
				o.problems = append(o.problems, p)
			}
		}
		omu.Lock()
		all = append(all, o)
		omu.Unlock()
	}
	// clients that leave right after asking: no oracle on them, they only have to
	// leave the server clean
	// A UDP client cannot "disconnect"; it can only stop listening. Its socket stays bound until
	// the end of the run: closing it would hand its port to a later client of this test, and the
	// server's (correctly addressed) reply to the departed client would look like cross-talk.
	var lmu sync.Mutex
	var leavers []*net.UDPConn
	defer func() {
		lmu.Lock()
		for _, c := range leavers {
			_ = c.Close()
		}
		lmu.Unlock()
	}()
	udpLeave := func(name string) {
		c, err := net.DialUDP("udp", nil, uaddr)
		if err != nil {
			return
		}
		q := new(dns.Msg)
		q.SetQuestion(name, dns.TypeA)
		b, _ := q.Pack()
		_, _ = c.Write(b)
		lmu.Lock()
		leavers = append(leavers, c)
		lmu.Unlock()
	}
	tcpLeave := func(name string) {
		c, err := net.DialTimeout("tcp", w.tcp, 3*time.Second)
		if err != nil {
			return
		}
		q := new(dns.Msg)
		q.SetQuestion(name, dns.TypeA)
		b, _ := q.Pack()
		fr := make([]byte, 2+len(b))
		binary.BigEndian.PutUint16(fr, uint16(len(b)))
		copy(fr[2:], b)
		_, _ = c.Write(fr)
		if tc, ok := c.(*net.TCPConn); ok {
			_ = tc.SetLinger(0) // reset, not a graceful close
		}
		_ = c.Close()
	}

	batch := in.Batch
	if batch <= 0 {
		batch = 25
	}
	for lo := 0; lo < len(in.Scripts); lo += batch {
		hi := min(lo+batch, len(in.Scripts))
		var wg sync.WaitGroup
		for si := lo; si < hi; si++ {
			zn := fmt.Sprintf("z%d.test.", si)
			dup := "q-dup." + zn
			wg.Add(4)
			go udpAsk(&wg, si, "udp-dup", dup)
			go udpAsk(&wg, si, "udp-dup", dup)
			go tcpAsk(&wg, si, "tcp-dup", dup)
			go udpAsk(&wg, si, "udp-other", "q-other."+zn)
			go udpLeave(dup)
			go tcpLeave(dup)
			if si%3 == 0 {
				go tcpLeave("q-gone." + zn)
			}
		}
		wg.Wait()
	}
	close(stopLoad)

	// ---- oracle -------------------------------------------------------------
	sort.Slice(all, func(i, j int) bool {
		if all[i].script != all[j].script {
			return all[i].script < all[j].script
		}
		return all[i].id < all[j].id
	})
	var worst time.Duration
	rcodes := map[string]int{}
	lossK, lossI, lossDetail := readLoss().since(loss0)
	upstreamSaw := map[string]int{}
	for _, srv := range []*authkit.Server{w.a, w.b} {
		for _, e := range srv.Log() {
			upstreamSaw[strings.ToLower(e.Q.Name)]++
		}
	}
	res.Count("kernel_udp_errors", int(lossK))
	res.Count("ingress_drops", int(lossI))
	for _, o := range all {
		sc := in.Scripts[o.script]
		key := fmt.Sprintf("A=%s B=%s", strings.Join(sc.A, ","), strings.Join(sc.B, ","))
		res.Case(key)
		rep := map[string]any{"driver": "c11-engine", "script": sc, "scriptIndex": o.script, "role": o.role,
			"name": o.name, "replies": o.replies, "firstReplyMs": o.first.Milliseconds(), "rcode": o.rcode,
			"queryTimeoutMs": in.QueryTimeoutMs, "marginMs": in.MarginMs}
		switch {
		case o.replies == 0:
			// Was the query admitted? A datagram the kernel or the ingress dropped never was (C11 exempts
			// shedding). Witnesses: the authoritative servers saw this client's own question (unique name),
			// or nothing anywhere recorded a drop during the whole run.
			rep["upstreamSawQuestion"] = upstreamSaw[strings.ToLower(o.name)]
			rep["kernelErrorsDuringRun"], rep["ingressDropsDuringRun"], rep["ingressDropDetail"] = lossK, lossI, lossDetail
			known, seen, sends := engineFate(o.local, o.id)
			udp := strings.HasPrefix(o.role, "udp")
			switch {
			case udp && known && seen && sends == 0:
				res.Violate("no-reply-admitted", fmt.Sprintf("script %d (%s): the UDP engine read the %s query for %s from %s (id %d) and released its slab without sending anything; no reply within querytimeout+margin (%v)",
					o.script, key, o.role, o.name, o.local, o.id, budget), rep)
			case udp && known:
				// never reached the engine, or the engine did send: lost by the kernel, not by the server
				res.Count(map[bool]string{true: "lost_after_send", false: "lost_before_ingress"}[seen], 1)
				res.DriftNote("script %d (%s): %s query for %s unanswered at the client; engine trace: read=%v sends=%d (a datagram lost in transit)",
					o.script, key, o.role, o.name, seen, sends)
			case lossK == 0 && lossI == 0:
				res.Violate("no-reply", fmt.Sprintf("script %d (%s): the %s query for %s got no reply within querytimeout+margin (%v); no datagram or connection was dropped anywhere on the machine during the run",
					o.script, key, o.role, o.name, budget), rep)
			default:
				res.Count("lost_unattributed", 1)
				res.DriftNote("script %d (%s): %s query for %s unanswered, but drops were recorded during the run (kernel %d, ingress %v): not attributable to an admitted query",
					o.script, key, o.role, o.name, lossK, lossDetail)
			}
		case o.replies > 1:
			res.Violate("two-replies", fmt.Sprintf("script %d (%s): the %s query for %s got %d replies",
				o.script, key, o.role, o.name, o.replies), rep)
		case o.first > budget:
			res.Violate("late", fmt.Sprintf("script %d (%s): the %s query for %s was answered after %v > querytimeout+margin %v",
				o.script, key, o.role, o.name, o.first, budget), rep)
		}
		if len(o.problems) > 0 {
			rep["problems"] = o.problems
			res.Violate("not-own", fmt.Sprintf("script %d (%s): the %s reply for %s: %s", o.script, key, o.role, o.name, o.problems[0]), rep)
		}
		if o.replies >= 1 {
			if o.first > worst {
				worst = o.first
			}
			rcodes[dns.RcodeToString[o.rcode]]++
			if o.rcode != dns.RcodeSuccess && o.rcode != dns.RcodeServerFailure {
				res.DriftNote("script %d (%s): %s reply rcode %s (neither the truth nor SERVFAIL)", o.script, key, o.role, dns.RcodeToString[o.rcode])
			}
		}
	}
	for k, v := range rcodes {
		res.Count("rcode_"+k, v)
	}
	res.Count("queries_observed", len(all))
	res.Count("worst_reply_ms", int(worst.Milliseconds()))
	for _, p := range []*faultPlayer{w.pa, w.pb} {
		p.mu.Lock()
		for f, n := range p.played {
			res.Count("played_"+f, n)
		}
		p.mu.Unlock()
	}

	// ---- after load -----------------------------------------------------------
	quiesced := waitFor(qt+10*time.Second, w.srv.Quiesced)
	settled := waitFor(qt+10*time.Second, func() bool {
		st := server.VerifC10Snapshot(w.srv)
		return st.UDPInFlight == 0 && st.TCPActive == 0 && st.TCPSmallFree == st.TCPSmallCap && st.TCPLargeFree == st.TCPLargeCap
	})
	slotsOK := waitFor(qt+10*time.Second, func() bool {
		now := resolverSlots()
		for k, v := range now {
			if v > baseSlots[k] {
				return false
			}
		}
		return true
	})
	gOK := waitFor(qt+15*time.Second, func() bool { return runtime.NumGoroutine() <= baseG })
	st := server.VerifC10Snapshot(w.srv)
	after := map[string]any{"quiesced": quiesced, "settled": settled, "slots": resolverSlots(), "slotsBase": baseSlots,
		"goroutines": runtime.NumGoroutine(), "goroutinesBase": baseG, "stats": st, "stats0": server0}
	res.Sample(after)
	if !quiesced || !settled {
		res.Violate("after/quiescence", fmt.Sprintf("after the fault load the server did not return to quiescence: Quiesced=%v udpInFlight=%d leased=%d tcpActive=%d tcpSmall %d/%d",
			w.srv.Quiesced(), st.UDPInFlight, st.UDPLeased, st.TCPActive, st.TCPSmallFree, st.TCPSmallCap),
			map[string]any{"driver": "c11-engine", "after": after})
	}
	if !slotsOK {
		res.Violate("after/slots", fmt.Sprintf("resolver limiter slots still held with no query in flight: %v (before the load: %v)",
			resolverSlots(), baseSlots), map[string]any{"driver": "c11-engine", "after": after})
	}
	if !gOK {
		buf := make([]byte, 1<<20)
		buf = buf[:runtime.Stack(buf, true)]
		res.Violate("after/goroutines", fmt.Sprintf("goroutines did not return to the pre-load count: %d > %d", runtime.NumGoroutine(), baseG),
			map[string]any{"driver": "c11-engine", "after": after, "stacks": string(buf[:min(len(buf), 30000)])})
	}
	// the server still resolves: a full wave of honest queries, as many as there are slots
	var pw sync.WaitGroup
	var okN atomic.Int64
	probes := 16
	for i := 0; i < probes; i++ {
		pw.Add(1)
		go func(i int) {
			defer pw.Done()
			if rc, d := warm(fmt.Sprintf("after%d.ok%d.test.", i, 1+i%23)); rc == dns.RcodeSuccess && d <= budget {
				okN.Add(1)
			}
		}(i)
	}
	pw.Wait()
	res.Count("after_probes_ok", int(okN.Load()))
	if int(okN.Load()) != probes {
		res.Violate("after/wedged", fmt.Sprintf("after the fault load only %d of %d honest queries were answered with the truth in time", okN.Load(), probes),
			map[string]any{"driver": "c11-engine", "after": after})
	}
	if !w.stop() {
		res.DriftNote("graceful shutdown did not complete within 20 s")
	}
}

func waitFor(d time.Duration, cond func() bool) bool {
	deadline := time.Now().Add(d)
	for {
		if cond() {
			return true
		}
		if time.Now().After(deadline) {
			return false
		}
		time.Sleep(10 * time.Millisecond)
	}
}

var _ = errors.Is
