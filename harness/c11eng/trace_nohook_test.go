//go:build !c10hook

package c11eng

// Without the UDP engine trace hook in the tree the driver cannot tell whether
// the engine read or answered a datagram; the conservative loss rule applies.

func installEngineTrace() func() { return func() {} }

func engineFate(local string, id uint16) (known, seen bool, sends int) { return false, false, 0 }
