//go:build c10hook

package c11eng

// With the UDP engine trace hook in the tree (hooks/c10_engine_trace.patch) the
// driver knows, per client datagram, whether the engine read it (admitted) and
// whether it sent a datagram for it -- the only sound witnesses for "an
// admitted UDP query got no reply": a datagram lost by the kernel in either
// direction is nothing the server did.

import (
	"encoding/binary"
	"fmt"
	"net/netip"
	"sync"

	"github.com/semihalev/sdns/server"
)

type udpFate struct {
	seen  bool
	sends int
}

var (
	fateMu sync.Mutex
	fates  = map[string]*udpFate{}
)

func fateKey(ap netip.AddrPort, id uint16) string {
	return fmt.Sprintf("%s/%d", netip.AddrPortFrom(ap.Addr().Unmap(), ap.Port()), id)
}

func installEngineTrace() func() {
	server.SetVerifUDPTrace(func(e *server.VerifUDPEvent) {
		if len(e.Rx) < 2 || !e.Raddr.IsValid() {
			return
		}
		k := fateKey(e.Raddr, binary.BigEndian.Uint16(e.Rx))
		fateMu.Lock()
		f := fates[k]
		if f == nil {
			f = &udpFate{}
			fates[k] = f
		}
		f.seen = true
		if e.Ev == 7 || e.Ev == 8 || e.Ev == 9 { // sendNow, sendDirect, sendBatch
			f.sends++
		}
		fateMu.Unlock()
	})
	return func() { server.SetVerifUDPTrace(nil) }
}

// engineFate reports what the engine did with the datagram (local, id):
// known=false when the driver has no trace.
func engineFate(local string, id uint16) (known, seen bool, sends int) {
	ap, err := netip.ParseAddrPort(local)
	if err != nil {
		return false, false, 0
	}
	fateMu.Lock()
	defer fateMu.Unlock()
	f := fates[fateKey(ap, id)]
	if f == nil {
		return true, false, 0
	}
	return true, f.seen, f.sends
}
