package x13lp

// X13LP (C13, zone-failure tier): the ASSEMBLY of a delegation's server list inside one
// request tree -- tla/ZoneFail/ZoneAsm.tla -- played on the real full pipeline
// (pipe.NewResolverServer: default chain incl. cache + resolver, DNSSEC off, rfc9520 on)
// against scripted authorities (authkit).
//
// A case is a topology of glue-less dependencies over the model's zones plus the zone the
// cold client request is for.  Host "y" of zone z = the NS host "ns.<y>.test." (no glue in
// the referral, its address is a record of zone <y>.test.); "glue" = "nsg.<z>.test." with
// glue; "alt" = "ns2.c.test.", a glue-less host of the healthy, glue-delegated zone c.test.
// (the names make sortHosts look hosts up in the model's order: own zone, a, b, d, alt).  ALL zones of a case are served by ONE healthy authoritative server that answers
// whatever it is asked, so no server of any zone ever fails to give a usable response.
//
// Oracle (the scripted server's record and the clients' replies only):
//
//	OnlyWhatFailed   while the cold request's tree is at work (answers for NS-host address
//	                 questions are held back a little to keep it at work), independent clients ask
//	                 names nobody asked before in every zone a fresh request can reach.  A reply
//	                 SERVFAIL + EDE 13 (a cached failure is being served) is a violation: every
//	                 server is healthy, nothing failed.
//	Complete (drift) the cold request for a reachable zone ends NOERROR.
//
// The model's `ever` (the zones published at some moment of the walk) is reported next to
// what the probes saw (coverage, not a verdict: a probe may miss the moment).

import (
	"fmt"
	"os"
	"sort"
	"strings"
	"sync"
	"testing"
	"time"

	"github.com/miekg/dns"
	"github.com/semihalev/sdns/verifharness/authkit"
	"github.com/semihalev/sdns/verifharness/pipe"
	"github.com/semihalev/sdns/verifharness/vh"
)

type aCase struct {
	ID    string              `json:"id"`
	Topo  map[string][]string `json:"topo"`
	Start string              `json:"start"`
	Ever  []string            `json:"ever"` // the model's prediction (as built)
	Src   string              `json:"src"`
}

type aInput struct {
	Cases   []aCase `json:"cases"`
	HoldMs  int     `json:"holdMs"`
	Confirm bool    `json:"confirm"`
}

func reachable(t map[string][]string) map[string]bool {
	r := map[string]bool{}
	for changed := true; changed; {
		changed = false
		for z, hs := range t {
			if r[z] {
				continue
			}
			for _, h := range hs {
				if h == "glue" || h == "alt" || r[h] {
					r[z], changed = true, true
					break
				}
			}
		}
	}
	return r
}

func ede13(m *dns.Msg) bool {
	if m == nil || m.Rcode != dns.RcodeServerFailure {
		return false
	}
	if o := m.IsEdns0(); o != nil {
		for _, opt := range o.Option {
			if e, ok := opt.(*dns.EDNS0_EDE); ok && e.InfoCode == dns.ExtendedErrorCodeCachedError {
				return true
			}
		}
	}
	return false
}

type seen struct {
	Zone  string `json:"zone"`
	Name  string `json:"name"`
	AtMs  int64  `json:"atMs"`
	Reply string `json:"reply"`
}

// play runs one case on a fresh namespace and a fresh resolver; returns the probes that were
// answered from the failure cache in reachable zones, whether the cold request succeeded, and
// how many probes were made.
func play(t *testing.T, c aCase, hold time.Duration) (bad []seen, coldOK bool, cold *dns.Msg, probes int, err error) {
	n, err := authkit.NewNet(false)
	if err != nil {
		return nil, false, nil, 0, err
	}
	defer n.Stop()
	tz, _, err := n.Delegate("test.", authkit.DelegateOpts{})
	if err != nil {
		return nil, false, nil, 0, err
	}
	zones := make([]string, 0, len(c.Topo))
	for z := range c.Topo {
		zones = append(zones, z)
	}
	sort.Strings(zones)
	var srv *authkit.Server
	zs := map[string]*authkit.Zone{}
	for _, z := range zones {
		o := authkit.DelegateOpts{OnServer: srv}
		zz, s, err := n.Delegate(z+".test.", o)
		if err != nil {
			return nil, false, nil, 0, err
		}
		srv = s
		zs[z] = zz
	}
	// "alt": ns2.c.test., a glue-less host in an independently reachable zone (c.test. has glue)
	cz, _, err := n.Delegate("c.test.", authkit.DelegateOpts{OnServer: srv})
	if err != nil {
		return nil, false, nil, 0, err
	}
	cz.AddRR(authkit.ARR("ns2.c.test.", n.AllocGlue(srv), 3600))
	for _, z := range zones {
		name := z + ".test."
		var ns, glue []dns.RR
		dup := map[string]bool{}
		for _, h := range c.Topo[z] {
			if dup[h] {
				continue
			}
			dup[h] = true
			if h == "glue" {
				ip := n.AllocGlue(srv)
				host := "nsg." + name
				ns = append(ns, authkit.NSRR(name, host, 3600))
				glue = append(glue, authkit.ARR(host, ip, 3600))
				zs[z].AddRR(authkit.ARR(host, ip, 3600))
			} else if h == "alt" {
				ns = append(ns, authkit.NSRR(name, "ns2.c.test.", 3600))
			} else {
				ns = append(ns, authkit.NSRR(name, "ns."+h+".test.", 3600))
			}
		}
		tz.Delegate(&authkit.Cut{Name: name, NS: ns, Glue: glue})
		zs[z].Remove(name, dns.TypeNS)
		zs[z].Remove("ns."+name, dns.TypeA) // Delegate's default in-zone host
		for _, rr := range ns {
			zs[z].AddRR(rr)
		}
		zs[z].AddRR(authkit.ARR("ns."+name, n.AllocGlue(srv), 3600))
		zs[z].Add("www."+name+" 300 IN A 192.0.2.80", "*.p."+name+" 300 IN A 192.0.2.81")
	}
	srv.SetHook(func(ex *authkit.Exchange) {
		if ex.Q.Qtype == dns.TypeA && strings.HasPrefix(strings.ToLower(ex.Q.Name), "ns") {
			ex.Delay = hold
		}
	})

	dir, _ := os.MkdirTemp("", "verif-x13lp-")
	defer os.RemoveAll(dir)
	s, _ := pipe.NewResolverServer(pipe.ResolverOpts{RootAddr: n.RootSrv.Addr, Dir: dir, Mapper: n.Mapper()})
	ask := func(name, ip string) *dns.Msg {
		q := new(dns.Msg)
		q.SetQuestion(name, dns.TypeA)
		q.SetEdns0(1232, false)
		return pipe.Ask(s, q, "udp", ip)
	}
	reach := reachable(c.Topo)

	done := make(chan *dns.Msg, 1)
	t0 := time.Now()
	go func() { done <- ask("www."+c.Start+".test.", "203.0.113.9") }()

	var mu sync.Mutex
	var wg sync.WaitGroup
	stop := make(chan struct{})
	// A fresh independent client every 20 ms per reachable zone, each on its own goroutine: a probe that
	// arrives while a zone failure is held is answered from the cache at once, the others resolve.
	probe := func(z string, i int) {
		defer wg.Done()
		name := fmt.Sprintf("q%d.p.%s.test.", i, z)
		r := ask(name, fmt.Sprintf("203.0.113.%d", 20+i%200))
		mu.Lock()
		probes++
		if ede13(r) {
			bad = append(bad, seen{Zone: z, Name: name, AtMs: time.Since(t0).Milliseconds(), Reply: "SERVFAIL + EDE 13"})
		}
		mu.Unlock()
	}
	wg.Add(1)
	go func() {
		defer wg.Done()
		for i := 0; i < 400; i++ {
			select {
			case <-stop:
				return
			default:
			}
			for _, z := range zones {
				if reach[z] {
					wg.Add(1)
					go probe(z, i)
				}
			}
			time.Sleep(20 * time.Millisecond)
		}
	}()
	select {
	case cold = <-done:
	case <-time.After(20 * time.Second):
	}
	time.Sleep(50 * time.Millisecond)
	close(stop)
	wg.Wait()
	// a probe answered from the failure cache must not have reached the server: it did not
	for i := range bad {
		for _, e := range srv.Log() {
			if strings.EqualFold(e.Q.Name, bad[i].Name) {
				bad[i].Reply += " (the question did reach the server?)"
			}
		}
	}
	coldOK = cold != nil && cold.Rcode == dns.RcodeSuccess && len(cold.Answer) > 0
	return bad, coldOK, cold, probes, nil
}

func TestAssembly(t *testing.T) {
	var in aInput
	vh.Input(t, &in)
	res := vh.NewResult()
	defer res.Write(t)
	hold := time.Duration(in.HoldMs) * time.Millisecond
	if hold == 0 {
		hold = 250 * time.Millisecond
	}
	for _, c := range in.Cases {
		bad, coldOK, cold, probes, err := play(t, c, hold)
		if err != nil {
			res.Skip("%s: %v", c.ID, err)
			continue
		}
		res.Case(fmt.Sprintf("%v/%s", c.Topo, c.Start))
		res.Count("probes", probes)
		reach := reachable(c.Topo)
		if reach[c.Start] && !coldOK {
			rc := "no reply"
			if cold != nil {
				rc = dns.RcodeToString[cold.Rcode]
			}
			res.DriftNote("%s: the cold request for reachable zone %s ended %s", c.ID, c.Start, rc)
		}
		if len(bad) > 0 && !in.Confirm {
			// re-run alone on a fresh namespace: only a reproduced predicate failure is reported
			res.Count("flagged", 1)
			bad, _, _, _, err = play(t, c, hold)
			if err != nil || len(bad) == 0 {
				res.Count("not_reproduced", 1)
				continue
			}
		}
		hit := map[string]bool{}
		for _, b := range bad {
			hit[b.Zone] = true
		}
		var hz []string
		for z := range hit {
			hz = append(hz, z)
		}
		sort.Strings(hz)
		res.Sample(map[string]any{"id": c.ID, "topo": c.Topo, "start": c.Start, "model_ever": c.Ever, "seen_published": hz, "coldOK": coldOK, "src": c.Src})
		if len(bad) > 0 {
			res.Violate("x13lp/OnlyWhatFailed/loop-cut",
				fmt.Sprintf("zone failure without a failed server: topology %v, cold request for www.%s.test.; while its tree was at work an "+
					"independent client asking %s (a name nobody asked before, zone %s.test. is reachable, its only server healthy and "+
					"never failed to answer) got SERVFAIL + EDE 13 at +%d ms without the question reaching any server (%d such replies, zones %v)",
					c.Topo, c.Start, bad[0].Name, bad[0].Zone, bad[0].AtMs, len(bad), hz),
				map[string]any{"cases": []aCase{c}, "holdMs": in.HoldMs, "confirm": true})
		}
	}
}
