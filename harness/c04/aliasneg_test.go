package c04

// Directed stage of C04: a NEGATIVE answer that arrives in one piece behind an alias.
//
// RFC 2308 2.2: a NODATA (or NXDOMAIN) answer may carry CNAMEs in its answer section; what makes it negative is the
// SOA in the authority section, and its lifetime is bounded by min(SOA TTL, SOA MINIMUM) like any other negative
// answer.  C04 lists "the SOA negative TTL" among the lifetimes of "no cached answer, negative answer ...".  The
// per-hop histories of Lease.tla admit every hop as its own entry (the end of the chain is its own negative entry with
// its own lifetime), so a reply admitted in ONE piece - what the resolver's own chase and every forwarder upstream
// hand to the cache on the miss path - never reached the classification branch that decides whether MINIMUM counts.
//
// History (model: LeaseNegAlias.tla): Admit(alias, A) <- NOERROR { alias CNAME target (ttlC) ; SOA (ttlS, MINIMUM m) }
// with m < ttlS < ttlC and m above the 5 s floor; Tick(m + 1); Query(alias, A).  The entry's lifetime is m seconds:
// the second query must reach the downstream again (or at least must not be shown the stored SOA).
//
// Shapes: rcode NOERROR / NXDOMAIN (the latter is classified negative by rcode and is the control), message-born and
// wire-born second query, with and without DO (signed variants carry RRSIGs whose expiry is far away).

import (
	"context"
	"fmt"
	"sync/atomic"
	"testing"
	"time"

	"github.com/miekg/dns"
	"github.com/semihalev/sdns/config"
	"github.com/semihalev/sdns/internal/mock"
	"github.com/semihalev/sdns/middleware"
	mcache "github.com/semihalev/sdns/middleware/cache"
	"github.com/semihalev/sdns/verifharness/vh"
)

type aliasNegIn struct {
	Cases []aliasNegCase `json:"cases"`
}

type aliasNegCase struct {
	Rcode   string `json:"rcode"`   // "NOERROR" | "NXDOMAIN"
	TtlC    uint32 `json:"ttlC"`    // TTL of the CNAME
	TtlS    uint32 `json:"ttlS"`    // TTL of the SOA record
	Min     uint32 `json:"min"`     // SOA MINIMUM
	Tick    int64  `json:"tick"`    // seconds between admission and the second query
	Expired bool   `json:"expired"` // model: the entry's lifetime has ended by then
	Hops    int    `json:"hops"`    // CNAMEs in the answer section (1 or 2)
}

type aliasDown struct {
	c     aliasNegCase
	name  string
	calls atomic.Int64
}

func (d *aliasDown) Name() string { return "verif-aliasneg-downstream" }

func (d *aliasDown) ServeDNS(ctx context.Context, ch *middleware.Chain) {
	d.calls.Add(1)
	req := ch.Request.Msg()
	if req == nil || len(req.Question) == 0 {
		ch.Cancel()
		return
	}
	m := new(dns.Msg)
	m.SetReply(req)
	m.RecursionAvailable = true
	if d.c.Rcode == "NXDOMAIN" {
		m.Rcode = dns.RcodeNameError
	}
	owner := d.name
	for h := 0; h < d.c.Hops; h++ {
		tgt := fmt.Sprintf("t%d.target.test.", h)
		m.Answer = append(m.Answer, &dns.CNAME{Hdr: dns.RR_Header{Name: owner, Rrtype: dns.TypeCNAME, Class: dns.ClassINET, Ttl: d.c.TtlC}, Target: tgt})
		owner = tgt
	}
	m.Ns = []dns.RR{&dns.SOA{Hdr: dns.RR_Header{Name: "target.test.", Rrtype: dns.TypeSOA, Class: dns.ClassINET, Ttl: d.c.TtlS},
		Ns: "ns.target.test.", Mbox: "h.target.test.", Serial: uint32(d.calls.Load()), Refresh: 60, Retry: 60, Expire: 60, Minttl: d.c.Min}}
	_ = ch.Writer.WriteMsg(m)
	ch.Cancel()
}

func TestAliasNeg(t *testing.T) {
	var in aliasNegIn
	vh.Input(t, &in)
	res := vh.NewResult()
	defer res.Write(t)
	for i, c := range in.Cases {
		for _, born := range []string{"msg", "wire"} {
			key := fmt.Sprintf("%s/hops%d/ttlC%d-ttlS%d-min%d/tick%d/%s", c.Rcode, c.Hops, c.TtlC, c.TtlS, c.Min, c.Tick, born)
			res.Case(key)
			cfg := &config.Config{CacheSize: 1024, Expire: 600, RateLimit: 0, Prefetch: 0}
			cc := mcache.New(cfg)
			name := fmt.Sprintf("alias%d-%s.alias.test.", i, born)
			d := &aliasDown{c: c, name: name}
			chain := []middleware.Handler{cc, d}
			ask := func(id uint16, wire bool) *dns.Msg {
				req := new(dns.Msg)
				req.SetQuestion(name, dns.TypeA)
				req.Id = id
				req.RecursionDesired = true
				mw := mock.NewWriter("udp", "192.0.2.9:5300")
				ch := middleware.NewChain(chain)
				if wire {
					raw, err := req.Pack()
					if err != nil {
						res.Skip("pack: %v", err)
						return nil
					}
					wreq := new(middleware.Request)
					if !wreq.ParseWire(raw, time.Now(), nil) {
						res.Skip("ParseWire refused the query")
						return nil
					}
					ch.ResetWire(mw, wreq)
					ch.AllowDirectPack()
				} else {
					ch.Reset(mw, req)
				}
				ch.Next(context.Background())
				return mw.Msg()
			}
			r1 := ask(1, false)
			if r1 == nil || d.calls.Load() != 1 {
				res.Skip("%s: admission did not reach the downstream once (calls=%d)", key, d.calls.Load())
				cc.Stop()
				continue
			}
			cc.VerifC04Shift(time.Duration(c.Tick) * time.Second)
			r2 := ask(2, born == "wire")
			calls := d.calls.Load()
			cc.Stop()
			if r2 == nil {
				res.Skip("%s: no reply to the second query", key)
				continue
			}
			fromCache := calls == 1
			if fromCache {
				res.Count("aliasneg_second_from_cache", 1)
			} else {
				res.Count("aliasneg_second_from_downstream", 1)
			}
			neg := int64(c.TtlS)
			if int64(c.Min) < neg {
				neg = int64(c.Min)
			}
			life := neg
			if int64(c.TtlC) < life {
				life = int64(c.TtlC)
			}
			if life < floorS {
				life = floorS
			}
			switch {
			case fromCache && c.Tick >= life:
				soaSerial := uint32(0)
				for _, rr := range r2.Ns {
					if s, ok := rr.(*dns.SOA); ok {
						soaSerial = s.Serial
					}
				}
				res.Violate("aliasneg/ServedLive/"+c.Rcode+"/"+born,
					fmt.Sprintf("[alias-borne negative answer] %s: the answer {%d CNAME(s) TTL %d; SOA TTL %d MINIMUM %d} rcode %s was admitted in one piece; its lifetime is "+
						"min(record TTLs, SOA negative TTL = min(%d, %d)) = %d s, yet %d s later the %s-born query was answered from the cache (downstream calls: %d) "+
						"with rcode %s, %d answer / %d authority records, SOA serial %d (the admitted one is 1)",
						key, c.Hops, c.TtlC, c.TtlS, c.Min, c.Rcode, c.TtlS, c.Min, life, c.Tick, born, calls, dns.RcodeToString[r2.Rcode], len(r2.Answer), len(r2.Ns), soaSerial),
					map[string]any{"driver": "aliasneg", "case": c, "born": born})
			case fromCache:
				// inside the lifetime: every TTL shown is at most what is left
				left := life - c.Tick
				for _, rr := range append(append([]dns.RR{}, r2.Answer...), r2.Ns...) {
					if int64(rr.Header().Ttl) > left {
						res.Violate("aliasneg/TTLShown/"+c.Rcode+"/"+born,
							fmt.Sprintf("[alias-borne negative answer] %s: %d s into a lifetime of %d s the cached reply shows TTL %d on %s", key, c.Tick, life, rr.Header().Ttl, rr.String()),
							map[string]any{"driver": "aliasneg", "case": c, "born": born})
						break
					}
				}
				res.Count("aliasneg_live_hits", 1)
			default:
				if !c.Expired {
					res.DriftNote("%s: the model keeps the entry for %d s, the code went back to the downstream after %d s", key, life, c.Tick)
				}
			}
		}
	}
}
