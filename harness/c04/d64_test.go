package c04

// The DNS64 dimension of the Lease replay (Lease64.tla): the real
// middleware/dns64 stands in front of the real middleware/cache, its internal
// A lookup runs through the same [cache, scripted downstream] pair, and op
// Hit64 is one AAAA query from a DNS64-eligible client.  Every other op of the
// answer half (admission through the parked downstream stage, direct Store
// writes under a lease, the refresh CAS, purges, plain hits of an ordinary
// client on all routes, clock steps) runs unchanged on the two keys
//
//   V6Key  AAAA <name>   NODATA + SOA (TTL raw, MINIMUM aux or raw), a negative entry
//   V4Key  A    <name>   the A RRset, a positive entry
//
// so the synthesised reply is composed from entries of differing ages.
//
// Predicates judged on the real reply of Hit64 (the driver's own oracle: the
// TTLs it put into the records, the leases, the instants of the calls, the
// clock steps; the A entry is identified by the IPv4 address embedded in the
// synthesised AAAA, the NODATA entry is the holder of V6Key at call start --
// the scripted downstream never answers during Hit64, so a synthesised reply
// can only have been built from that holder):
//
//   C04 ServedLive   neither entry is used after its lifetime ended
//   C04 TTLShown     the synthesised TTL <= the time EACH of the two entries has left
//                    (composed replies inherit the shortest lifetime among the pieces)
//   C04 TTLMonotone  ... never above what an earlier hit on either entry showed, and
//                    never growing between two synthesised replies from the same pair
//   C20 TtlMin       the synthesised TTL <= every A TTL the internal lookup handed to
//                    dns64, and <= the AAAA negative TTL = min(SOA MINIMUM as admitted,
//                    what the cached NODATA has left)          (focus "c20" only)
//
//   C20 NeverOverFailure  no AAAA is synthesised over a CACHED failure: the driver's downstream wrote a SERVFAIL
//                    for the AAAA question less than FailTTL (virtual) seconds ago (ops Fail64), nothing dropped
//                    the record since (no useful answer through the cache writer, no purge), no live NODATA
//                    entry shadows it, and in this call the AAAA question did not reach the downstream -- so
//                    the SERVFAIL dns64 was handed came from the RFC 9520 record          (focus "c20" only)
//
// A relayed NODATA (A lookup failed) is an ordinary serve of the V6Key entry.
//
// The failure dimension (FailTTL > 0): op Fail64 = the downstream answers the AAAA question with a plain SERVFAIL
// (recorded by the cache; dns64 sees a fresh failure and may synthesise from the cached A RRset, RFC 6147 5.1.3),
// op Hit64 while the record is active must be passed through on every route (the wire-born one: dns64 has
// materialised the request onto a detached context with a copy of the ResponseMeta before the cache marks its
// reply), op HitFail = the ordinary client's AAAA query / Store.GetWithContext answered from the record.
//
// Also here: noteWireServe, the non-vacuity counters of the wire-born byte
// route (an undecoded request answered from the entry's stored bytes, and a
// second such hit on the same entry at a later instant).

import (
	"context"
	"fmt"
	"math"
	"time"

	"github.com/miekg/dns"
	"github.com/semihalev/sdns/config"
	"github.com/semihalev/sdns/internal/mock"
	"github.com/semihalev/sdns/middleware"
	"github.com/semihalev/sdns/middleware/dns64"
)

// set by TestLeaseReplay from the input ("" = no DNS64 dimension)
var v6Key, v4Key string
var negName = "ng"

const (
	d64Client = "198.51.100.7:4000" // inside client_networks; the ordinary client 203.0.113.9 is not
	d64Prefix = "2001:db8:64::/96"  // an operator prefix: no IPv4 exclusion list applies (the A rdata is 10.<id>)
)

type d64State struct {
	holder6  int64              // entry id holding V6Key when the Hit64 call started (0 none)
	lookA    *dns.Msg           // what the internal A lookup of this Hit64 returned to dns64
	lastPair map[[2]int64]int64 // TTL last synthesised from (NODATA entry, A entry)
	wireSeen map[int64]int64    // entry id -> virtual instant of its first wire-born byte serve
	// failure dimension: the driver's own account of the RFC 9520 record of the AAAA question
	failUntil time.Time // a lower bound of the record's retryAfter on the code timeline (zero = no record)
	hops6     int       // times the AAAA question reached the scripted downstream in the current call
	hops4     int       // ... the A question (the secondary lookup missed the cache)
	fresh     bool      // the downstream answered the AAAA question with SERVFAIL in the current call
	// outcome class of the current call, as observed (compare64)
	over         string // "nodata" | "fresh" | "cached" | "none" | "unknown"
	synth, alook bool
}

func (s *d64State) tick(dd time.Duration) {
	if !s.failUntil.IsZero() {
		s.failUntil = s.failUntil.Add(-dd)
	}
}

func (s *d64State) failClear() { s.failUntil = time.Time{} }

// the record is active at t by the driver's account, with room for the code's later clock reads
func (s *d64State) failActive(t time.Time) bool {
	return !s.failUntil.IsZero() && t.Add(200*time.Millisecond).Before(s.failUntil)
}

func newDNS64(q middleware.Queryer) *dns64.DNS64 {
	d := dns64.New(&config.Config{DNS64: config.DNS64Config{Enabled: true, Prefixes: []string{d64Prefix},
		ClientNetworks: []string{"198.51.100.0/24"}, ExcludeANetworks: []string{}}})
	if d == nil {
		panic("dns64.New returned nil")
	}
	d.SetQueryer(q)
	return d
}

func (s *d64State) noteLookup(req, resp *dns.Msg) {
	if v6Key == "" || req == nil || len(req.Question) != 1 || req.Question[0].Qtype != dns.TypeA || resp == nil {
		return
	}
	s.lookA = resp.Copy()
}

// id of the entry stored under key right now, live or not (0 = none, -1 = undecodable)
func (r *run) holderID(key string) int64 {
	ent := r.store.VerifC04Peek(r.key64(key))
	if ent == nil {
		return 0
	}
	if sm := ent.VerifC04Stored(); sm != nil {
		if got := r.decode(sm, []string{key}, nil); len(got) == 1 {
			return got[0].ID
		}
	}
	return -1
}

func (r *run) stepHit64(route string, servfail bool, exp *expState, ev map[string]any, where string) (string, error) {
	if r.in.V6Key == "" {
		return "", fmt.Errorf("Hit64 without the DNS64 dimension")
	}
	for _, o := range r.slots {
		if o.active {
			return "a request is in flight", nil
		}
	}
	sl := r.slots[3]
	ev["q"], ev["route"] = "d64", route
	r.d64.holder6 = r.holderID(r.in.V6Key)
	r.d64.lookA = nil
	r.d64.hops6, r.d64.hops4, r.d64.fresh = 0, 0, false
	sl.client, sl.d64 = d64Client, true
	defer func() { sl.d64 = false }()
	r.launch(sl, r.in.V6Key, route)
	e, err := r.await(sl)
	// whatever reaches the scripted downstream (the AAAA miss, the A lookup's miss) gets no answer -- except the
	// AAAA question of a Fail64 step: a plain SERVFAIL, which the cache records
	for tries := 0; err == nil && !e.done && tries < 6; tries++ {
		sl.failed = true
		switch {
		case e.hop == r.in.V6Key && servfail && !r.d64.fresh:
			r.d64.hops6++
			r.d64.fresh = true
			// lower bound of the record's retryAfter: it is stamped after this instant
			r.d64.failUntil = time.Now().Add(time.Duration(r.in.FailTTL) * time.Second)
			sl.cmd <- command{servfail: true}
		case e.hop == r.in.V6Key:
			r.d64.hops6++
			sl.cmd <- command{}
		default:
			r.d64.hops4++
			sl.cmd <- command{}
		}
		e, err = r.await(sl)
	}
	if err != nil {
		return "", err
	}
	if !e.done {
		return "", fmt.Errorf("Hit64 via %s never completed", route)
	}
	if servfail {
		r.res.Count("op_Fail64_"+route, 1)
		if !r.d64.fresh {
			// the model's query went downstream, the real one was answered before (a live entry, an active record)
			pcs := r.complete(sl, ev, where)
			_ = pcs
			return fmt.Sprintf("%s: the AAAA question never reached the downstream, the model's does", where), nil
		}
	} else {
		r.res.Count("op_Hit64_"+route, 1)
	}
	pcs := r.complete(sl, ev, where)
	ev["over"], ev["synth"], ev["alook"] = r.d64.over, r.d64.synth, r.d64.alook
	if d := r.compare64(exp, where); d != "" {
		return d, nil
	}
	if e6 := r.ents[r.d64.holder6]; e6 != nil && exp != nil {
		// Lease64 reads the negative TTL as the time the NODATA has left; an SOA MINIMUM below the 5 s floor
		// undercuts that (the entry lives 5 s), so the code legally shows less than the model
		minimum := e6.raw
		if e6.aux != noAux {
			minimum = e6.aux
		}
		if minimum < floorS {
			r.res.Count("d64_subfloor_minimum", 1)
			for i := range exp.Reply.Pieces {
				for _, p := range pcs {
					if w := &exp.Reply.Pieces[i]; p.Key == w.Key && p.Shown <= w.Shown && p.Shown <= minimum {
						w.Shown = p.Shown
					}
				}
			}
		}
	}
	return r.compareReply(exp, pcs, sl.w.Written(), where), nil
}

// the composed reply of a DNS64 client; returns the pieces incl. the NODATA entry a synthesised reply was built from
func (r *run) checkD64(sl *slot, pcs []obsPiece, answered bool, where string) []obsPiece {
	if !answered {
		r.res.Count("d64_unanswered", 1)
		r.d64.over, r.d64.synth, r.d64.alook = "none", false, r.d64.lookA != nil || r.d64.hops4 > 0
		return pcs
	}
	msg := sl.w.Msg()
	synth, ttl := false, int64(-1)
	for _, rr := range msg.Answer {
		if a, ok := rr.(*dns.AAAA); ok {
			synth = true
			if int64(a.Hdr.Ttl) > ttl {
				ttl = int64(a.Hdr.Ttl)
			}
		}
	}
	// ---- what the AAAA reply handed to dns64 was (the driver's own account)
	over := "nodata"
	if e6 := r.ents[r.d64.holder6]; r.d64.holder6 != 0 && e6 == nil {
		over = "unknown" // something is stored under the AAAA question that the driver cannot account for
	} else if e6 == nil || !sl.t0.Before(e6.expHi) {
		// no NODATA entry, or one whose lifetime had certainly ended when the call began
		switch {
		case r.d64.fresh:
			over = "fresh"
		case r.d64.hops6 == 0 && r.d64.failActive(time.Now()):
			// nothing cached answers the AAAA question, the downstream was not asked, and the record the driver
			// caused is still inside its back-off now that the call is over: the cache answered from the RFC 9520 record
			over = "cached"
		default:
			over = "unknown"
		}
	}
	r.d64.over, r.d64.synth, r.d64.alook = over, synth, r.d64.lookA != nil || r.d64.hops4 > 0
	if over == "cached" {
		r.res.Count("d64_cachedfail_"+sl.route, 1)
		if r.d64.lookA != nil || r.d64.hops4 > 0 {
			// beyond the statement (RFC 9520: no corresponding outgoing query inside the back-off): observation
			r.res.Count("d64_cachedfail_alookup", 1)
		}
		if synth {
			r.violate("NeverOverFailure", fmt.Sprintf("%s: DNS64 synthesised AAAA (TTL %d) over a CACHED failure: the AAAA question of %s failed %.1fs ago "+
				"(SERVFAIL from the downstream, recorded by the cache with a %d s back-off), this %s query was answered from that RFC 9520 record "+
				"(the question did not reach the downstream, no NODATA entry is live), yet dns64 ran the A lookup and synthesised instead of passing the SERVFAIL through",
				where, ttl, qname(r.in.V6Key), (time.Duration(r.in.FailTTL)*time.Second-r.d64.failUntil.Sub(sl.t0)).Seconds(), r.in.FailTTL, sl.route))
			return pcs
		}
		if msg.Rcode == dns.RcodeServerFailure {
			r.res.Count("d64_cachedfail_pass_"+sl.route, 1)
		}
		return pcs
	}
	if !synth {
		if over == "fresh" {
			r.res.Count("d64_fresh_relayed", 1)
			return pcs
		}
		// the NODATA was relayed: a plain serve of the V6Key entry
		r.res.Count("d64_relayed", 1)
		r.checkPieces(pcs, sl.t0, where)
		return pcs
	}
	r.res.Count("d64_synth", 1)
	if over == "fresh" {
		// RFC 6147 5.1.3: a plain fresh SERVFAIL counts as "no answer"; the reply is built from the A entry alone
		// (no SOA: the 600 s ceiling is dns64's own, the statement sets no bound)
		r.res.Count("d64_synth_over_fresh", 1)
		for i := range pcs {
			if pcs[i].Key != r.in.V4Key {
				continue
			}
			pcs[i].Shown = ttl
			// (as below: checked against the A entry's plain history, never tightening it -- the ceiling is not the entry's TTL)
			if e := r.ents[pcs[i].ID]; e != nil && pcs[i].ID > 0 {
				left := e.expHi.Sub(sl.t0)
				switch {
				case left <= 0:
					r.violate("ServedLive", fmt.Sprintf("%s synthesised AAAA from %s (entry e%d) %.3fs after that entry's lifetime ended", where, pcs[i].Key, pcs[i].ID, (-left).Seconds()))
				case float64(ttl) > left.Seconds():
					r.violate("TTLShown", fmt.Sprintf("%s: the synthesised AAAA shows TTL %d but the A RRset it was built from (entry e%d) had only %.3fs left", where, ttl, pcs[i].ID, secsDown(left)))
				case e.last >= 0 && ttl > e.last:
					r.violate("TTLMonotone", fmt.Sprintf("%s: the synthesised AAAA shows TTL %d although an earlier hit on %s (entry e%d) showed %d", where, ttl, pcs[i].Key, pcs[i].ID, e.last))
				}
			}
		}
		if la := r.d64.lookA; la != nil {
			for _, rr := range la.Answer {
				if a, ok := rr.(*dns.A); ok && ttl > int64(a.Hdr.Ttl) {
					r.violate("TtlMin", fmt.Sprintf("%s: synthesised TTL %d exceeds the TTL %d of the A record the internal lookup returned", where, ttl, a.Hdr.Ttl))
				}
			}
		}
		return pcs
	}
	if r.d64.holder6 <= 0 {
		r.res.DriftNote("[%s] %s: AAAA synthesised although no NODATA entry was stored for %s", r.bid, where, r.in.V6Key)
		return pcs
	}
	var id4 int64
	for i := range pcs {
		if pcs[i].Key == r.in.V4Key {
			id4 = pcs[i].ID
			pcs[i].Shown = ttl
		}
	}
	pcs = append(pcs, obsPiece{Key: r.in.V6Key, ID: r.d64.holder6, Shown: ttl, Lvl: 1})
	n0 := r.res.NViolations()
	aged := false
	for _, p := range pcs {
		e := r.ents[p.ID]
		if e == nil || p.ID <= 0 {
			r.res.DriftNote("[%s] %s: synthesised reply built from entry id %d for %s which the driver never stored", r.bid, where, p.ID, p.Key)
			return pcs
		}
		left := e.expHi.Sub(sl.t0)
		switch {
		case left <= 0:
			r.violate("ServedLive", fmt.Sprintf("%s synthesised AAAA from %s (entry e%d) %.3fs after that entry's lifetime ended (ttl %v, cut %s)",
				where, p.Key, p.ID, (-left).Seconds(), e.ttlEff, cutStr(e.cut, sl.t0)))
		case float64(ttl) > left.Seconds():
			r.violate("TTLShown", fmt.Sprintf("%s: the synthesised AAAA shows TTL %d but its piece %s (entry e%d, ttl %v, cut %s) had only %.3fs left "+
				"(a DNS64 reply inherits the shortest lifetime among the cached NODATA and the cached A RRset)",
				where, ttl, p.Key, p.ID, e.ttlEff, cutStr(e.cut, sl.t0), secsDown(left)))
		case e.last >= 0 && ttl > e.last:
			r.violate("TTLMonotone", fmt.Sprintf("%s: the synthesised AAAA shows TTL %d although an earlier hit on %s (entry e%d) showed %d", where, ttl, p.Key, p.ID, e.last))
		}
		if r.res.NViolations() > n0 {
			return pcs
		}
		if p.Key == r.in.V6Key && left < e.ttlEff-time500 {
			aged = true
		}
	}
	if aged {
		r.res.Count("d64_synth_aged_nodata", 1) // the NODATA had visibly less left than at admission (age or lease)
	}
	pair := [2]int64{r.d64.holder6, id4}
	if r.d64.lastPair == nil {
		r.d64.lastPair = map[[2]int64]int64{}
	}
	if last, ok := r.d64.lastPair[pair]; ok && ttl > last {
		r.violate("TTLMonotone", fmt.Sprintf("%s: the synthesised TTL grew from %d to %d between two replies built from the same entries (e%d, e%d)",
			where, last, ttl, pair[0], pair[1]))
		return pcs
	}
	r.d64.lastPair[pair] = ttl
	// ---- C20: TTL no larger than both the A TTL and the AAAA negative TTL
	if la := r.d64.lookA; la != nil {
		for _, rr := range la.Answer {
			if a, ok := rr.(*dns.A); ok && ttl > int64(a.Hdr.Ttl) {
				r.violate("TtlMin", fmt.Sprintf("%s: synthesised TTL %d exceeds the TTL %d of the A record the internal lookup returned", where, ttl, a.Hdr.Ttl))
				return pcs
			}
		}
	} else {
		r.res.DriftNote("[%s] %s: AAAA synthesised without an internal A lookup", r.bid, where)
	}
	e6 := r.ents[r.d64.holder6]
	minimum := e6.raw
	if e6.aux != noAux {
		minimum = e6.aux
	}
	if left6 := e6.expHi.Sub(sl.t0); ttl > minimum || float64(ttl) > left6.Seconds() {
		r.violate("TtlMin", fmt.Sprintf("%s: synthesised TTL %d exceeds the AAAA negative TTL: the cached NODATA (entry e%d, SOA MINIMUM %d) had %.3fs left, "+
			"so its SOA was served with TTL <= %d", where, ttl, r.d64.holder6, minimum, secsDown(left6), int64(left6.Seconds())))
	}
	return pcs
}

const time500 = 500 * time.Millisecond

// seconds, rounded DOWN to the millisecond (so "had only 3.999s left" never prints as 4.000)
func secsDown(d time.Duration) float64 { return math.Floor(d.Seconds()*1000) / 1000 }

// non-vacuity counters of the wire-born byte route (Cache.serveHitFromWire -> CacheEntry.serveWireIntoRequest):
// the request is still undecoded after it was answered, i.e. the reply was built from the entry's stored bytes
func (r *run) noteWireServe(sl *slot, pcs []obsPiece, answered bool) {
	if sl.route != "wire" || sl.wreq == nil || !sl.wreq.Undecoded() || !answered {
		return
	}
	r.res.Count("wire_byte_served", 1)
	if r.d64.wireSeen == nil {
		r.d64.wireSeen = map[int64]int64{}
	}
	for _, p := range pcs {
		if p.fresh || p.ID <= 0 || len(pcs) != 1 {
			continue
		}
		if t, ok := r.d64.wireSeen[p.ID]; !ok {
			r.d64.wireSeen[p.ID] = r.vnow
		} else if t < r.vnow {
			r.res.Count("wire_byte_rehit_later", 1) // >= 2 byte serves of one stored entry with time in between
		}
	}
}

// model comparison of the DNS64 outcome class (never a verdict)
func (r *run) compare64(exp *expState, where string) string {
	if exp == nil || exp.Reply.Kind != "reply" || exp.Reply.Over == "" {
		return ""
	}
	over, synth, alook := r.d64.over, r.d64.synth, r.d64.alook
	switch {
	case over != exp.Reply.Over:
		return fmt.Sprintf("%s: dns64 was handed a %q AAAA reply, the model says %q", where, over, exp.Reply.Over)
	case synth != exp.Reply.Synth:
		return fmt.Sprintf("%s: synthesised=%v, the model says %v", where, synth, exp.Reply.Synth)
	case alook != exp.Reply.Alook:
		return fmt.Sprintf("%s: A lookup=%v, the model says %v", where, alook, exp.Reply.Alook)
	}
	return ""
}

// HitFail: the ordinary (DNS64-ineligible) client asks the AAAA question while the failure record is active
func (r *run) stepHitFail(route string, exp *expState, ev map[string]any, where string) (string, error) {
	sl := r.slots[3]
	if sl.active {
		return "slot busy", nil
	}
	key := r.in.V6Key
	ev["q"], ev["route"] = key, route
	r.res.Count("op_HitFail_"+route, 1)
	if route == "get" {
		sl.q, sl.route, sl.path = key, route, []string{key}
		sl.meta.Reset()
		sl.metas, sl.leases, sl.pend, sl.failed, sl.lvl = map[int]*middleware.ResponseMeta{}, nil, nil, false, 1
		ctx := middleware.WithResponseMeta(context.Background(), &sl.meta)
		sl.t0 = time.Now()
		msg, ok := r.store.GetWithContext(ctx, question(key))
		sl.w = mock.NewWriter("udp", "203.0.113.9:4000")
		if ok && msg != nil {
			_ = sl.w.WriteMsg(msg)
		}
		sl.failed = msg == nil
		pcs := r.complete(sl, ev, where)
		if ok && msg != nil && msg.Rcode == dns.RcodeServerFailure {
			r.res.Count("plain_cachedfail_get", 1)
		}
		return r.compareReply(exp, pcs, ok && msg != nil, where), nil
	}
	r.launch(sl, key, route)
	e, err := r.await(sl)
	if err != nil {
		return "", err
	}
	if !e.done { // the record did not answer: the query reached the downstream handler; it does not answer
		sl.failed = true
		sl.cmd <- command{}
		if e, err = r.await(sl); err != nil {
			return "", err
		}
		pcs := r.complete(sl, ev, where)
		_ = pcs
		return fmt.Sprintf("%s: the query went downstream, the model answers it from the failure record", where), nil
	}
	pcs := r.complete(sl, ev, where)
	if sl.w.Written() && sl.w.Msg() != nil && sl.w.Msg().Rcode == dns.RcodeServerFailure {
		r.res.Count("plain_cachedfail_"+route, 1)
	}
	return r.compareReply(exp, pcs, sl.w.Written(), where), nil
}
