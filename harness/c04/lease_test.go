package c04

// API-tier replay of the answer half of Lease.tla (MC_LeaseAnswer /
// Sim_LeaseAnswer behaviours) on the real middleware/cache: every model action
// is one call (or one released stage of a call) of
//
//   Cache.ServeDNS on a chain [cache, scripted downstream]  HitMsg / HitWire / Chase /
//        (message-born, message-born + byte path, wire-born)  HitCut / HitDenial
//   the scripted downstream handler (parks until released)  Lease / CacheWrite / NoAnswer
//   Store.SetFromResponseWithCut / SetFromResponseScoped     SubQueryWrite
//   Store.GetWithContext, LookupByKeyVerified + ToMsg        GetEntry / HitScoped
//   Store.RecordNXDomainCut / RecordDenialProof               CutWrite / ProofWrite
//   Store.Lookup, Store.ReplaceIfCurrent                      PrefetchStart / PrefetchComplete
//   Cache.Purge                                               Purge
//   the overlay timestamp shifter                             TickA
//
// The CNAME chase runs through a Queryer over the same [cache, downstream]
// pair with an internal writer, so both chase implementations (Msg-path
// additionalAnswer with forked metas, wire-path collectWireChase) execute.
//
// Verdicts are the C04 predicates evaluated on what the code returned, against
// an oracle the driver keeps from its own inputs only (TTLs it put into the
// records, leases it handed in, the instants it made the calls, the clock
// steps it applied): every record served identifies the stored entry it came
// from (the rdata carries the entry id).
//
//   ServedLive      a record of entry x is served only before x's lifetime ends
//   TTLShown        its TTL <= the time x has left
//   TTLMonotone     and never larger than the TTL last shown for x
//   ComposedMin     (a)(b) = the two above for every piece of a composed reply;
//                   (c) what the request re-caches, and the request-tree cut,
//                   live no longer than every cached piece / lease beneath them
//   LateWriteLoses  ReplaceIfCurrent stores iff the claimed entry is still the holder
//
// Everything else that differs from the model (hit where it predicted a miss
// one microsecond before expiry, a different TTL that is still legal) is drift.

import (
	"context"
	"encoding/json"
	"fmt"
	"math"
	"net/netip"
	"os"
	"path/filepath"
	"runtime"
	"sort"
	"strconv"
	"strings"
	"sync"
	"testing"
	"time"

	"github.com/miekg/dns"
	"github.com/semihalev/sdns/config"
	"github.com/semihalev/sdns/internal/mock"
	"github.com/semihalev/sdns/middleware"
	mcache "github.com/semihalev/sdns/middleware/cache"
	"github.com/semihalev/sdns/verifharness/vh"
)

const (
	noAux  = int64(-1)
	floorS = 5
	capS   = 86400
)

type step struct {
	Op   string          `json:"op"`
	Args []any           `json:"args"`
	Pre  int64           `json:"pre"` // model's nextId before the step (id of the entry this step creates)
	Exp  json.RawMessage `json:"exp"`
}

type expPiece struct {
	Key   string `json:"key"`
	ID    int64  `json:"id"`
	Shown int64  `json:"shown"`
	Lvl   int    `json:"lvl"`
}

type expState struct {
	Reply struct {
		Kind     string     `json:"kind"`
		Answered bool       `json:"answered"`
		Pieces   []expPiece `json:"pieces"`
		Swapped  bool       `json:"swapped"`
		// DNS64 replies (Lease64.tla Reply64): what the AAAA reply handed to dns64 was, whether the A lookup ran, synthesis
		Over  string `json:"over"`
		Alook bool   `json:"alook"`
		Synth bool   `json:"synth"`
	} `json:"reply"`
	Parked map[string]string `json:"parked"` // slot -> hop the model's request is waiting on
	Live   map[string]int64  `json:"live"`   // key -> id of the live holder (0 none)
}

type behaviour struct {
	ID    string `json:"id"`
	Steps []step `json:"steps"`
}

type input struct {
	Chain      []string    `json:"chain"`
	NegKey     string      `json:"negKey"`
	ScopedKey  string      `json:"scopedKey"`
	EcsCap     int64       `json:"ecsCap"`
	CutMax     int64       `json:"cutMax"`
	Behaviours []behaviour `json:"behaviours"`
	TraceOut   string      `json:"traceOut"`
	// Focus "ad": only the ComposedAD predicate (C06/C01: AD implies every piece was validated) is judged and
	// the lifetime predicates are drift; "" (C04): the lifetime predicates are judged, ComposedAD is drift
	Focus string `json:"focus"`
	// DNS64 dimension (Lease64.tla, d64_test.go): V6Key = the AAAA question of the name whose A question is
	// V4Key (V6Key is also NegKey: a NODATA + SOA entry). When set, middleware/dns64 stands in front of the cache
	// and op Hit64 is a query from a DNS64-eligible client. Focus "c20" then judges C20's TtlMin only.
	V6Key string `json:"v6Key"`
	V4Key string `json:"v4Key"`
	// FailTTL > 0: the failure dimension of Lease64.tla (ops Fail64 / HitFail): the cache's RFC 9520 back-off is
	// pinned to FailTTL seconds (min = max) and focus "c20" also judges NeverOverFailure (cached failure)
	FailTTL int64 `json:"failTTL"`
}

// ---------------------------------------------------------------- oracle --
type entInfo struct {
	key    string
	expHi  time.Time // upper bound of the instant the entry's lifetime ends (code timeline)
	last   int64     // TTL last shown, -1 = never
	ttlEff time.Duration
	cut    time.Time
	raw, aux int64 // what the admitted records carried (d64_test.go: the SOA MINIMUM of a NODATA entry)
}

type lease struct {
	lvl int
	d   time.Time
}

type pending struct {
	lvl      int
	key      string
	id       int64
	raw, aux int64
}

type slot struct {
	id      int
	q       string
	route   string
	path    []string
	meta    middleware.ResponseMeta
	metas   map[int]*middleware.ResponseMeta // level -> meta of a level that reached downstream
	leases  []lease
	pend    []pending
	hop     string // parked at
	lvl     int
	cmd     chan command
	ev      chan event
	w       *mock.Writer
	wreq    *middleware.Request
	t0      time.Time // call start
	active  bool
	failed  bool
	client  string // source address of the next query ("" = the ordinary, DNS64-ineligible client)
	d64     bool   // a Hit64 query (d64_test.go)
}

type command struct {
	servfail bool // answer the hop with a plain SERVFAIL (Fail64: the cache records an RFC 9520 failure)
	answer   bool
	raw, aux int64
	id       int64
}

type event struct {
	done bool
	hop  string
	ctx  context.Context
}

type run struct {
	in     *input
	res    *vh.Result
	c      *mcache.Cache
	store  *mcache.Store
	chain  []middleware.Handler
	ents   map[int64]*entInfo
	slots  map[int]*slot
	claims map[string]*mcache.CacheEntry
	claimID map[string]int64
	vnow   int64
	events []map[string]any
	hist   []string
	bid    string
	cur    *behaviour
	slow   bool
	front  []middleware.Handler // chain client queries enter (dns64 in front of r.chain when V6Key is set)
	d64    d64State             // d64_test.go
}

// A wire-born request that leaves the wire ladder continues on a detached
// context that carries no custom values (Chain.detachStrictContext), so the
// scripted downstream handler finds its request by goroutine: every client
// query, sub-queries included, runs synchronously on the goroutine that
// launched it.
var gids sync.Map // goroutine id -> *slot

func goid() int64 {
	var buf [64]byte
	n := runtime.Stack(buf[:], false)
	s := strings.TrimPrefix(string(buf[:n]), "goroutine ")
	if i := strings.IndexByte(s, ' '); i > 0 {
		id, _ := strconv.ParseInt(s[:i], 10, 64)
		return id
	}
	return -1
}

// ----------------------------------------------------------------- names --
func qname(key string) string {
	if key == v6Key && v6Key != "" {
		key = v4Key // the AAAA question of the same owner name
	}
	switch key {
	case "cut":
		return "x.gone.zc."
	case "denial":
		return "m.zd."
	}
	return key + ".ex."
}

func keyOfName(name string) string {
	name = strings.ToLower(name)
	switch {
	case strings.HasSuffix(name, ".ex."):
		return strings.TrimSuffix(name, ".ex.")
	case name == "ex.":
		return negName
	case strings.HasSuffix(name, "zc."):
		return "cut"
	case name == "zd.":
		return "soa"
	}
	return ""
}

func (r *run) target(key string) string {
	for i, k := range r.in.Chain {
		if k == key && i+1 < len(r.in.Chain) {
			return r.in.Chain[i+1]
		}
	}
	return ""
}

func (r *run) pathOf(q, route string) []string {
	if route != "get" && route != "scoped" {
		for i, k := range r.in.Chain {
			if k == q {
				return r.in.Chain[i:]
			}
		}
	}
	return []string{q}
}

func (r *run) kindOf(key string) string {
	switch key {
	case r.in.NegKey:
		return "neg"
	case r.in.ScopedKey:
		return "scoped"
	}
	return "pos"
}

var scope = netip.MustParsePrefix("192.0.2.0/24")

func sigRR(owner string, covered uint16, signer string, ttl uint32, aux int64, tag int64) *dns.RRSIG {
	exp := time.Now().Add(48 * time.Hour).Unix()
	if aux != noAux {
		exp = time.Now().Unix() + aux
	}
	return &dns.RRSIG{
		Hdr:         dns.RR_Header{Name: owner, Rrtype: dns.TypeRRSIG, Class: dns.ClassINET, Ttl: ttl},
		TypeCovered: covered, Algorithm: dns.RSASHA256, Labels: uint8(dns.CountLabel(owner)), OrigTtl: ttl,
		Expiration: uint32(exp), Inception: uint32(exp - 100000), KeyTag: uint16(tag), SignerName: signer,
		Signature: "Tm90QVJlYWxTaWduYXR1cmVCdXRWYWxpZEJhc2U2NA==",
	}
}

// the RRset a hop's authority would answer with; the entry id rides in the rdata
func (r *run) answerFor(req *dns.Msg, key string, raw, aux, id int64) *dns.Msg {
	m := new(dns.Msg)
	m.SetReply(req)
	m.RecursionAvailable = true
	name := qname(key)
	ttl := uint32(raw)
	switch {
	case key == r.in.NegKey:
		m.Rcode = dns.RcodeNameError
		if key == v6Key {
			m.Rcode = dns.RcodeSuccess // AAAA NODATA of a name that has an A RRset
		}
		// the second lifetime source of a negative answer is either the SOA minimum or (every other
		// entry) the expiration of the RRSIG covering the authority section's SOA
		min := ttl
		viaSig := aux != noAux && id%2 == 1 && key != v6Key // (DNS64: aux is always the SOA MINIMUM)
		if aux != noAux && !viaSig {
			min = uint32(aux)
		}
		if aux == noAux && raw < floorS && id%3 == 0 && r.target(r.in.Chain[0]) != "" && r.in.Chain[len(r.in.Chain)-1] == key {
			// a bare denial: no SOA, no proof (an unsigned zone whose server omits the SOA). Its lifetime is
			// the floor either way (dnsutil.CalculateCacheTTL of an empty message), so the oracle is unchanged;
			// only used where the name ends an alias chain, so its lineage has no record to ride on
			break
		}
		m.Ns = []dns.RR{&dns.SOA{Hdr: dns.RR_Header{Name: "ex.", Rrtype: dns.TypeSOA, Class: dns.ClassINET, Ttl: ttl},
			Ns: "ns.ex.", Mbox: "h.ex.", Serial: uint32(id), Refresh: 60, Retry: 60, Expire: 60, Minttl: min}}
		if viaSig {
			m.Ns = append(m.Ns, sigRR("ex.", dns.TypeSOA, "ex.", ttl, aux, id))
		}
	case r.target(key) != "":
		m.Answer = []dns.RR{
			&dns.CNAME{Hdr: dns.RR_Header{Name: name, Rrtype: dns.TypeCNAME, Class: dns.ClassINET, Ttl: ttl}, Target: qname(r.target(key))},
			&dns.TXT{Hdr: dns.RR_Header{Name: name, Rrtype: dns.TypeTXT, Class: dns.ClassINET, Ttl: ttl}, Txt: []string{"id=" + strconv.FormatInt(id, 10)}},
		}
		if aux != noAux {
			m.Answer = append(m.Answer, sigRR(name, dns.TypeCNAME, "ex.", ttl, aux, id))
		}
	default:
		m.Answer = []dns.RR{&dns.A{Hdr: dns.RR_Header{Name: name, Rrtype: dns.TypeA, Class: dns.ClassINET, Ttl: ttl},
			A: []byte{10, byte(id >> 16), byte(id >> 8), byte(id)}}}
		if aux != noAux {
			m.Answer = append(m.Answer, sigRR(name, dns.TypeA, "ex.", ttl, aux, id))
		}
	}
	m.AuthenticatedData = validated(id)
	return m
}

// validated reports whether the scripted authority vouches for entry id (AD=1 on its answer)
func validated(id int64) bool { return id%2 == 0 }

func question(key string) *dns.Msg {
	req := new(dns.Msg)
	req.SetQuestion(qname(key), dns.TypeA)
	if key == v6Key && v6Key != "" {
		req.Question[0].Qtype = dns.TypeAAAA
	}
	req.RecursionDesired = true
	req.AuthenticatedData = true // the client asks for validation state (no edns layer in this chain)
	return req
}

// the statement's lifetime rule, from the driver's own inputs
func (r *run) effTTL(raw, aux int64, kind string) time.Duration {
	base := raw
	if aux != noAux && aux < base {
		base = aux
	}
	if base < floorS {
		base = floorS
	}
	if base > capS {
		base = capS
	}
	if kind == "scoped" && r.in.EcsCap > 0 && base > r.in.EcsCap {
		base = r.in.EcsCap
	}
	return time.Duration(base) * time.Second
}

func (r *run) bareTTL(raw, aux int64) time.Duration {
	b := raw
	if aux != noAux && aux < b {
		b = aux
	}
	if b > r.in.CutMax {
		b = r.in.CutMax
	}
	return time.Duration(b) * time.Second
}

func minT(a, b time.Time) time.Time {
	switch {
	case a.IsZero():
		return b
	case b.IsZero():
		return a
	case b.Before(a):
		return b
	}
	return a
}

func (r *run) violate(pred, what string) {
	// ComposedAD is C06/C01's (focus "ad"), TtlMin is C20's (focus "c20"), everything else C04's (focus "")
	if owner := map[string]string{"ComposedAD": "ad", "TtlMin": "c20", "NeverOverFailure": "c20"}[pred]; owner != r.in.Focus {
		r.res.DriftNote("%s (judged by another check): %s", pred, what)
		return
	}
	r.res.Count("violations_"+pred, 1) // (vh keeps the first violation per predicate only)
	driver, comp := "c04-lease", "middleware/cache"
	if r.in.V6Key != "" {
		driver, comp = "c04-d64", "dns64 over middleware/cache"
	}
	r.res.Violate("c04/api/"+pred, fmt.Sprintf("%s %s after %v: %s", comp, pred, r.hist, what),
		map[string]any{"driver": driver, "behaviour": r.bid, "history": r.hist, "events": r.events,
			"input": map[string]any{"chain": r.in.Chain, "negKey": r.in.NegKey, "scopedKey": r.in.ScopedKey, "ecsCap": r.in.EcsCap,
				"cutMax": r.in.CutMax, "v6Key": r.in.V6Key, "v4Key": r.in.V4Key, "failTTL": r.in.FailTTL, "focus": r.in.Focus, "behaviours": []any{map[string]any{"id": r.bid, "steps": r.cur.Steps[:len(r.hist)]}}}})
}

func argInt(a any) int64 {
	switch v := a.(type) {
	case float64:
		return int64(v)
	case int:
		return int64(v)
	}
	return 0
}
func argStr(a any) string { s, _ := a.(string); return s }

// ------------------------------------------------ scripted downstream ----
type downstream struct{ r *run }

func (d *downstream) Name() string { return "verif-downstream" }

func (d *downstream) ServeDNS(ctx context.Context, ch *middleware.Chain) {
	req := ch.Request.Msg()
	var s *slot
	if v, ok := gids.Load(goid()); ok {
		s = v.(*slot)
	}
	if req == nil || len(req.Question) == 0 || s == nil {
		ch.Cancel()
		return
	}
	hop := keyOfName(req.Question[0].Name)
	if hop == v4Key && v6Key != "" && req.Question[0].Qtype == dns.TypeAAAA {
		hop = v6Key
	}
	s.ev <- event{hop: hop, ctx: ctx}
	cmd := <-s.cmd
	if cmd.answer {
		_ = ch.Writer.WriteMsg(d.r.answerFor(req, hop, cmd.raw, cmd.aux, cmd.id))
	} else if cmd.servfail {
		m := new(dns.Msg)
		m.SetRcode(req, dns.RcodeServerFailure) // plain: no EDE, no OPT (the client sent none)
		m.RecursionAvailable = true
		_ = ch.Writer.WriteMsg(m)
	}
	ch.Cancel()
}

type queryer struct{ r *run }

func (q *queryer) Query(ctx context.Context, req *dns.Msg) (*dns.Msg, error) {
	ctx, _ = middleware.EnsureResolutionAttemptGuard(ctx)
	w := mock.NewWriter("tcp", "127.0.0.255:0") // Internal() == true, like middleware.BufferWriter
	ch := middleware.NewChain(q.r.chain)
	ch.Reset(w, req)
	ch.Next(ctx)
	if !w.Written() {
		return nil, middleware.ErrNoResponse
	}
	q.r.d64.noteLookup(req, w.Msg())
	return w.Msg(), nil
}

// --------------------------------------------------------------- replies --
type obsPiece struct {
	Key   string `json:"key"`
	ID    int64  `json:"id"`
	Shown int64  `json:"shown"`
	Lvl   int    `json:"lvl"`
	fresh bool
}

// decode which stored entry every record of the reply came from
func (r *run) decode(msg *dns.Msg, path []string, fresh map[int64]bool) []obsPiece {
	type acc struct {
		id    int64
		shown int64
	}
	m := map[string]*acc{}
	get := func(k string) *acc {
		if m[k] == nil {
			m[k] = &acc{id: -1, shown: -1}
		}
		return m[k]
	}
	for _, rr := range append(append([]dns.RR{}, msg.Answer...), msg.Ns...) {
		h := rr.Header()
		k := keyOfName(h.Name)
		if k == "" {
			continue
		}
		var a *acc
		switch v := rr.(type) {
		case *dns.A:
			a = get(k)
			a.id = int64(v.A[1])<<16 | int64(v.A[2])<<8 | int64(v.A[3])
		case *dns.AAAA:
			a = get(k)
			if len(v.AAAA) == 16 {
				a.id = int64(v.AAAA[13])<<16 | int64(v.AAAA[14])<<8 | int64(v.AAAA[15])
			}
		case *dns.TXT:
			a = get(k)
			if len(v.Txt) > 0 && strings.HasPrefix(v.Txt[0], "id=") {
				a.id, _ = strconv.ParseInt(v.Txt[0][3:], 10, 64)
			}
		case *dns.SOA:
			a = get(k)
			a.id = int64(v.Serial)
		case *dns.RRSIG:
			if v.TypeCovered == dns.TypeNSEC && k != "cut" {
				k = "nsec"
				a = get(k)
				a.id = int64(v.KeyTag)
			} else {
				a = get(k)
			}
		case *dns.NSEC:
			if k == "soa" {
				k = "nsec"
			}
			a = get(k)
		default:
			a = get(k)
		}
		if int64(h.Ttl) > a.shown {
			a.shown = int64(h.Ttl)
		}
	}
	var out []obsPiece
	for k, a := range m {
		lvl := 1
		for i, p := range path {
			if p == k {
				lvl = i + 1
			}
		}
		out = append(out, obsPiece{Key: k, ID: a.id, Shown: a.shown, Lvl: lvl, fresh: fresh[a.id]})
	}
	sort.Slice(out, func(i, j int) bool { return out[i].Lvl < out[j].Lvl || (out[i].Lvl == out[j].Lvl && out[i].Key < out[j].Key) })
	return out
}

// ServedLive / TTLShown / TTLMonotone for the pieces of one reply served in [t0, t1]
func (r *run) checkPieces(pcs []obsPiece, t0 time.Time, where string) {
	for _, p := range pcs {
		if p.fresh {
			continue
		}
		e := r.ents[p.ID]
		if e == nil || p.ID <= 0 {
			if p.ID > 0 {
				r.res.DriftNote("[%s] %s: reply carries entry id %d for %s which the driver never stored", r.bid, where, p.ID, p.Key)
			}
			continue
		}
		left := e.expHi.Sub(t0)
		if left <= 0 {
			r.violate("ServedLive", fmt.Sprintf("%s served a record of %s (entry e%d) %.3fs after that entry's lifetime ended (ttl %v, cut %s)",
				where, p.Key, p.ID, (-left).Seconds(), e.ttlEff, cutStr(e.cut, t0)))
			continue
		}
		if float64(p.Shown) > left.Seconds() {
			r.violate("TTLShown", fmt.Sprintf("%s showed TTL %d for %s (entry e%d) which had only %.3fs left", where, p.Shown, p.Key, p.ID, left.Seconds()))
		}
		if e.last >= 0 && p.Shown > e.last {
			r.violate("TTLMonotone", fmt.Sprintf("%s showed TTL %d for %s (entry e%d) after an earlier hit showed %d", where, p.Shown, p.Key, p.ID, e.last))
		}
		e.last = p.Shown
	}
}

func cutStr(c time.Time, ref time.Time) string {
	if c.IsZero() {
		return "none"
	}
	return fmt.Sprintf("%+.3fs", c.Sub(ref).Seconds())
}

func (r *run) rel(t time.Time) any {
	if t.IsZero() {
		return -1
	}
	return float64(int64(t.Sub(time.Now()).Seconds()*1000)) / 1000
}

func (r *run) key64(key string) uint64 {
	ck := mcache.CacheKey{Question: question(key).Question[0]}
	if key == r.in.ScopedKey {
		ck.Scope = scope
	}
	return ck.Hash()
}

// register a freshly stored entry in the oracle and check what the store holds now
func (r *run) stored(key string, id, raw, aux int64, tHi time.Time, lineage time.Time, ev map[string]any) {
	ttl := r.effTTL(raw, aux, r.kindOf(key))
	e := &entInfo{key: key, ttlEff: ttl, cut: lineage, last: -1, expHi: minT(tHi.Add(ttl), lineage), raw: raw, aux: aux}
	r.ents[id] = e
	// clause (c) / the TTL rule on what was actually stored (read through the public accessor)
	ent := r.store.VerifC04Peek(r.key64(key))
	now := time.Now()
	if ent == nil {
		return
	}
	if sm := ent.VerifC04Stored(); sm != nil {
		if got := r.decode(sm, []string{key}, nil); len(got) == 1 && got[0].ID == id {
			if shown := ent.TTL(); shown > 0 && float64(shown) > e.expHi.Sub(now).Seconds() {
				r.violate("ComposedMin", fmt.Sprintf("entry e%d for %s was stored with %d s to live; its own TTL (%v) and everything it was learned through allow %.3fs",
					id, key, shown, ttl, e.expHi.Sub(now).Seconds()))
			}
			_, tt, cu := ent.VerifC04Times()
			if ev != nil {
				so, _ := ev["stored"].([]map[string]any)
				lvl := 1
				if l, ok := ev["_lvl"].(int); ok {
					lvl = l
				}
				ev["stored"] = append(so, map[string]any{"key": key, "id": id, "raw": raw, "aux": aux, "lvl": lvl,
					"ttl": int64(math.Ceil(tt.Seconds())), "cut": r.vAbs(cu, now)})
			}
		}
	}
}

// virtual absolute second of a code-timeline instant (-1 = unbounded)
func (r *run) vAbs(t, now time.Time) int64 {
	if t.IsZero() {
		return -1
	}
	return r.vnow + int64(math.Ceil(t.Sub(now).Seconds()))
}

// --------------------------------------------------------- client queries --
func (r *run) launch(sl *slot, key, route string) {
	req := question(key)
	if key == "cut" || key == "denial" {
		req.SetEdns0(1232, true)
	}
	sl.q, sl.route, sl.path = key, route, r.pathOf(key, route)
	sl.meta.Reset()
	sl.metas = map[int]*middleware.ResponseMeta{}
	sl.leases, sl.pend, sl.failed, sl.lvl, sl.hop = nil, nil, false, 0, ""
	client := "203.0.113.9:4000"
	if sl.client != "" {
		client, sl.client = sl.client, ""
	}
	sl.w = mock.NewWriter("udp", client)
	sl.active = true
	ctx := middleware.WithResponseMeta(context.Background(), &sl.meta)
	if sl.d64 {
		// as the server does it: the chain owns the request's ResponseMeta (&ch.Meta, established by Chain.Next);
		// a wire-born request that dns64 materialises continues on a detached context with a COPY of it
		ctx = context.Background()
	}
	ch := middleware.NewChain(r.front)
	sl.wreq = nil
	switch route {
	case "wire":
		raw, err := req.Pack()
		if err != nil {
			panic(err)
		}
		wreq := new(middleware.Request)
		if !wreq.ParseWire(raw, time.Now(), nil) {
			panic("ParseWire refused the query")
		}
		sl.wreq = wreq
		ch.ResetWire(sl.w, wreq)
		ch.AllowDirectPack()
	case "msgw":
		ch.Reset(sl.w, req)
		ch.AllowDirectPack()
	default:
		ch.Reset(sl.w, req)
	}
	sl.t0 = time.Now()
	go func() {
		id := goid()
		gids.Store(id, sl)
		defer gids.Delete(id)
		ch.Next(ctx)
		sl.ev <- event{done: true}
	}()
}

func (r *run) await(sl *slot) (event, error) {
	select {
	case e := <-sl.ev:
		if !e.done {
			sl.hop = e.hop
			sl.lvl = 0
			for i, p := range sl.path {
				if p == e.hop {
					sl.lvl = i + 1
				}
			}
			if m := middleware.ResponseMetaFrom(e.ctx); m != nil {
				sl.metas[sl.lvl] = m
			}
		}
		return e, nil
	case <-time.After(15 * time.Second):
		return event{}, fmt.Errorf("request %d (%s via %s) neither completed nor reached the downstream handler", sl.id, sl.q, sl.route)
	}
}

// the request completed: decode the reply, evaluate the predicates, book the stores
func (r *run) complete(sl *slot, ev map[string]any, where string) []obsPiece {
	t1 := time.Now()
	sl.active = false
	fresh := map[int64]bool{}
	for _, p := range sl.pend {
		fresh[p.id] = true
	}
	var pcs []obsPiece
	answered := sl.w.Written() && sl.w.Msg() != nil
	if answered {
		pcs = r.decode(sl.w.Msg(), sl.path, fresh)
	}
	if sl.failed && sl.lvl >= 3 {
		// the outer chase loop retried the failed hop in a fork of level lvl-2: a piece
		// it found binds that level and above, not the alias beside it
		for i := range pcs {
			if pcs[i].Key == sl.hop && !pcs[i].fresh {
				pcs[i].Lvl = sl.lvl - 1
				r.res.Count("outer_chase_retry_hits", 1)
			}
		}
	}
	if sl.d64 {
		pcs = r.checkD64(sl, pcs, answered, where) // the composed reply of a DNS64 client (d64_test.go)
	} else {
		r.checkPieces(pcs, sl.t0, where)
		r.noteWireServe(sl, pcs, answered)
	}
	// C06/C01 on composed replies: AD only when every piece of the reply was validated
	if answered && sl.w.Msg().AuthenticatedData {
		answered := map[string]bool{r.in.NegKey: true, r.in.ScopedKey: true}
		for _, k := range r.in.Chain {
			answered[k] = true
		}
		for _, p := range pcs {
			// (subtree cuts and denial proofs enter only through the validated-proof seam: always authentic)
			if answered[p.Key] && p.ID > 0 && !validated(p.ID) {
				r.violate("ComposedAD", fmt.Sprintf("%s: the reply carries AD=1 although its piece %s came from entry e%d, which was not validated "+
					"(AD must be the conjunction over every piece a reply is composed of)", where, p.Key, p.ID))
				break
			}
		}
		r.res.Count("replies_with_ad", 1)
	}
	// effective leases: those of a failed deepest level are not inherited
	var eff []lease
	for _, L := range sl.leases {
		if !(sl.failed && L.lvl == sl.lvl) {
			eff = append(eff, L)
		}
	}
	pieceExp := func(minLvl int) time.Time {
		var t time.Time
		for _, p := range pcs {
			if p.fresh || p.Lvl < minLvl {
				continue
			}
			if e := r.ents[p.ID]; e != nil {
				t = minT(t, e.expHi)
			}
		}
		return t
	}
	// clause (c): the request-tree cut is bounded by every piece and lease
	rootcut := sl.meta.CutUntil()
	rootSeen := sl.route != "scoped" && !sl.d64 // (nothing is re-cached from a DNS64 reply: its tree cut is not judged)
	if sl.wreq != nil && !sl.wreq.Undecoded() {
		// the wire ladder declined: the rest of the request ran on a detached copy of
		// the meta, observable only if the request reached the downstream handler
		if m := sl.metas[1]; m != nil {
			rootcut = m.CutUntil()
		} else {
			rootSeen = false
		}
	}
	bound := pieceExp(1)
	for _, L := range eff {
		bound = minT(bound, L.d)
	}
	if sl.d64 && !bound.IsZero() && (rootcut.IsZero() || rootcut.After(bound)) {
		r.res.Count("d64_rootcut_looser_than_pieces", 1) // observation only (see rootSeen)
	}
	if rootSeen && !bound.IsZero() && (rootcut.IsZero() || rootcut.After(bound)) {
		r.violate("ComposedMin", fmt.Sprintf("%s: the request-tree cut is %s but a cached piece / lease beneath it ends at %s",
			where, cutStr(rootcut, t1), cutStr(bound, t1)))
	}
	// deepest first, as the code stores
	sort.Slice(sl.pend, func(i, j int) bool { return sl.pend[i].lvl > sl.pend[j].lvl })
	for _, p := range sl.pend {
		if sl.failed && p.lvl == sl.lvl {
			continue
		}
		lin := pieceExp(p.lvl + 1)
		for _, L := range eff {
			if L.lvl >= p.lvl {
				lin = minT(lin, L.d)
			}
		}
		if ev != nil {
			ev["_lvl"] = p.lvl
		}
		r.stored(p.key, p.id, p.raw, p.aux, t1, lin, ev)
		delete(ev, "_lvl")
	}
	if ev != nil {
		ev["answered"] = answered
		ps := []map[string]any{}
		for _, p := range pcs {
			if !p.fresh && p.ID > 0 {
				ps = append(ps, map[string]any{"key": p.Key, "id": p.ID, "shown": p.Shown, "lvl": p.Lvl})
			}
		}
		ev["pieces"] = ps
		ls := []map[string]any{}
		for _, L := range eff {
			ls = append(ls, map[string]any{"lvl": L.lvl, "d": r.vAbs(L.d, t1)})
		}
		ev["leases"] = ls
		ev["rootcut"] = r.vAbs(rootcut, t1)
		if !rootSeen {
			ev["rootcut"] = 0 // not observable on this route: vacuous for the monitor
		}
		ev["done"] = true
	}
	return pcs
}

func (r *run) tick(d int64) {
	dd := time.Duration(d) * time.Second
	r.c.VerifC04Shift(dd)
	for _, e := range r.ents {
		e.expHi = e.expHi.Add(-dd)
		if !e.cut.IsZero() {
			e.cut = e.cut.Add(-dd)
		}
	}
	for _, sl := range r.slots {
		if !sl.active {
			continue
		}
		// deadlines held by requests in flight: re-fold them d earlier (min-only fold)
		for i := range sl.leases {
			sl.leases[i].d = sl.leases[i].d.Add(-dd)
		}
		metas := map[*middleware.ResponseMeta]bool{&sl.meta: true}
		for _, m := range sl.metas {
			metas[m] = true
		}
		for m := range metas {
			if c, k := m.Cut(); !c.IsZero() {
				m.BoundCutFor(c.Add(-dd), k)
			}
		}
	}
	r.d64.tick(dd)
	r.vnow += d
}

func (r *run) proofMsg(kind string, rawS, rawN, aux, id int64) (*dns.Msg, string, string) {
	zone, denied, qn := "zc.", "gone.zc.", "gone.zc."
	if kind == "proof" {
		zone, denied, qn = "zd.", "m.zd.", "m.zd."
	}
	m := new(dns.Msg)
	m.SetQuestion(qn, dns.TypeA)
	m.Response = true
	m.Rcode = dns.RcodeNameError
	m.AuthenticatedData = true
	tagN := id
	if kind == "proof" {
		tagN = id + 1
	}
	m.Ns = []dns.RR{
		&dns.SOA{Hdr: dns.RR_Header{Name: zone, Rrtype: dns.TypeSOA, Class: dns.ClassINET, Ttl: uint32(rawS)},
			Ns: "ns." + zone, Mbox: "h." + zone, Serial: uint32(id), Refresh: 3600, Retry: 600, Expire: 86400, Minttl: uint32(rawS)},
		sigRR(zone, dns.TypeSOA, zone, uint32(rawS), aux, id),
		&dns.NSEC{Hdr: dns.RR_Header{Name: zone, Rrtype: dns.TypeNSEC, Class: dns.ClassINET, Ttl: uint32(rawN)},
			NextDomain: "zz." + zone, TypeBitMap: []uint16{dns.TypeNS, dns.TypeSOA, dns.TypeRRSIG, dns.TypeNSEC}},
		sigRR(zone, dns.TypeNSEC, zone, uint32(rawN), aux, tagN),
	}
	return m, denied, zone
}

func (r *run) leaseTime(d int64) time.Time {
	if d == noAux {
		return time.Time{}
	}
	return time.Now().Add(time.Duration(d) * time.Second)
}

// ------------------------------------------------------------------ steps --
func (r *run) doStep(st step, exp *expState) (drift string, err error) {
	a := st.Args
	ev := map[string]any{"ev": st.Op, "args": st.Args, "now": r.vnow, "id": st.Pre}
	defer func() { r.events = append(r.events, ev) }()
	where := fmt.Sprintf("%s%v", st.Op, st.Args)
	switch st.Op {
	case "HitMsg", "HitWire", "Chase", "GetEntry", "HitScoped":
		sid := int(argInt(a[0]))
		sl := r.slots[sid]
		if sl.active {
			return "slot busy", nil
		}
		key, route := "", "msg"
		switch st.Op {
		case "HitMsg", "Chase":
			key, route = argStr(a[1]), argStr(a[2])
		case "HitWire":
			key, route = argStr(a[1]), "wire"
		case "GetEntry":
			key, route = argStr(a[1]), "get"
		case "HitScoped":
			key, route = r.in.ScopedKey, "scoped"
		}
		ev["q"], ev["route"], ev["r"] = key, route, sid
		if route == "get" || route == "scoped" {
			sl.q, sl.route, sl.path = key, route, []string{key}
			sl.meta.Reset()
			sl.metas, sl.leases, sl.pend, sl.failed, sl.lvl = map[int]*middleware.ResponseMeta{}, nil, nil, false, 1
			ctx := middleware.WithResponseMeta(context.Background(), &sl.meta)
			sl.t0 = time.Now()
			var msg *dns.Msg
			if route == "get" {
				msg, _ = r.store.GetWithContext(ctx, question(key))
			} else {
				want := mcache.CacheKey{Question: question(key).Question[0], Scope: scope}
				if e, ok := r.store.LookupByKeyVerified(want.Hash(), want); ok {
					msg = e.ToMsg(question(key))
				}
			}
			sl.w = mock.NewWriter("udp", "203.0.113.9:4000")
			if msg != nil {
				_ = sl.w.WriteMsg(msg)
			}
			sl.failed = msg == nil
			pcs := r.complete(sl, ev, where)
			return r.compareReply(exp, pcs, msg != nil, where), nil
		}
		r.launch(sl, key, route)
		e, err := r.await(sl)
		if err != nil {
			return "", err
		}
		if e.done {
			pcs := r.complete(sl, ev, where)
			if exp != nil && exp.Parked[strconv.Itoa(sid)] != "" {
				return fmt.Sprintf("the model's request waits on %s, the real one completed", exp.Parked[strconv.Itoa(sid)]), nil
			}
			return r.compareReply(exp, pcs, sl.w.Written(), where), nil
		}
		ev["parked"] = sl.hop
		if exp != nil && exp.Parked[strconv.Itoa(sid)] != sl.hop {
			return fmt.Sprintf("the real request went downstream for %s, the model's %q", sl.hop, exp.Parked[strconv.Itoa(sid)]), nil
		}
	case "Lease":
		sl := r.slots[int(argInt(a[0]))]
		if !sl.active {
			return "no request in flight", nil
		}
		d := time.Now().Add(time.Duration(argInt(a[1])) * time.Second)
		m := sl.metas[sl.lvl]
		if m == nil {
			return "", fmt.Errorf("no ResponseMeta at level %d", sl.lvl)
		}
		m.BoundCutFor(d, uint64(0x1000+len(sl.leases)))
		sl.leases = append(sl.leases, lease{lvl: sl.lvl, d: d})
		ev["lvl"] = sl.lvl
	case "CacheWrite", "NoAnswer":
		sid := int(argInt(a[0]))
		sl := r.slots[sid]
		if !sl.active {
			return "no request in flight", nil
		}
		ev["r"], ev["q"], ev["route"] = sid, sl.q, sl.route
		if st.Op == "CacheWrite" {
			raw, aux := argInt(a[1]), argInt(a[2])
			sl.pend = append(sl.pend, pending{lvl: sl.lvl, key: sl.hop, id: st.Pre, raw: raw, aux: aux})
			if sl.hop == r.in.V6Key && sl.lvl == 1 && r.in.V6Key != "" {
				r.d64.failClear() // a useful answer reaches the client path through the cache writer: the record is dropped
			}
			sl.cmd <- command{answer: true, raw: raw, aux: aux, id: st.Pre}
		} else {
			sl.failed = true
			sl.cmd <- command{}
		}
		failedHop, failedLvl := sl.hop, sl.lvl
		e, err := r.await(sl)
		if err != nil {
			return "", err
		}
		// additionalAnswer: when an inner chase came back with the alias but not the
		// address, the outer loop asks for the final target itself once more; the
		// downstream that did not answer does not answer the retry either
		for tries := 0; st.Op == "NoAnswer" && !e.done && tries < 12; tries++ {
			r.res.Count("outer_chase_retries", 1)
			sl.cmd <- command{}
			if e, err = r.await(sl); err != nil {
				return "", err
			}
		}
		if st.Op == "NoAnswer" {
			sl.hop, sl.lvl = failedHop, failedLvl
		}
		if e.done {
			pcs := r.complete(sl, ev, where)
			if exp != nil && exp.Parked[strconv.Itoa(sid)] != "" {
				return fmt.Sprintf("the model's request waits on %s, the real one completed", exp.Parked[strconv.Itoa(sid)]), nil
			}
			return r.compareReply(exp, pcs, sl.w.Written(), where), nil
		}
		ev["parked"] = sl.hop
		if exp != nil && exp.Parked[strconv.Itoa(sid)] != sl.hop {
			return fmt.Sprintf("the real request went downstream for %s, the model's %q", sl.hop, exp.Parked[strconv.Itoa(sid)]), nil
		}
	case "SubQueryWrite":
		key, raw, aux, d := argStr(a[0]), argInt(a[1]), argInt(a[2]), argInt(a[3])
		cut := r.leaseTime(d)
		resp := r.answerFor(question(key), key, raw, aux, st.Pre)
		if key == r.in.ScopedKey {
			r.store.SetFromResponseScoped(r.key64(key), resp, scope, cut, 0)
		} else {
			r.store.SetFromResponseWithCut(resp, false, cut, 0x77)
			if key == r.in.V6Key && key != "" {
				r.d64.failClear() // Store.resetQuestionFailure: an unscoped write of a useful answer drops the record
			}
		}
		r.stored(key, st.Pre, raw, aux, time.Now(), cut, ev)
	case "CutWrite", "ProofWrite":
		var m *dns.Msg
		var denied, zone string
		var cut time.Time
		if st.Op == "CutWrite" {
			raw, aux, d := argInt(a[0]), argInt(a[1]), argInt(a[2])
			cut = r.leaseTime(d)
			m, denied, zone = r.proofMsg("cut", raw, raw, aux, st.Pre)
			ok := r.store.RecordNXDomainCut(m, denied, zone, cut)
			ev["ok"] = ok
			if ok {
				r.ents[st.Pre] = &entInfo{key: "cut", last: -1, ttlEff: r.bareTTL(raw, aux), cut: cut, expHi: minT(time.Now().Add(r.bareTTL(raw, aux)), cut)}
				if e, ok := r.store.VerifC04CutExpiry(denied, dns.ClassINET); ok {
					ev["exp"] = r.vAbs(e, time.Now())
				}
			}
		} else {
			rawS, rawN, d := argInt(a[0]), argInt(a[1]), argInt(a[2])
			cut = r.leaseTime(d)
			m, _, zone = r.proofMsg("proof", rawS, rawN, noAux, st.Pre)
			ok := r.store.RecordDenialProof(m, zone, middleware.ValidatedNegativeProofNSEC, cut)
			ev["ok"] = ok
			if ok {
				r.ents[st.Pre] = &entInfo{key: "soa", last: -1, ttlEff: r.bareTTL(rawS, noAux), cut: cut, expHi: minT(time.Now().Add(r.bareTTL(rawS, noAux)), cut)}
				r.ents[st.Pre+1] = &entInfo{key: "nsec", last: -1, ttlEff: r.bareTTL(rawN, noAux), cut: cut, expHi: minT(time.Now().Add(r.bareTTL(rawN, noAux)), cut)}
				now := time.Now()
				for k, e := range r.store.VerifC04ProofExpiries(zone) {
					f := "expS"
					if strings.HasPrefix(k, "NSEC") {
						f = "expN"
					}
					ev[f] = r.vAbs(e, now)
				}
			}
		}
	case "HitCut", "HitDenial":
		key := "cut"
		if st.Op == "HitDenial" {
			key = "denial"
		}
		route := argStr(a[0])
		sl := r.slots[3]
		ev["q"], ev["route"] = key, route
		if route == "get" {
			sl.q, sl.route, sl.path = key, route, []string{key}
			sl.meta.Reset()
			sl.metas, sl.leases, sl.pend, sl.failed, sl.lvl = map[int]*middleware.ResponseMeta{}, nil, nil, false, 1
			ctx := middleware.WithResponseMeta(context.Background(), &sl.meta)
			req := question(key)
			req.SetEdns0(1232, true)
			sl.t0 = time.Now()
			msg, ok := r.store.GetWithContext(ctx, req)
			sl.w = mock.NewWriter("udp", "203.0.113.9:4000")
			if ok && msg != nil {
				_ = sl.w.WriteMsg(msg)
			}
			pcs := r.complete(sl, ev, where)
			return r.compareReply(exp, pcs, ok && msg != nil, where), nil
		}
		r.launch(sl, key, route)
		e, err := r.await(sl)
		if err != nil {
			return "", err
		}
		if !e.done { // miss: the probe reached the downstream handler; it does not answer
			sl.failed = true
			sl.cmd <- command{}
			if e, err = r.await(sl); err != nil {
				return "", err
			}
		}
		pcs := r.complete(sl, ev, where)
		return r.compareReply(exp, pcs, sl.w.Written(), where), nil
	case "Hit64":
		return r.stepHit64(argStr(a[0]), false, exp, ev, where)
	case "Fail64":
		return r.stepHit64(argStr(a[0]), true, exp, ev, where)
	case "HitFail":
		return r.stepHitFail(argStr(a[0]), exp, ev, where)
	case "PrefetchStart":
		key := argStr(a[0])
		e, ok := r.store.Lookup(question(key))
		if !ok {
			return "the model claims a live entry, the real store has none", nil
		}
		r.claims[key] = e
		r.claimID[key] = -1
		if sm := e.VerifC04Stored(); sm != nil {
			if got := r.decode(sm, []string{key}, nil); len(got) == 1 {
				r.claimID[key] = got[0].ID
			}
		}
		ev["id"] = r.claimID[key]
	case "PrefetchComplete":
		key, raw, aux, d := argStr(a[0]), argInt(a[1]), argInt(a[2]), argInt(a[3])
		claimed := r.claims[key]
		if claimed == nil {
			return "no claim", nil
		}
		delete(r.claims, key)
		cut := r.leaseTime(d)
		k64 := r.key64(key)
		before := r.store.VerifC04Peek(k64)
		resp := r.answerFor(question(key), key, raw, aux, st.Pre)
		ok := r.store.ReplaceIfCurrent(k64, claimed, resp, cut, 0x78)
		after := r.store.VerifC04Peek(k64)
		holder := int64(0)
		if before != nil {
			holder = -1
			if sm := before.VerifC04Stored(); sm != nil {
				if got := r.decode(sm, []string{key}, nil); len(got) == 1 {
					holder = got[0].ID
				}
			}
		}
		ev["swapped"], ev["claimed"], ev["holder"] = ok, r.claimID[key], holder
		switch {
		case ok && before != claimed:
			r.violate("LateWriteLoses", fmt.Sprintf("ReplaceIfCurrent(%s) reported a swap although the entry it claimed (e%d) was no longer the stored one (e%d)", key, r.claimID[key], holder))
		case before != claimed && after != before:
			r.violate("LateWriteLoses", fmt.Sprintf("a refresh of %s that claimed e%d overwrote newer data (e%d) stored for the key meanwhile", key, r.claimID[key], holder))
		case !ok && after != before:
			r.violate("LateWriteLoses", fmt.Sprintf("ReplaceIfCurrent(%s) reported no swap but the stored entry changed", key))
		}
		if ok && after != nil && after != before {
			r.stored(key, st.Pre, raw, aux, time.Now(), cut, ev)
		} else if after != before && after != nil {
			// the stale write landed: book it so later hits are judged against what is stored
			r.stored(key, st.Pre, raw, aux, time.Now(), cut, nil)
		}
		if exp != nil && exp.Reply.Kind == "pfdone" && exp.Reply.Swapped != ok {
			return fmt.Sprintf("ReplaceIfCurrent swapped=%v, the model says %v", ok, exp.Reply.Swapped), nil
		}
	case "Purge":
		q := argStr(a[0])
		switch q {
		case "cut":
			r.c.Purge(dns.Question{Name: "x.gone.zc.", Qtype: dns.TypeA, Qclass: dns.ClassINET})
		case "proof":
			r.c.Purge(dns.Question{Name: "m.zd.", Qtype: dns.TypeA, Qclass: dns.ClassINET})
		default:
			r.c.Purge(question(q).Question[0])
			if q == r.in.V6Key && q != "" {
				r.d64.failClear()
			}
		}
	case "TickA":
		r.tick(argInt(a[0]))
		ev["now"] = r.vnow
	default:
		return "", fmt.Errorf("unknown op %q", st.Op)
	}
	return "", nil
}

// model comparison: never a verdict
func (r *run) compareReply(exp *expState, pcs []obsPiece, answered bool, where string) string {
	if exp == nil || exp.Reply.Kind != "reply" {
		return ""
	}
	if exp.Reply.Answered != answered {
		return fmt.Sprintf("%s: answered=%v, the model says %v", where, answered, exp.Reply.Answered)
	}
	want := map[string]expPiece{}
	for _, p := range exp.Reply.Pieces {
		want[p.Key] = p
	}
	n := 0
	for _, p := range pcs {
		if p.fresh || p.ID <= 0 {
			continue
		}
		n++
		w, ok := want[p.Key]
		if !ok {
			return fmt.Sprintf("%s: served %s from cache (e%d), the model does not", where, p.Key, p.ID)
		}
		if w.ID != p.ID {
			return fmt.Sprintf("%s: %s answered by e%d, the model says e%d", where, p.Key, p.ID, w.ID)
		}
		// exact times in the model; the code is microseconds late (-1) and an RRSIG
		// expiry has whole-second wall-clock granularity (-2)
		if p.Shown > w.Shown || p.Shown < w.Shown-2 {
			return fmt.Sprintf("%s: %s shown TTL %d, the model says %d", where, p.Key, p.Shown, w.Shown)
		}
	}
	if n != len(want) {
		// DO-less routes strip the NSEC piece of a synthesised denial
		if !(len(want) == 2 && n == 1) {
			return fmt.Sprintf("%s: %d cached pieces in the reply, the model says %d", where, n, len(want))
		}
	}
	return ""
}

func (r *run) runBehaviour(b behaviour) error {
	r.bid = b.ID
	r.cur = &b
	cfg := &config.Config{CacheSize: 1024, Expire: uint32(r.in.CutMax), RateLimit: 0, Prefetch: 0}
	cfg.ECS.CacheLimitTTL.Duration = time.Duration(r.in.EcsCap) * time.Second
	if r.in.FailTTL > 0 {
		// one back-off length: a repeated failure does not grow it (the model has no streak counter)
		cfg.RecursionFirewall.FailureCacheMinTTL.Duration = time.Duration(r.in.FailTTL) * time.Second
		cfg.RecursionFirewall.FailureCacheMaxTTL.Duration = time.Duration(r.in.FailTTL) * time.Second
	}
	r.c = mcache.New(cfg)
	defer r.c.Stop()
	r.store = r.c.VerifC04Store()
	d := &downstream{r: r}
	r.chain = []middleware.Handler{r.c, d}
	r.c.SetQueryer(&queryer{r: r})
	r.front = r.chain
	r.d64 = d64State{}
	if r.in.V6Key != "" {
		r.front = append([]middleware.Handler{newDNS64(&queryer{r: r})}, r.chain...)
	}
	r.ents = map[int64]*entInfo{}
	r.slots = map[int]*slot{}
	for i := 1; i <= 3; i++ {
		r.slots[i] = &slot{id: i, cmd: make(chan command), ev: make(chan event)}
	}
	r.claims, r.claimID = map[string]*mcache.CacheEntry{}, map[string]int64{}
	r.vnow = 0
	r.events = []map[string]any{{"ev": "Reset"}}
	r.hist = nil
	start := r.res.NViolations()
	began := time.Now()
	slow := false
	defer func() {
		// release whatever is still parked so no goroutine outlives the behaviour
		for _, sl := range r.slots {
			for sl.active {
				select {
				case sl.cmd <- command{}:
				case e := <-sl.ev:
					if e.done {
						sl.active = false
					}
				case <-time.After(5 * time.Second):
					sl.active = false
				}
			}
		}
	}()
	for _, st := range b.Steps {
		r.hist = append(r.hist, fmt.Sprintf("%s%v", st.Op, st.Args))
		var exp *expState
		if len(st.Exp) > 0 {
			exp = new(expState)
			if json.Unmarshal(st.Exp, exp) != nil {
				exp = nil
			}
		}
		drift, err := r.doStep(st, exp)
		if err != nil {
			return err
		}
		r.res.Count("steps", 1)
		if r.res.NViolations() > start {
			return nil
		}
		if !slow && time.Since(began) > 400*time.Millisecond {
			// the real clock ran ahead of the virtual one by a visible fraction of a
			// second (loaded machine): comparing with the model is no longer
			// meaningful -- the predicates, which use real instants, still are
			slow = true
			r.res.Count("slow_behaviours", 1)
		}
		if drift != "" {
			if slow {
				r.res.Count("slow_mismatch", 1)
			} else {
				r.res.DriftNote("[%s] %s", b.ID, drift)
			}
			return nil
		}
	}
	return nil
}

func TestLeaseReplay(t *testing.T) {
	var in input
	vh.Input(t, &in)
	res := vh.NewResult()
	defer res.Write(t)
	var out *os.File
	if in.TraceOut != "" {
		var err error
		out, err = os.Create(filepath.Clean(in.TraceOut))
		if err != nil {
			t.Fatal(err)
		}
		defer out.Close()
	}
	r := &run{in: &in, res: res}
	v6Key, v4Key, negName = in.V6Key, in.V4Key, "ng"
	if in.NegKey != "" {
		negName = in.NegKey
	}
	for bi, b := range in.Behaviours {
		if err := r.runBehaviour(b); err != nil {
			res.Skip("behaviour %s: %v (history %v)", b.ID, err, r.hist)
			return
		}
		res.Case(strings.Join(r.hist, ";"))
		for _, e := range r.events {
			if op, _ := e["ev"].(string); op != "" {
				res.Count("op_"+op, 1)
			}
			if rt, _ := e["route"].(string); rt != "" && e["done"] == true {
				res.Count("served_via_"+rt, 1)
			}
		}
		if bi < 2 {
			res.Sample(map[string]any{"history": r.hist, "events": r.events})
		}
		if out != nil {
			for _, e := range r.events {
				bts, _ := json.Marshal(e)
				out.Write(append(bts, '\n'))
			}
			res.Count("events", len(r.events))
		}
	}
}
