package c04

// Shifter self-test (DESIGN Appendix A): after Shift(d) every public lifetime
// accessor of the answer cache reports exactly d less.  A timestamp field the
// shifter does not know would otherwise turn into false alarms; on mismatch
// the check exits 2.

import (
	"context"
	"fmt"
	"testing"
	"time"

	"github.com/miekg/dns"
	"github.com/semihalev/sdns/config"
	"github.com/semihalev/sdns/middleware"
	mcache "github.com/semihalev/sdns/middleware/cache"
	"github.com/semihalev/sdns/verifharness/vh"
)

func TestShifterSelfTest(t *testing.T) {
	var in struct{}
	vh.Input(t, &in)
	res := vh.NewResult()
	defer res.Write(t)

	attempt := func() []string {
		var bad []string
		r := &run{in: &input{Chain: []string{"al", "md", "tg"}, NegKey: "ng", ScopedKey: "sc", EcsCap: 0, CutMax: 600}, res: res}
		cfg := &config.Config{CacheSize: 1024, Expire: 600}
		r.c = mcache.New(cfg)
		defer r.c.Stop()
		r.store = r.c.VerifC04Store()
		// one entry of every kind: ttl-bound, cut-bound, negative, scoped, subtree cut, proof RRsets
		r.store.SetFromResponseWithCut(r.answerFor(question("tg"), "tg", 100, noAux, 1), false, time.Time{}, 0)
		r.store.SetFromResponseWithCut(r.answerFor(question("al"), "al", 300, noAux, 2), false, time.Now().Add(50*time.Second), 7)
		r.store.SetFromResponseWithCut(r.answerFor(question("ng"), "ng", 90, 80, 3), false, time.Time{}, 0)
		r.store.SetFromResponseScoped(r.key64("sc"), r.answerFor(question("sc"), "sc", 70, noAux, 4), scope, time.Time{}, 0)
		m, denied, zone := r.proofMsg("cut", 60, 60, noAux, 5)
		if !r.store.RecordNXDomainCut(m, denied, zone, time.Time{}) {
			bad = append(bad, "RecordNXDomainCut refused the fixture")
		}
		m, _, zone = r.proofMsg("proof", 40, 45, noAux, 6)
		if !r.store.RecordDenialProof(m, zone, middleware.ValidatedNegativeProofNSEC, time.Now().Add(44*time.Second)) {
			bad = append(bad, "RecordDenialProof refused the fixture")
		}
		read := func() map[string]int64 {
			out := map[string]int64{}
			ttlOf := func(msg *dns.Msg) int64 {
				if msg == nil {
					return -1
				}
				for _, rr := range append(append([]dns.RR{}, msg.Answer...), msg.Ns...) {
					return int64(rr.Header().Ttl)
				}
				return -1
			}
			for _, k := range []string{"tg", "al", "ng"} {
				if e, ok := r.store.Lookup(question(k)); ok {
					out["TTL():"+k] = int64(e.TTL())
					out["ToMsg:"+k] = ttlOf(e.ToMsg(question(k)))
				} else {
					out["TTL():"+k] = -1
				}
				msg, _ := r.store.GetWithContext(context.Background(), question(k))
				out["Get:"+k] = ttlOf(msg)
			}
			want := mcache.CacheKey{Question: question("sc").Question[0], Scope: scope}
			if e, ok := r.store.LookupByKeyVerified(want.Hash(), want); ok {
				out["TTL():sc"] = int64(e.TTL())
			} else {
				out["TTL():sc"] = -1
			}
			for _, k := range []string{"cut", "denial"} {
				req := question(k)
				req.SetEdns0(1232, true)
				msg, _ := r.store.GetWithContext(context.Background(), req)
				out["Get:"+k] = ttlOf(msg)
			}
			return out
		}
		before := read()
		const d = 7
		st := r.c.VerifC04Shift(d * time.Second)
		if st.Entries != 4 || st.Cuts != 1 || st.Proofs != 2 {
			bad = append(bad, fmt.Sprintf("shifter touched %+v, want 4 entries, 1 cut, 2 proof RRsets", st))
		}
		after := read()
		for k, b := range before {
			if b < 0 {
				bad = append(bad, fmt.Sprintf("%s: fixture not readable before the shift", k))
				continue
			}
			if after[k] != b-d {
				bad = append(bad, fmt.Sprintf("%s reported %d before and %d after Shift(%d s), want %d", k, b, after[k], d, b-d))
			}
		}
		res.Count("selftest_accessors", len(before))
		return bad
	}
	bad := attempt()
	if len(bad) > 0 { // a second boundary may tick between two reads; once is allowed
		bad = attempt()
	}
	for _, b := range bad {
		res.Skip("shifter self-test: %s", b)
	}
	res.Case("selftest")
}
