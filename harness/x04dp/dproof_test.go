package x04dp

// X04DP: spec -> code replay of DenialProof.tla (the aggressive denial-proof cache, RFC 8198 synthesis) on the REAL
// pipeline: the default chain incl. cache and resolver (pipe.NewResolverServer) against real signed zones served by
// harness/authkit, so that every admission is a negative answer the resolver validated itself.
//
//   Resolve(q,s,x)  a fresh question of class q enters through Server.ServeMsg / Server.ServeRaw; the zone's authority
//                   answers with SOA lifetime s and proof-RRset lifetime x (a response hook rewrites SOA TTL / SOA
//                   MINIMUM / NSEC TTL or the RRSIG validity windows and re-signs with the zone key; every stamped
//                   response gets its own generation number = SOA serial = RRSIG inception offset)
//   Synth(q,r)      a fresh question the index must answer: r = srv (ServeMsg / ServeRaw, DO and DO-less) or
//                   get (Store.GetWithContext with a ResponseMeta: the expiry handed to the request tree is read back)
//   MissGet(q)      Store.GetWithContext on a question the index cannot answer
//   Derive(q)       a fresh alias in another zone whose target is a fresh question of class q: the composed reply is
//                   re-cached under the alias
//   HitDer[Resolve] the alias again (from the re-cached entry, target chased again)
//   Purge           Cache.Purge of a name of the zone
//   Tick(d)         every timestamp the store holds at rest is shifted d into the past (overlay shim)
//
// Verdicts are C04's predicates on the REAL replies against an oracle kept from the driver's own inputs only (the
// lifetimes it put on the wire, the instants it made the calls, the clock steps it applied); every record of a
// synthesised reply identifies the admission it came from (SOA serial, RRSIG inception):
//   c04/ttl-shown        a record of a synthesised reply shows more than the shortest of ALL its pieces has left
//   c04/served-expired   a reply is synthesised after a piece's lifetime ended
//   c04/hand-down        the expiry handed to the request tree is later than the shortest piece
//   c04/derived-outlives the alias entry re-cached from a synthesised reply lives longer than the pieces
//   c04/derived-shown    ... or is later shown / served beyond them
// acceptance side (C02): c02/wrong-denial (rcode against the zone's truth), c02/denied-existing (an existing
// name/type denied while proofs are retained); ad/unvalidated (AD on a reply of a zone that does not validate).
// Everything else that differs from the model is drift.

import (
	"context"
	"fmt"
	"os"
	"sort"
	"strings"
	"sync"
	"testing"
	"time"

	"github.com/miekg/dns"
	"github.com/semihalev/sdns/config"
	"github.com/semihalev/sdns/middleware"
	mcache "github.com/semihalev/sdns/middleware/cache"
	"github.com/semihalev/sdns/server"
	"github.com/semihalev/sdns/verifharness/authkit"
	"github.com/semihalev/sdns/verifharness/pipe"
	"github.com/semihalev/sdns/verifharness/vh"
)

// eps absorbs clock representation (wall vs monotonic readings) when two instants that should coincide are compared
const eps = 2 * time.Millisecond

const (
	bigTTL     = 500 // s; below the proof cap (cfg.Expire = 600 s) and above every scripted lifetime
	bigWindow  = 72 * 3600
	resetShift = 72 * time.Hour
	aliasTTL   = 3600
)

type Class struct {
	RC   string   `json:"rc"`
	Need []string `json:"need"`
}

type Family struct {
	Zone   string            `json:"zone"`
	NSEC3  bool              `json:"nsec3"`
	Secure bool              `json:"secure"`
	Pieces map[string]string `json:"pieces"` // model piece -> label of the existing name whose RRset it is ("" = apex)
}

type Ent struct {
	G   int `json:"g"`
	Exp int `json:"exp"`
}

type Exp struct {
	Now    int             `json:"now"`
	Gen    int             `json:"gen"`
	Soa    *Ent            `json:"soa"`
	Pf     map[string]*Ent `json:"pf"`
	DerExp int             `json:"derExp"` // 0 = none
	Kind   string          `json:"kind"`
	TTL    int             `json:"ttl"`
	Hand   int             `json:"hand"`
	Quar   int             `json:"quar"` // Race: 0 or the tick the NSEC3 conflict tombstone ends
}

type Step struct {
	Op    string `json:"op"`
	Q     string `json:"q"`
	R     string `json:"r"`
	S     int    `json:"s"`
	X     int    `json:"x"`
	D     int    `json:"d"`
	P     string `json:"p"`    // Race, Create: the piece whose RRset the zone change moves
	Tgt   string `json:"tgt"`  // Race, Create: flight | other
	Want  string `json:"want"` // Race, Finish: synth | miss | resolved | positive (the base model's outcome)
	Label string `json:"label"`
	Exp   Exp    `json:"exp"`
}

type Behaviour struct {
	ID     string `json:"id"`
	Family string `json:"family"`
	Steps  []Step `json:"steps"`
}

type Input struct {
	Unit       int               `json:"unit"` // seconds per model tick
	Families   map[string]Family `json:"families"`
	Classes    map[string]Class  `json:"classes"`
	Behaviours []Behaviour       `json:"behaviours"`
}

type question struct {
	Name string
	Type uint16
}

type famWorld struct {
	name       string
	fam        Family
	z          *authkit.Zone
	srv        *authkit.Server
	pieceOwner map[string]string // model piece -> owner name of the NSEC / NSEC3 RRset
	pools      map[string][]question
	next       map[string]int
	used       map[string]bool // Race: names (and name/type) drawn or created in this behaviour
	created    []createdRR     // Race: records added to the live zone by this behaviour
}

type lifetimes struct{ s, x int }

type stamp struct {
	gen                 int
	zone                string
	q                   dns.Question
	owners              []string
	soaLife, pxLife     time.Duration // what the records themselves grant (TTL, SOA MINIMUM)
	soaSigExp, pxSigExp time.Time
	how                 string
}

type piece struct {
	expHi time.Time // upper bound of the instant the piece's lifetime ends (code timeline)
	how   string
}

type derived struct {
	keys   map[string]bool // the pieces the composed reply rested on
	name   string
	qtype  uint16
	minHi  time.Time
	minKey string
	target question
}

type world struct {
	in    *Input
	res   *vh.Result
	n     *authkit.Net
	s     *server.Server
	c     *mcache.Cache
	st    *mcache.Store
	fams  map[string]*famWorld
	al    *authkit.Zone
	alSrv *authkit.Server
	dir   string

	mu      sync.Mutex
	gen     int
	params  map[string]lifetimes
	stamps  []stamp
	baseInc int64
	pieces  map[string]*piece
	aliasN  int
	g       *gate // Race: holds one aggressive lookup between the snapshot capture and the quarantine re-check
}

func lc(s string) string { return strings.ToLower(dns.Fqdn(s)) }

var absentTypes = []uint16{dns.TypeTXT, dns.TypeMX, dns.TypeSRV, dns.TypeHINFO, dns.TypeLOC, dns.TypeNAPTR, dns.TypeSSHFP,
	dns.TypeTLSA, dns.TypeCAA, dns.TypeSPF, dns.TypeURI, dns.TypeRP, dns.TypeCERT, dns.TypeAFSDB, dns.TypeKX, dns.TypePTR}

func denialOwners(z *authkit.Zone, name string, nx bool) []string {
	set := map[string]bool{}
	for _, rr := range z.DenialFor(name, nx) {
		if t := rr.Header().Rrtype; t == dns.TypeNSEC || t == dns.TypeNSEC3 {
			set[lc(rr.Header().Name)] = true
		}
	}
	out := make([]string, 0, len(set))
	for o := range set {
		out = append(out, o)
	}
	sort.Strings(out)
	return out
}

func buildWorld(in *Input, res *vh.Result, scratch string) (*world, error) {
	n, err := authkit.NewNet(true)
	if err != nil {
		return nil, err
	}
	w := &world{in: in, res: res, n: n, fams: map[string]*famWorld{}, params: map[string]lifetimes{}, pieces: map[string]*piece{},
		baseInc: time.Now().Add(-9 * time.Hour).Unix()}
	if _, _, err := n.Delegate("test.", authkit.DelegateOpts{Signed: true, PublishDS: true}); err != nil {
		return nil, err
	}
	w.al, w.alSrv, err = n.Delegate("al.test.", authkit.DelegateOpts{Signed: true, PublishDS: true})
	if err != nil {
		return nil, err
	}
	names := make([]string, 0, len(in.Families))
	for name := range in.Families {
		names = append(names, name)
	}
	sort.Strings(names)
	for _, name := range names {
		f := in.Families[name]
		z, srv, err := n.Delegate(f.Zone, authkit.DelegateOpts{Signed: true, PublishDS: f.Secure, NSEC3: f.NSEC3})
		if err != nil {
			return nil, err
		}
		z.Add("b."+z.Name+" 300 IN A 192.0.2.1", "d."+z.Name+" 300 IN A 192.0.2.2", "f."+z.Name+" 300 IN A 192.0.2.3")
		fw := &famWorld{name: name, fam: f, z: z, srv: srv, pieceOwner: map[string]string{}, pools: map[string][]question{}, next: map[string]int{},
			used: map[string]bool{}}
		w.fams[name] = fw
		if err := fw.catalogue(in); err != nil {
			return nil, err
		}
		srv.SetHook(w.hook(fw))
	}
	w.dir, _ = os.MkdirTemp(scratch, "x04dp-")
	w.s, _ = pipe.NewResolverServer(pipe.ResolverOpts{RootAddr: n.RootSrv.Addr, RootKeys: []string{n.Root.Keys[0].RR.String()},
		DNSSEC: true, Dir: w.dir, Mapper: n.Mapper(), Mutate: func(cfg *config.Config) {
			cfg.RecursionFirewall.Mode = config.RecursionFirewallModeOff
			cfg.QnameMinLevel = 0
			cfg.Prefetch = 0
			cfg.Expire = 600
		}})
	c, ok := middleware.Get("cache").(*mcache.Cache)
	if !ok || c == nil {
		return nil, fmt.Errorf("no cache middleware in the chain")
	}
	w.c, w.st = c, c.VerifX04dpStore()
	if err := w.installGate(); err != nil {
		return nil, err
	}
	time.Sleep(300 * time.Millisecond) // priming / trust-anchor refresh
	return w, nil
}

func (w *world) stop() {
	w.n.Stop()
	if w.dir != "" {
		os.RemoveAll(w.dir)
	}
}

// catalogue maps the model's pieces and question classes onto the zone: which concrete fresh questions are proved by
// exactly which RRsets is read off the zone's own denial engine (authkit), never assumed.
func (fw *famWorld) catalogue(in *Input) error {
	z := fw.z
	// (Race) called again after every zone change: the spans have moved
	fw.pieceOwner, fw.pools, fw.next = map[string]string{}, map[string][]question{}, map[string]int{}
	existing := func(label string) string {
		if label == "" {
			return z.Name
		}
		return label + "." + z.Name
	}
	for p, label := range fw.fam.Pieces {
		owners := denialOwners(z, existing(label), false)
		if len(owners) != 1 {
			return fmt.Errorf("%s: NODATA at %s is proved by %v, want one RRset", fw.name, existing(label), owners)
		}
		fw.pieceOwner[p] = owners[0]
	}
	byset := map[string][]question{}
	add := func(name string) {
		if len(z.RRset(name, dns.TypeA)) != 0 {
			return // (Race) created meanwhile: no longer a name that does not exist
		}
		k := strings.Join(denialOwners(z, name, true), ",")
		byset[k] = append(byset[k], question{name, dns.TypeA})
	}
	for _, parent := range []string{"", "b", "d", "f", "ns"} {
		for i := 0; i < 160; i++ {
			add(fmt.Sprintf("q%d.%s", i, existing(parent)))
		}
	}
	for _, pre := range []string{"a", "c", "e", "g"} {
		for i := 0; i < 40; i++ {
			add(fmt.Sprintf("%s%d.%s", pre, i, z.Name))
		}
	}
	for id, cl := range in.Classes {
		var owners []string
		usable := true
		for _, p := range cl.Need {
			o, ok := fw.pieceOwner[p]
			if !ok {
				usable = false
			}
			owners = append(owners, o)
		}
		if !usable {
			continue
		}
		sort.Strings(owners)
		if cl.RC == "ND" {
			if len(cl.Need) != 1 {
				return fmt.Errorf("class %s: NODATA classes need exactly one piece", id)
			}
			name := existing(fw.fam.Pieces[cl.Need[0]])
			for _, t := range absentTypes {
				if len(z.RRset(name, t)) != 0 {
					continue // (Race) created meanwhile
				}
				fw.pools[id] = append(fw.pools[id], question{name, t})
			}
			continue
		}
		fw.pools[id] = byset[strings.Join(owners, ",")]
	}
	return nil
}

func (fw *famWorld) fresh(class string) (question, bool) {
	p := fw.pools[class]
	for i := fw.next[class]; i < len(p); i++ {
		k := fmt.Sprintf("%s/%d", lc(p[i].Name), p[i].Type)
		if fw.used[lc(p[i].Name)] || fw.used[k] {
			continue // (Race) the pools are rebuilt after a zone change: never the same question twice
		}
		fw.next[class] = i + 1
		if p[i].Type == dns.TypeA {
			fw.used[lc(p[i].Name)] = true
		} else {
			fw.used[k] = true
		}
		return p[i], true
	}
	return question{}, false
}

func (fw *famWorld) needOwners(in *Input, class string) []string {
	var out []string
	for _, p := range in.Classes[class].Need {
		out = append(out, fw.pieceOwner[p])
	}
	sort.Strings(out)
	return out
}

// hook rewrites the lifetimes of every negative answer of the family's zone as the current step scripts them and
// re-signs; the generation number rides in the SOA serial and in the RRSIG inception.
func (w *world) hook(fw *famWorld) func(*authkit.Exchange) {
	zone := fw.z.Name
	return func(ex *authkit.Exchange) {
		if ex.Resp == nil || ex.Zone != fw.z || len(ex.Resp.Answer) != 0 {
			return
		}
		hasSOA := false
		for _, rr := range ex.Resp.Ns {
			if rr.Header().Rrtype == dns.TypeSOA && lc(rr.Header().Name) == zone {
				hasSOA = true
			}
		}
		if !hasSOA {
			return
		}
		w.mu.Lock()
		lt, ok := w.params[zone]
		if !ok {
			w.mu.Unlock()
			return
		}
		w.gen++
		g := w.gen
		w.mu.Unlock()
		st := w.restamp(ex.Resp, fw.z, g, lt)
		st.q = ex.Q
		w.mu.Lock()
		w.stamps = append(w.stamps, st)
		w.mu.Unlock()
	}
}

func (w *world) restamp(m *dns.Msg, z *authkit.Zone, g int, lt lifetimes) stamp {
	unit := w.in.Unit
	now := time.Now()
	soaTTL, soaMin, soaWin := uint32(bigTTL), uint32(bigTTL), int64(bigWindow)
	pxTTL, pxWin := uint32(bigTTL), int64(bigWindow)
	how := ""
	switch g % 3 {
	case 0:
		soaTTL = uint32(lt.s * unit)
		how = "SOA TTL"
	case 1:
		soaMin = uint32(lt.s * unit)
		how = "SOA MINIMUM"
	default:
		soaWin = int64(lt.s * unit)
		how = "RRSIG(SOA) expiration"
	}
	if (g/3)%2 == 0 {
		pxTTL = uint32(lt.x * unit)
		how += " / proof TTL"
	} else {
		pxWin = int64(lt.x * unit)
		how += " / RRSIG(proof) expiration"
	}
	st := stamp{gen: g, zone: z.Name, how: how,
		soaLife: time.Duration(min(soaTTL, soaMin)) * time.Second, pxLife: time.Duration(pxTTL) * time.Second,
		soaSigExp: time.Unix(now.Unix()+soaWin, 0), pxSigExp: time.Unix(now.Unix()+pxWin, 0)}
	inception := time.Unix(w.baseInc+int64(g), 0)
	type set struct {
		rrs []dns.RR
	}
	var order []string
	sets := map[string]*set{}
	signed := false
	var rest []dns.RR
	for _, rr := range m.Ns {
		h := rr.Header()
		switch r := rr.(type) {
		case *dns.RRSIG:
			if r.TypeCovered == dns.TypeSOA || r.TypeCovered == dns.TypeNSEC || r.TypeCovered == dns.TypeNSEC3 {
				signed = true
				continue
			}
			rest = append(rest, rr)
		case *dns.SOA:
			r.Hdr.Ttl, r.Minttl, r.Serial = soaTTL, soaMin, uint32(g)
			k := fmt.Sprintf("%s/%d", lc(h.Name), h.Rrtype)
			if sets[k] == nil {
				sets[k] = &set{}
				order = append(order, k)
			}
			sets[k].rrs = append(sets[k].rrs, rr)
		case *dns.NSEC, *dns.NSEC3:
			h.Ttl = pxTTL
			k := fmt.Sprintf("%s/%d", lc(h.Name), h.Rrtype)
			if sets[k] == nil {
				sets[k] = &set{}
				order = append(order, k)
				st.owners = append(st.owners, lc(h.Name))
			}
			sets[k].rrs = append(sets[k].rrs, rr)
		default:
			rest = append(rest, rr)
		}
	}
	var ns []dns.RR
	for _, k := range order {
		s := sets[k]
		ns = append(ns, s.rrs...)
		if signed {
			exp := st.pxSigExp
			if s.rrs[0].Header().Rrtype == dns.TypeSOA {
				exp = st.soaSigExp
			}
			ns = append(ns, authkit.SignRRset(s.rrs, z.Name, z.Key0(), inception, exp))
		}
	}
	m.Ns = append(ns, rest...)
	return st
}

// collect registers the pieces of every answer stamped since the last call; tHi is an instant after their admission.
func (w *world) collect(tHi time.Time) []stamp {
	w.mu.Lock()
	ss := w.stamps
	w.stamps = nil
	w.mu.Unlock()
	for _, s := range ss {
		e := tHi.Add(s.soaLife)
		if s.soaSigExp.Before(e) {
			e = s.soaSigExp
		}
		w.pieces[fmt.Sprintf("SOA|%s|%d", s.zone, s.gen)] = &piece{expHi: e, how: s.how}
		for _, o := range s.owners {
			e := tHi.Add(s.pxLife)
			if s.pxSigExp.Before(e) {
				e = s.pxSigExp
			}
			w.pieces[fmt.Sprintf("%s|%d", o, s.gen)] = &piece{expHi: e, how: s.how}
		}
	}
	return ss
}

func (w *world) shift(d time.Duration) {
	w.st.VerifX04dpShift(d)
	for _, p := range w.pieces {
		p.expHi = p.expHi.Add(-d)
	}
}

type reply struct {
	msg      *dns.Msg
	t0, t1   time.Time
	hand     time.Time
	route    string
	do       bool
	upstream bool // the family's authority was asked this very question
	ok       bool
}

func (w *world) ask(fw *famWorld, q question, route string, do bool) reply {
	m := new(dns.Msg)
	m.SetQuestion(q.Name, q.Type)
	m.SetEdns0(1232, do)
	fw.srv.ResetLog()
	r := reply{route: route, do: do}
	r.t0 = time.Now()
	switch route {
	case "get":
		var meta middleware.ResponseMeta
		ctx := middleware.WithResponseMeta(context.Background(), &meta)
		r.msg, r.ok = w.st.GetWithContext(ctx, m)
		r.hand, _ = meta.Cut()
	case "raw":
		r.msg = pipe.AskRaw(w.s, m, "udp", "203.0.113.7")
		r.ok = r.msg != nil
	default:
		r.msg = pipe.Ask(w.s, m, "udp", "203.0.113.7")
		r.ok = r.msg != nil
	}
	r.t1 = time.Now()
	for _, e := range fw.srv.Log() {
		if lc(e.Q.Name) == lc(q.Name) && e.Q.Qtype == q.Type {
			r.upstream = true
		}
	}
	return r
}

// obs is what the authority section of a reply says about the pieces it was composed from.
type obs struct {
	soaGen  int
	gens    map[string]int // proof owner -> generation (from the RRSIG inception)
	owners  []string
	keys    []string
	minHi   time.Time
	minKey  string
	unknown []string
	maxTTL  uint32
	minTTL  uint32
}

func (w *world) observe(fw *famWorld, ns []dns.RR, assumeOwners []string) obs {
	o := obs{gens: map[string]int{}, soaGen: -1}
	zone := fw.z.Name
	ownerSet := map[string]bool{}
	first := true
	for _, rr := range ns {
		h := rr.Header()
		if first || h.Ttl > o.maxTTL {
			o.maxTTL = h.Ttl
		}
		if first || h.Ttl < o.minTTL {
			o.minTTL = h.Ttl
		}
		first = false
		switch r := rr.(type) {
		case *dns.SOA:
			if lc(h.Name) == zone {
				o.soaGen = int(r.Serial)
			}
		case *dns.NSEC, *dns.NSEC3:
			ownerSet[lc(h.Name)] = true
		case *dns.RRSIG:
			if lc(r.SignerName) != zone {
				continue
			}
			if r.TypeCovered == dns.TypeNSEC || r.TypeCovered == dns.TypeNSEC3 {
				o.gens[lc(h.Name)] = int(int64(r.Inception) - w.baseInc)
			}
		}
	}
	for ow := range ownerSet {
		o.owners = append(o.owners, ow)
	}
	sort.Strings(o.owners)
	use := func(key string) {
		p := w.pieces[key]
		if p == nil {
			o.unknown = append(o.unknown, key)
			return
		}
		o.keys = append(o.keys, key)
		if o.minKey == "" || p.expHi.Before(o.minHi) {
			o.minHi, o.minKey = p.expHi, key
		}
	}
	if o.soaGen >= 0 {
		use(fmt.Sprintf("SOA|%s|%d", zone, o.soaGen))
	}
	for _, ow := range o.owners {
		if g, ok := o.gens[ow]; ok {
			use(fmt.Sprintf("%s|%d", ow, g))
		} else {
			o.unknown = append(o.unknown, ow+"|unsigned")
		}
	}
	if len(o.owners) == 0 {
		// DO-less reply: the proof records are stripped.  The reply still rests on them; which admission of each is
		// retained cannot be read off the reply, so the LATEST-ending admission of each needed owner bounds it.
		for _, ow := range assumeOwners {
			var best *piece
			bestKey := ""
			for k, p := range w.pieces {
				if strings.HasPrefix(k, ow+"|") && (best == nil || p.expHi.After(best.expHi)) {
					best, bestKey = p, k
				}
			}
			if best != nil {
				o.keys = append(o.keys, bestKey+"(latest)")
				if o.minKey == "" || best.expHi.Before(o.minHi) {
					o.minHi, o.minKey = best.expHi, bestKey
				}
			}
		}
	}
	return o
}

type runner struct {
	w      *world
	fw     *famWorld
	b      *Behaviour
	bi     int
	hist   []string
	genMap map[int]int
	der    *derived
	start  time.Time
	drifts int
	eroded int // re-admissions of a composed reply so far: each rounds the lifetimes down to whole seconds
	phase  time.Duration
	fl     *flight // Race: the lookup held between the snapshot capture and the re-check
}

func (r *runner) replay(si int) map[string]any {
	b := *r.b
	b.Steps = r.b.Steps[:si+1]
	in := *r.w.in
	in.Behaviours = []Behaviour{b}
	return map[string]any{"driver": "x04dp", "input": in, "history": r.hist}
}

func (r *runner) violate(si int, class, what string) {
	key := fmt.Sprintf("%s/%s", class, r.fw.name)
	r.w.res.Violate(key, fmt.Sprintf("%s [zone family %s, behaviour %s] %s | history: %s", class, r.fw.name, r.b.ID, what, strings.Join(r.hist, " ; ")),
		r.replay(si))
}

func (r *runner) drift(format string, a ...any) {
	r.drifts++
	r.w.res.DriftNote("%s step %d: %s", r.b.ID, len(r.hist), fmt.Sprintf(format, a...))
}

func secs(d time.Duration) string { return fmt.Sprintf("%.2f s", d.Seconds()) }

// judgeSynth evaluates the lifetime predicates on the authority section of a reply that no authority produced now.
func (r *runner) judgeSynth(si int, rp reply, q question, class string, what string) obs {
	return r.judgeSynthOpt(si, rp, q, class, what, true)
}

// acceptance = false: only the lifetime predicates (Race: the released lookup's denial of what exists is judged by finish)
func (r *runner) judgeSynthOpt(si int, rp reply, q question, class string, what string, acceptance bool) obs {
	w := r.w
	o := w.observe(r.fw, rp.msg.Ns, r.fw.needOwners(w.in, class))
	if len(o.unknown) > 0 || o.minKey == "" {
		w.res.Skip("%s step %d (%s): the reply carries records the harness did not stamp: %v\n%v", r.b.ID, si, what, o.unknown, rp.msg)
		return o
	}
	left := o.minHi.Sub(rp.t0)
	desc := fmt.Sprintf("%s %s/%s via %s DO=%v: pieces %v, the shortest is %s (%s) with at most %s left", what, q.Name, dns.TypeToString[q.Type],
		rp.route, rp.do, o.keys, o.minKey, w.pieces[o.minKey].how, secs(left))
	which := "proof"
	if strings.HasPrefix(o.minKey, "SOA|") {
		which = "soa"
	}
	if left <= 0 {
		r.violate(si, "c04/served-expired/"+which, desc+": the reply was composed after that piece's lifetime had ended")
	} else if float64(o.maxTTL) > (left + eps).Seconds() {
		r.violate(si, "c04/ttl-shown/"+which, fmt.Sprintf("%s, yet a record of the reply shows TTL %d s", desc, o.maxTTL))
	}
	if rp.route == "get" {
		if rp.hand.IsZero() {
			r.violate(si, "c04/hand-down/none", desc+": Store.GetWithContext handed no expiry to the request tree")
		} else if rp.hand.After(o.minHi.Add(eps)) {
			r.violate(si, "c04/hand-down/"+which, fmt.Sprintf("%s, yet the expiry handed to the request tree is %s later", desc, secs(rp.hand.Sub(o.minHi))))
		}
	}
	if !acceptance {
		return o
	}
	// acceptance side
	truth := w.n.GroundTruth(dns.Question{Name: q.Name, Qtype: q.Type, Qclass: dns.ClassINET})
	wantNX := strings.HasSuffix(truth.Kind, "nxdomain")
	wantND := strings.HasSuffix(truth.Kind, "nodata")
	if (rp.msg.Rcode == dns.RcodeNameError && !wantNX) || (rp.msg.Rcode == dns.RcodeSuccess && !wantND) {
		r.violate(si, "c02/wrong-denial", fmt.Sprintf("%s %s/%s answered %s from retained proofs; the zone says %s", what, q.Name,
			dns.TypeToString[q.Type], dns.RcodeToString[rp.msg.Rcode], truth.Kind))
	}
	if !r.fw.fam.Secure && rp.msg.AuthenticatedData {
		r.violate(si, "ad/unvalidated", desc+": AD=1 although the zone has no chain of trust")
	}
	return o
}

func (r *runner) routeOf(si int, modelRoute string) (string, bool) {
	if modelRoute == "get" {
		return "get", true
	}
	k := r.bi + si
	return []string{"msg", "raw"}[k%2], (k/2)%3 != 2
}

// compare the projected state of the index with the model (drift only)
func (r *runner) compare(si int, st *Step) {
	w := r.w
	tol := time.Since(r.start).Seconds() + 2.5 + float64(r.eroded) + r.phase.Seconds()
	unit := float64(w.in.Unit)
	if !r.compareQuarantine(st) {
		return
	}
	got := map[string]mcache.VerifX04dpProof{}
	for _, p := range w.st.VerifX04dpProofs(r.fw.z.Name) {
		k := lc(p.Owner)
		if p.Kind == "SOA" {
			k = "SOA"
		}
		got[k] = p
	}
	want := map[string]*Ent{}
	if st.Exp.Soa != nil {
		want["SOA"] = st.Exp.Soa
	}
	for p, e := range st.Exp.Pf {
		if e != nil {
			want[r.fw.pieceOwner[p]] = e
		}
	}
	now := time.Now()
	for k, e := range want {
		g, ok := got[k]
		if !ok {
			r.drift("%s: the model retains %s (g%d, %d ticks left), the index does not", st.Label, k, e.G, e.Exp-st.Exp.Now)
			return
		}
		rem := g.Expires.Sub(now).Seconds()
		mrem := float64(e.Exp-st.Exp.Now) * unit
		if rem > mrem+0.5 || rem < mrem-tol {
			r.drift("%s: %s has %.1f s left in the index, %.0f s in the model", st.Label, k, rem, mrem)
			return
		}
		cg := int(g.Serial)
		if k != "SOA" {
			cg = int(int64(g.SigInc) - w.baseInc)
		}
		if mg, ok := r.genMap[e.G]; ok && mg != cg {
			r.drift("%s: %s is of admission %d in the index, of admission %d (model g%d) in the model", st.Label, k, cg, mg, e.G)
			return
		}
	}
	for k := range got {
		if _, ok := want[k]; !ok {
			if _, modelled := r.ownerModelled(k); modelled {
				r.drift("%s: the index retains %s, the model does not", st.Label, k)
				return
			}
		}
	}
	w.res.Count("states_compared", 1)
}

func (r *runner) ownerModelled(owner string) (string, bool) {
	if owner == "SOA" {
		return "SOA", true
	}
	for p, o := range r.fw.pieceOwner {
		if o == owner {
			return p, true
		}
	}
	return "", false
}

func (r *runner) expectTTL(si int, st *Step, shown uint32) {
	if st.Exp.TTL <= 0 {
		return
	}
	m := float64(st.Exp.TTL * r.w.in.Unit)
	tol := time.Since(r.start).Seconds() + 2.5 + float64(r.eroded) + r.phase.Seconds()
	if float64(shown) > m || float64(shown) < m-tol {
		r.drift("%s: TTL shown %d s, the model says %.0f s", st.Label, shown, m)
	}
}

func (r *runner) run() {
	w, fw, res := r.w, r.fw, r.w.res
	// a clean slate: everything the store holds ages out, the zone's snapshot is retired by the next lookup
	w.shift(resetShift)
	w.pieces = map[string]*piece{}
	w.mu.Lock()
	w.stamps = nil
	w.mu.Unlock()
	fw.next = map[string]int{}
	fw.used = map[string]bool{}
	if err := fw.restore(w.in); err != nil { // (Race) the records the previous behaviour created leave the zone
		res.Skip("%s: restoring the zone: %v", r.b.ID, err)
		return
	}
	defer func() {
		r.abandonFlight()
		if err := fw.restore(w.in); err != nil { // the next behaviour's classes are looked up in the unchanged zone's catalogue
			res.Skip("%s: restoring the zone: %v", r.b.ID, err)
		}
	}()
	w.ask(fw, question{"reset." + fw.z.Name, dns.TypeA}, "get", true)
	if left := w.st.VerifX04dpProofs(fw.z.Name); len(left) != 0 {
		res.Skip("%s: the zone still holds %d proof RRsets after the reset", r.b.ID, len(left))
		return
	}
	r.start = time.Now()
	r.genMap = map[int]int{}
	kinds := []string{}
	for si := range r.b.Steps {
		st := &r.b.Steps[si]
		r.hist = append(r.hist, st.Label)
		res.Count("steps", 1)
		switch st.Op {
		case "Tick":
			if r.bi%2 == 1 && r.phase == 0 && w.in.Unit > 5 {
				// every other behaviour runs its clock a constant phase ahead of the model's ticks (less than one tick, so
				// the model's liveness decisions hold): what is left of older pieces then falls below the 5 s TTL floor of
				// ordinary entries, where only the request-tree bound keeps a re-cached reply within its pieces
				r.phase = time.Duration(w.in.Unit-4) * time.Second
				w.shift(r.phase)
				if r.der != nil && r.der.minKey != "" {
					r.der.minHi = r.der.minHi.Add(-r.phase)
				}
				res.Count("phased_behaviours", 1)
			}
			w.shift(time.Duration(st.D*w.in.Unit) * time.Second)
			if r.der != nil && r.der.minKey != "" {
				r.der.minHi = r.der.minHi.Add(-time.Duration(st.D*w.in.Unit) * time.Second)
			}
			kinds = append(kinds, "tick")
		case "Purge":
			w.c.Purge(dns.Question{Name: "purge." + fw.z.Name, Qtype: dns.TypeA, Qclass: dns.ClassINET})
			kinds = append(kinds, "purge")
		case "DropDer":
			r.der = nil
			continue
		case "Begin": // Race: a lookup is held between the capture of the zone snapshot and the quarantine re-check
			if !r.begin(si, st) {
				return
			}
			kinds = append(kinds, "begin-"+r.fl.where)
		case "Create": // Race: the live zone changes
			if !r.create(si, st) {
				return
			}
			kinds = append(kinds, "create-"+st.Tgt)
		case "Finish": // Race: the held lookup is released and judged
			if !r.finish(si, st) {
				return
			}
			kinds = append(kinds, "finish-"+st.Want)
		case "Resolve", "Synth", "MissGet":
			q, ok := fw.fresh(st.Q)
			if !ok {
				res.Count("pool_exhausted", 1)
				return
			}
			route, do := r.routeOf(si, st.R)
			if st.Op == "MissGet" {
				route, do = "get", true
			}
			if st.Op == "Resolve" {
				w.mu.Lock()
				w.params[fw.z.Name] = lifetimes{st.S, st.X}
				w.mu.Unlock()
			}
			quarBefore := r.quarantined()
			rp := w.ask(fw, q, route, do)
			stamps := w.collect(rp.t1)
			if st.Op == "Resolve" {
				r.noteAdmission(quarBefore, rp.upstream)
				for _, s := range stamps {
					if lc(s.q.Name) == lc(q.Name) && s.q.Qtype == q.Type {
						r.genMap[st.Exp.Gen] = s.gen
					}
				}
			}
			if !rp.ok || rp.msg == nil {
				if st.Op == "MissGet" {
					res.Count("missget", 1)
					kinds = append(kinds, "missget")
					break
				}
				if route == "get" {
					r.drift("%s: Store.GetWithContext missed where the model synthesises", st.Label)
					break
				}
				res.Skip("%s step %d: no reply to %s/%s via %s", r.b.ID, si, q.Name, dns.TypeToString[q.Type], route)
				return
			}
			if rp.msg.Rcode == dns.RcodeServerFailure {
				r.drift("%s: SERVFAIL for %s/%s", st.Label, q.Name, dns.TypeToString[q.Type])
				break
			}
			if rp.upstream {
				res.Count("resolved_"+route, 1)
				kinds = append(kinds, "resolved")
				if st.Op != "Resolve" {
					r.drift("%s: the model answers %s from the index, the code asked the authority", st.Label, q.Name)
				}
				if !fw.fam.Secure && rp.msg.AuthenticatedData {
					r.violate(si, "ad/unvalidated", fmt.Sprintf("resolved %s/%s: AD=1 although the zone has no chain of trust", q.Name, dns.TypeToString[q.Type]))
				}
				if fw.fam.Secure && len(stamps) == 0 {
					res.Skip("%s step %d: the authority was asked but no answer was stamped", r.b.ID, si)
				}
			} else {
				res.Count("synth_"+route, 1)
				if !do {
					res.Count("synth_nodo", 1)
				}
				if rp.msg.Rcode == dns.RcodeNameError {
					res.Count("synth_nx", 1)
				} else {
					res.Count("synth_nodata", 1)
				}
				kinds = append(kinds, "synth")
				if st.Op != "Synth" {
					r.drift("%s: the model asks the authority for %s, the code answered from the index", st.Label, q.Name)
				}
				o := r.judgeSynth(si, rp, q, st.Q, "synthesised")
				if o.soaGen >= 0 && len(o.gens) > 0 {
					for _, g := range o.gens {
						if g != o.soaGen {
							res.Count("synth_mixed_generations", 1)
							break
						}
					}
				}
				if st.Op == "Synth" {
					r.expectTTL(si, st, o.maxTTL)
				}
			}
		case "Derive":
			route, _ := r.routeOf(si, "srv")
			class := st.Q
			tq, ok := fw.fresh(class)
			if !ok {
				res.Count("pool_exhausted", 1)
				return
			}
			w.aliasN++
			name := fmt.Sprintf("a%d.al.test.", w.aliasN)
			w.al.Add(fmt.Sprintf("%s %d IN CNAME %s", name, aliasTTL, tq.Name))
			r.der = nil
			// the alias legs are always asked with DO: every piece identifies itself
			rp := w.ask(fw, question{name, tq.Type}, route, true)
			rp.upstream = false
			for _, e := range fw.srv.Log() {
				if lc(e.Q.Name) == lc(tq.Name) && e.Q.Qtype == tq.Type {
					rp.upstream = true // the TARGET was asked upstream
				}
			}
			w.collect(rp.t1)
			if !rp.ok {
				res.Skip("%s step %d: no reply to the alias %s via %s", r.b.ID, si, name, route)
				return
			}
			if rp.msg.Rcode == dns.RcodeServerFailure || len(rp.msg.Answer) == 0 {
				r.drift("%s: alias %s answered %s with %d answer records", st.Label, name, dns.RcodeToString[rp.msg.Rcode], len(rp.msg.Answer))
				break
			}
			if rp.upstream {
				kinds = append(kinds, "derive-resolved")
				r.drift("%s: the model answers the target %s from the index, the code asked the authority", st.Label, tq.Name)
				break
			}
			o := r.judgeSynth(si, rp, tq, class, "alias target")
			if o.minKey == "" || len(o.unknown) > 0 {
				break
			}
			res.Count("derive_"+route, 1)
			kinds = append(kinds, "derive")
			r.eroded++
			_, ttlEnd, cut, ok := w.st.VerifX04dpEntryEnd(dns.Question{Name: name, Qtype: tq.Type, Qclass: dns.ClassINET})
			if !ok {
				r.drift("%s: the composed alias reply was not cached", st.Label)
				break
			}
			end := ttlEnd
			if !cut.IsZero() && cut.Before(end) {
				end = cut
			}
			r.der = &derived{name: name, qtype: tq.Type, target: tq, minHi: o.minHi, minKey: o.minKey, keys: map[string]bool{}}
			for _, k := range o.keys {
				r.der.keys[k] = true
			}
			res.Count("derived_entries_audited", 1)
			if end.After(o.minHi.Add(eps)) {
				which := "proof"
				if strings.HasPrefix(o.minKey, "SOA|") {
					which = "soa"
				}
				r.violate(si, "c04/derived-outlives/"+which, fmt.Sprintf("alias %s -> %s/%s (asked via %s): the reply was composed from %v whose shortest piece %s (%s) "+
					"ends within %s, the re-cached alias entry lives %s (own TTL end in %s, request-tree bound in %s)", name, tq.Name, dns.TypeToString[tq.Type],
					route, o.keys, o.minKey, w.pieces[o.minKey].how, secs(o.minHi.Sub(rp.t1)), secs(end.Sub(rp.t1)), secs(ttlEnd.Sub(rp.t1)),
					map[bool]string{true: "none", false: secs(cut.Sub(rp.t1))}[cut.IsZero()]))
			}
			r.expectTTL(si, st, o.maxTTL)
		case "HitDer", "HitDerResolve":
			// The alias again.  Its entry holds the composed reply of then (every record of it rests on the pieces of then);
			// for a NODATA target the chase runs again and what it returns now is merged in (records of newer admissions
			// appear next to the stored ones): every record is held to the part it belongs to.
			if r.der == nil {
				r.drift("%s: no alias entry is tracked", st.Label)
				continue
			}
			route, _ := r.routeOf(si, "srv")
			name, tq := r.der.name, r.der.target
			if st.Op == "HitDerResolve" {
				w.mu.Lock()
				w.params[fw.z.Name] = lifetimes{st.S, st.X}
				w.mu.Unlock()
			}
			w.alSrv.ResetLog()
			rp := w.ask(fw, question{name, tq.Type}, route, true)
			targetUp := false
			for _, e := range fw.srv.Log() {
				if lc(e.Q.Name) == lc(tq.Name) && e.Q.Qtype == tq.Type {
					targetUp = true
				}
			}
			stamps := w.collect(rp.t1)
			if st.Op == "HitDerResolve" {
				for _, s := range stamps {
					if lc(s.q.Name) == lc(tq.Name) {
						r.genMap[st.Exp.Gen] = s.gen
					}
				}
			}
			aliasUp := false
			for _, e := range w.alSrv.Log() {
				if lc(e.Q.Name) == lc(name) {
					aliasUp = true
				}
			}
			if !rp.ok {
				res.Skip("%s step %d: no reply to the alias %s via %s", r.b.ID, si, name, route)
				return
			}
			if aliasUp {
				r.drift("%s: the alias entry was gone, the alias was resolved again", st.Label)
				r.der = nil
				break
			}
			if rp.msg.Rcode == dns.RcodeServerFailure || len(rp.msg.Answer) == 0 {
				r.drift("%s: alias %s answered %s with %d answer records", st.Label, name, dns.RcodeToString[rp.msg.Rcode], len(rp.msg.Answer))
				break
			}
			if targetUp != (st.Op == "HitDerResolve") {
				r.drift("%s: the target %s was asked upstream: %v", st.Label, tq.Name, targetUp)
			}
			res.Count("hitder_"+route, 1)
			if targetUp {
				res.Count("hitder_target_resolved", 1)
			}
			kinds = append(kinds, "hitder")
			if os.Getenv("X04DP_DEBUG") != "" {
				fmt.Printf("DEBUG HitDer reply via %s (target upstream %v):\n%v\n", route, targetUp, rp.msg)
			}
			r.judgeHit(si, rp, name, tq, route, targetUp)
			if targetUp {
				r.der = nil // the target now has an exact entry of its own: the alias is not followed further
			}
			r.expectTTL(si, st, maxTTL(rp.msg))
		default:
			res.Skip("%s: unknown op %s", r.b.ID, st.Op)
			return
		}
		if os.Getenv("X04DP_DEBUG") != "" {
			fmt.Printf("DEBUG %s step %d %s\n", r.b.ID, si, st.Label)
			for _, p := range w.st.VerifX04dpProofs(fw.z.Name) {
				fmt.Printf("DEBUG    %s %s rem=%.2f serial=%d gen=%d\n", p.Kind, p.Owner, time.Until(p.Expires).Seconds(), p.Serial, int64(p.SigInc)-w.baseInc)
			}
		}
		r.compare(si, st)
	}
	// acceptance probe: names that exist must still be answered while proofs are retained
	for _, lab := range []string{"b", "d"} {
		q := question{lab + "." + fw.z.Name, dns.TypeA}
		rp := w.ask(fw, q, []string{"msg", "raw"}[r.bi%2], true)
		w.collect(rp.t1)
		if rp.ok && rp.msg.Rcode != dns.RcodeServerFailure {
			res.Count("existing_probes", 1)
			has := false
			for _, rr := range rp.msg.Answer {
				if rr.Header().Rrtype == dns.TypeA {
					has = true
				}
			}
			if !has {
				r.violate(len(r.b.Steps)-1, "c02/denied-existing", fmt.Sprintf("%s/A exists in the zone and was answered %s without an address record (upstream asked: %v)",
					q.Name, dns.RcodeToString[rp.msg.Rcode], rp.upstream))
			}
		}
	}
	if r.drifts > 0 {
		res.Count("behaviours_drifted", 1)
	}
	res.Count("behaviours_"+fw.name, 1)
	res.Case(fw.name + ":" + strings.Join(kinds, ","))
}

func maxTTL(m *dns.Msg) uint32 {
	var t uint32
	for _, rr := range append(append([]dns.RR{}, m.Answer...), m.Ns...) {
		if rr.Header().Ttl > t {
			t = rr.Header().Ttl
		}
	}
	return t
}

// judgeHit holds every record of a hit on the re-cached alias entry to the part of the reply it belongs to: the alias
// record and the authority records of the admissions the entry was composed from to the shortest piece of THEN; the
// authority records a fresh chase merged in (newer admissions) to the shortest piece of the synthesis of NOW.
func (r *runner) judgeHit(si int, rp reply, name string, tq question, route string, targetUp bool) {
	w, zone, d := r.w, r.fw.z.Name, r.der
	type rec struct {
		rr  dns.RR
		key string // "" = a proof record without a signature of its own: identified through its owner
	}
	var recs []rec
	byOwner := map[string][]string{} // "SOA" / proof owner -> the keys present in the reply
	present := func(slot, key string) {
		for _, k := range byOwner[slot] {
			if k == key {
				return
			}
		}
		byOwner[slot] = append(byOwner[slot], key)
	}
	for _, rr := range rp.msg.Ns {
		h := rr.Header()
		switch x := rr.(type) {
		case *dns.SOA:
			if lc(h.Name) != zone {
				continue
			}
			k := fmt.Sprintf("SOA|%s|%d", zone, x.Serial)
			recs = append(recs, rec{rr, k})
			present("SOA", k)
		case *dns.RRSIG:
			if lc(x.SignerName) != zone {
				continue
			}
			g := int64(x.Inception) - w.baseInc
			k := fmt.Sprintf("%s|%d", lc(h.Name), g)
			slot := lc(h.Name)
			if x.TypeCovered == dns.TypeSOA {
				k, slot = fmt.Sprintf("SOA|%s|%d", zone, g), "SOA"
			}
			recs = append(recs, rec{rr, k})
			present(slot, k)
		case *dns.NSEC, *dns.NSEC3:
			recs = append(recs, rec{rr, ""})
		}
	}
	// the synthesis of now: per slot the admission that is not of the stored part, else the stored one
	var minNew time.Time
	minNewKey := ""
	for _, keys := range byOwner {
		pick := ""
		for _, k := range keys {
			if !d.keys[k] {
				pick = k
			}
		}
		if pick == "" {
			pick = keys[0]
		}
		p := w.pieces[pick]
		if p == nil {
			w.res.Skip("%s step %d: the alias hit carries a record the harness did not stamp: %s", r.b.ID, si, pick)
			return
		}
		if minNewKey == "" || p.expHi.Before(minNew) {
			minNew, minNewKey = p.expHi, pick
		}
	}
	check := func(rr dns.RR, bound time.Time, boundKey, part string) bool {
		left := bound.Sub(rp.t0)
		what := fmt.Sprintf("alias %s -> %s/%s asked again via %s: %s %s of the hit belongs to %s, whose shortest piece is %s with at most %s left",
			name, tq.Name, dns.TypeToString[tq.Type], route, dns.TypeToString[rr.Header().Rrtype], rr.Header().Name, part, boundKey, secs(left))
		if left <= 0 {
			r.violate(si, "c04/derived-shown/expired", what+": served after that piece's lifetime ended")
			return false
		}
		if float64(rr.Header().Ttl) > (left + eps).Seconds() {
			r.violate(si, "c04/derived-shown/ttl", fmt.Sprintf("%s, yet it shows TTL %d s", what, rr.Header().Ttl))
			return false
		}
		return true
	}
	stored := "the reply the entry was re-cached from"
	for _, rr := range rp.msg.Answer {
		if lc(rr.Header().Name) == lc(name) && !check(rr, d.minHi, d.minKey, stored) {
			return
		}
	}
	for _, rc := range recs {
		switch {
		case rc.key == "":
			// an unsigned-identity proof record: lenient, the later of the two parts
			b, k := d.minHi, d.minKey
			if minNewKey != "" && minNew.After(b) {
				b, k = minNew, minNewKey
			}
			if !targetUp && !check(rc.rr, b, k, "either part") {
				return
			}
		case d.keys[rc.key]:
			if !check(rc.rr, d.minHi, d.minKey, stored) {
				return
			}
		case targetUp:
			// merged in from an answer the authority gave just now: not composed from cached pieces
		default:
			if !check(rc.rr, minNew, minNewKey, "the synthesis merged in by the second chase") {
				return
			}
			w.res.Count("hitder_merged_newer_records", 1)
		}
	}
}

func (r *runner) classOfTarget(class string) string {
	if class != "" {
		return class
	}
	// HitDer carries no class of its own: the tracked alias remembers the target only; find the class by the target
	for id, pool := range r.fw.pools {
		for _, q := range pool {
			if r.der != nil && q == r.der.target {
				return id
			}
		}
	}
	return ""
}

func TestDenialProofReplay(t *testing.T) {
	var in Input
	vh.Input(t, &in)
	res := vh.NewResult()
	defer res.Write(t)
	if in.Unit <= 0 {
		in.Unit = 10
	}
	w, err := buildWorld(&in, res, vh.Scratch(t))
	if err != nil {
		res.Skip("world: %v", err)
		return
	}
	defer w.stop()
	for name, fw := range w.fams {
		for id := range in.Classes {
			res.Count(fmt.Sprintf("pool_%s_%s", name, id), len(fw.pools[id]))
		}
	}
	for bi := range in.Behaviours {
		b := &in.Behaviours[bi]
		fw := w.fams[b.Family]
		if fw == nil {
			res.Skip("%s: unknown family %s", b.ID, b.Family)
			continue
		}
		usable := true
		for _, st := range b.Steps {
			if st.Q != "" && len(fw.pools[st.Q]) == 0 {
				res.Skip("%s: class %s has no concrete question in family %s", b.ID, st.Q, b.Family)
				usable = false
				break
			}
		}
		if !usable {
			continue
		}
		r := &runner{w: w, fw: fw, b: b, bi: bi}
		r.run()
		if res.NViolations() >= 6 {
			break
		}
	}
}
