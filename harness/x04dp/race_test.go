package x04dp

// The lookup-in-flight dimension of DenialProof.tla (Race = TRUE; gap C02-r3-1) on the real pipeline.
//
//   Begin(q,r)      a fresh question of class q (whose proof the index retains) is asked from a goroutine of its own and
//                   HELD inside denialProofCache.lookupWithMeta after the zone snapshot was captured and the read lock
//                   released: either in the index clock read that follows the capture (seam denialProofCache.now, both
//                   zone kinds) or in the shared DNSSEC crypto gate inside the PRODUCTION BeginNSEC3Hash of the lookup's
//                   first NSEC3 hash (Cache.SetDNSSECCryptoLimiter with the real gate behind; NSEC3 zones: mid-evaluation)
//   Create(p,tgt)   the live authority's zone changes at the owner of piece p: a type is added at that existing name, or a
//                   name is created inside its span (tgt = flight: the very type / name asked by the held lookup)
//   Resolve/Purge   other clients' questions and the administrative purge run while the lookup is held
//   Finish          the lookup is released; what it returns is judged
//
// Verdict (class c02/): c02/denied-existing/quarantined-ring -- the released lookup answered NXDOMAIN / NODATA from the
// index for a name / type that exists in the zone at the instant of the release although the index had, BEFORE the
// release, met the contradicting validated RRset and tombstoned the ring (the tombstone is read through the overlay).
// A denial of what exists WITHOUT a tombstone (NSEC: the later RRset simply replaces the earlier one; NSEC3: nobody has
// shown the index the new RRset yet, or a Purge lifted the tombstone) is what any cache does with a record inside its
// TTL: counted (inflight_stale_snapshot_denials), not judged.

import (
	"fmt"
	"runtime"
	"sort"
	"strings"
	"sync"
	"time"

	"github.com/miekg/dns"
	"github.com/semihalev/sdns/middleware"
)

// gate holds ONE call made from inside lookupWithMeta at the armed seam.
type gate struct {
	mu      sync.Mutex
	armed   string // "" | "clock" | "hash"
	parked  chan string
	release chan struct{}
}

func inAggressiveLookup() bool {
	var pcs [48]uintptr
	n := runtime.Callers(3, pcs[:])
	frames := runtime.CallersFrames(pcs[:n])
	for {
		f, more := frames.Next()
		if strings.HasSuffix(f.Function, ".lookupWithMeta") {
			return true
		}
		if !more {
			return false
		}
	}
}

func (g *gate) arm(where string) (parked chan string, release chan struct{}) {
	g.mu.Lock()
	defer g.mu.Unlock()
	g.armed, g.parked, g.release = where, make(chan string, 1), make(chan struct{})
	return g.parked, g.release
}

func (g *gate) disarm() {
	g.mu.Lock()
	g.armed = ""
	g.mu.Unlock()
}

func (g *gate) pass(where string) {
	g.mu.Lock()
	if g.armed != where || !inAggressiveLookup() {
		g.mu.Unlock()
		return
	}
	g.armed = ""
	parked, release := g.parked, g.release
	g.mu.Unlock()
	parked <- where
	<-release
}

type gatedLimiter struct {
	g     *gate
	inner middleware.DNSSECCryptoLimiter
}

func (l *gatedLimiter) TryAcquire() (func(), bool) {
	l.g.pass("hash")
	return l.inner.TryAcquire()
}

// installGate puts the harness in front of the two seams (before any traffic).
func (w *world) installGate() error {
	w.g = &gate{}
	inner := w.c.VerifX04dpCryptoLimiter()
	if inner == nil {
		return fmt.Errorf("the cache has no DNSSEC crypto limiter wired")
	}
	w.c.SetDNSSECCryptoLimiter(&gatedLimiter{g: w.g, inner: inner})
	w.st.VerifX04dpSetProofClock(func() time.Time {
		w.g.pass("clock")
		return time.Now()
	})
	return nil
}

// ---- zone changes -------------------------------------------------------------------------------------------------

var typeRdata = map[uint16]string{
	dns.TypeTXT: `"born"`, dns.TypeMX: "10 mx.born.example.", dns.TypeSRV: "0 0 1 srv.born.example.", dns.TypeHINFO: `"a" "b"`,
	dns.TypeLOC: "1 1 1 N 1 1 1 E 1m", dns.TypeNAPTR: `10 10 "u" "x" "" n.born.example.`, dns.TypeSSHFP: "1 1 aabbccdd",
	dns.TypeTLSA: "3 1 1 aabbccdd", dns.TypeCAA: `0 issue "born"`, dns.TypeSPF: `"v=spf1 -all"`, dns.TypeURI: `1 1 "http://born.example/"`,
	dns.TypeRP: "a.born.example. b.born.example.", dns.TypeCERT: "1 1 8 AAAA", dns.TypeAFSDB: "1 h.born.example.",
	dns.TypeKX: "1 h.born.example.", dns.TypePTR: "h.born.example.", dns.TypeA: "192.0.2.77",
}

func recordLine(name string, t uint16) (string, bool) {
	rd, ok := typeRdata[t]
	if !ok {
		return "", false
	}
	line := fmt.Sprintf("%s 300 IN %s %s", name, dns.TypeToString[t], rd)
	if _, err := dns.NewRR(line); err != nil {
		return "", false
	}
	return line, true
}

func (fw *famWorld) existing(label string) string {
	if label == "" {
		return fw.z.Name
	}
	return label + "." + fw.z.Name
}

// pieceRRsets renders the proof RRset the authority serves at every model piece's owner right now.
func (fw *famWorld) pieceRRsets() map[string]string {
	out := map[string]string{}
	for p, label := range fw.fam.Pieces {
		var ss []string
		for _, rr := range fw.z.DenialFor(fw.existing(label), false) {
			if t := rr.Header().Rrtype; t == dns.TypeNSEC || t == dns.TypeNSEC3 {
				ss = append(ss, rr.String())
			}
		}
		sort.Strings(ss)
		out[p] = strings.Join(ss, "|")
	}
	return out
}

func changedPieces(before, after map[string]string) []string {
	var out []string
	for p, b := range before {
		if after[p] != b {
			out = append(out, p)
		}
	}
	sort.Strings(out)
	return out
}

type createdRR struct {
	name string
	t    uint16
}

// addRecord changes the live zone and reports which model pieces' RRsets the authority now serves differently.
func (fw *famWorld) addRecord(name string, t uint16) ([]string, bool) {
	line, ok := recordLine(name, t)
	if !ok {
		return nil, false
	}
	before := fw.pieceRRsets()
	fw.z.Add(line)
	fw.created = append(fw.created, createdRR{lc(name), t})
	return changedPieces(before, fw.pieceRRsets()), true
}

func (fw *famWorld) undoLast() {
	c := fw.created[len(fw.created)-1]
	fw.created = fw.created[:len(fw.created)-1]
	fw.z.Remove(c.name, c.t)
}

// restore takes every created record out of the zone again (between behaviours).
func (fw *famWorld) restore(in *Input) error {
	if len(fw.created) == 0 {
		return nil
	}
	for _, c := range fw.created {
		fw.z.Remove(c.name, c.t)
	}
	fw.created = nil
	return fw.catalogue(in)
}

// freshCreatable draws a fresh NXDOMAIN name of class (any NX class when class == "") whose creation changes exactly the
// RRset of piece p (the name's own hash / canonical position falls into the span of p).  The probe adds and removes the
// name on the live zone; nothing is asked meanwhile.
func (fw *famWorld) freshCreatable(in *Input, class, p string) (question, string, bool) {
	var classes []string
	for id, cl := range in.Classes {
		if cl.RC != "NX" || (class != "" && id != class) {
			continue
		}
		for _, n := range cl.Need {
			if n == p {
				classes = append(classes, id)
			}
		}
	}
	sort.Strings(classes)
	for _, id := range classes {
		pool := fw.pools[id]
		tried := 0
		for i := fw.next[id]; i < len(pool) && tried < 24; i++ {
			q := pool[i]
			if fw.used[lc(q.Name)] {
				continue
			}
			tried++
			ch, ok := fw.addRecord(q.Name, dns.TypeA)
			if !ok {
				continue
			}
			fw.undoLast()
			if len(ch) == 1 && ch[0] == p {
				fw.used[lc(q.Name)] = true
				return q, id, true
			}
		}
	}
	return question{}, "", false
}

// ---- the lookup in flight -------------------------------------------------------------------------------------------

type flight struct {
	q       question
	class   string
	route   string
	do      bool
	where   string
	done    chan reply
	release chan struct{}
	hit     bool
	hitWhat string
	shape   string // what turned the answer positive: "type" (added at the NODATA name) | "name" (the NXDOMAIN name created)
	conflicts,
	admissions int
}

func (r *runner) abandonFlight() {
	if r.fl == nil {
		return
	}
	r.w.g.disarm()
	close(r.fl.release)
	select {
	case <-r.fl.done:
	case <-time.After(15 * time.Second):
	}
	r.fl = nil
}

// begin returns false when the behaviour cannot go on.
func (r *runner) begin(si int, st *Step) bool {
	w, fw, res := r.w, r.fw, r.w.res
	class := st.Q
	// what the zone change inside this flight will be decides which fresh name is asked
	bornP := ""
	for j := si + 1; j < len(r.b.Steps) && r.b.Steps[j].Op != "Finish"; j++ {
		if s := r.b.Steps[j]; s.Op == "Create" && s.Tgt == "flight" {
			bornP = s.P
		}
	}
	var q question
	ok := false
	if bornP != "" && w.in.Classes[class].RC == "NX" {
		q, _, ok = fw.freshCreatable(w.in, class, bornP)
		if !ok {
			// a fact of the zone's hash order, not of the code: in this family no name of the class falls into p's span
			res.Count("create_unrealisable", 1)
			return false
		}
	} else {
		q, ok = fw.fresh(st.Q)
		if !ok {
			res.Count("pool_exhausted", 1)
			return false
		}
	}
	route, do := r.routeOf(si, st.R)
	where := "clock"
	if fw.fam.NSEC3 && (r.bi+si)%2 == 0 {
		where = "hash"
	}
	parked, release := w.g.arm(where)
	fl := &flight{q: q, class: class, route: route, do: do, where: where, done: make(chan reply, 1), release: release}
	go func() { fl.done <- w.ask(fw, q, route, do) }()
	select {
	case <-parked:
	case rp := <-fl.done:
		w.g.disarm()
		res.Skip("%s step %d: the lookup for %s/%s via %s finished without passing the %s seam (rcode %v, upstream %v)", r.b.ID, si, q.Name,
			dns.TypeToString[q.Type], route, where, rp.msg != nil && rp.msg.Rcode == 0, rp.upstream)
		return false
	case <-time.After(10 * time.Second):
		w.g.disarm()
		res.Skip("%s step %d: the lookup for %s via %s neither finished nor reached the %s seam", r.b.ID, si, q.Name, route, where)
		return false
	}
	r.fl = fl
	res.Count("inflight_parked_"+where, 1)
	res.Count("inflight_route_"+route, 1)
	return true
}

func (r *runner) create(si int, st *Step) bool {
	w, fw, res := r.w, r.fw, r.w.res
	p := st.P
	label, known := fw.fam.Pieces[p]
	if !known {
		res.Skip("%s step %d: piece %s is not realised by family %s", r.b.ID, si, p, fw.name)
		return false
	}
	var changed []string
	shape, what := "", ""
	switch {
	case st.Tgt == "flight":
		if r.fl == nil {
			r.drift("%s: no lookup is in flight", st.Label)
			return false
		}
		q := r.fl.q
		if w.in.Classes[r.fl.class].RC == "ND" {
			shape = "type"
		} else {
			shape = "name"
		}
		ch, ok := fw.addRecord(q.Name, q.Type)
		if !ok {
			res.Skip("%s step %d: cannot build a %s record", r.b.ID, si, dns.TypeToString[q.Type])
			return false
		}
		changed, what = ch, fmt.Sprintf("%s/%s", q.Name, dns.TypeToString[q.Type])
		r.fl.hit, r.fl.hitWhat, r.fl.shape = true, what, shape
	case (r.bi+si)%2 == 0:
		// another name is created inside p's span
		if q, _, ok := fw.freshCreatable(w.in, "", p); ok {
			changed, _ = fw.addRecord(q.Name, dns.TypeA)
			shape, what = "name", q.Name+"/A"
			break
		}
		fallthrough
	default:
		// another type appears at p's own name
		name := fw.existing(label)
		for _, t := range absentTypes {
			k := fmt.Sprintf("%s/%d", lc(name), t)
			if fw.used[k] || len(fw.z.RRset(name, t)) != 0 {
				continue
			}
			if _, ok := recordLine(name, t); !ok {
				continue
			}
			fw.used[k] = true
			changed, _ = fw.addRecord(name, t)
			shape, what = "type", fmt.Sprintf("%s/%s", name, dns.TypeToString[t])
			break
		}
	}
	if shape == "" {
		res.Count("create_unrealisable", 1)
		r.drift("%s: no zone change moves the RRset of %s", st.Label, p)
		return false
	}
	if len(changed) != 1 || changed[0] != p {
		res.Count("create_unrealisable", 1)
		r.drift("%s: creating %s moved the RRsets of %v, the model moves %s", st.Label, what, changed, p)
		return false
	}
	res.Count("create_"+shape, 1)
	res.Count("create_"+st.Tgt, 1)
	// the spans have moved: which fresh questions are proved by exactly which RRsets is read off the zone again
	if err := fw.catalogue(w.in); err != nil {
		res.Skip("%s step %d: catalogue after creating %s: %v", r.b.ID, si, what, err)
		return false
	}
	return true
}

func (r *runner) finish(si int, st *Step) bool {
	w, fw, res := r.w, r.fw, r.w.res
	fl := r.fl
	if fl == nil {
		r.drift("%s: no lookup is in flight", st.Label)
		return true
	}
	q := fl.q
	// the two facts the verdict rests on are taken BEFORE the lookup is released
	tombstones, until := w.st.VerifX04dpQuarantine(fw.z.Name)
	truth := w.n.GroundTruth(dns.Question{Name: q.Name, Qtype: q.Type, Qclass: dns.ClassINET})
	exists := truth.Kind == "answer"
	if exists != fl.hit {
		r.drift("%s: the zone says %s for %s/%s, the model's question in flight has hit=%v", st.Label, truth.Kind, q.Name, dns.TypeToString[q.Type], fl.hit)
	}
	if st.Want == "resolved" {
		w.mu.Lock()
		w.params[fw.z.Name] = lifetimes{st.S, st.X}
		w.mu.Unlock()
	}
	tRelease := time.Now()
	close(fl.release)
	var rp reply
	select {
	case rp = <-fl.done:
	case <-time.After(20 * time.Second):
		r.fl = nil
		res.Skip("%s step %d: the released lookup for %s did not return", r.b.ID, si, q.Name)
		return false
	}
	r.fl = nil
	stamps := w.collect(rp.t1)
	for _, s := range stamps {
		if lc(s.q.Name) == lc(q.Name) && s.q.Qtype == q.Type {
			r.genMap[st.Exp.Gen] = s.gen
		}
	}
	outcome := "synth"
	switch {
	case !rp.ok || rp.msg == nil:
		outcome = "miss"
	case rp.msg.Rcode == dns.RcodeServerFailure:
		outcome = "servfail"
	case rp.upstream && len(rp.msg.Answer) > 0:
		outcome = "positive"
	case rp.upstream:
		outcome = "resolved"
	}
	res.Count("inflight_"+outcome, 1)
	held := fmt.Sprintf("lookup %s/%s via %s DO=%v held at the %s seam (after the snapshot of %s was captured); meanwhile %d admissions of other clients "+
		"(%d met a second RRset at one owner hash)", q.Name, dns.TypeToString[q.Type], fl.route, fl.do, fl.where, fw.z.Name, fl.admissions, fl.conflicts)
	if tombstones > 0 {
		res.Count("inflight_released_under_quarantine", 1)
		if exists {
			res.Count("inflight_hit_judged", 1)
		}
	}
	switch outcome {
	case "synth":
		rcode := dns.RcodeToString[rp.msg.Rcode]
		if rp.msg.Rcode == dns.RcodeSuccess {
			rcode = "NODATA"
		}
		switch {
		case tombstones > 0 && exists:
			r.violate(si, "c02/denied-existing/quarantined-ring/"+fl.shape, fmt.Sprintf("%s; %s was created in the zone (%s) and a validated response "+
				"carrying the changed RRset made the index tombstone the ring (%d tombstone(s), %s left) BEFORE the lookup was released; released, it "+
				"answered %s (AD=%v) from the tombstoned ring although the zone says: %s", held, fl.hitWhat, fl.shape, tombstones,
				secs(until.Sub(tRelease)), rcode, rp.msg.AuthenticatedData, truth.Kind))
		case tombstones > 0:
			res.Count("inflight_synth_from_quarantined_ring", 1)
			r.drift("%s: %s; answered %s from a ring tombstoned before the release (the denial is true: %s)", st.Label, held, rcode, truth.Kind)
		case exists:
			// no tombstone: a record inside its TTL (see the header)
			res.Count("inflight_stale_snapshot_denials", 1)
		}
		r.judgeSynthOpt(si, rp, q, fl.class, "released lookup", !exists)
	case "miss", "resolved", "positive":
		if tombstones > 0 {
			res.Count("inflight_blocked_by_quarantine", 1)
		}
		if exists && outcome == "resolved" {
			r.violate(si, "c02/denied-existing/resolved", fmt.Sprintf("%s; %s exists, the authority was asked and the reply is %s without an answer",
				held, fl.hitWhat, dns.RcodeToString[rp.msg.Rcode]))
		}
	default:
		r.drift("%s: %s; SERVFAIL", st.Label, held)
	}
	if outcome != st.Want {
		r.drift("%s: the released lookup ended as %s, the model says %s (tombstones %d)", st.Label, outcome, st.Want, tombstones)
	}
	return true
}

// noteAdmission is called around a Resolve step (another client's question) for the bookkeeping of the dimension.
func (r *runner) quarantined() bool {
	n, _ := r.w.st.VerifX04dpQuarantine(r.fw.z.Name)
	return n > 0
}

func (r *runner) noteAdmission(before bool, upstream bool) {
	res := r.w.res
	after := r.quarantined()
	if !upstream {
		return
	}
	if r.fl != nil {
		r.fl.admissions++
		res.Count("inflight_interleaved_admissions", 1)
	}
	switch {
	case !before && after:
		res.Count("conflict_admissions", 1)
		if r.fl != nil {
			r.fl.conflicts++
			res.Count("inflight_conflict_admissions", 1)
		}
	case before && after:
		res.Count("admission_refused_by_quarantine", 1)
	}
}

// compareQuarantine: the tombstone of the model against the index (drift only).
func (r *runner) compareQuarantine(st *Step) bool {
	n, until := r.w.st.VerifX04dpQuarantine(r.fw.z.Name)
	if n > 0 {
		r.w.res.Count("quarantine_observed", 1)
	}
	if (st.Exp.Quar > 0) != (n > 0) {
		r.drift("%s: the model's tombstone ends at tick %d (now %d), the index holds %d", st.Label, st.Exp.Quar, st.Exp.Now, n)
		return false
	}
	if n > 0 {
		rem := time.Until(until).Seconds()
		mrem := float64((st.Exp.Quar - st.Exp.Now) * r.w.in.Unit)
		tol := time.Since(r.start).Seconds() + 2.5 + float64(r.eroded) + r.phase.Seconds()
		if rem > mrem+0.5 || rem < mrem-tol {
			r.drift("%s: the tombstone has %.1f s left in the index, %.0f s in the model", st.Label, rem, mrem)
			return false
		}
	}
	return true
}
