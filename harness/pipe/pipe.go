// Package pipe builds the real sdns default chain with a scripted tail handler
// and offers transport doubles, so drivers can enter through Server.ServeRaw
// (strict wire path), ServeRawInline+ServeRawReplay, and Server.ServeMsg
// (decoded path) with identical prior history.
package pipe

import (
	"context"
	"net"
	"sync"
	"time"

	"github.com/miekg/dns"
	"github.com/semihalev/sdns/config"
	"github.com/semihalev/sdns/middleware"
	"github.com/semihalev/sdns/middleware/defaults"
	"github.com/semihalev/sdns/server"
)

// Tail stands at the end of the chain in the resolver's place.
type Tail struct {
	mu      sync.Mutex
	Calls   int
	Queries []*dns.Msg // copies of the (EDNS-normalised) queries that reached the tail
	// Respond builds the upstream response; nil result = write nothing.
	Respond func(ctx context.Context, ch *middleware.Chain, req *dns.Msg) *dns.Msg
}

func (t *Tail) Name() string { return "verif-tail" }

func (t *Tail) ServeDNS(ctx context.Context, ch *middleware.Chain) {
	ctx, req := ch.Materialize(ctx)
	if req == nil {
		return
	}
	t.mu.Lock()
	t.Calls++
	t.Queries = append(t.Queries, req.Copy())
	respond := t.Respond
	t.mu.Unlock()
	if respond != nil {
		if resp := respond(ctx, ch, req); resp != nil {
			_ = ch.Writer.WriteMsg(resp)
		}
	}
	ch.Cancel()
}

func (t *Tail) Reset() {
	t.mu.Lock()
	t.Calls = 0
	t.Queries = nil
	t.mu.Unlock()
}

func (t *Tail) NCalls() int {
	t.mu.Lock()
	defer t.mu.Unlock()
	return t.Calls
}

func (t *Tail) Last() *dns.Msg {
	t.mu.Lock()
	defer t.mu.Unlock()
	if len(t.Queries) == 0 {
		return nil
	}
	return t.Queries[len(t.Queries)-1]
}

// BaseConfig is a minimal valid configuration for the default chain.
func BaseConfig() *config.Config {
	cfg := &config.Config{ //nolint:gosec
		Bind:         "127.0.0.1:0",
		Expire:       600,
		CacheSize:    10240,
		CookieSecret: "6c6f6f6b61686172646c6f6f6b6168617264",
		Maxdepth:     30,
		RateLimit:    0,
	}
	cfg.QueryTimeout.Duration = 10 * time.Second
	return cfg
}

var setupMu sync.Mutex

// NewServer registers the default chain up to (not including) `stop`, then the
// tail, and builds a Server on it. The middleware registry is process-global:
// callers serialise configurations (the returned release func resets it).
func NewServer(cfg *config.Config, tail *Tail, stop string) (*server.Server, func()) {
	setupMu.Lock()
	middleware.Reset()
	defaults.RegisterUpTo(stop)
	middleware.Register("verif-tail", func(*config.Config) middleware.Handler { return tail })
	middleware.Setup(cfg)
	s := server.New(cfg)
	return s, func() {
		middleware.Reset()
		setupMu.Unlock()
	}
}

// Sink is a plain (non-strict) transport double: ServeMsg's entry.
type Sink struct {
	Remote    net.Addr
	ProtoName string // optional override ("doh", "doq", "tcp-tls"...)
	Writes    [][]byte
	Msgs      []*dns.Msg
}

func (s *Sink) LocalAddr() net.Addr {
	if _, ok := s.Remote.(*net.TCPAddr); ok {
		return &net.TCPAddr{IP: net.IPv4(192, 0, 2, 1), Port: 53}
	}
	return &net.UDPAddr{IP: net.IPv4(192, 0, 2, 1), Port: 53}
}
func (s *Sink) RemoteAddr() net.Addr { return s.Remote }
func (s *Sink) Close() error         { return nil }
func (s *Sink) Proto() string        { return s.ProtoName }
func (s *Sink) Write(b []byte) (int, error) {
	s.Writes = append(s.Writes, append([]byte(nil), b...))
	return len(b), nil
}
func (s *Sink) WriteMsg(m *dns.Msg) error {
	s.Msgs = append(s.Msgs, m)
	b, err := m.Pack()
	if err != nil {
		return err
	}
	s.Writes = append(s.Writes, b)
	return nil
}

// Addr builds a UDP or TCP address.
func Addr(proto, ip string, port int) net.Addr {
	p := net.ParseIP(ip)
	if proto == "tcp" {
		return &net.TCPAddr{IP: p, Port: port}
	}
	return &net.UDPAddr{IP: p, Port: port}
}

// ResolverOpts configures a full-pipeline server resolving against a scripted namespace.
type ResolverOpts struct {
	RootAddr string
	RootKeys []string // presentation-format DNSKEYs; empty = no trust anchors
	DNSSEC   bool
	Dir      string
	Mapper   func(string) string
	Mutate   func(*config.Config)
}

// NewResolverServer builds the real default chain including cache and resolver
// (everything up to, not including, the forwarder) against a scripted root.
func NewResolverServer(o ResolverOpts) (*server.Server, *config.Config) {
	cfg := BaseConfig()
	cfg.RootServers = []string{o.RootAddr}
	cfg.Root6Servers = nil
	cfg.RootKeys = o.RootKeys
	cfg.IPv6Access = false
	cfg.DNSSEC = "off"
	if o.DNSSEC {
		cfg.DNSSEC = "on"
	}
	cfg.Directory = o.Dir
	cfg.Timeout.Duration = 1500 * time.Millisecond
	cfg.QueryTimeout.Duration = 6 * time.Second
	if o.Mutate != nil {
		o.Mutate(cfg)
	}
	setupMu.Lock()
	defer setupMu.Unlock()
	middleware.Reset()
	defaults.RegisterUpTo("forwarder")
	middleware.Setup(cfg)
	if h, ok := middleware.Get("resolver").(interface {
		VerifSetResolveTarget(func(string) string)
	}); ok && o.Mapper != nil {
		h.VerifSetResolveTarget(o.Mapper)
	}
	s := server.New(cfg)
	return s, cfg
}

// Ask sends one query through ServeMsg from a (non-loopback) client and returns the reply.
func Ask(s *server.Server, q *dns.Msg, proto, ip string) *dns.Msg {
	sink := &Sink{Remote: Addr(proto, ip, 40000)}
	s.ServeMsg(context.Background(), sink, q)
	if len(sink.Writes) == 0 {
		return nil
	}
	m := new(dns.Msg)
	if err := m.Unpack(sink.Writes[len(sink.Writes)-1]); err != nil {
		return nil
	}
	return m
}

// AskRaw enters through Server.ServeRaw on a strict-slot transport double, so the
// request is wire-born (ParseWire admission, byte paths, detached context) when the
// packet qualifies. Returns the last reply written, decoded.
func AskRaw(s *server.Server, q *dns.Msg, proto, ip string) *dns.Msg {
	raw, err := q.Pack()
	if err != nil {
		return nil
	}
	job := &server.VerifStrictJob{Remote: Addr(proto, ip, 40000)}
	s.ServeRaw(job, raw, time.Now())
	if len(job.Writes) == 0 {
		return nil
	}
	m := new(dns.Msg)
	if err := m.Unpack(job.Writes[len(job.Writes)-1]); err != nil {
		return nil
	}
	return m
}
