package x11dl

// TestLDStress (code -> spec): goroutines hammer one real LazyDeadline whose
// deadline is a few tens of milliseconds away, across the deadline, with and
// without Cancel() and parent cancellation.  Every call logs an invocation
// and a response line stamped from one atomic sequence; a clock goroutine
// brackets the deadline with lo / hi lines.  The C11-bearing predicates are
// evaluated directly on the history (real-time order = stamp order) and the
// history is written out for TLC to validate against Trace_LazyDeadline.tla.

import (
	"context"
	"fmt"
	"math/rand"
	"runtime"
	"sync"
	"sync/atomic"
	"testing"
	"time"

	"github.com/semihalev/sdns/internal/contextutil"
	"github.com/semihalev/sdns/verifharness/vh"
)

type ldStressRun struct {
	Name     string `json:"name"`
	Parent   string `json:"parent"` // custom | cancel | deadline
	Rounds   int    `json:"rounds"`
	Procs    int    `json:"procs"`
	Ops      int    `json:"ops"`
	TraceOut string `json:"traceOut"`
}

type ldStressInput struct {
	Runs []ldStressRun `json:"runs"`
}

type ldCall struct {
	p      int
	op     string
	inv    uint64
	res    uint64
	closed bool   // done
	ch     int    // done: 0 sentinel, k-th distinct channel
	e      string // err
	dl     string // deadline
	raw    <-chan struct{}
}

// passParent is the non-stdlib parent of the stress (no gates): the stdlib
// follows its cancellation with a goroutine.
type passParent struct {
	mu   sync.Mutex
	done chan struct{}
	err  error
}

func (g *passParent) Deadline() (time.Time, bool) { return time.Time{}, false }
func (g *passParent) Value(any) any               { return nil }
func (g *passParent) Done() <-chan struct{}       { return g.done }
func (g *passParent) Err() error {
	g.mu.Lock()
	defer g.mu.Unlock()
	return g.err
}
func (g *passParent) cancel() {
	g.mu.Lock()
	if g.err == nil {
		g.err = context.Canceled
		close(g.done)
	}
	g.mu.Unlock()
}

type ldStressRound struct {
	res       *vh.Result
	run       *ldStressRun
	round     int
	seed      int64
	h         history
	lazy      *contextutil.LazyDeadline
	effective time.Time
	pcancel   func()
	chanMu    sync.Mutex
	chans     []<-chan struct{}
	calls     []ldCall
	callMu    sync.Mutex
}

func (sr *ldStressRound) chanIndex(ch <-chan struct{}) int {
	if ch == contextutil.VerifX11dlClosedSentinel() {
		return 0
	}
	sr.chanMu.Lock()
	defer sr.chanMu.Unlock()
	for i, c := range sr.chans {
		if c == ch {
			return i + 1
		}
	}
	sr.chans = append(sr.chans, ch)
	return len(sr.chans)
}

func (sr *ldStressRound) call(p int, op string) {
	c := ldCall{p: p, op: op}
	c.inv = sr.h.log(map[string]any{"ev": "inv", "p": p, "op": op})
	line := map[string]any{"ev": "res", "p": p, "op": op}
	switch op {
	case "done":
		ch := sr.lazy.Done()
		c.raw = ch
		c.closed = isClosed(ch)
		c.ch = sr.chanIndex(ch)
		line["h"], line["c"] = c.ch, c.closed
	case "err":
		c.e = errClass(sr.lazy.Err())
		line["e"] = c.e
	case "cancel":
		sr.lazy.Cancel()
	case "deadline":
		d, ok := sr.lazy.Deadline()
		switch {
		case !ok:
			c.dl = "none"
		case d.Equal(sr.effective):
			c.dl = "own"
			if sr.run.Parent == "deadline" {
				c.dl = "parent"
			}
		case d.After(sr.effective):
			c.dl = "later"
		default:
			c.dl = "earlier"
		}
		line["e"] = c.dl
	}
	c.res = sr.h.log(line)
	sr.callMu.Lock()
	sr.calls = append(sr.calls, c)
	sr.callMu.Unlock()
}

func (sr *ldStressRound) violate(pred, what string) {
	sr.res.Violate("lazydeadline/stress/"+pred,
		fmt.Sprintf("LazyDeadline %s [stress parent=%s round=%d seed=%d]: %s", pred, sr.run.Parent, sr.round, sr.seed, what),
		map[string]any{"driver": "ld-stress", "run": sr.run.Name, "parent": sr.run.Parent, "round": sr.round, "seed": sr.seed})
}

func (sr *ldStressRound) exec(tw *traceWriter) error {
	rng := rand.New(rand.NewSource(sr.seed))
	T := time.Duration(12+rng.Intn(24)) * time.Millisecond
	start := time.Now()
	own := start.Add(T)
	var parent context.Context
	var pp *passParent
	given := own
	switch sr.run.Parent {
	case "custom":
		pp = &passParent{done: make(chan struct{})}
		parent = pp
		sr.pcancel = pp.cancel
	case "cancel":
		c, cancel := context.WithCancel(context.Background())
		parent, sr.pcancel = c, cancel
	case "deadline":
		c, cancel := context.WithDeadline(context.Background(), own)
		defer cancel()
		parent = c
		given = own.Add(time.Hour)
	default:
		return fmt.Errorf("unknown parent kind %q", sr.run.Parent)
	}
	sr.effective = own
	sr.lazy = contextutil.WithLazyDeadline(parent, given)
	withCancel := rng.Intn(2) == 0
	withPCancel := sr.pcancel != nil && rng.Intn(3) == 0
	var wg sync.WaitGroup
	// the clock: lo lines while the deadline is ahead, one hi line once it passed
	clockDone := make(chan struct{})
	go func() {
		defer close(clockDone)
		last := uint64(0)
		for {
			if cur := sr.h.seq.Load(); cur != last {
				s := sr.h.next()
				if !time.Now().Before(own) {
					break
				}
				sr.h.add(s, map[string]any{"ev": "lo"})
				last = s
			} else if !time.Now().Before(own) {
				break
			}
			time.Sleep(400 * time.Microsecond)
		}
		for time.Now().Before(own) {
			time.Sleep(100 * time.Microsecond)
		}
		sr.h.log(map[string]any{"ev": "hi"})
	}()
	if withPCancel {
		at := time.Duration(rng.Int63n(int64(T) * 3 / 2))
		wg.Add(1)
		go func() {
			defer wg.Done()
			time.Sleep(at)
			sr.h.log(map[string]any{"ev": "pcInv"})
			sr.pcancel()
			sr.h.log(map[string]any{"ev": "pcRes"})
		}()
	}
	startGun := make(chan struct{})
	// every third call is made by all goroutines at once (a rendezvous), so that calls of different goroutines
	// overlap also on a machine that runs them one after the other
	meet := make([]chan struct{}, sr.run.Ops)
	arrived := make([]atomic.Int32, sr.run.Ops)
	for i := range meet {
		meet[i] = make(chan struct{})
	}
	for p := 1; p <= sr.run.Procs; p++ {
		prng := rand.New(rand.NewSource(sr.seed*131 + int64(p)))
		wg.Add(1)
		go func(p int) {
			defer wg.Done()
			<-startGun
			span := T * 2
			for i := 0; i < sr.run.Ops; i++ {
				// bursts of back-to-back calls (so that calls of different goroutines overlap), separated by pauses
				// that spread the bursts across the deadline
				switch prng.Intn(6) {
				case 0:
					runtime.Gosched()
				case 1:
					time.Sleep(time.Duration(prng.Int63n(int64(span) * 3 / int64(sr.run.Ops))))
				}
				op := "done"
				switch x := prng.Intn(20); {
				case x < 8:
					op = "done"
				case x < 16:
					op = "err"
				case x < 17:
					op = "deadline"
				default:
					if withCancel && prng.Intn(3) == 0 {
						op = "cancel"
					} else {
						op = "err"
					}
				}
				if i%3 == 0 {
					if int(arrived[i].Add(1)) == sr.run.Procs {
						close(meet[i])
					} else {
						<-meet[i]
					}
				}
				sr.call(p, op)
			}
		}(p)
	}
	close(startGun)
	wg.Wait()
	<-clockDone
	// the deadline has passed: every channel handed out must close within the margin
	sr.chanMu.Lock()
	chans := append([]<-chan struct{}(nil), sr.chans...)
	sr.chanMu.Unlock()
	for i, ch := range chans {
		if !waitClosed(ch, settleMargin) {
			sr.violate("ClosesByDeadline", fmt.Sprintf("channel #%d handed out by Done() is still open %v after the deadline", i+1, settleMargin))
		}
	}
	if v := sr.lazy.VerifX11dl(); v.Holder != 0 && !waitClosed(v.HolderDone, settleMargin) {
		sr.violate("ClosesByDeadline", fmt.Sprintf("the armed context is still open %v after the deadline", settleMargin))
	}
	// the request finishes
	sr.call(1, "cancel")
	sr.call(2, "err")
	sr.call(2, "done")
	v := sr.lazy.VerifX11dl()
	st := map[uint32]string{contextutil.VerifX11dlLive: "live", contextutil.VerifX11dlCanceled: "canceled", contextutil.VerifX11dlExceeded: "exceeded"}[v.State]
	nh := 0
	herr := "nil"
	if v.Holder != 0 {
		nh = 1
		herr = errClass(v.HolderErr)
		if v.HolderErr == nil {
			sr.violate("ReleaseLeavesNothing", "the materialized deadline context is still armed after Cancel()")
		}
	}
	if len(chans) > 1 {
		nh = len(chans)
	}
	sr.h.log(map[string]any{"ev": "end", "state": st, "nh": nh, "herr": herr})
	if sr.pcancel != nil {
		sr.pcancel()
	}
	sr.judge()
	tw.write(map[string]any{"ev": "Reset"})
	for _, ln := range sr.h.sorted() {
		tw.write(ln.obj)
	}
	return nil
}

// judge evaluates the predicates on the recorded history.
func (sr *ldStressRound) judge() {
	lines := sr.h.sorted()
	var lastLo, hi, pcInv, pcRes uint64
	for _, ln := range lines {
		switch ln.obj["ev"] {
		case "lo":
			lastLo = ln.seq
		case "hi":
			hi = ln.seq
		case "pcInv":
			pcInv = ln.seq
		case "pcRes":
			pcRes = ln.seq
		}
	}
	_ = hi
	terminal := func(c *ldCall) bool { return (c.op == "done" && c.closed) || (c.op == "err" && c.e != "nil") }
	var firstCancelInv, firstTerminalRes uint64
	errSeen := ""
	for i := range sr.calls {
		c := &sr.calls[i]
		if c.op == "cancel" && (firstCancelInv == 0 || c.inv < firstCancelInv) {
			firstCancelInv = c.inv
		}
		if (terminal(c) || c.op == "cancel") && (firstTerminalRes == 0 || c.res < firstTerminalRes) {
			firstTerminalRes = c.res
		}
	}
	overlap := 0
	for i := range sr.calls {
		c := &sr.calls[i]
		for j := range sr.calls {
			d := &sr.calls[j]
			if d.p != c.p && d.inv < c.res && c.inv < d.res {
				overlap++
				break
			}
		}
		switch c.op {
		case "done", "err":
			if !terminal(c) {
				if firstTerminalRes != 0 && c.inv > firstTerminalRes {
					sr.violate("TerminalIsSticky", fmt.Sprintf("goroutine %d: %s() invoked at #%d reports live, although a call that returned at #%d had already "+
						"reported terminal (closed channel / non-nil Err / Cancel returned)", c.p, c.op, c.inv, firstTerminalRes))
				}
				if sr.run.Parent == "cancel" && pcRes != 0 && c.inv > pcRes {
					sr.violate("ParentCancelCloses", fmt.Sprintf("goroutine %d: %s() invoked at #%d reports live after the parent's cancel() returned at #%d",
						c.p, c.op, c.inv, pcRes))
				}
			} else {
				cause := (firstCancelInv != 0 && firstCancelInv < c.res) || (pcInv != 0 && pcInv < c.res)
				if !cause && lastLo > c.res {
					sr.violate("NoPrematureClose", fmt.Sprintf("goroutine %d: %s() returned terminal at #%d, the clock was still before the deadline at #%d "+
						"and nobody had cancelled", c.p, c.op, c.res, lastLo))
				}
			}
			if c.op == "err" && c.e != "nil" {
				if errSeen != "" && errSeen != c.e {
					sr.violate("ErrDecidedOnce", fmt.Sprintf("Err() said %s and %s in one history", errSeen, c.e))
				}
				errSeen = c.e
			}
			if c.op == "done" && c.ch > 1 {
				sr.res.DriftNote("stress %s round %d: Done() handed out %d distinct channels", sr.run.Name, sr.round, c.ch)
			}
		case "deadline":
			if c.dl == "later" || c.dl == "none" {
				sr.violate("DeadlineFixed", fmt.Sprintf("goroutine %d: Deadline() = %s", c.p, c.dl))
			} else if c.dl == "earlier" {
				sr.res.DriftNote("stress %s round %d: Deadline() earlier than min(given, parent)", sr.run.Name, sr.round)
			}
		}
	}
	// after the final Cancel(): everything handed out is closed
	for i, ch := range sr.chans {
		if !isClosed(ch) {
			sr.violate("ReleaseCloses", fmt.Sprintf("channel #%d handed out by Done() is open after the final Cancel()", i+1))
		}
	}
	sr.res.Count("calls_"+sr.run.Name, len(sr.calls))
	sr.res.Count("overlapping_calls_"+sr.run.Name, overlap)
	sr.res.Count("lines_"+sr.run.Name, len(lines))
}

func runLDStress(res *vh.Result, in *ldStressInput) {
	for ri := range in.Runs {
		run := &in.Runs[ri]
		tw, err := newTraceWriter(run.TraceOut)
		if err != nil {
			res.Skip("%s: %v", run.Name, err)
			return
		}
		for round := 0; round < run.Rounds; round++ {
			sr := &ldStressRound{res: res, run: run, round: round, seed: vh.Seed()*100003 + int64(ri)*7919 + int64(round)}
			var err error
			if msg := panicText(func() { err = sr.exec(tw) }); msg != "" {
				sr.violate("CallsReturn", "a call on the request context panicked: "+msg)
				continue
			}
			if err != nil {
				res.Skip("%s round %d: %v", run.Name, round, err)
				tw.close()
				return
			}
			res.Count("rounds_"+run.Name, 1)
			if run.TraceOut != "" {
				res.Count("traces_"+run.Name, 1)
			}
			res.Case(fmt.Sprintf("ld-stress:%s:%d:%d", run.Name, sr.seed, len(sr.calls)))
		}
		tw.close()
	}
	if n, sample := waitNoGoroutines(settleMargin, "context.(*cancelCtx).propagateCancel", "contextutil.(*LazyDeadline)"); n > 0 {
		res.Violate("lazydeadline/stress/ReleaseLeavesNothing/goroutines",
			fmt.Sprintf("LazyDeadline ReleaseLeavesNothing: %d goroutine(s) of released request contexts are still alive %v after the last release, e.g.\n%s", n, settleMargin, sample),
			map[string]any{"driver": "ld-stress", "note": "goroutine census after all rounds"})
	}
}

func TestLDStress(t *testing.T) {
	var in ldStressInput
	vh.Input(t, &in)
	res := vh.NewResult()
	defer res.Write(t)
	runLDStress(res, &in)
}
