package x11dl

// TestX11DL runs every driver of the check in one process (one build, one
// link): bin/check X11DL hands it the TLC-generated behaviours and collects
// the recorded histories for the trace validation.

import (
	"testing"

	"github.com/semihalev/sdns/verifharness/vh"
)

type allInput struct {
	LDReplay *ldInput       `json:"ldReplay"`
	LDStress *ldStressInput `json:"ldStress"`
	IGReplay *igInput       `json:"igReplay"`
	IGStress *igStressInput `json:"igStress"`
	Fanout   *fanoutInput   `json:"fanout"`
}

func TestX11DL(t *testing.T) {
	var in allInput
	vh.Input(t, &in)
	res := vh.NewResult()
	defer res.Write(t)
	if in.LDReplay != nil {
		runLDReplay(res, in.LDReplay)
	}
	if in.IGReplay != nil {
		runIGReplay(res, in.IGReplay)
	}
	if in.LDStress != nil {
		runLDStress(res, in.LDStress)
	}
	if in.IGStress != nil {
		runIGStress(res, in.IGStress)
	}
	if in.Fanout != nil {
		runFanout(res, in.Fanout)
	}
}
