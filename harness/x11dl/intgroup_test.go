package x11dl

// InterruptGroup.tla on the real internal/dnsclient.InterruptGroup.
//
// TestIGReplay (spec -> code): TLC-simulated behaviours of the Forced
// restriction are forced on a real group.  The connections are harness
// doubles whose SetDeadline is a gate (the group calls it with its mutex
// held, from fire() and from arm() after the fire): the driver parks a fire
// in the middle of its loop, lets goroutines pile up on the mutex, releases
// in the order TLC chose.  arm / disarm are reached through the overlay shim
// (they are what Conn.ExchangeInterruptible calls around an exchange).
//
// TestIGStress (code -> spec): goroutines arm / disarm freely (more
// goroutines than slots) while the context is cancelled and the group closed
// at random moments; invocation / response / touch lines under one sequence
// are judged directly and written out for Trace_InterruptGroup.tla.
//
// Predicates evaluated on the real group (C11: stragglers are cancelled, no
// other client's exchange is touched): a connection is touched only while it
// is armed -- never after its disarm returned; once the fire has completed
// every armed connection has been interrupted, a connection armed later is
// interrupted before arm returns; nothing is interrupted unless the context
// was cancelled.  Slot numbers, refusals, the number of touches and touches
// after Close are compared with the model as drift.

import (
	"context"
	"fmt"
	"math/rand"
	"net"
	"runtime"
	"strings"
	"sync"
	"sync/atomic"
	"testing"
	"time"

	"github.com/semihalev/sdns/internal/dnsclient"
	"github.com/semihalev/sdns/verifharness/vh"
)

// ---- the connection double ------------------------------------------------------
type igConn struct {
	net.Conn
	id     int
	sess   *igSession
	armed  atomic.Int32 // 1 from the moment the driver starts arm until disarm has returned
	hits   atomic.Int32 // completed SetDeadline calls since the last arm
	stray  atomic.Int32 // SetDeadline calls that began while the connection was not armed
	gating atomic.Bool
	resume chan struct{}
	onHit  func(c *igConn, byProc bool)
}

func (c *igConn) SetDeadline(t time.Time) error {
	if c.armed.Load() == 0 {
		c.stray.Add(1)
	}
	byProc := false
	if v, ok := igGoProcs.Load(goid()); ok {
		byProc = v.(*igProc).sess == c.sess
	}
	if c.sess != nil && c.gating.Load() && !c.sess.passThrough.Load() {
		c.sess.gate <- igGate{conn: c.id, byProc: byProc}
		<-c.resume
	}
	if c.onHit != nil {
		c.onHit(c, byProc)
	}
	c.hits.Add(1)
	return nil
}

type igGate struct {
	conn   int
	byProc bool
}

var igGoProcs sync.Map

type igRet struct {
	op   string
	slot int
	ok   bool
}

type igProc struct {
	id   int
	sess *igSession
	conn *igConn
	cmd  chan string
	ret  chan igRet
	// driver side
	inFlight bool
	slot     int
	has      bool
	early    bool // the call returned while the model still has it waiting for the mutex
}

func (p *igProc) run(wg *sync.WaitGroup) {
	defer wg.Done()
	id := goid()
	igGoProcs.Store(id, p)
	defer igGoProcs.Delete(id)
	for op := range p.cmd {
		switch {
		case op == "arm":
			slot, ok := p.sess.g.VerifX11dlArm(p.conn)
			p.ret <- igRet{op: "arm", slot: slot, ok: ok}
		case strings.HasPrefix(op, "disarm"):
			var slot int
			fmt.Sscanf(op, "disarm %d", &slot)
			p.sess.g.VerifX11dlDisarm(slot)
			p.conn.armed.Store(0) // disarm has returned: from here on the connection may be reused
			p.ret <- igRet{op: "disarm"}
		}
	}
}

type igSession struct {
	g           *dnsclient.InterruptGroup
	ctx         context.Context
	cancel      context.CancelFunc
	procs       []*igProc
	gate        chan igGate
	passThrough atomic.Bool
	wg          sync.WaitGroup
	cancelled   bool
	closedFirst bool // Close() returned before the context was cancelled
	parked      int  // connection whose gate is holding a goroutine (0: none)
	stash       *igGate
}

func newIGSession(nprocs int, gating bool) (*igSession, error) {
	s := &igSession{gate: make(chan igGate, 4)}
	s.ctx, s.cancel = context.WithCancel(context.Background())
	s.g = dnsclient.NewInterruptGroup(s.ctx)
	if s.g == nil {
		return nil, fmt.Errorf("NewInterruptGroup returned nil for a cancellable context")
	}
	for i := 1; i <= nprocs; i++ {
		c := &igConn{id: i, sess: s, resume: make(chan struct{})}
		c.gating.Store(gating)
		p := &igProc{id: i, sess: s, conn: c, cmd: make(chan string), ret: make(chan igRet, 2)}
		s.procs = append(s.procs, p)
		s.wg.Add(1)
		go p.run(&s.wg)
	}
	return s, nil
}

func (s *igSession) stop() {
	for _, p := range s.procs {
		close(p.cmd)
	}
	done := make(chan struct{})
	go func() { s.wg.Wait(); close(done) }()
	select {
	case <-done:
	case <-time.After(2 * time.Second):
	}
	s.cancel()
}

// ---- replay ------------------------------------------------------------------------
type igPost struct {
	PC     []string `json:"pc"`
	SlotOf []int    `json:"slotOf"`
	LastOk []bool   `json:"lastOk"`
	Hits   []int    `json:"hits"`
	Slots  []int    `json:"slots"`
	Snap   []int    `json:"snap"`
	Fidx   int      `json:"fidx"`
	Reg    string   `json:"reg"`
	Fired  bool     `json:"fired"`
	Mu     int      `json:"mu"`
	Closed bool     `json:"closed"`
}

type igStep struct {
	Label string `json:"label"`
	Act   string `json:"act"`
	P     int    `json:"p"`
	Post  igPost `json:"post"`
}

type igBehaviour struct {
	ID    string   `json:"id"`
	Steps []igStep `json:"steps"`
}

type igInput struct {
	Procs      int           `json:"procs"`
	Slots      int           `json:"slots"`
	Behaviours []igBehaviour `json:"behaviours"`
	Workers    int           `json:"workers"`
}

type igReplayer struct {
	res  *vh.Result
	in   *igInput
	b    *igBehaviour
	s    *igSession
	hist []string
	div  string
}

func (r *igReplayer) violate(pred, what string) {
	r.res.Violate("interruptgroup/"+pred,
		fmt.Sprintf("InterruptGroup %s after steps %v: %s", pred, r.hist, what),
		map[string]any{"driver": "ig-replay", "procs": r.in.Procs, "steps": r.hist, "behaviour": r.b})
}

// settlePending: the model has p waiting for the group mutex (somebody holds it).  A call that does not
// wait returns within microseconds; give it the chance to, so that what happens next (the holder going on
// to touch connections) is judged against a return that really happened before it.
func (r *igReplayer) settlePending(p *igProc, post *igPost) {
	if post.Mu == 0 {
		return
	}
	select {
	case rt := <-p.ret:
		p.inFlight = false
		p.early = true
		r.onRet(p, rt, nil)
		r.res.DriftNote("%s: %s by %d returned while the model has it waiting for the mutex, after %v", r.b.ID, rt.op, p.id, r.hist)
	case <-time.After(300 * time.Microsecond):
	}
}

func (r *igReplayer) awaitRet(p *igProc, post *igPost) error {
	if p.early {
		p.early = false
		return nil
	}
	timeout := time.After(eventTimeout)
	for {
		select {
		case rt := <-p.ret:
			p.inFlight = false
			r.onRet(p, rt, post)
			return nil
		case g := <-r.s.gate:
			if g.byProc && g.conn != p.id && r.s.stash == nil {
				// the goroutine that waited for the mutex got it from p's unlock and is already inside its own
				// arm's SetDeadline (its ArmLock step comes next in the model); p's return is still on its way
				r.s.stash = &g
				continue
			}
			r.s.parked = g.conn
			r.div = fmt.Sprintf("goroutine %d: model expects the call to return, the code entered SetDeadline of connection %d", p.id, g.conn)
			return nil
		case <-timeout:
			return fmt.Errorf("goroutine %d never returned after %v (scheduler gate not reached)", p.id, r.hist)
		}
	}
}

func (r *igReplayer) onRet(p *igProc, rt igRet, post *igPost) {
	switch rt.op {
	case "arm":
		p.has, p.slot = rt.ok, rt.slot
		if !rt.ok {
			p.conn.armed.Store(0)
		}
		if rt.ok {
			// arm returned on a group that had fired to completion: the operation about to start must
			// already be interrupted
			if fired, _, ok := r.s.g.VerifX11dlSnapshot(); ok && fired && p.conn.hits.Load() == 0 {
				r.violate("FiredAllInterrupted", fmt.Sprintf("goroutine %d armed its connection after the group fired and was not interrupted", p.id))
			}
		}
		if post != nil && p.id <= len(post.LastOk) {
			wantSlot := post.SlotOf[p.id-1] - 1
			if post.LastOk[p.id-1] != rt.ok || (rt.ok && wantSlot != rt.slot) {
				r.res.DriftNote("%s: arm by %d: model ok=%v slot=%d, code ok=%v slot=%d after %v", r.b.ID, p.id, post.LastOk[p.id-1], wantSlot, rt.ok, rt.slot, r.hist)
			}
		}
	case "disarm":
		p.has = false
		p.conn.armed.Store(0)
	}
}

func (r *igReplayer) awaitGate(conn int, byProc bool) error {
	check := func(g igGate) {
		r.s.parked = g.conn
		if g.conn != conn || g.byProc != byProc {
			r.div = fmt.Sprintf("model expects SetDeadline of connection %d (by its own goroutine: %v), the code entered connection %d (by its own goroutine: %v)",
				conn, byProc, g.conn, g.byProc)
		}
	}
	if r.s.stash != nil {
		g := *r.s.stash
		r.s.stash = nil
		check(g)
		return nil
	}
	var pret chan igRet
	var p *igProc
	if byProc {
		p = r.s.procs[conn-1]
		pret = p.ret
	}
	timeout := time.After(eventTimeout)
	tick := time.NewTicker(500 * time.Microsecond)
	defer tick.Stop()
	for {
		select {
		case g := <-r.s.gate:
			check(g)
			return nil
		case rt := <-pret:
			p.inFlight = false
			r.onRet(p, rt, nil)
			r.div = fmt.Sprintf("goroutine %d: model expects arm to interrupt its connection before returning, the call returned without SetDeadline", p.id)
			return nil
		case <-tick.C:
			if !byProc {
				if fired, _, ok := r.s.g.VerifX11dlSnapshot(); ok && fired {
					r.div = fmt.Sprintf("model expects the fire to interrupt connection %d, the fire completed without it", conn)
					return nil
				}
			}
		case <-timeout:
			return fmt.Errorf("nobody entered SetDeadline of connection %d after %v (scheduler gate not reached)", conn, r.hist)
		}
	}
}

func (r *igReplayer) releaseGate() error {
	if r.s.parked == 0 {
		r.div = "the model releases a SetDeadline nobody is parked in"
		return nil
	}
	c := r.s.procs[r.s.parked-1].conn
	r.s.parked = 0
	select {
	case c.resume <- struct{}{}:
		return nil
	case <-time.After(eventTimeout):
		return fmt.Errorf("connection %d does not take its gate release", c.id)
	}
}

// waitFireDone: the fire goroutine has left the mutex with fired set.
func (r *igReplayer) waitFireDone() error {
	end := time.Now().Add(eventTimeout)
	for {
		if fired, _, ok := r.s.g.VerifX11dlSnapshot(); ok && fired {
			return nil
		}
		select {
		case g := <-r.s.gate:
			if g.byProc {
				// a goroutine that waited for the mutex got it from the finished fire and is already inside arm's
				// SetDeadline (its ArmLock step comes next in the model): the fire is complete
				r.s.stash = &g
				return nil
			}
			r.s.parked = g.conn
			r.div = fmt.Sprintf("model expects the fire to be complete, the code entered SetDeadline of connection %d", g.conn)
			return nil
		default:
		}
		if time.Now().After(end) {
			return fmt.Errorf("the cancelled group never completed its fire after %v", r.hist)
		}
		time.Sleep(20 * time.Microsecond)
	}
}

// afterFire: every armed connection has been interrupted.
func (r *igReplayer) afterFire() {
	for _, p := range r.s.procs {
		if p.has && !p.inFlight && p.conn.hits.Load() == 0 {
			r.violate("FiredAllInterrupted", fmt.Sprintf("the group fired to completion but the armed connection of goroutine %d (slot %d) was not interrupted", p.id, p.slot))
		}
	}
}

func (r *igReplayer) checkCommon(post *igPost) {
	s := r.s
	for _, p := range s.procs {
		if n := p.conn.stray.Load(); n > 0 {
			r.violate("TouchOnlyArmed", fmt.Sprintf("SetDeadline was called %d time(s) on the connection of goroutine %d while it was not armed "+
				"(after its disarm returned / before arm): a reused connection would be interrupted", n, p.id))
		}
		h := int(p.conn.hits.Load())
		if h > 0 && !s.cancelled {
			r.violate("NoSpuriousInterrupt", fmt.Sprintf("the connection of goroutine %d was interrupted although the context is not cancelled", p.id))
		}
		if h > 0 && s.closedFirst {
			r.res.DriftNote("%s: connection %d interrupted although Close() detached the group before the cancellation", r.b.ID, p.id)
		}
		if post != nil && p.id <= len(post.Hits) && r.div == "" && h != post.Hits[p.id-1] {
			r.res.DriftNote("%s: hits of connection %d: model %d code %d after %v", r.b.ID, p.id, post.Hits[p.id-1], h, r.hist)
		}
	}
	if post != nil && post.Mu == 0 && r.div == "" {
		urgent := post.Reg == "spawned"
		for _, pc := range post.PC {
			if pc == "aLock" || pc == "dLock" {
				urgent = true
			}
		}
		if !urgent {
			if fired, conns, ok := s.g.VerifX11dlSnapshot(); ok {
				if fired != post.Fired {
					r.res.DriftNote("%s: fired: model %v code %v after %v", r.b.ID, post.Fired, fired, r.hist)
				}
				for i := range conns {
					want := 0
					if i < len(post.Slots) {
						want = post.Slots[i]
					}
					got := 0
					if c, ok := conns[i].(*igConn); ok && c != nil {
						got = c.id
					}
					if want != got {
						r.res.DriftNote("%s: slot %d: model holds %d code holds %d after %v", r.b.ID, i, want, got, r.hist)
					}
				}
			}
		}
	}
}

func (r *igReplayer) drain() error {
	s := r.s
	s.passThrough.Store(true)
	end := time.Now().Add(eventTimeout)
	for {
		busy := 0
		if s.parked != 0 {
			c := s.procs[s.parked-1].conn
			select {
			case c.resume <- struct{}{}:
				s.parked = 0
			default:
			}
			busy++
		}
		if s.stash != nil {
			s.parked = s.stash.conn
			s.stash = nil
			busy++
		}
		select {
		case g := <-s.gate:
			s.parked = g.conn
			busy++
		default:
		}
		for _, p := range s.procs {
			if !p.inFlight {
				continue
			}
			busy++
			select {
			case rt := <-p.ret:
				p.inFlight = false
				r.onRet(p, rt, nil)
			default:
			}
		}
		if busy == 0 {
			return nil
		}
		if time.Now().After(end) {
			return fmt.Errorf("drain: calls never returned after %v", r.hist)
		}
		time.Sleep(50 * time.Microsecond)
	}
}

func (r *igReplayer) replay() error {
	s, err := newIGSession(r.in.Procs, true)
	if err != nil {
		return err
	}
	r.s = s
	defer s.stop()
	for si := range r.b.Steps {
		st := &r.b.Steps[si]
		r.hist = append(r.hist, st.Label)
		var p *igProc
		if st.P >= 1 && st.P <= len(s.procs) {
			p = s.procs[st.P-1]
		}
		var err error
		switch st.Act {
		case "ArmCall":
			p.conn.hits.Store(0)
			p.conn.armed.Store(1)
			p.inFlight = true
			p.cmd <- "arm"
			r.settlePending(p, &st.Post)
		case "ArmLock":
			if p.early && st.Post.PC[st.P-1] == "aTouch" {
				p.early = false
				r.div = fmt.Sprintf("goroutine %d: arm returned before it could take the mutex", p.id)
			} else if st.Post.PC[st.P-1] == "aTouch" {
				err = r.awaitGate(p.id, true)
			} else {
				err = r.awaitRet(p, &st.Post)
			}
		case "ArmTouch":
			if err = r.releaseGate(); err == nil && r.div == "" {
				err = r.awaitRet(p, &st.Post)
			}
		case "DisarmCall":
			if !p.has {
				r.div = fmt.Sprintf("the model disarms goroutine %d, the code refused its arm", p.id)
				break
			}
			p.inFlight = true
			p.cmd <- fmt.Sprintf("disarm %d", p.slot)
			r.settlePending(p, &st.Post)
		case "DisarmLock":
			err = r.awaitRet(p, &st.Post)
		case "CtxCancel":
			s.cancelled = true
			s.cancel()
		case "FireLock", "FireTouch":
			if st.Act == "FireTouch" {
				if err = r.releaseGate(); err != nil || r.div != "" {
					break
				}
			}
			if st.Post.Reg == "running" {
				err = r.awaitGate(st.Post.Snap[st.Post.Fidx-1], false)
			} else if err = r.waitFireDone(); err == nil && r.div == "" {
				r.afterFire()
			}
		case "Close":
			s.g.Close()
			if !s.cancelled {
				s.closedFirst = true
			}
		default:
			return fmt.Errorf("behaviour %s: unknown action %q", r.b.ID, st.Label)
		}
		if err != nil {
			_ = r.drain()
			return err
		}
		r.checkCommon(&st.Post)
		if r.div != "" {
			r.res.DriftNote("%s: left the model's schedule after %v: %s", r.b.ID, r.hist, r.div)
			break
		}
	}
	if err := r.drain(); err != nil {
		return err
	}
	// epilogue: the lookup returns -- cancel, every straggler still armed is interrupted, then they disarm
	r.hist = append(r.hist, "lookup-returns")
	closedFirst := s.closedFirst
	s.cancelled = true
	s.cancel()
	if !closedFirst {
		// observable only: every straggler still armed is interrupted, and so is one that arms now
		end := time.Now().Add(settleMargin)
		for _, p := range s.procs {
			for p.has && p.conn.hits.Load() == 0 {
				if time.Now().After(end) {
					r.violate("FiredAllInterrupted", fmt.Sprintf("the armed connection of goroutine %d (slot %d) is not interrupted %v after the lookup's context was cancelled", p.id, p.slot, settleMargin))
					break
				}
				time.Sleep(50 * time.Microsecond)
			}
		}
		late := &igConn{id: 0, resume: make(chan struct{})}
		late.armed.Store(1)
		if slot, ok := s.g.VerifX11dlArm(late); ok {
			for late.hits.Load() == 0 {
				if time.Now().After(end) {
					r.violate("FiredAllInterrupted", fmt.Sprintf("a connection armed after the lookup's context was cancelled is not interrupted within %v", settleMargin))
					break
				}
				time.Sleep(50 * time.Microsecond)
			}
			s.g.VerifX11dlDisarm(slot)
		}
	}
	for _, p := range s.procs {
		if p.has {
			s.g.VerifX11dlDisarm(p.slot)
			p.has = false
			p.conn.armed.Store(0)
		}
	}
	s.g.Close()
	r.checkCommon(nil)
	return nil
}

func runIGReplay(res *vh.Result, in *igInput) {
	if in.Slots != dnsclient.VerifX11dlSlots {
		res.Skip("the behaviours were generated for %d slots, the code has %d (regenerate Sim_IG_*.cfg)", in.Slots, dnsclient.VerifX11dlSlots)
		return
	}
	if in.Workers <= 0 {
		in.Workers = 4
	}
	jobs := make(chan *igBehaviour)
	var wg sync.WaitGroup
	var failed atomic.Bool
	for w := 0; w < in.Workers; w++ {
		wg.Add(1)
		go func() {
			defer wg.Done()
			for b := range jobs {
				if failed.Load() {
					continue
				}
				rp := &igReplayer{res: res, in: in, b: b}
				if err := rp.replay(); err != nil {
					res.Skip("%s: %v", b.ID, err)
					failed.Store(true)
					continue
				}
				res.Count("ig_cases", 1)
				res.Count("ig_steps", len(b.Steps))
				if rp.div != "" {
					res.Count("ig_diverged", 1)
				}
				labels := make([]string, 0, len(b.Steps))
				for _, st := range b.Steps {
					labels = append(labels, st.Label)
				}
				res.Case("ig:" + strings.Join(labels, ";"))
				res.Sample(map[string]any{"driver": "ig-replay", "steps": labels})
			}
		}()
	}
	for bi := range in.Behaviours {
		jobs <- &in.Behaviours[bi]
	}
	close(jobs)
	wg.Wait()
	if n, sample := waitNoGoroutines(settleMargin, "dnsclient.(*InterruptGroup)"); n > 0 {
		res.Violate("interruptgroup/goroutines",
			fmt.Sprintf("InterruptGroup: %d goroutine(s) are still inside the group %v after every lookup returned, e.g.\n%s", n, settleMargin, sample),
			map[string]any{"driver": "ig-replay", "note": "goroutine census after all behaviours"})
	}
}

func TestIGReplay(t *testing.T) {
	var in igInput
	vh.Input(t, &in)
	res := vh.NewResult()
	defer res.Write(t)
	runIGReplay(res, &in)
}

// ---- free-running stress ---------------------------------------------------------------
type igStressInput struct {
	Rounds   int    `json:"rounds"`
	Procs    int    `json:"procs"`
	Ops      int    `json:"ops"`
	TraceOut string `json:"traceOut"`
}

type igSpan struct {
	p                        int
	armInv, armRes           uint64
	ok                       bool
	slot                     int
	disInv, disRes           uint64
	hitsAtArmRes, hitsAtDisI int32
}

func runIGStress(res *vh.Result, in *igStressInput) {
	tw, err := newTraceWriter(in.TraceOut)
	if err != nil {
		res.Skip("ig stress: %v", err)
		return
	}
	defer tw.close()
	for round := 0; round < in.Rounds; round++ {
		seed := vh.Seed()*99991 + int64(round)
		rng := rand.New(rand.NewSource(seed))
		var h history
		violate := func(pred, what string) {
			res.Violate("interruptgroup/stress/"+pred, fmt.Sprintf("InterruptGroup %s [stress round=%d seed=%d]: %s", pred, round, seed, what),
				map[string]any{"driver": "ig-stress", "round": round, "seed": seed, "procs": in.Procs, "ops": in.Ops})
		}
		s := &igSession{gate: make(chan igGate, 1)}
		s.passThrough.Store(true)
		s.ctx, s.cancel = context.WithCancel(context.Background())
		s.g = dnsclient.NewInterruptGroup(s.ctx)
		var touchMu sync.Mutex
		touches := map[int][]uint64{}
		conns := make([]*igConn, in.Procs+1)
		for p := 1; p <= in.Procs; p++ {
			conns[p] = &igConn{id: p, sess: s, resume: make(chan struct{})}
			conns[p].onHit = func(c *igConn, byProc bool) {
				// logged inside SetDeadline, i.e. under the group mutex
				sq := h.log(map[string]any{"ev": "touch", "c": c.id, "arm": byProc})
				touchMu.Lock()
				touches[c.id] = append(touches[c.id], sq)
				touchMu.Unlock()
			}
		}
		// at most three arm / disarm CALLS overlap (the armed intervals overlap freely): the order in which
		// overlapping calls took the mutex is not observable, and TLC has to try every order
		inCall := make(chan struct{}, 3)
		var spanMu sync.Mutex
		var spans []igSpan
		var wg sync.WaitGroup
		span := time.Duration(2+rng.Intn(6)) * time.Millisecond
		var cancelInv, cancelRes, closeInv, closeRes atomic.Uint64
		cancelAt := time.Duration(rng.Int63n(int64(span)))
		wg.Add(1)
		go func() {
			defer wg.Done()
			time.Sleep(cancelAt)
			cancelInv.Store(h.log(map[string]any{"ev": "cancelInv"}))
			s.cancel()
			cancelRes.Store(h.log(map[string]any{"ev": "cancelRes"}))
		}()
		withClose := rng.Intn(2) == 0
		closeAt := time.Duration(rng.Int63n(int64(span) * 3 / 2))
		if withClose {
			wg.Add(1)
			go func() {
				defer wg.Done()
				time.Sleep(closeAt)
				closeInv.Store(h.log(map[string]any{"ev": "closeInv"}))
				s.g.Close()
				closeRes.Store(h.log(map[string]any{"ev": "closeRes"}))
			}()
		}
		for p := 1; p <= in.Procs; p++ {
			prng := rand.New(rand.NewSource(seed*977 + int64(p)))
			wg.Add(1)
			go func(p int) {
				defer wg.Done()
				id := goid()
				igGoProcs.Store(id, &igProc{id: p, sess: s})
				defer igGoProcs.Delete(id)
				c := conns[p]
				for i := 0; i < in.Ops; i++ {
					sp := igSpan{p: p}
					c.hits.Store(0)
					c.armed.Store(1)
					inCall <- struct{}{}
					sp.armInv = h.log(map[string]any{"ev": "inv", "p": p, "op": "arm"})
					sp.slot, sp.ok = s.g.VerifX11dlArm(c)
					sp.hitsAtArmRes = c.hits.Load()
					sp.armRes = h.log(map[string]any{"ev": "res", "p": p, "op": "arm", "ok": sp.ok, "slot": sp.slot + 1})
					<-inCall
					if !sp.ok {
						c.armed.Store(0)
					}
					switch prng.Intn(3) {
					case 0:
						runtime.Gosched()
					case 1:
						time.Sleep(time.Duration(prng.Int63n(int64(span) / int64(in.Ops))))
					}
					if sp.ok {
						inCall <- struct{}{}
						sp.disInv = h.log(map[string]any{"ev": "inv", "p": p, "op": "disarm"})
						s.g.VerifX11dlDisarm(sp.slot)
						sp.disRes = h.log(map[string]any{"ev": "res", "p": p, "op": "disarm"})
						c.armed.Store(0)
						<-inCall
					}
					spanMu.Lock()
					spans = append(spans, sp)
					spanMu.Unlock()
					if prng.Intn(2) == 0 {
						time.Sleep(time.Duration(prng.Int63n(int64(span) / int64(in.Ops))))
					}
				}
			}(p)
		}
		wg.Wait()
		// quiescent end: has the group fired?  Close() strictly before the cancellation detaches the group (it must not
		// fire), Close() strictly after it (or none) leaves the fire to run; when the two overlapped either is right
		fired := false
		closedBeforeCancel := withClose && closeRes.Load() < cancelInv.Load()
		mustFire := !withClose || closeInv.Load() > cancelRes.Load()
		end := time.Now().Add(settleMargin)
		if !mustFire {
			end = time.Now().Add(2 * time.Millisecond) // give a surviving registration the chance to show itself
		}
		for {
			f, _, ok := s.g.VerifX11dlSnapshot()
			if ok && f {
				fired = true
				break
			}
			if time.Now().After(end) {
				break // judged on what is observable: the late arm below
			}
			time.Sleep(50 * time.Microsecond)
		}
		if closedBeforeCancel && fired {
			res.DriftNote("ig stress round %d: the group fired although Close() returned before the cancellation", round)
		}
		h.log(map[string]any{"ev": "end", "fired": fired})
		if mustFire {
			// observable: an exchange that arms after the cancellation is interrupted
			late := &igConn{id: 0, resume: make(chan struct{})}
			late.armed.Store(1)
			if slot, ok := s.g.VerifX11dlArm(late); ok {
				lend := time.Now().Add(settleMargin)
				for late.hits.Load() == 0 {
					if time.Now().After(lend) {
						violate("FiredAllInterrupted", fmt.Sprintf("a connection armed after the context was cancelled is not interrupted within %v", settleMargin))
						break
					}
					time.Sleep(50 * time.Microsecond)
				}
				s.g.VerifX11dlDisarm(slot)
			}
		}
		s.g.Close()
		// judge
		for p := 1; p <= in.Procs; p++ {
			if n := conns[p].stray.Load(); n > 0 {
				violate("TouchOnlyArmed", fmt.Sprintf("SetDeadline was called %d time(s) on connection %d while it was not armed", n, p))
			}
		}
		firstTouch := uint64(0)
		for _, ts := range touches {
			for _, t := range ts {
				if firstTouch == 0 || t < firstTouch {
					firstTouch = t
				}
			}
		}
		var fireTouches []uint64
		for _, ln := range h.sorted() {
			if ln.obj["ev"] == "touch" && ln.obj["arm"] == false {
				fireTouches = append(fireTouches, ln.seq)
			}
		}
		if firstTouch != 0 && firstTouch < cancelInv.Load() {
			violate("NoSpuriousInterrupt", fmt.Sprintf("a connection was interrupted at #%d, before the context was cancelled at #%d", firstTouch, cancelInv.Load()))
		}
		for _, sp := range spans {
			if !sp.ok {
				continue
			}
			n := 0
			for _, t := range touches[sp.p] {
				if t > sp.armInv && t < sp.disRes {
					n++
				}
			}
			// the fire was complete when arm was invoked (a touch of anybody had been logged and the fire holds the
			// mutex for its whole loop, so a later arm found fired set): interrupted before arm returned
			if fired && firstTouch != 0 && sp.armInv > firstTouch && sp.hitsAtArmRes == 0 && !closedBeforeCancel {
				// the arm may still have run inside the same fire critical section's shadow only if it was blocked on the
				// mutex; it then acquires the mutex after the fire: fired is set
				violate("FiredAllInterrupted", fmt.Sprintf("goroutine %d armed at #%d after the group had started interrupting (#%d) and returned uninterrupted", sp.p, sp.armInv, firstTouch))
			}
			// armed across the fire: arm had returned before some touch of the fire (the fire holds the mutex from its
			// snapshot to its last touch, so the arm preceded the snapshot) and disarm was invoked after it
			for _, tf := range fireTouches {
				if sp.armRes < tf && tf < sp.disInv && n == 0 {
					violate("FiredAllInterrupted", fmt.Sprintf("goroutine %d was armed from #%d to #%d, the group fired in between (touch at #%d) and did not interrupt it", sp.p, sp.armRes, sp.disInv, tf))
					break
				}
			}
			if n > 1 {
				res.DriftNote("ig stress round %d: connection %d interrupted %d times during one arming", round, sp.p, n)
			}
		}
		res.Count("ig_stress_rounds", 1)
		res.Count("ig_stress_spans", len(spans))
		nt := 0
		for _, ts := range touches {
			nt += len(ts)
		}
		res.Count("ig_stress_touches", nt)
		if in.TraceOut != "" {
			res.Count("ig_traces", 1)
		}
		res.Case(fmt.Sprintf("ig-stress:%d:%d:%d", seed, len(spans), nt))
		tw.write(map[string]any{"ev": "Reset"})
		for _, ln := range h.sorted() {
			tw.write(ln.obj)
		}
	}
	if n, sample := waitNoGoroutines(settleMargin, "dnsclient.(*InterruptGroup)"); n > 0 {
		res.Violate("interruptgroup/stress/goroutines",
			fmt.Sprintf("InterruptGroup: %d goroutine(s) are still inside the group %v after the stress, e.g.\n%s", n, settleMargin, sample),
			map[string]any{"driver": "ig-stress"})
	}
}

func TestIGStress(t *testing.T) {
	var in igStressInput
	vh.Input(t, &in)
	res := vh.NewResult()
	defer res.Write(t)
	runIGStress(res, &in)
}
