package x11dl

// Shared kit of the X11DL drivers (LazyDeadline.tla / InterruptGroup.tla on
// internal/contextutil.LazyDeadline and internal/dnsclient.InterruptGroup).

import (
	"bytes"
	"context"
	"encoding/json"
	"errors"
	"fmt"
	"os"
	"runtime"
	"runtime/pprof"
	"sort"
	"strings"
	"sync"
	"sync/atomic"
	"time"
)

// settleMargin is the scheduling margin granted to everything asynchronous
// (a runtime timer firing, a propagation goroutine, an AfterFunc goroutine).
// C11 speaks of "a small scheduling margin"; the machine may be heavily
// loaded, so the check only objects when something is still open this long
// after its cause.
const settleMargin = 4 * time.Second

// eventTimeout bounds the wait for a goroutine the driver has just let run.
const eventTimeout = 20 * time.Second

// goid is the id of the calling goroutine (the gates recognise the model's
// goroutines by it; the stdlib's own goroutines pass through).
func goid() uint64 {
	var buf [40]byte
	n := runtime.Stack(buf[:], false)
	s := buf[:n]
	const pre = "goroutine "
	if len(s) < len(pre) {
		return 0
	}
	s = s[len(pre):]
	var id uint64
	for _, c := range s {
		if c < '0' || c > '9' {
			break
		}
		id = id*10 + uint64(c-'0')
	}
	return id
}

func isClosed(ch <-chan struct{}) bool {
	if ch == nil {
		return false
	}
	select {
	case <-ch:
		return true
	default:
		return false
	}
}

func waitClosed(ch <-chan struct{}, d time.Duration) bool {
	if ch == nil {
		return false
	}
	t := time.NewTimer(d)
	defer t.Stop()
	select {
	case <-ch:
		return true
	case <-t.C:
		return false
	}
}

func errClass(err error) string {
	switch {
	case err == nil:
		return "nil"
	case errors.Is(err, context.DeadlineExceeded):
		return "deadline"
	case errors.Is(err, context.Canceled):
		return "canceled"
	}
	return "other:" + err.Error()
}

// countGoroutines returns how many goroutines have a frame containing any of
// the given substrings.
func countGoroutines(subs ...string) (int, string) {
	var buf bytes.Buffer
	_ = pprof.Lookup("goroutine").WriteTo(&buf, 2)
	n := 0
	sample := ""
	for _, g := range strings.Split(buf.String(), "\n\n") {
		for _, s := range subs {
			if strings.Contains(g, s) {
				n++
				if sample == "" {
					sample = g
				}
				break
			}
		}
	}
	return n, sample
}

// waitNoGoroutines waits until no goroutine matches, or the margin is over.
func waitNoGoroutines(d time.Duration, subs ...string) (int, string) {
	end := time.Now().Add(d)
	for {
		n, sample := countGoroutines(subs...)
		if n == 0 || time.Now().After(end) {
			return n, sample
		}
		time.Sleep(5 * time.Millisecond)
	}
}

// ---- recorded histories (code -> spec) -------------------------------------------
type histLine struct {
	seq uint64
	obj map[string]any
}

type history struct {
	seq   atomic.Uint64
	mu    sync.Mutex
	lines []histLine
}

func (h *history) next() uint64 { return h.seq.Add(1) }

func (h *history) add(seq uint64, obj map[string]any) {
	h.mu.Lock()
	h.lines = append(h.lines, histLine{seq, obj})
	h.mu.Unlock()
}

// log stamps and records in one go (the stamp is taken first).
func (h *history) log(obj map[string]any) uint64 {
	s := h.next()
	h.add(s, obj)
	return s
}

func (h *history) sorted() []histLine {
	h.mu.Lock()
	defer h.mu.Unlock()
	sort.Slice(h.lines, func(i, j int) bool { return h.lines[i].seq < h.lines[j].seq })
	return h.lines
}

type traceWriter struct {
	f *os.File
	n int
}

func newTraceWriter(path string) (*traceWriter, error) {
	if path == "" {
		return &traceWriter{}, nil
	}
	f, err := os.Create(path)
	if err != nil {
		return nil, err
	}
	return &traceWriter{f: f}, nil
}

func (w *traceWriter) write(obj map[string]any) {
	if w.f == nil {
		return
	}
	b, _ := json.Marshal(obj)
	_, _ = w.f.Write(append(b, '\n'))
	w.n++
}

func (w *traceWriter) close() {
	if w.f != nil {
		_ = w.f.Close()
	}
}

// panicText runs f and returns the text of a panic it raised ("" if none).  The stdlib panics when a
// context breaks its contract (a closed Done() with a nil Err()); on the serving path that is a crashed
// request, so the drivers report it as a violated predicate instead of dying.
func panicText(f func()) (msg string) {
	defer func() {
		if r := recover(); r != nil {
			buf := make([]byte, 2048)
			n := runtime.Stack(buf, false)
			msg = fmt.Sprintf("%v\n%s", r, buf[:n])
		}
	}()
	f()
	return ""
}
