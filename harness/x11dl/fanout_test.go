package x11dl

// TestFanout (end to end): the two objects wired the way resolver.lookup
// wires them.  A real LazyDeadline is the request context; the lookup derives
// a cancellable child, registers one InterruptGroup on it and fans out
// Conn.ExchangeInterruptible calls on real sockets to upstreams that stay
// silent (loopback UDP, and a stream pipe).  The socket deadline is set far
// beyond the request deadline, so only the group's interrupt (or, for the
// exchanges that found the group full, the per-operation fallback) can end
// an exchange.  Oracle (C11): every exchange is back within the margin of the
// cause -- the request deadline, the lookup's own cancel (a winner returned),
// the request finishing, the client's context going away --, no exchange is
// cut short before the cause, the winner's answer survives, and afterwards
// no goroutine, timer or registration of the request is left.

import (
	"context"
	"fmt"
	"math/rand"
	"net"
	"sync"
	"testing"
	"time"

	"github.com/miekg/dns"
	"github.com/semihalev/sdns/internal/contextutil"
	"github.com/semihalev/sdns/internal/dnsclient"
	"github.com/semihalev/sdns/verifharness/vh"
)

type fanoutInput struct {
	Rounds int `json:"rounds"`
}

type fanoutScenario struct {
	Cause  string `json:"cause"` // deadline | lookupCancel | requestCancel | parentCancel | winner
	K      int    `json:"k"`
	Net    string `json:"net"` // udp | pipe
	CauseD int    `json:"causeMs"`
}

type silentUpstream struct {
	pc      *net.UDPConn
	answer  bool
	delay   time.Duration
	stopped chan struct{}
}

func newSilentUpstream(answer bool, delay time.Duration) (*silentUpstream, error) {
	pc, err := net.ListenUDP("udp", &net.UDPAddr{IP: net.IPv4(127, 0, 0, 1)})
	if err != nil {
		return nil, err
	}
	u := &silentUpstream{pc: pc, answer: answer, delay: delay, stopped: make(chan struct{})}
	go func() {
		defer close(u.stopped)
		buf := make([]byte, 4096)
		for {
			n, addr, err := pc.ReadFromUDP(buf)
			if err != nil {
				return
			}
			if !u.answer {
				continue
			}
			q := new(dns.Msg)
			if q.Unpack(buf[:n]) != nil {
				continue
			}
			r := new(dns.Msg)
			r.SetReply(q)
			rr, _ := dns.NewRR(q.Question[0].Name + " 60 IN A 192.0.2.1")
			r.Answer = append(r.Answer, rr)
			b, _ := r.Pack()
			time.Sleep(u.delay)
			_, _ = pc.WriteToUDP(b, addr)
		}
	}()
	return u, nil
}

func (u *silentUpstream) close() { _ = u.pc.Close(); <-u.stopped }

type fanoutResult struct {
	i       int
	at      time.Duration
	err     error
	gotResp bool
}

func runFanoutScenario(res *vh.Result, sc fanoutScenario, seed int64) error {
	violate := func(pred, what string) {
		res.Violate("fanout/"+pred, fmt.Sprintf("fan-out %s [cause=%s k=%d net=%s]: %s", pred, sc.Cause, sc.K, sc.Net, what),
			map[string]any{"driver": "fanout", "scenario": sc, "seed": seed})
	}
	cause := time.Duration(sc.CauseD) * time.Millisecond
	start := time.Now()
	requestDeadline := start.Add(time.Hour)
	if sc.Cause == "deadline" {
		requestDeadline = start.Add(cause)
	}
	parent, pcancel := context.WithCancel(context.Background())
	defer pcancel()
	lazy := contextutil.WithLazyDeadline(parent, requestDeadline)
	ctx, cancel := context.WithCancel(lazy)
	defer cancel()
	g := dnsclient.NewInterruptGroup(ctx)
	if g == nil {
		return fmt.Errorf("NewInterruptGroup returned nil on a child of the request context")
	}
	var ups []*silentUpstream
	var closers []func()
	defer func() {
		for _, u := range ups {
			u.close()
		}
		for _, c := range closers {
			c()
		}
	}()
	conns := make([]net.Conn, sc.K)
	for i := 0; i < sc.K; i++ {
		if sc.Net == "pipe" {
			a, b := net.Pipe()
			conns[i] = a
			closers = append(closers, func() { _ = a.Close(); _ = b.Close() })
			go func() { // the silent stream upstream: swallow everything
				buf := make([]byte, 1024)
				for {
					if _, err := b.Read(buf); err != nil {
						return
					}
				}
			}()
			continue
		}
		answer := sc.Cause == "winner" && i == 0
		u, err := newSilentUpstream(answer, cause/2)
		if err != nil {
			return err
		}
		ups = append(ups, u)
		c, err := net.DialUDP("udp", nil, u.pc.LocalAddr().(*net.UDPAddr))
		if err != nil {
			return err
		}
		conns[i] = c
		closers = append(closers, func() { _ = c.Close() })
	}
	results := make(chan fanoutResult, sc.K)
	var wg sync.WaitGroup
	for i := 0; i < sc.K; i++ {
		wg.Add(1)
		go func(i int) {
			defer wg.Done()
			co := &dnsclient.Conn{Conn: conns[i]}
			_ = co.SetDeadline(time.Now().Add(30 * time.Second)) // the "network timeout": far beyond the request deadline
			m := new(dns.Msg)
			m.SetQuestion(fmt.Sprintf("q%d.x11dl.example.", i), dns.TypeA)
			m.Id = uint16(1000 + i)
			r, _, err := co.ExchangeInterruptible(ctx, g, m)
			results <- fanoutResult{i: i, at: time.Since(start), err: err, gotResp: err == nil && r != nil && len(r.Answer) == 1}
		}(i)
	}
	// the cause
	var causeAt time.Duration
	switch sc.Cause {
	case "deadline":
		causeAt = cause
	case "lookupCancel":
		time.Sleep(cause)
		causeAt = time.Since(start)
		cancel()
	case "requestCancel":
		time.Sleep(cause)
		causeAt = time.Since(start)
		lazy.Cancel()
	case "parentCancel":
		time.Sleep(cause)
		causeAt = time.Since(start)
		pcancel()
	case "winner":
		// resolver.lookup: the first good answer returns, the deferred cancel interrupts the stragglers
		first := <-results
		if first.i != 0 || !first.gotResp {
			violate("WinnerSurvives", fmt.Sprintf("the answering upstream's exchange #%d came back with err=%v answer=%v at %v", first.i, first.err, first.gotResp, first.at))
		}
		causeAt = time.Since(start)
		cancel()
	}
	done := make(chan struct{})
	go func() { wg.Wait(); close(done) }()
	limit := start.Add(causeAt).Add(settleMargin)
	select {
	case <-done:
	case <-time.After(time.Until(limit)):
		violate("StragglersInterrupted", fmt.Sprintf("%v after the cause (%s at %v) exchanges are still blocked on their silent upstreams", settleMargin, sc.Cause, causeAt))
		// free them so the run can go on
		cancel()
		for _, c := range conns {
			_ = c.SetDeadline(time.Now())
		}
		<-done
	}
	close(results)
	n := 0
	for r := range results {
		n++
		if r.gotResp {
			violate("NoSpuriousInterrupt", fmt.Sprintf("exchange #%d got an answer from a silent upstream", r.i))
		}
		if sc.Cause == "deadline" && r.at < cause {
			violate("NoSpuriousInterrupt", fmt.Sprintf("exchange #%d came back (err=%v) at %v, before the request deadline %v, nobody cancelled", r.i, r.err, r.at, cause))
		}
		if sc.Cause != "deadline" && sc.Cause != "winner" && r.at < cause {
			violate("NoSpuriousInterrupt", fmt.Sprintf("exchange #%d came back (err=%v) at %v, before the cancellation at %v", r.i, r.err, r.at, cause))
		}
		res.Count("fanout_exchanges", 1)
	}
	if contextutil.EffectiveError(ctx) == nil {
		violate("TerminalIsSticky", "the lookup context reports no error after its cause")
	}
	if sc.Cause == "deadline" || sc.Cause == "requestCancel" || sc.Cause == "parentCancel" {
		if !waitClosed(lazy.Done(), settleMargin) || lazy.Err() == nil {
			violate("ClosesByDeadline", fmt.Sprintf("the request context is not terminal %v after %s", settleMargin, sc.Cause))
		}
	}
	// resolver.lookup's deferred calls, then the request finishes
	cancel()
	g.Close()
	lazy.Cancel()
	if !isClosed(lazy.Done()) || lazy.Err() == nil {
		violate("ReleaseCloses", "the request context is live after its release")
	}
	return nil
}

func runFanout(res *vh.Result, in *fanoutInput) {
	rng := rand.New(rand.NewSource(vh.Seed()))
	causes := []string{"deadline", "lookupCancel", "requestCancel", "parentCancel", "winner"}
	ks := []int{2, 5, dnsclient.VerifX11dlSlots, dnsclient.VerifX11dlSlots + 2}
	var wg sync.WaitGroup
	sem := make(chan struct{}, 4)
	for round := 0; round < in.Rounds; round++ {
		for ci, c := range causes {
			sc := fanoutScenario{Cause: c, K: ks[(round+ci+rng.Intn(len(ks)))%len(ks)], Net: "udp", CauseD: 25 + rng.Intn(40)}
			if c != "winner" && rng.Intn(3) == 0 {
				sc.Net = "pipe"
			}
			seed := vh.Seed()*7907 + int64(round*10+ci)
			wg.Add(1)
			sem <- struct{}{}
			go func() {
				defer wg.Done()
				defer func() { <-sem }()
				var err error
				if msg := panicText(func() { err = runFanoutScenario(res, sc, seed) }); msg != "" {
					res.Violate("fanout/CallsReturn", fmt.Sprintf("fan-out [cause=%s k=%d net=%s] panicked: %s", sc.Cause, sc.K, sc.Net, msg),
						map[string]any{"driver": "fanout", "scenario": sc, "seed": seed})
					return
				}
				if err != nil {
					res.Skip("fanout %+v: %v", sc, err)
					return
				}
				res.Count("fanout_scenarios", 1)
				res.Count("fanout_"+sc.Cause, 1)
				res.Case(fmt.Sprintf("fanout:%s:%d:%s", sc.Cause, sc.K, sc.Net))
			}()
		}
	}
	wg.Wait()
	if n, sample := waitNoGoroutines(settleMargin, "dnsclient.(*Conn).Exchange", "dnsclient.(*InterruptGroup)", "context.(*cancelCtx).propagateCancel",
		"contextutil.(*LazyDeadline)"); n > 0 {
		res.Violate("fanout/goroutines",
			fmt.Sprintf("fan-out: %d goroutine(s) of finished requests are still alive %v after the last release, e.g.\n%s", n, settleMargin, sample),
			map[string]any{"driver": "fanout"})
	}
}

func TestFanout(t *testing.T) {
	var in fanoutInput
	vh.Input(t, &in)
	res := vh.NewResult()
	defer res.Write(t)
	runFanout(res, &in)
}
