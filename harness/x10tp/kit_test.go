package x10tp

// Shared kit of the X10TP drivers: a scripted TCP upstream on loopback whose
// every frame is written on the driver's command (or by a seeded script in
// the free-running load), an event view of what the upstreams saw, and one
// real resolver.Resolver with connection pooling on.

import (
	"context"
	"encoding/binary"
	"fmt"
	"io"
	"net"
	"runtime"
	"strings"
	"sync"
	"sync/atomic"
	"time"

	"github.com/miekg/dns"
	"github.com/semihalev/sdns/config"
	"github.com/semihalev/sdns/internal/authority"
	"github.com/semihalev/sdns/middleware/resolver"
	"github.com/semihalev/sdns/verifharness/vh"
)

// ---------------------------------------------------------------------------
// scripted upstream

type arrival struct {
	id   uint16
	q    string
	at   time.Time
	sent int // frames written on the connection when the query arrived
}

// rconn is one accepted connection as the upstream sees it.
type rconn struct {
	k      int // global accept number (1..)
	srv    int // model server (1..)
	nc     net.Conn
	remote string // the client's local address: identifies the connection in the pool snapshot

	arrivals     []arrival
	frames       int  // frames (or partial frames) written
	clientClosed bool // the reader saw EOF / an error
	serverClosed bool // closed by the script
	model        int  // bound model connection id (0: none)
	dirty        bool // an attempt on it ended without an accepted reply
	pend         []arrival
}

type upstream struct {
	e    *env
	idx  int
	ln   net.Listener
	addr string                    // listener address (127.0.0.1:port)
	name string                    // the address the resolver knows the server by (pool key)
	auto func(c *rconn, a arrival) // free-running load: the script that answers
}

// env is one resolver with its upstreams.
type env struct {
	mu     sync.Mutex
	notify chan struct{}
	r      *resolver.Resolver
	pool   *resolver.TCPConnPool
	ups    []*upstream
	conns  []*rconn // by k-1
	byRem  map[string]*rconn
	closed atomic.Bool
	seq    *atomic.Int64                     // harness-side sequence of the recorded history (stress)
	logf   func(line map[string]any)         // history sink (stress); called with e.mu held
	viol   func(key, what string, extra any) // predicate failure sink
	nframe atomic.Int64
	idBase uint16 // the history carries model ids: real id - idBase

	onAttempt atomic.Pointer[func()] // stress: logs the `attempt` line of the calling goroutine's exchange
}

// goid is the calling goroutine's id (the history attributes an attempt to the exchange whose goroutine makes it).
func goid() int64 {
	var buf [64]byte
	n := runtime.Stack(buf[:], false)
	var id int64
	_, _ = fmt.Sscanf(string(buf[:n]), "goroutine %d ", &id)
	return id
}

func (e *env) mid(id uint16) int { return int(id - e.idBase) }

func (e *env) bump() {
	select {
	case e.notify <- struct{}{}:
	default:
	}
}

// newEnv builds a resolver with the pool on and n scripted upstreams; class[i]
// is "root" (a loopback address: isRootServer) or "tld" (a TEST-NET address
// remapped to the loopback listener: pooled only for a two-label question).
func newEnv(class []string, poolMax int) (*env, error) {
	e := &env{notify: make(chan struct{}, 1), byRem: map[string]*rconn{}}
	remap := map[string]string{}
	for i, cl := range class {
		ln, err := net.Listen("tcp4", "127.0.0.1:0")
		if err != nil {
			e.close()
			return nil, err
		}
		u := &upstream{e: e, idx: i + 1, ln: ln, addr: ln.Addr().String()}
		u.name = u.addr
		if cl == "tld" {
			u.name = fmt.Sprintf("192.0.2.%d:53", 10+i)
			remap[u.name] = u.addr
		}
		e.ups = append(e.ups, u)
		go u.serve()
	}
	cfg := new(config.Config)
	cfg.RootServers = []string{e.ups[0].addr}
	cfg.Maxdepth = 30
	cfg.Expire = 600
	cfg.CacheSize = 1024
	cfg.Timeout.Duration = longTimeout
	cfg.DNSSEC = "off"
	cfg.IPv6Access = false
	cfg.TCPKeepalive = true
	cfg.RootTCPTimeout.Duration = time.Hour // idle expiry is the driver's (VerifX10tpAge), never the wall clock's
	cfg.TLDTCPTimeout.Duration = time.Hour
	cfg.TCPMaxConnections = poolMax
	e.r = resolver.NewResolver(cfg)
	poolsBuilt.Add(1)
	e.pool = e.r.VerifX10tpPool()
	if e.pool == nil {
		e.close()
		return nil, fmt.Errorf("the resolver built no TCP pool with TCPKeepalive on")
	}
	e.r.VerifX10tpSetResolveTarget(func(a string) string {
		// every attempt of exchange passes here, in its own goroutine, right after Get
		if h := e.onAttempt.Load(); h != nil {
			(*h)()
		}
		if t, ok := remap[a]; ok {
			return t
		}
		return a
	})
	for i, u := range e.ups {
		root := resolver.VerifX10tpIsRoot(u.name)
		if root != (class[i] == "root") {
			e.close()
			return nil, fmt.Errorf("upstream %s: isRootServer=%v but the model class is %s", u.name, root, class[i])
		}
	}
	return e, nil
}

func (e *env) close() {
	e.closed.Store(true)
	for _, u := range e.ups {
		_ = u.ln.Close()
	}
	e.mu.Lock()
	cs := append([]*rconn(nil), e.conns...)
	e.mu.Unlock()
	for _, c := range cs {
		_ = c.nc.Close()
	}
	if e.pool != nil {
		e.pool.Close()
	}
}

// reset makes the environment fresh for the next behaviour: the pool is emptied, every upstream connection is
// closed and forgotten.  Only called when no exchange is running.
func (e *env) reset() {
	e.pool.Close()
	e.mu.Lock()
	cs := e.conns
	e.conns = nil
	e.byRem = map[string]*rconn{}
	for _, c := range cs {
		c.serverClosed = true
	}
	e.mu.Unlock()
	for _, c := range cs {
		_ = c.nc.Close()
	}
	e.r.VerifX10tpSetNetTimeout(longTimeout)
}

func (u *upstream) serve() {
	for {
		nc, err := u.ln.Accept()
		if err != nil {
			return
		}
		e := u.e
		e.mu.Lock()
		c := &rconn{k: len(e.conns) + 1, srv: u.idx, nc: nc, remote: nc.RemoteAddr().String()}
		e.conns = append(e.conns, c)
		e.byRem[c.remote] = c
		e.mu.Unlock()
		go u.read(c)
	}
}

func readFrame(nc net.Conn) ([]byte, error) {
	var l [2]byte
	if _, err := io.ReadFull(nc, l[:]); err != nil {
		return nil, err
	}
	b := make([]byte, binary.BigEndian.Uint16(l[:]))
	if _, err := io.ReadFull(nc, b); err != nil {
		return nil, err
	}
	return b, nil
}

func (u *upstream) read(c *rconn) {
	e := u.e
	for {
		b, err := readFrame(c.nc)
		if err != nil {
			e.mu.Lock()
			if !c.serverClosed {
				c.clientClosed = true
				if e.logf != nil {
					e.logf(map[string]any{"ev": "cclose", "c": c.k})
				}
			}
			e.mu.Unlock()
			e.bump()
			return
		}
		m := new(dns.Msg)
		if err := m.Unpack(b); err != nil || len(m.Question) != 1 {
			continue
		}
		a := arrival{id: m.Id, q: m.Question[0].Name, at: time.Now()}
		e.mu.Lock()
		a.sent = c.frames
		// C10 (sound whatever the schedule): a second query on a stream whose previous query has seen no
		// frame at all since it arrived.  The previous exchange cannot have read a reply, so it has not
		// completed: the connection is in the hands of two exchanges, or went back to the pool unfinished.
		if n := len(c.arrivals); n > 0 && c.arrivals[n-1].sent == c.frames && e.viol != nil {
			prev := c.arrivals[n-1]
			e.viol("c10/shared-connection",
				fmt.Sprintf("a query (id %d, %s) arrived on an upstream connection whose previous query (id %d, %s) "+
					"has not been sent a single byte: the connection is used by two exchanges at once, or was pooled "+
					"by an exchange that did not complete", a.id, a.q, prev.id, prev.q),
				map[string]any{"conn": c.k, "server": c.srv, "first": prev.id, "second": a.id})
		}
		c.arrivals = append(c.arrivals, a)
		c.pend = append(c.pend, a)
		if e.logf != nil {
			e.logf(map[string]any{"ev": "arrive", "c": c.k, "s": c.srv, "id": e.mid(a.id), "q": a.q})
		}
		auto := u.auto
		e.mu.Unlock()
		e.bump()
		if auto != nil {
			auto(c, a)
		}
	}
}

// frameFor builds the reply frame to (id, q): the answer carries where it was
// made and for which query, so that every byte a client gets can be traced.
func (e *env) frameFor(c *rconn, id uint16, q string, ka string, tag string) []byte {
	m := new(dns.Msg)
	m.Id = id
	m.Response = true
	m.Question = []dns.Question{{Name: q, Qtype: dns.TypeA, Qclass: dns.ClassINET}}
	n := e.nframe.Add(1)
	m.Answer = []dns.RR{&dns.TXT{Hdr: dns.RR_Header{Name: q, Rrtype: dns.TypeTXT, Class: dns.ClassINET, Ttl: 60},
		Txt: []string{fmt.Sprintf("x10tp %s srv=%d conn=%d n=%d for=%d q=%s", tag, c.srv, c.k, n, id, q)}}}
	if ka != "" {
		opt := &dns.OPT{Hdr: dns.RR_Header{Name: ".", Rrtype: dns.TypeOPT}}
		opt.SetUDPSize(1232)
		t := uint16(0)
		if ka == "pos" {
			t = 6000 // 600 s, in units of 100 ms
		}
		opt.Option = append(opt.Option, &dns.EDNS0_TCP_KEEPALIVE{Code: dns.EDNS0TCPKEEPALIVE, Timeout: t})
		m.Extra = append(m.Extra, opt)
	}
	b, err := m.Pack()
	if err != nil {
		panic(err)
	}
	return b
}

func writeFrame(nc net.Conn, b []byte) error {
	out := make([]byte, 2+len(b))
	binary.BigEndian.PutUint16(out, uint16(len(b)))
	copy(out[2:], b)
	_ = nc.SetWriteDeadline(time.Now().Add(5 * time.Second))
	_, err := nc.Write(out)
	return err
}

// The four moves of an upstream.  Each is logged (stress) before the bytes leave.

// reply answers the oldest unanswered query of c.
func (e *env) reply(c *rconn, ka0 bool) (arrival, bool) {
	e.mu.Lock()
	if len(c.pend) == 0 || c.serverClosed {
		e.mu.Unlock()
		return arrival{}, false
	}
	a := c.pend[0]
	c.pend = c.pend[1:]
	ka := ""
	switch {
	case ka0:
		ka = "zero"
	case (c.frames+c.k)%2 == 1:
		ka = "pos"
	}
	b := e.frameFor(c, a.id, a.q, ka, "reply")
	c.frames++
	if e.logf != nil {
		e.logf(map[string]any{"ev": "reply", "c": c.k, "id": e.mid(a.id), "q": a.q, "ka0": ka0})
	}
	e.mu.Unlock()
	_ = writeFrame(c.nc, b)
	return a, true
}

// inject writes a frame nobody asked for.
func (e *env) inject(c *rconn, id uint16, q string) bool {
	e.mu.Lock()
	if c.serverClosed {
		e.mu.Unlock()
		return false
	}
	b := e.frameFor(c, id, q, "", "inject")
	c.frames++
	if e.logf != nil {
		e.logf(map[string]any{"ev": "inject", "c": c.k, "id": e.mid(id), "q": q})
	}
	e.mu.Unlock()
	_ = writeFrame(c.nc, b)
	return true
}

// closeConn closes after what was written; mid: in the middle of the reply to the oldest query.
func (e *env) closeConn(c *rconn, mid bool) bool {
	e.mu.Lock()
	if c.serverClosed {
		e.mu.Unlock()
		return false
	}
	var part []byte
	if mid {
		if len(c.pend) == 0 {
			e.mu.Unlock()
			return false
		}
		a := c.pend[0]
		b := e.frameFor(c, a.id, a.q, "", "partial")
		part = make([]byte, 2+len(b)/2)
		binary.BigEndian.PutUint16(part, uint16(len(b)))
		copy(part[2:], b[:len(b)/2])
		c.frames++
	}
	c.pend = nil
	c.serverClosed = true
	if e.logf != nil {
		ev := "close"
		if mid {
			ev = "closemid"
		}
		e.logf(map[string]any{"ev": ev, "c": c.k})
	}
	e.mu.Unlock()
	if part != nil {
		_ = c.nc.SetWriteDeadline(time.Now().Add(5 * time.Second))
		_, _ = c.nc.Write(part)
	}
	_ = c.nc.Close()
	return true
}

// ---------------------------------------------------------------------------
// the client side

const (
	longTimeout  = 30 * time.Second
	shortTimeout = 800 * time.Millisecond
)

func (e *env) server(s int) *authority.Server {
	return authority.NewServer(e.ups[s-1].name, authority.IPv4)
}

func query(id uint16, q string) *dns.Msg {
	m := new(dns.Msg)
	m.Id = id
	m.RecursionDesired = false
	m.Question = []dns.Question{{Name: q, Qtype: dns.TypeA, Qclass: dns.ClassINET}}
	m.SetEdns0(1232, false)
	return m
}

// provenance of a reply handed up by exchange: the TXT of the frame it was made from
type prov struct {
	ok        bool
	tag       string
	srv, conn int
	forID     int
	q         string
}

func provenance(m *dns.Msg) prov {
	if m == nil || len(m.Answer) != 1 {
		return prov{}
	}
	t, ok := m.Answer[0].(*dns.TXT)
	if !ok || len(t.Txt) != 1 {
		return prov{}
	}
	var p prov
	var n int
	if _, err := fmt.Sscanf(t.Txt[0], "x10tp %s srv=%d conn=%d n=%d for=%d q=%s", &p.tag, &p.srv, &p.conn, &n, &p.forID, &p.q); err != nil {
		return prov{}
	}
	p.ok = true
	return p
}

// rightUpstream: the reply was written by the upstream the exchange was with (a pool that hands a connection to
// server A to an exchange with server B breaks it; no C10 statement: family "pool").  "" when it holds.
func rightUpstream(resp *dns.Msg, srv int) string {
	p := provenance(resp)
	if p.ok && p.srv != srv {
		return fmt.Sprintf("the reply was written by upstream %d on connection %d, the exchange was with upstream %d", p.srv, p.conn, srv)
	}
	return ""
}

// ownReply is the C10 predicate on what exchange handed to its caller: the reply carries this exchange's ID
// and question, and every byte of it was made for this exchange's query.  "" when it holds.
func ownReply(resp *dns.Msg, id uint16, q string, srv int) string {
	if resp == nil {
		return "exchange returned neither a reply nor an error"
	}
	if resp.Id != id {
		return fmt.Sprintf("the reply carries ID %d, the query was sent with ID %d", resp.Id, id)
	}
	if len(resp.Question) != 1 || !strings.EqualFold(resp.Question[0].Name, q) || resp.Question[0].Qtype != dns.TypeA {
		return fmt.Sprintf("the reply's question section is %v, the question asked was %s A", resp.Question, q)
	}
	p := provenance(resp)
	if !p.ok {
		return fmt.Sprintf("the reply's answer section is not a frame any upstream wrote: %v", resp.Answer)
	}
	if p.forID != int(id) || !strings.EqualFold(p.q, q) {
		return fmt.Sprintf("the reply's bytes were written for query (id %d, %s) by upstream %d on connection %d, not for "+
			"this exchange's query (id %d, %s)", p.forID, p.q, p.srv, p.conn, id, q)
	}
	return ""
}

// Families of predicates the calling check judges as violations ("c10", "c11", "rank").  A driver stops early only
// on a judged failure: a failure of another family is reported and the run goes on.
var (
	judged  = map[string]bool{"c10": true}
	nJudged atomic.Int64
)

func report(res *vh.Result, key, what string, replay any) {
	fam := key
	if i := strings.IndexByte(key, '/'); i >= 0 {
		fam = key[:i]
	}
	if judged[fam] {
		nJudged.Add(1)
	}
	res.Violate(key, what, replay)
}

func stopEarly() bool { return nJudged.Load() > 0 }

// pools built by this process (every one starts a cleanup goroutine)
var poolsBuilt atomic.Int64

// goroutinesWith counts goroutines whose stack mentions fn.
func goroutinesWith(fn string) int {
	buf := make([]byte, 1<<20)
	for {
		n := runtime.Stack(buf, true)
		if n < len(buf) {
			buf = buf[:n]
			break
		}
		buf = make([]byte, 2*len(buf))
	}
	return strings.Count(string(buf), fn)
}

var _ = context.Background
