package x10tp

// code -> spec: a free-running concurrent load on the real Resolver.exchange +
// TCPConnPool.  Goroutines run exchanges against upstreams that answer by a
// seeded script (honest reply, a stale frame before or after it, silence past
// the socket deadline, a late reply, close, close in mid-frame, keepalive
// timeout 0) while another goroutine ages resident connections, runs cleanup
// passes and finally closes the pool.  Every observable event is one line of
// the recorded history, stamped under one lock; TLC validates the history
// against Trace_TcpPool.tla.  The C10 predicates are also evaluated directly.
//
// runHammer: the pool's own API (Get / Put / cleanup / Close) hammered from
// many goroutines with an ownership word per connection.

import (
	"context"
	"encoding/json"
	"fmt"
	"math/rand"
	"net"
	"os"
	"runtime"
	"sync"
	"sync/atomic"
	"time"

	"github.com/miekg/dns"
	"github.com/semihalev/sdns/middleware/resolver"
	"github.com/semihalev/sdns/verifharness/vh"
)

type stressInput struct {
	Rounds    int      `json:"rounds"`
	Procs     int      `json:"procs"`
	Exchanges int      `json:"exchanges"` // per goroutine and round
	Class     []string `json:"class"`
	PoolMax   int      `json:"poolMax"`
	Questions []string `json:"questions"`
	TraceOut  string   `json:"traceOut"` // "" = judge with the direct predicates only
	TimeoutMs int      `json:"timeoutMs"`
	MaxConn   int      `json:"maxConn"` // a round stops starting exchanges when the upstreams have seen this many connections
}

type history struct {
	f     *os.File
	enc   *json.Encoder
	lines int
}

func (h *history) log(line map[string]any) {
	if h == nil || h.f == nil {
		return
	}
	h.lines++
	_ = h.enc.Encode(line)
}

func runStress(res *vh.Result, in *stressInput, name string) {
	var h *history
	if in.TraceOut != "" {
		f, err := os.Create(in.TraceOut)
		if err != nil {
			res.Skip("stress: %v", err)
			return
		}
		defer f.Close()
		h = &history{f: f, enc: json.NewEncoder(f)}
	}
	e, err := newEnv(in.Class, in.PoolMax)
	if err != nil {
		res.Skip("stress: environment: %v", err)
		return
	}
	defer e.close()
	timeout := time.Duration(in.TimeoutMs) * time.Millisecond
	rng := rand.New(rand.NewSource(vh.Seed()*1000003 + int64(len(name))))
	violate := func(key, what string, extra any) {
		report(res, key, what+" [free-running load "+name+", seed "+fmt.Sprint(vh.Seed())+"]",
			map[string]any{"driver": "pool-stress", "name": name, "seed": vh.Seed(), "detail": extra, "input": in})
	}
	e.viol = violate
	for round := 0; round < in.Rounds && stopEarly() == false; round++ {
		e.reset()
		e.r.VerifX10tpSetNetTimeout(timeout)
		base := uint16(2000 + rng.Intn(40000))
		var nstart int // under e.mu
		e.mu.Lock()
		e.logf = nil
		e.idBase = base
		if h != nil {
			e.logf = h.log
			h.log(map[string]any{"ev": "reset"})
		}
		e.mu.Unlock()
		scriptSeed := rng.Int63()
		var scriptN atomic.Int64
		for _, u := range e.ups {
			u := u
			u.auto = func(c *rconn, a arrival) {
				// one seeded decision per arrival
				r := rand.New(rand.NewSource(scriptSeed + scriptN.Add(1)*7919 + int64(a.id)))
				stale := func() {
					id := uint16(0)
					e.mu.Lock()
					n := nstart
					e.mu.Unlock()
					mid := 0
					if n > 0 && r.Intn(4) > 0 {
						mid = 1 + r.Intn(n)
						id = base + uint16(mid)
					} else {
						id = base // model id 0: nobody's
					}
					_ = mid
					e.inject(c, id, in.Questions[r.Intn(len(in.Questions))])
				}
				switch x := r.Intn(100); {
				case x < 50:
					e.reply(c, false)
				case x < 60:
					stale()
					e.reply(c, false)
				case x < 70:
					e.reply(c, false)
					stale()
				case x < 77: // silence: the client's socket deadline ends the attempt
				case x < 82: // a late reply: written after the client has given the connection up
					go func() {
						time.Sleep(timeout + timeout/2)
						e.reply(c, false)
					}()
				case x < 88:
					e.closeConn(c, false)
				case x < 94:
					e.closeConn(c, true)
				default:
					e.reply(c, true)
				}
			}
		}
		var procOf sync.Map // goroutine id -> proc
		hook := func() {
			if p, ok := procOf.Load(goid()); ok {
				e.logLine(map[string]any{"ev": "attempt", "p": p})
			}
		}
		e.onAttempt.Store(&hook)
		var wg sync.WaitGroup
		stopBg := make(chan struct{})
		var bg sync.WaitGroup
		bg.Add(1)
		go func() { // idle expiry and the cleanup goroutine's passes
			defer bg.Done()
			r := rand.New(rand.NewSource(scriptSeed ^ 0x5bd1e995))
			for {
				select {
				case <-stopBg:
					return
				case <-time.After(time.Duration(3+r.Intn(25)) * time.Millisecond):
				}
				if r.Intn(2) == 0 {
					s := 1 + r.Intn(len(e.ups))
					e.pool.VerifX10tpAge(e.ups[s-1].name, func() {
						e.mu.Lock()
						if e.logf != nil {
							e.logf(map[string]any{"ev": "tick", "s": s})
						}
						e.mu.Unlock()
					})
				} else {
					e.logLine(map[string]any{"ev": "cleanup-inv"})
					e.pool.VerifX10tpCleanup()
					e.logLine(map[string]any{"ev": "cleanup-res"})
				}
			}
		}()
		for p := 1; p <= in.Procs; p++ {
			wg.Add(1)
			go func(p int) {
				defer wg.Done()
				procOf.Store(goid(), p)
				r := rand.New(rand.NewSource(scriptSeed + int64(p)*104729))
				for k := 0; k < in.Exchanges; k++ {
					s := 1 + r.Intn(len(e.ups))
					q := in.Questions[r.Intn(len(in.Questions))]
					r0 := r.Intn(3)
					e.mu.Lock()
					if in.MaxConn > 0 && len(e.conns)+3*in.Procs > in.MaxConn {
						e.mu.Unlock()
						return
					}
					nstart++
					n := nstart
					if e.logf != nil {
						e.logf(map[string]any{"ev": "start", "p": p, "s": s, "q": q, "id": n, "r0": r0})
					}
					e.mu.Unlock()
					id := base + uint16(n)
					resp, err := e.r.VerifX10tpExchange(context.Background(), "tcp", query(id, q), e.server(s), r0)
					line := map[string]any{"ev": "done", "p": p, "res": "err", "accid": 0, "accq": ""}
					if err == nil {
						line["res"] = "ok"
						if resp != nil {
							line["accid"] = int(resp.Id - base)
							if len(resp.Question) > 0 {
								line["accq"] = resp.Question[0].Name
							}
						}
						if why := ownReply(resp, id, q, s); why != "" {
							violate("c10/own-reply", fmt.Sprintf("an exchange (id %d, %s, upstream %d) was handed a reply that is not its "+
								"own: %s", id, q, s, why), map[string]any{"round": round, "reply": fmt.Sprint(resp)})
						}
						if why := rightUpstream(resp, s); why != "" {
							violate("pool/foreign-server", fmt.Sprintf("an exchange with upstream %d: %s", s, why), nil)
						}
						res.Count("stress_replies_checked_"+name, 1)
					} else if resp != nil {
						violate("c10/reply-with-error", fmt.Sprintf("an exchange returned an error (%v) together with a reply", err), nil)
					}
					e.logLine(line)
					res.Count("stress_exchanges_"+name, 1)
				}
			}(p)
		}
		wg.Wait()
		e.onAttempt.Store(nil)
		close(stopBg)
		bg.Wait()
		for _, u := range e.ups {
			u.auto = nil
		}
		time.Sleep(timeout*2 + 20*time.Millisecond) // late replies of the script are out
		// the quiescent pool
		snap, active, maxc := e.pool.VerifX10tpSnapshot()
		poolOf := make([]int, len(e.ups))
		e.mu.Lock()
		for _, pc := range snap {
			for i, u := range e.ups {
				if u.name == pc.Server {
					if rc := e.byRem[pc.Local]; rc != nil {
						poolOf[i] = rc.k
						if rc.clientClosed {
							violate("c11/closed-pooled", fmt.Sprintf("the pool holds connection %d which the client side has closed", rc.k), nil)
						}
					} else {
						poolOf[i] = -1
					}
				}
			}
		}
		if e.logf != nil {
			e.logf(map[string]any{"ev": "end", "active": active, "pool": poolOf})
		}
		nconn := len(e.conns)
		e.mu.Unlock()
		if active != len(snap) {
			violate("c11/active-count", fmt.Sprintf("active=%d but the pool holds %d connections", active, len(snap)), nil)
		}
		if len(snap) > maxc {
			violate("c11/pool-bound", fmt.Sprintf("the pool holds %d connections, its bound is %d", len(snap), maxc), nil)
		}
		// Close, then: every socket the client opened is closed
		e.logLine(map[string]any{"ev": "stop-inv"})
		e.pool.Close()
		e.logLine(map[string]any{"ev": "stop-res"})
		deadline := time.Now().Add(5 * time.Second)
		for {
			var open []int
			e.mu.Lock()
			for _, c := range e.conns {
				if !c.serverClosed && !c.clientClosed {
					open = append(open, c.k)
				}
			}
			e.mu.Unlock()
			if len(open) == 0 {
				break
			}
			if time.Now().After(deadline) {
				violate("c11/socket-leak", fmt.Sprintf("after the load stopped and the pool was closed, the client still holds "+
					"upstream connections %v open", open), nil)
				break
			}
			time.Sleep(10 * time.Millisecond)
		}
		e.mu.Lock()
		e.logf = nil
		e.mu.Unlock()
		res.Count("stress_rounds_"+name, 1)
		res.Count("stress_conns_"+name, nconn)
	}
	if h != nil {
		res.Count("stress_lines_"+name, h.lines)
	}
}

func (e *env) logLine(line map[string]any) {
	e.mu.Lock()
	if e.logf != nil {
		e.logf(line)
	}
	e.mu.Unlock()
}

// ---------------------------------------------------------------------------
// the pool's API, hammered

type hammerInput struct {
	Goroutines int `json:"goroutines"`
	Ops        int `json:"ops"`
	Servers    int `json:"servers"`
	PoolMax    int `json:"poolMax"`
}

// hconn is one end of a pipe with an ownership word.
type hconn struct {
	net.Conn
	n      int
	server string
	owner  atomic.Int32 // goroutine that holds it (0: nobody / the pool)
	closed atomic.Bool
	viol   func(key, what string, extra any)
}

func (c *hconn) Close() error {
	if o := c.owner.Load(); o != 0 && o != -1 {
		c.viol("c10/close-under-owner", fmt.Sprintf("connection %d was closed while goroutine %d held it: somebody else's exchange "+
			"closed a connection that is in use", c.n, o), nil)
	}
	c.closed.Store(true)
	return c.Conn.Close()
}

func runHammer(res *vh.Result, in *hammerInput) {
	violate := func(key, what string, extra any) {
		report(res, key, what+" [pool API hammer, seed "+fmt.Sprint(vh.Seed())+"]",
			map[string]any{"driver": "pool-hammer", "seed": vh.Seed(), "input": in})
	}
	pool := resolver.NewTCPConnPool(time.Hour, time.Hour, in.PoolMax)
	poolsBuilt.Add(1)
	defer pool.Close()
	servers := make([]string, in.Servers)
	for i := range servers {
		servers[i] = fmt.Sprintf("127.0.0.1:%d", 5300+i)
	}
	var made atomic.Int64
	var all sync.Map
	var wg sync.WaitGroup
	var handed, fresh atomic.Int64
	for g := 1; g <= in.Goroutines; g++ {
		wg.Add(1)
		go func(g int) {
			defer wg.Done()
			r := rand.New(rand.NewSource(vh.Seed()*7907 + int64(g)))
			for k := 0; k < in.Ops && stopEarly() == false; k++ {
				s := servers[r.Intn(len(servers))]
				switch x := r.Intn(100); {
				case x < 3:
					pool.VerifX10tpCleanup()
					continue
				case x < 6:
					pool.VerifX10tpAge(s, nil)
					continue
				case x < 7:
					pool.Close()
					continue
				}
				dc := pool.Get(s, true, false)
				var hc *hconn
				if dc != nil {
					hc, _ = dc.Conn.(*hconn)
					if hc == nil {
						violate("c10/foreign-connection", "Get returned a connection nobody put", nil)
						return
					}
					handed.Add(1)
					if hc.server != s {
						violate("pool/foreign-server", fmt.Sprintf("Get(%s) handed out connection %d, which was put for %s", s, hc.n, hc.server), nil)
						return
					}
					// C10: Get hands a connection to one caller at a time
					if !hc.owner.CompareAndSwap(0, int32(g)) {
						violate("c10/single-owner", fmt.Sprintf("Get(%s) handed connection %d to goroutine %d while goroutine %d holds it",
							s, hc.n, g, hc.owner.Load()), nil)
						return
					}
					if hc.closed.Load() {
						violate("c11/closed-pooled", fmt.Sprintf("Get(%s) handed out connection %d which is closed", s, hc.n), nil)
						return
					}
				} else {
					a, b := net.Pipe()
					_ = b.Close()
					hc = &hconn{Conn: a, n: int(made.Add(1)), server: s, viol: violate}
					hc.owner.Store(int32(g))
					all.Store(hc.n, hc)
					fresh.Add(1)
				}
				if r.Intn(3) == 0 {
					runtime.Gosched()
				}
				if r.Intn(8) == 0 { // the exchange failed: the owner closes, never pools
					hc.owner.Store(-1)
					_ = hc.Close()
					continue
				}
				hc.owner.Store(0)
				pool.Put(&dns.Conn{Conn: hc}, s, true, false, nil)
			}
		}(g)
	}
	wg.Wait()
	// quiescent: what is neither closed nor owned is in the pool, one per server, within the bound
	conns, active, maxc := pool.VerifX10tpSnapshot()
	open := 0
	all.Range(func(_, v any) bool {
		if !v.(*hconn).closed.Load() {
			open++
		}
		return true
	})
	if active != len(conns) {
		violate("c11/active-count", fmt.Sprintf("active=%d but the pool holds %d connections", active, len(conns)), nil)
	}
	if len(conns) > maxc {
		violate("c11/pool-bound", fmt.Sprintf("the pool holds %d connections, its bound is %d", len(conns), maxc), nil)
	}
	if open != len(conns) {
		violate("c11/socket-leak", fmt.Sprintf("%d connections are open and owned by nobody, the pool holds %d", open, len(conns)), nil)
	}
	res.Count("hammer_handed_out", int(handed.Load()))
	res.Count("hammer_fresh", int(fresh.Load()))
	res.Case(fmt.Sprintf("hammer:g%d:o%d:s%d:m%d", in.Goroutines, in.Ops, in.Servers, in.PoolMax))
}
