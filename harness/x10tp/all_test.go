package x10tp

// TestX10TP runs every driver of the check in one process (one build, one
// link): bin/check X10TP hands it the TLC-generated behaviours and collects
// the recorded histories for the trace validation.

import (
	"sync"
	"testing"
	"time"

	"github.com/semihalev/sdns/verifharness/vh"
)

type allInput struct {
	Judged []string `json:"judged"` // predicate families judged as violations by the calling check

	Replay  *replayInput  `json:"replay"`
	Stress  []stressInput `json:"stress"`  // recorded for Trace_TcpPool.tla
	Stress2 *stressInput  `json:"stress2"` // many goroutines, direct predicates only
	Hammer  *hammerInput  `json:"hammer"`

	Rank       *rankInput       `json:"rank"`
	RankStress *rankStressInput `json:"rankStress"`
	Fanout     *fanoutInput     `json:"fanout"`
}

func TestX10TP(t *testing.T) {
	var in allInput
	vh.Input(t, &in)
	res := vh.NewResult()
	defer res.Write(t)
	if in.Judged != nil {
		judged = map[string]bool{}
		for _, f := range in.Judged {
			judged[f] = true
		}
	}
	// three independent lanes (most of the time is spent waiting on sockets and short timeouts)
	var wg sync.WaitGroup
	lane := func(f func()) {
		wg.Add(1)
		go func() {
			defer wg.Done()
			f()
		}()
	}
	lane(func() {
		if in.Replay != nil {
			runReplay(res, in.Replay)
		}
	})
	lane(func() {
		if in.Hammer != nil {
			runHammer(res, in.Hammer)
		}
		for i := range in.Stress {
			runStress(res, &in.Stress[i], "traced")
		}
		if in.Stress2 != nil {
			runStress(res, in.Stress2, "wide")
		}
	})
	lane(func() { // the ranking lane pins authority's randN: its three drivers run one after the other
		if in.Rank != nil {
			runRankReplay(res, in.Rank)
		}
		if in.RankStress != nil {
			runRankStress(res, in.RankStress)
		}
		if in.Fanout != nil {
			runFanout(res, in.Fanout)
		}
	})
	wg.Wait()
	// Observation (not a C10 / C11 predicate): every pool has been closed by now; Close does not end cleanupLoop.
	time.Sleep(50 * time.Millisecond)
	res.Count("pools_built", int(poolsBuilt.Load()))
	res.Count("cleanup_goroutines_alive_after_close", goroutinesWith("TCPConnPool).cleanupLoop"))
}
