package x10tp

// Rank.tla on the real internal/authority ranking and on Resolver.lookup's use of it.
//
// runRankReplay (spec -> code): TLC-chosen sequences of Observe / ObserveNoAnswer, ageing (lastNs moved back past
// staleAfter through the shim) and Sort -- with randN pinned to the answers TLC chose, in call order -- are run on
// real authority.Server values; after every record the packed state word, after every Sort the order and the probe
// are compared with the model (drift), and the ranking predicates are evaluated on what Sort returned, with the
// scores the code itself reports.
// runRankStress (code -> spec): goroutines record on one server at once (the final word must be the blend of the
// samples in SOME order: no sample lost, none counted twice); goroutines sort private copies of one list while
// others record (every result is a permutation of the list).
// runFanout: Resolver.lookup against scripted UDP upstreams with randN pinned: who is asked, and that a probe
// outlives the leader's answer and records, while a hedge is cancelled and records nothing.

import (
	"context"
	"fmt"
	"math/rand"
	"net"
	"sort"
	"sync"
	"sync/atomic"
	"time"

	"github.com/miekg/dns"
	"github.com/semihalev/sdns/config"
	"github.com/semihalev/sdns/internal/authority"
	"github.com/semihalev/sdns/middleware/resolver"
	"github.com/semihalev/sdns/verifharness/vh"
)

const tick = 125 * time.Nanosecond

type rankStep struct {
	Op    string `json:"op"` // "Rec" | "Age" | "Sort"
	S     int    `json:"s"`
	D     int64  `json:"d"`
	Ans   bool   `json:"ans"`
	R     []int  `json:"r"`    // randN answers r1, r2, r3
	Used  []bool `json:"used"` // which of the calls the model makes
	Order []int  `json:"order"`
	Probe int    `json:"probe"`
	Est   int64  `json:"est"` // Rec: the model's word afterwards
	M     bool   `json:"m"`
	A     bool   `json:"a"`
}

type rankBehaviour struct {
	ID    string     `json:"id"`
	N     int        `json:"n"`
	Steps []rankStep `json:"steps"`
}

type rankInput struct {
	Behaviours []rankBehaviour `json:"behaviours"`
	SeedTicks  int64           `json:"seedTicks"`
}

// pinned randN: answers in call order; records what was asked
type pin struct {
	mu    sync.Mutex
	queue []int
	calls []int
	extra int
}

func (p *pin) fn(n int) int {
	p.mu.Lock()
	defer p.mu.Unlock()
	p.calls = append(p.calls, n)
	if len(p.queue) == 0 {
		p.extra++
		return 0
	}
	v := p.queue[0]
	p.queue = p.queue[1:]
	if n <= 0 {
		return 0
	}
	if v >= n {
		p.extra++
		return v % n
	}
	return v
}

func idx(list []*authority.Server, all []*authority.Server) []int {
	out := make([]int, len(list))
	for i, s := range list {
		for j, t := range all {
			if s == t {
				out[i] = j + 1
			}
		}
	}
	return out
}

// rankPredicates evaluates the ranking statements on one result of Sort, with the scores the code reports now.
func rankPredicates(list []*authority.Server, probe *authority.Server, all []*authority.Server) (string, string) {
	now := time.Now().UnixNano()
	// no server lost, none twice
	seen := map[*authority.Server]int{}
	for _, s := range list {
		seen[s]++
	}
	if len(list) != len(all) {
		return "rank/permutation", fmt.Sprintf("Sort returned %d servers of %d", len(list), len(all))
	}
	for _, s := range all {
		if seen[s] != 1 {
			return "rank/permutation", fmt.Sprintf("server %s appears %d times in the sorted list %v", s.Addr, seen[s], idx(list, all))
		}
	}
	n := len(list)
	if n < 2 {
		return "", ""
	}
	sc := make([]int64, n)
	old := make([]bool, n)
	for i, s := range list {
		sc[i], old[i] = s.VerifX10tpScore(now)
	}
	for i := 1; i < n; i++ {
		if sc[0] > sc[i] {
			return "rank/leader", fmt.Sprintf("the leader %d is priced %d, server %d behind it %d (order %v)", idx(list, all)[0], sc[0], idx(list, all)[i], sc[i], idx(list, all))
		}
	}
	for i := 2; i+1 < n; i++ {
		if sc[i] > sc[i+1] {
			return "rank/tail-order", fmt.Sprintf("behind the second slot the list is not in score order: %v scores %v", idx(list, all), sc)
		}
	}
	if probe != nil {
		if n < 3 || list[1] != probe || list[0] == probe {
			return "rank/probe-slot", fmt.Sprintf("the probe is not the second slot: order %v", idx(list, all))
		}
		if !old[1] {
			return "rank/probe-fresh", fmt.Sprintf("the probe %d is a server with a fresh measurement", idx(list, all)[1])
		}
	} else {
		for i := 2; i < n; i++ {
			if sc[1] > sc[i] {
				return "rank/second", fmt.Sprintf("the second slot (no probe) is priced %d, server %d behind it %d", sc[1], idx(list, all)[i], sc[i])
			}
		}
	}
	return "", ""
}

func runRankReplay(res *vh.Result, in *rankInput) {
	if int64(authority.VerifX10tpSeed/tick) != in.SeedTicks {
		res.Skip("rank replay: rttUnknownSeed is %v, the model's Seed is %d ticks", authority.VerifX10tpSeed, in.SeedTicks)
		return
	}
	defer authority.VerifX10tpSetRandN(nil)
	for bi := range in.Behaviours {
		b := &in.Behaviours[bi]
		all := make([]*authority.Server, b.N)
		for i := range all {
			all[i] = authority.NewServer(fmt.Sprintf("192.0.2.%d:53", i+1), authority.IPv4)
		}
		var trail []string
		violate := func(key, what string) {
			report(res, key, what+" [rank behaviour "+b.ID+": "+fmt.Sprint(trail)+"]", map[string]any{"driver": "rank-replay", "behaviour": b})
		}
		ok := true
		for si := range b.Steps {
			st := &b.Steps[si]
			switch st.Op {
			case "Rec":
				trail = append(trail, fmt.Sprintf("Rec(%d,%d,%v)", st.S, st.D, st.Ans))
				if st.Ans {
					all[st.S-1].Observe(time.Duration(st.D) * tick)
				} else {
					all[st.S-1].ObserveNoAnswer(time.Duration(st.D) * tick)
				}
				est, m, a, _ := all[st.S-1].VerifX10tpState()
				if int64(est/tick) != st.Est || est%tick != 0 || m != st.M || a != st.A {
					res.DriftNote("%s: after %s the word of server %d is (est %v, measured %v, answered %v), the model has (%d ticks, %v, %v)",
						b.ID, trail[len(trail)-1], st.S, est, m, a, st.Est, st.M, st.A)
					ok = false
				}
				if !m {
					violate("rank/record-lost", fmt.Sprintf("server %d is unmeasured after a record", st.S))
				}
			case "Age":
				trail = append(trail, fmt.Sprintf("Age(%d)", st.S))
				all[st.S-1].VerifX10tpAge(authority.VerifX10tpStaleAfter + time.Minute)
			case "Sort":
				trail = append(trail, fmt.Sprintf("Sort%v", st.R))
				var q []int
				for i, u := range st.Used {
					if u {
						q = append(q, st.R[i])
					}
				}
				run := func() ([]*authority.Server, *authority.Server, *pin) {
					p := &pin{queue: append([]int(nil), q...)}
					authority.VerifX10tpSetRandN(p.fn)
					list := append([]*authority.Server(nil), all...)
					pr := authority.Sort(list)
					return list, pr, p
				}
				list, pr, p := run()
				if key, what := rankPredicates(list, pr, all); key != "" {
					violate(key, what)
				}
				// the ordering is a function of the recorded state (and of randN's answers): the same again
				list2, pr2, _ := run()
				if fmt.Sprint(idx(list, all)) != fmt.Sprint(idx(list2, all)) || pr != pr2 {
					violate("rank/pure", fmt.Sprintf("two sorts of the same recorded state with the same random answers differ: %v probe %v / %v probe %v",
						idx(list, all), pr != nil, idx(list2, all), pr2 != nil))
				}
				got := idx(list, all)
				gp := 0
				if pr != nil {
					gp = idx([]*authority.Server{pr}, all)[0]
				}
				if fmt.Sprint(got) != fmt.Sprint(st.Order) || gp != st.Probe || p.extra > 0 || len(p.queue) > 0 {
					res.DriftNote("%s: %s gave order %v probe %d (randN asked %v, %d answers unused, %d improvised), the model %v probe %d",
						b.ID, trail[len(trail)-1], got, gp, p.calls, len(p.queue), p.extra, st.Order, st.Probe)
					ok = false
				}
				res.Count("rank_sorts", 1)
				if pr != nil {
					res.Count("rank_probes", 1)
				}
			}
			if !ok {
				break
			}
		}
		if ok {
			res.Case("rank:" + fmt.Sprint(trail))
			res.Count("rank_completed", 1)
		}
		res.Count("rank_behaviours", 1)
	}
}

// ---------------------------------------------------------------------------
type rankStressInput struct {
	Rounds int `json:"rounds"`
}

func permutations(n int, f func([]int) bool) {
	p := make([]int, n)
	for i := range p {
		p[i] = i
	}
	var rec func(k int) bool
	rec = func(k int) bool {
		if k == n {
			return f(p)
		}
		for i := k; i < n; i++ {
			p[k], p[i] = p[i], p[k]
			if rec(k + 1) {
				return true
			}
			p[k], p[i] = p[i], p[k]
		}
		return false
	}
	rec(0)
}

func runRankStress(res *vh.Result, in *rankStressInput) {
	rng := rand.New(rand.NewSource(vh.Seed() * 31337))
	samples := []time.Duration{81920 * tick, 819200 * tick, 4096000 * tick, 16000000 * tick}
	for round := 0; round < in.Rounds && stopEarly() == false; round++ {
		// (a) concurrent records on one server
		s := authority.NewServer("192.0.2.1:53", authority.IPv4)
		k := 2 + rng.Intn(5)
		type smp struct {
			d   time.Duration
			ans bool
		}
		ss := make([]smp, k)
		for i := range ss {
			ss[i] = smp{samples[rng.Intn(len(samples))], rng.Intn(3) > 0}
		}
		if rng.Intn(2) == 0 {
			s.Observe(samples[rng.Intn(3)]) // a measured word to blend into
		}
		est0, m0, _, _ := s.VerifX10tpState()
		var wg sync.WaitGroup
		start := make(chan struct{})
		for i := range ss {
			wg.Add(1)
			go func(x smp) {
				defer wg.Done()
				<-start
				if x.ans {
					s.Observe(x.d)
				} else {
					s.ObserveNoAnswer(x.d)
				}
			}(ss[i])
		}
		close(start)
		wg.Wait()
		est, m, a, _ := s.VerifX10tpState()
		found := false
		permutations(k, func(p []int) bool {
			e, meas := int64(est0), m0
			var ans bool
			for _, i := range p {
				if meas {
					e = (e + int64(ss[i].d)) / 2
				} else {
					e = int64(ss[i].d)
				}
				meas, ans = true, ss[i].ans
			}
			found = e == int64(est) && ans == a
			return found
		})
		if !found || !m {
			report(res, "rank/record-lost", fmt.Sprintf("after %d concurrent records %v on a server whose estimate was %v (measured %v) its word is "+
				"(est %v, measured %v, answered %v): that is the blend of the samples in no order -- a sample was lost or counted twice "+
				"[seed %d round %d]", k, ss, est0, m0, est, m, a, vh.Seed(), round), map[string]any{"driver": "rank-stress", "seed": vh.Seed(), "round": round})
		}
		res.Count("rank_concurrent_records", k)

		// (b) sorts of private copies while records land: every result is a permutation of the list
		n := 3 + rng.Intn(10)
		all := make([]*authority.Server, n)
		for i := range all {
			all[i] = authority.NewServer(fmt.Sprintf("192.0.2.%d:53", i+1), authority.IPv4)
			if rng.Intn(3) > 0 {
				all[i].Observe(samples[rng.Intn(3)])
			}
			if rng.Intn(4) == 0 {
				all[i].VerifX10tpAge(authority.VerifX10tpStaleAfter + time.Minute)
			}
		}
		stop := make(chan struct{})
		var bad atomic.Value
		for g := 0; g < 2; g++ {
			wg.Add(1)
			go func(g int) {
				defer wg.Done()
				r := rand.New(rand.NewSource(int64(round*7 + g)))
				for {
					select {
					case <-stop:
						return
					default:
					}
					x := all[r.Intn(n)]
					if r.Intn(2) == 0 {
						x.Observe(samples[r.Intn(3)])
					} else {
						x.ObserveNoAnswer(samples[3])
					}
				}
			}(g)
		}
		var sw sync.WaitGroup
		for g := 0; g < 3; g++ {
			sw.Add(1)
			go func() {
				defer sw.Done()
				for it := 0; it < 300; it++ {
					list := append([]*authority.Server(nil), all...)
					pr := authority.Sort(list)
					seen := map[*authority.Server]int{}
					for _, s := range list {
						seen[s]++
					}
					okp := len(list) == n
					for _, s := range all {
						okp = okp && seen[s] == 1
					}
					if !okp {
						bad.Store(fmt.Sprintf("a concurrent Sort returned %v for a list of %d servers", idx(list, all), n))
						return
					}
					if pr != nil && (list[1] != pr) {
						bad.Store(fmt.Sprintf("a concurrent Sort returned a probe that is not in the second slot: %v", idx(list, all)))
						return
					}
				}
			}()
		}
		sw.Wait()
		close(stop)
		wg.Wait()
		if v := bad.Load(); v != nil {
			report(res, "rank/permutation", v.(string)+fmt.Sprintf(" [seed %d round %d]", vh.Seed(), round),
				map[string]any{"driver": "rank-stress", "seed": vh.Seed(), "round": round})
		}
		res.Count("rank_concurrent_sorts", 900)
	}
	res.Case("rank-stress")
}

// ---------------------------------------------------------------------------
// Resolver.lookup's fan-out

type udpUp struct {
	pc     net.PacketConn
	addr   string
	delay  atomic.Int64 // ns before the answer
	silent atomic.Bool
	hits   atomic.Int64
}

func newUDPUp() (*udpUp, error) {
	pc, err := net.ListenPacket("udp4", "127.0.0.1:0")
	if err != nil {
		return nil, err
	}
	u := &udpUp{pc: pc, addr: pc.LocalAddr().String()}
	go func() {
		buf := make([]byte, 4096)
		for {
			n, from, err := pc.ReadFrom(buf)
			if err != nil {
				return
			}
			m := new(dns.Msg)
			if m.Unpack(buf[:n]) != nil || len(m.Question) != 1 {
				continue
			}
			u.hits.Add(1)
			if u.silent.Load() {
				continue
			}
			r := new(dns.Msg)
			r.SetReply(m)
			r.Authoritative = true
			r.Answer = []dns.RR{&dns.A{Hdr: dns.RR_Header{Name: m.Question[0].Name, Rrtype: dns.TypeA, Class: dns.ClassINET, Ttl: 60},
				A: net.IPv4(192, 0, 2, 200)}}
			b, _ := r.Pack()
			d := time.Duration(u.delay.Load())
			go func() {
				if d > 0 {
					time.Sleep(d)
				}
				_, _ = pc.WriteTo(b, from)
			}()
		}
	}()
	return u, nil
}

type fanoutInput struct {
	Rounds int `json:"rounds"`
}

func runFanout(res *vh.Result, in *fanoutInput) {
	defer authority.VerifX10tpSetRandN(nil)
	cfg := new(config.Config)
	ups := make([]*udpUp, 4)
	for i := range ups {
		u, err := newUDPUp()
		if err != nil {
			res.Skip("fanout: %v", err)
			return
		}
		defer u.pc.Close()
		ups[i] = u
	}
	cfg.RootServers = []string{ups[0].addr}
	cfg.Maxdepth = 30
	cfg.Expire = 600
	cfg.CacheSize = 1024
	cfg.Timeout.Duration = 900 * time.Millisecond
	cfg.DNSSEC = "off"
	r := resolver.NewResolver(cfg)
	type scen struct {
		name   string
		r      []int // randN answers
		full   bool  // the probe slots are taken
		silent int   // a server that does not answer (0: none)
	}
	scens := []scen{
		{"probe-detached", []int{0, 0}, false, 0},
		{"hedge-cancelled", []int{3}, false, 0},
		{"probe-slots-full", []int{0, 0}, true, 0},
		{"silent-leader", []int{3}, false, 1},
	}
	for round := 0; round < in.Rounds; round++ {
		for _, sc := range scens {
			servers := &authority.Servers{Zone: "example."}
			for i, u := range ups {
				s := authority.NewServer(u.addr, authority.IPv4)
				servers.List = append(servers.List, s)
				u.hits.Store(0)
				u.silent.Store(sc.silent == i+1)
				u.delay.Store(0)
			}
			// recorded state: 1 fast, 2 slower, 3 and 4 never asked
			servers.List[0].Observe(5 * time.Millisecond)
			servers.List[1].Observe(60 * time.Millisecond)
			ups[1].delay.Store(int64(250 * time.Millisecond)) // the runner-up answers after the leader
			ups[2].delay.Store(int64(250 * time.Millisecond)) // so does the probe
			if sc.silent == 1 {
				ups[1].delay.Store(int64(30 * time.Millisecond))
			}
			_, _, _, last2 := servers.List[1].VerifX10tpState()
			_, _, _, last1 := servers.List[0].VerifX10tpState()
			p := &pin{queue: append([]int(nil), sc.r...)}
			authority.VerifX10tpSetRandN(p.fn)
			var release func()
			if sc.full {
				release = r.VerifX10tpFillProbeSlots()
			}
			req := new(dns.Msg)
			req.SetQuestion("www.example.", dns.TypeA)
			req.SetEdns0(1232, false)
			ctx, cancel := context.WithTimeout(context.Background(), 5*time.Second)
			t0 := time.Now()
			resp, err := r.VerifX10tpLookup(ctx, req, servers)
			took := time.Since(t0)
			cancel()
			time.Sleep(700 * time.Millisecond) // a detached probe finishes; a cancelled hedge would have, too
			if release != nil {
				release()
			}
			authority.VerifX10tpSetRandN(nil)
			hits := []int64{ups[0].hits.Load(), ups[1].hits.Load(), ups[2].hits.Load(), ups[3].hits.Load()}
			_, m3, _, _ := servers.List[2].VerifX10tpState()
			_, _, _, last2b := servers.List[1].VerifX10tpState()
			_, _, _, last1b := servers.List[0].VerifX10tpState()
			key := fmt.Sprintf("fanout:%s", sc.name)
			res.Case(key)
			res.Count("fanout_lookups", 1)
			if err != nil || resp == nil {
				res.DriftNote("fanout %s: lookup failed: %v (asked %v)", sc.name, err, hits)
				continue
			}
			switch sc.name {
			case "probe-detached":
				// model: order <<1,3,2,4>>, probe 3; asked {1,3}; the probe records although the leader answered first
				if hits[0] != 1 || hits[2] != 1 || hits[1] != 0 || hits[3] != 0 {
					res.DriftNote("fanout %s: asked %v, the model asks servers 1 and 3 once (lookup took %v)", sc.name, hits, took)
				}
				if hits[2] >= 1 && !m3 {
					report(res, "rank/probe-cancelled", fmt.Sprintf("the exploration probe to server 3 was sent but left no measurement: it was "+
						"cancelled by the leader's answer (asked %v, lookup took %v)", hits, took), map[string]any{"driver": "fanout", "scenario": sc.name})
				}
			case "hedge-cancelled":
				if hits[0] != 1 || hits[1] != 1 || hits[2] != 0 || hits[3] != 0 {
					res.DriftNote("fanout %s: asked %v, the model asks servers 1 and 2 once", sc.name, hits)
				}
				if last2b != last2 {
					res.DriftNote("fanout %s: the cancelled hedge to server 2 recorded a sample (lookup took %v)", sc.name, took)
				}
			case "probe-slots-full":
				if m3 {
					res.DriftNote("fanout %s: with every probe slot taken the second-slot attempt still recorded (lookup took %v)", sc.name, took)
				}
			case "silent-leader":
				if hits[1] < 1 {
					res.DriftNote("fanout %s: the runner-up was not asked although the leader is silent (asked %v)", sc.name, hits)
				}
				if last1b != last1 {
					res.DriftNote("fanout %s: the silent leader's cancelled attempt recorded a sample", sc.name)
				}
			}
		}
	}
	sort.Ints(nil)
}
