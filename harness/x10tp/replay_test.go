package x10tp

// spec -> code: behaviours of the SCHEDULED relation of TcpPool.tla (Sched =
// TRUE) forced on the real Resolver.exchange / TCPConnPool.
//
// The driver owns every move the model calls controllable: it starts the
// exchanges (goroutines calling Resolver.exchange through the shim), it is the
// upstream servers (every frame leaves on its command: the honest reply, a
// frame nobody asked for, a close, a close in mid-frame), it cancels request
// contexts, it ages the resident connection of a server (the shim moves
// lastUsed back under the pool lock), it runs a cleanup pass and it calls
// Close.  What the model calls internal (Get, dial, write, read + checks, Put
// or close, retry) is the code's own and runs between two moves; after every
// move the driver waits until the observable projection of the real state
// (who waits on which connection, which connections the client closed, what
// the pool holds, active, expired, who returned what) equals the model's
// stable state.  A projection that never gets there is drift (the behaviour
// is abandoned); the predicates are judged on what the code did.

import (
	"context"
	"fmt"
	"sort"
	"strings"
	"sync"
	"time"

	"github.com/miekg/dns"
	"github.com/semihalev/sdns/verifharness/vh"
)

type modelState struct {
	Pool    []int    `json:"pool"`
	Active  int      `json:"active"`
	Expired []bool   `json:"expired"`
	Stopped bool     `json:"stopped"`
	Cst     []string `json:"cst"`
	Peer    []string `json:"peer"`
	Pc      []string `json:"pc"`
	Conn    []int    `json:"conn"`
	Tries   []int    `json:"tries"`
	Res     []string `json:"res"`
	ID      []int    `json:"id"`
}

type step struct {
	Label string     `json:"label"`
	Op    string     `json:"op"`
	P     int        `json:"p"`
	S     int        `json:"s"`
	Q     string     `json:"q"`
	R0    int        `json:"r0"`
	C     int        `json:"c"`
	Z     bool       `json:"z"`
	I     int        `json:"i"`
	Short bool       `json:"short"` // the attempt this move launches is to die by its socket deadline
	Post  modelState `json:"post"`
}

type behaviour struct {
	ID      string   `json:"id"`
	Class   []string `json:"class"`
	PoolMax int      `json:"poolMax"`
	Procs   int      `json:"procs"`
	Steps   []step   `json:"steps"`
}

type replayInput struct {
	Behaviours []behaviour `json:"behaviours"`
	Parallel   int         `json:"parallel"`
	SettleMs   int         `json:"settleMs"`
}

// rproc is one exchange as the driver sees it.
type rproc struct {
	running bool
	done    bool
	ok      bool
	err     error
	resp    *dns.Msg
	id      uint16
	q       string
	srv     int
	cancel  context.CancelFunc
	gen     int
}

type replayer struct {
	res    *vh.Result
	b      *behaviour
	e      *env
	procs  []*rproc
	bind   map[int]*rconn // model connection -> real connection
	base   uint16
	settle time.Duration
	trail  []string
	nstart int

	pmu     sync.Mutex
	pending []pendingViolation
}

func (rp *replayer) rid(i int) uint16 { return rp.base + uint16(i) }

func (rp *replayer) replayObj(extra map[string]any) map[string]any {
	o := map[string]any{"driver": "pool-replay", "behaviour": rp.b, "trail": rp.trail}
	for k, v := range extra {
		o[k] = v
	}
	return o
}

// violate buffers what a behaviour's predicates found: the replay forces its schedule through real sockets and
// deadlines, so a finding is judged only when the same behaviour shows it again on a fresh environment (see the
// behaviour loop).
func (rp *replayer) violate(key, what string, extra any) {
	full := what + " [behaviour " + rp.b.ID + ", after " + strings.Join(tail(rp.trail, 6), " ; ") + "]"
	obj := rp.replayObj(map[string]any{"detail": extra})
	rp.pmu.Lock()
	rp.pending = append(rp.pending, pendingViolation{key: key, what: full, fn: func() { report(rp.res, key, full, obj) }})
	rp.pmu.Unlock()
}

type pendingViolation struct {
	key, what string
	fn        func()
}

func tail(s []string, n int) []string {
	if len(s) > n {
		return s[len(s)-n:]
	}
	return s
}

// holding lists the real connections on which the upstream holds an unanswered query of exchange id and which
// neither side has closed.  (Arrival times are not used: two upstream readers are not ordered.)
func (rp *replayer) holding(id uint16) []*rconn {
	var out []*rconn
	for _, c := range rp.e.conns {
		if c.clientClosed || c.serverClosed {
			continue
		}
		for _, a := range c.pend {
			if a.id == id {
				out = append(out, c)
				break
			}
		}
	}
	return out
}

// matches compares the observable projection with the model's stable state; "" when equal.  Called with
// e.mu held.  It also binds model connections to real ones the first time a query shows where it went.
func (rp *replayer) matches(m *modelState, snap map[string]snapEntry, active int) string {
	e := rp.e
	for p := 1; p <= rp.b.Procs; p++ {
		pr := rp.procs[p-1]
		switch m.Pc[p-1] {
		case "idle":
			if pr.running || pr.done {
				return fmt.Sprintf("exchange %d: the model has not started it", p)
			}
		case "done":
			if !pr.done {
				return fmt.Sprintf("exchange %d has not returned (model: returned %s)", p, m.Res[p-1])
			}
			if (m.Res[p-1] == "ok") != pr.ok {
				return fmt.Sprintf("exchange %d returned ok=%v err=%v (model: %s)", p, pr.ok, pr.err, m.Res[p-1])
			}
		case "wait":
			if pr.done {
				return fmt.Sprintf("exchange %d returned ok=%v err=%v (model: waiting on connection %d)", p, pr.ok, pr.err, m.Conn[p-1])
			}
			if !pr.running {
				return fmt.Sprintf("exchange %d is not running (model: waiting)", p)
			}
			hs := rp.holding(pr.id)
			if len(hs) == 0 {
				return fmt.Sprintf("exchange %d: no upstream holds an unanswered query of it", p)
			}
			mc := m.Conn[p-1]
			if b, ok := rp.bind[mc]; ok {
				found := false
				for _, rc := range hs {
					found = found || rc == b
				}
				if !found {
					return fmt.Sprintf("exchange %d: its query is on real connection %d, the model has it on connection %d = real %d", p, hs[0].k, mc, b.k)
				}
			} else {
				var fresh *rconn
				for _, rc := range hs {
					if rc.model == 0 && rc.srv == pr.srv {
						fresh = rc
					}
				}
				if fresh == nil {
					return fmt.Sprintf("exchange %d: its query is on real connection %d (model %d), the model dialled a new one (%d)", p, hs[0].k, hs[0].model, mc)
				}
				rp.bind[mc] = fresh
				fresh.model = mc
			}
		default:
			return fmt.Sprintf("model state is not stable: pc[%d]=%s", p, m.Pc[p-1])
		}
	}
	for mc, rc := range rp.bind {
		if rc.serverClosed {
			continue
		}
		want := m.Cst[mc-1] == "closed"
		if want != rc.clientClosed {
			return fmt.Sprintf("connection %d (real %d): closed by the client = %v, model says %s", mc, rc.k, rc.clientClosed, m.Cst[mc-1])
		}
	}
	n := 0
	for s := 1; s <= len(m.Pool); s++ {
		ent, have := snap[e.ups[s-1].name]
		mc := m.Pool[s-1]
		if (mc != 0) != have {
			return fmt.Sprintf("pool[%d]: resident=%v, model holds connection %d", s, have, mc)
		}
		if !have {
			continue
		}
		n++
		rc := e.byRem[ent.local]
		if rc == nil || rp.bind[mc] != rc {
			k := 0
			if rc != nil {
				k = rc.k
			}
			return fmt.Sprintf("pool[%d] holds real connection %d (%s), the model holds connection %d", s, k, ent.local, mc)
		}
		if ent.expired != m.Expired[s-1] {
			return fmt.Sprintf("pool[%d]: expired=%v, model %v", s, ent.expired, m.Expired[s-1])
		}
	}
	if len(snap) != n {
		return fmt.Sprintf("the pool holds %d connections, %d of them for the model's servers", len(snap), n)
	}
	if active != m.Active {
		return fmt.Sprintf("active=%d, model %d", active, m.Active)
	}
	return ""
}

type snapEntry struct {
	local   string
	expired bool
	root    bool
}

func (rp *replayer) snapshot() (map[string]snapEntry, int, int, int) {
	conns, active, maxc := rp.e.pool.VerifX10tpSnapshot()
	out := map[string]snapEntry{}
	for _, c := range conns {
		out[c.Server] = snapEntry{local: c.Local, expired: c.Expired, root: c.Root}
	}
	return out, active, maxc, len(conns)
}

// judge evaluates the state predicates on the real state (every settle, matched or not).
func (rp *replayer) judge() {
	e := rp.e
	snap, active, maxc, n := rp.snapshot()
	e.mu.Lock()
	defer e.mu.Unlock()
	// C10 single owner: the upstream holds unanswered queries of two exchanges that have not returned on one
	// connection
	for _, rc := range e.conns {
		if rc.clientClosed || rc.serverClosed {
			continue
		}
		var who []int
		for p, pr := range rp.procs {
			if !pr.running || pr.done {
				continue
			}
			for _, a := range rc.pend {
				if a.id == pr.id {
					who = append(who, p+1)
					break
				}
			}
		}
		if len(who) > 1 {
			rp.violate("c10/single-owner", fmt.Sprintf("exchanges %v are waiting for their replies on the same upstream "+
				"connection (real %d to upstream %d): a pooled connection has two owners", who, rc.k, rc.srv), nil)
		}
	}
	for name, ent := range snap {
		rc := e.byRem[ent.local]
		if rc == nil {
			continue
		}
		// C10: what is in the pool is owned by nobody
		for p, pr := range rp.procs {
			if pr.running && !pr.done && len(rc.pend) > 0 && rc.pend[len(rc.pend)-1].id == pr.id {
				rp.violate("c10/pooled-while-owned", fmt.Sprintf("the connection exchange %d is waiting on (real %d) is in the pool "+
					"for %s at the same time", p+1, rc.k, name), nil)
			}
		}
		// C10: a connection whose attempt ended without an accepted reply is never pooled
		if rc.dirty {
			rp.violate("c10/dirty-pooled", fmt.Sprintf("connection real %d to upstream %d is in the pool although an attempt on it "+
				"ended in an error / at its deadline / with the peer gone: whatever is still in flight on it would be read "+
				"by the next exchange", rc.k, rc.srv), nil)
		}
		if rc.clientClosed {
			rp.violate("c11/closed-pooled", fmt.Sprintf("the pool holds connection real %d which the client side has closed", rc.k), nil)
		}
	}
	if active != n {
		rp.violate("c11/active-count", fmt.Sprintf("active=%d but the pool holds %d connections", active, n), nil)
	}
	if n > maxc {
		rp.violate("c11/pool-bound", fmt.Sprintf("the pool holds %d connections, its bound is %d", n, maxc), nil)
	}
}

// settleTo waits for the projection to reach the model state.
func (rp *replayer) settleTo(m *modelState, extra time.Duration) string {
	deadline := time.Now().Add(rp.settle + extra)
	var why string
	for {
		snap, active, _, _ := rp.snapshot()
		rp.e.mu.Lock()
		why = rp.matches(m, snap, active)
		rp.e.mu.Unlock()
		if why == "" {
			return ""
		}
		left := time.Until(deadline)
		if left <= 0 {
			return why
		}
		if left > 20*time.Millisecond {
			left = 20 * time.Millisecond
		}
		select {
		case <-rp.e.notify:
		case <-time.After(left):
		}
	}
}

func (rp *replayer) start(st *step) {
	p := rp.procs[st.P-1]
	ctx, cancel := context.WithCancel(context.Background())
	rp.nstart++
	id := rp.rid(rp.nstart) // TcpPool.tla: id' = nextId, the number of this Start
	rp.e.mu.Lock()
	*p = rproc{running: true, id: id, q: st.Q, srv: st.S, cancel: cancel, gen: p.gen + 1}
	gen := p.gen
	rp.e.mu.Unlock()
	req := query(id, st.Q)
	srv := rp.e.server(st.S)
	go func() {
		resp, err := rp.e.r.VerifX10tpExchange(ctx, "tcp", req, srv, st.R0)
		rp.e.mu.Lock()
		if p.gen == gen {
			p.done, p.ok, p.err, p.resp = true, err == nil, err, resp
			// the connections its attempts ran on: all but the one the accepted reply came in on ended without a reply
			good := 0
			if err == nil {
				good = provenance(resp).conn
			}
			for _, c := range rp.e.conns {
				for _, a := range c.arrivals {
					if a.id == id && c.k != good {
						c.dirty = true
					}
				}
			}
		}
		rp.e.mu.Unlock()
		rp.e.bump()
	}()
}

// run replays one behaviour; returns false when it was abandoned (drift).
func (rp *replayer) run() bool {
	b := rp.b
	for i := range b.Steps {
		st := &b.Steps[i]
		rp.trail = append(rp.trail, st.Label)
		if st.Short {
			rp.e.r.VerifX10tpSetNetTimeout(shortTimeout)
		}
		extra := time.Duration(0)
		switch st.Op {
		case "Start":
			rp.start(st)
		case "SrvReply", "SrvInject", "SrvClose", "SrvCloseMid":
			rc := rp.bind[st.C]
			if rc == nil {
				rp.res.DriftNote("%s: %s on a connection the driver never saw", b.ID, st.Label)
				return false
			}
			done := false
			switch st.Op {
			case "SrvReply":
				_, done = rp.e.reply(rc, st.Z)
			case "SrvInject":
				done = rp.e.inject(rc, rp.rid(st.I), st.Q)
			case "SrvClose":
				done = rp.e.closeConn(rc, false)
			case "SrvCloseMid":
				done = rp.e.closeConn(rc, true)
			}
			if !done {
				rp.res.DriftNote("%s: upstream could not %s (nothing to answer / already closed)", b.ID, st.Label)
				return false
			}
		case "GiveUp":
			rp.procs[st.P-1].cancel()
		case "Deadline":
			extra = shortTimeout
		case "IdleTick":
			if !rp.e.pool.VerifX10tpAge(rp.e.ups[st.S-1].name, nil) {
				rp.res.DriftNote("%s: %s but the pool holds nothing for the server", b.ID, st.Label)
				return false
			}
		case "Cleanup":
			rp.e.pool.VerifX10tpCleanup()
		case "Stop":
			rp.e.pool.Close()
		default:
			rp.res.Skip("%s: unknown move %s", b.ID, st.Label)
			return false
		}
		why := rp.settleTo(&st.Post, extra)
		if st.Short {
			rp.e.r.VerifX10tpSetNetTimeout(longTimeout)
		}
		rp.judge()
		rp.judgeReturned()
		if why != "" {
			rp.res.DriftNote("%s step %d %s: %s", b.ID, i, st.Label, why)
			return false
		}
		rp.res.Count("moves", 1)
		rp.res.Count("move_"+st.Op, 1)
	}
	return true
}

// judgeReturned: C10 on every exchange that returned a reply.
func (rp *replayer) judgeReturned() {
	rp.e.mu.Lock()
	defer rp.e.mu.Unlock()
	for p, pr := range rp.procs {
		if !pr.done || pr.gen < 0 {
			continue
		}
		if pr.ok {
			if why := ownReply(pr.resp, pr.id, pr.q, pr.srv); why != "" {
				rp.violate("c10/own-reply", fmt.Sprintf("exchange %d (id %d, %s, upstream %d) was handed a reply that is not its own: %s",
					p+1, pr.id, pr.q, pr.srv, why), map[string]any{"reply": pr.resp.String()})
			}
			if why := rightUpstream(pr.resp, pr.srv); why != "" {
				rp.violate("pool/foreign-server", fmt.Sprintf("exchange %d (upstream %d): %s", p+1, pr.srv, why), nil)
			}
			rp.res.Count("replies_checked", 1)
		} else if pr.resp != nil {
			rp.violate("c10/reply-with-error", fmt.Sprintf("exchange %d returned an error (%v) together with a reply", p+1, pr.err), nil)
		}
	}
}

// finish ends what is still running, stops the pool and checks that no socket is left behind.
func (rp *replayer) finish(complete bool) (quiet bool) {
	for _, pr := range rp.procs {
		if pr.cancel != nil {
			pr.cancel()
		}
	}
	deadline := time.Now().Add(rp.settle + shortTimeout)
	for {
		all := true
		rp.e.mu.Lock()
		for _, pr := range rp.procs {
			if pr.running && !pr.done {
				all = false
			}
		}
		rp.e.mu.Unlock()
		if all || time.Now().After(deadline) {
			quiet = all
			if !all && complete {
				rp.violate("c11/exchange-returns", "an exchange did not return after its context was cancelled", nil)
			}
			break
		}
		select {
		case <-rp.e.notify:
		case <-time.After(20 * time.Millisecond):
		}
	}
	rp.judgeReturned()
	rp.e.pool.Close()
	if !complete || !quiet {
		return quiet
	}
	// C11: after Close and with every exchange returned, every socket the client opened is closed
	deadline = time.Now().Add(rp.settle)
	for {
		var open []int
		rp.e.mu.Lock()
		for _, c := range rp.e.conns {
			if !c.serverClosed && !c.clientClosed && len(c.arrivals) > 0 {
				open = append(open, c.k)
			}
		}
		rp.e.mu.Unlock()
		if len(open) == 0 {
			break
		}
		if time.Now().After(deadline) {
			sort.Ints(open)
			rp.violate("c11/socket-leak", fmt.Sprintf("after every exchange returned and the pool was closed, the client still holds "+
				"upstream connections %v open", open), nil)
			break
		}
		select {
		case <-rp.e.notify:
		case <-time.After(20 * time.Millisecond):
		}
	}
	snap, active, _, n := rp.snapshot()
	if n != 0 || active != 0 {
		rp.violate("c11/close-empties", fmt.Sprintf("after Close the pool holds %d connections, active=%d (%v)", n, active, snap), nil)
	}
	return quiet
}

func runReplay(res *vh.Result, in *replayInput) {
	par := in.Parallel
	if par <= 0 {
		par = 4
	}
	settle := time.Duration(in.SettleMs) * time.Millisecond
	if settle <= 0 {
		settle = 6 * time.Second
	}
	jobs := make(chan *behaviour)
	var wg sync.WaitGroup
	var envs int
	var envMu sync.Mutex
	for w := 0; w < par; w++ {
		wg.Add(1)
		go func(w int) {
			defer wg.Done()
			var e *env
			var sig string
			for b := range jobs {
				bsig := fmt.Sprint(b.Class, b.PoolMax)
				if e != nil && sig != bsig {
					e.close()
					e = nil
				}
				if e == nil {
					var err error
					if e, err = newEnv(b.Class, b.PoolMax); err != nil {
						res.Skip("%s: environment: %v", b.ID, err)
						e = nil
						continue
					}
					sig = bsig
					envMu.Lock()
					envs++
					envMu.Unlock()
				}
				var first []pendingViolation
				for attempt := 0; attempt < 2; attempt++ {
					if e == nil {
						var err error
						if e, err = newEnv(b.Class, b.PoolMax); err != nil {
							res.Skip("%s: environment: %v", b.ID, err)
							e = nil
							break
						}
						sig = bsig
					}
					rp := &replayer{res: res, b: b, e: e, bind: map[int]*rconn{}, settle: settle,
						base: uint16(1000 + (int(vh.Seed())*7919+len(b.ID)*131+w*17+attempt*4099)%50000)}
					for p := 0; p < b.Procs; p++ {
						rp.procs = append(rp.procs, &rproc{})
					}
					e.viol = rp.violate
					ok := rp.run()
					quiet := rp.finish(ok)
					rp.pmu.Lock()
					found := rp.pending
					rp.pending = nil
					rp.pmu.Unlock()
					if attempt == 0 {
						if ok {
							res.Case("pool:" + strings.Join(rp.trail, ";"))
							res.Count("behaviours_completed", 1)
						} else {
							res.Count("behaviours_abandoned", 1)
						}
						res.Count("behaviours", 1)
					}
					if quiet && len(found) == 0 {
						e.reset()
					} else {
						e.close() // an exchange is still out, or something was flagged: never reuse this resolver
						e = nil
					}
					if attempt == 0 && len(found) > 0 {
						// judged only when the same behaviour shows it again on a fresh environment
						first = found
						res.Count("behaviours_flagged_rerun", 1)
						continue
					}
					if attempt == 1 {
						if len(found) > 0 {
							for _, f := range found {
								f.fn()
							}
						} else {
							res.Count("behaviours_flagged_not_reproduced", 1)
							res.DriftNote("behaviour %s: flagged once (%s: %s), not shown again by the same behaviour on a fresh environment - not judged",
								b.ID, first[0].key, first[0].what)
						}
					}
					break
				}
			}
			if e != nil {
				e.close()
			}
		}(w)
	}
	for i := range in.Behaviours {
		jobs <- &in.Behaviours[i]
	}
	close(jobs)
	wg.Wait()
	_ = envs
}
