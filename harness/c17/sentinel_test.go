package c17

// Gap C17-r3-2: the sentinel family of Gate.tla (MC_Gate.tla: SNets, SSrcs, SCovers, SAcls).
//
// middleware.responseWriter.Reset takes a *net.UDPAddr / *net.TCPAddr peer 127.0.0.255 (either byte form) with
// source port 0 for the "sentinel" of a synthesised internal query; such a request skips the access list, the client
// limiter, reflex and the views.  The main family of the gate replay never used a loopback source (usable() in
// gate_test.go), so neither the sentinel address nor the port was ever a dimension.  Here networks and sources are
// concrete: the addresses at and around the sentinel, both ports, every transport -- on the writer doubles of the
// handler-level and default-chain replay (gate_test.go, Family = "sent") and, for what real sockets can carry, on
// the running UDP and TCP listeners of a real server.Server (TestGateSockets; a raw socket sends the datagram with
// source port 0).
//
// Verdicts are the gate's own: a source outside the access list gets no reply and reaches nothing behind the gate;
// a client inside a view's networks is answered by the first such view.

import (
	"context"
	"encoding/binary"
	"fmt"
	"math/rand"
	"net"
	"net/netip"
	"os"
	"path/filepath"
	"sort"
	"strings"
	"sync"
	"syscall"
	"testing"
	"time"

	"github.com/miekg/dns"
	"github.com/semihalev/sdns/server"
	"github.com/semihalev/sdns/verifharness/vh"
)

var sentinelAddr = netip.MustParseAddr("127.0.0.255")

// concrete renderings of the network classes (host bits set in some: the access list masks them away)
var sentNets = map[string][]string{
	"all4":   {"0.0.0.0/0", "127.0.0.255/0"},
	"lo8":    {"127.0.0.0/8", "127.0.0.255/8"},
	"lolow":  {"127.0.0.0/25", "127.0.0.1/25", "127.0.0.127/25"},
	"sent32": {"127.0.0.255/32"},
	"near32": {"127.0.0.254/32"},
	"hi31":   {"127.0.0.254/31", "127.0.0.255/31"},
	"all6":   {"::/0", "::0/0"},
	// unparsable strings that NAME the sentinel (or everything): none may admit anybody
	"bad": {"127.0.0.255", "127.0.0.255/33", "127.0.0.0/8/8", "127.0.0.255/", "127.0.0.0-127.0.0.255", "0.0.0.0/-0", "127.0.0.255/32 "},
}

var sentSrcs = map[string]struct {
	addr  string
	forms []int
}{
	"lo1":     {"127.0.0.1", []int{4, 16}},
	"near":    {"127.0.0.254", []int{4, 16}},
	"sent":    {"127.0.0.255", []int{4, 16}},
	"mapsent": {"::ffff:127.0.0.255", []int{16}},
	"ext":     {"198.51.100.7", []int{4, 16}},
	"v6x":     {"2001:db8::17", []int{16}},
}

func newConcFor(r *rand.Rand, fam string) *conc {
	if fam == "sent" {
		return &conc{sent: true, r: r}
	}
	return newConc(r)
}

func (c *conc) sentNet(class string) string {
	opts := sentNets[class]
	if len(opts) == 0 {
		panic("unknown sentinel-family net class " + class)
	}
	for tries := 0; tries < 20; tries++ {
		s := opts[c.r.Intn(len(opts))]
		if class != "bad" || unparsable(s) {
			return s
		}
	}
	return "not-a-cidr"
}

func (c *conc) sentCfg(o *gOutcome) concCfg {
	var cc concCfg
	acl := append([]string(nil), o.Acl...)
	sort.Strings(acl)
	c.r.Shuffle(len(acl), func(i, j int) { acl[i], acl[j] = acl[j], acl[i] })
	for _, n := range acl {
		cc.AccessList = append(cc.AccessList, c.sentNet(n))
		if n != "bad" && c.r.Intn(5) == 0 {
			cc.AccessList = append(cc.AccessList, c.sentNet(n)) // duplicate, rendered afresh
		}
	}
	for i, v := range o.Views {
		cv := concView{Zone: fmt.Sprintf("view%d", i+1), Networks: []string{c.sentNet(v.Net)}, Has: v.Has}
		if c.r.Intn(4) == 0 {
			cv.Networks = append(cv.Networks, c.sentNet("bad"))
		}
		if v.Has {
			cv.Answers = []string{fmt.Sprintf("*.%s 60 IN A 10.17.0.%d", viewZone, i+1)}
		} else {
			cv.Answers = []string{fmt.Sprintf("*.elsewhere.test. 60 IN A 10.17.9.%d", i+1)}
		}
		cc.Views = append(cc.Views, cv)
	}
	return cc
}

func (c *conc) sentReq(q *gReq, n int) concReq {
	s, ok := sentSrcs[q.Src]
	if !ok {
		panic("unknown sentinel-family source class " + q.Src)
	}
	rq := concReq{Src: s.addr, Form: s.forms[c.r.Intn(len(s.forms))], Port: 1024 + c.r.Intn(60000), Proto: q.Tr,
		Born: q.Born, Qtype: dns.TypeA, Class: dns.ClassINET}
	if q.Port == "zero" {
		rq.Port = 0
	}
	if q.Ans == "cache" {
		rq.Qname = warmName
	} else {
		rq.Qname = fmt.Sprintf("cold%d.%s", n, viewZone)
	}
	// internal/mock.Writer (its own copy of the sentinel test; what ServeHTTP hands the chain for DoH)
	if ((rq.Proto == "udp" || rq.Proto == "tcp") && c.r.Intn(4) == 0) || (rq.Proto == "doh" && c.r.Intn(2) == 0) {
		rq.Mock = true
		rq.Form = 16
	}
	return rq
}

func (rq *concReq) isSentinelPort0() bool {
	a, err := netip.ParseAddr(rq.Src)
	return err == nil && rq.Port == 0 && a.Unmap() == sentinelAddr
}

// ---- real sockets ---------------------------------------------------------------------------------------

// sockClient is one client socket with a reader collecting whatever comes back.
type sockClient struct {
	network string // "udp" | "tcp" | "raw"
	udp     *net.UDPConn
	tcp     net.Conn
	raw     int
	dst     *net.UDPAddr
	mu      sync.Mutex
	replies [][]byte
	done    chan struct{}
}

func (s *sockClient) got() [][]byte {
	s.mu.Lock()
	defer s.mu.Unlock()
	return append([][]byte(nil), s.replies...)
}

func (s *sockClient) add(b []byte) {
	s.mu.Lock()
	s.replies = append(s.replies, append([]byte(nil), b...))
	s.mu.Unlock()
}

func dialSock(network string, src net.IP, port0 bool, udpAddr, tcpAddr string) (*sockClient, error) {
	s := &sockClient{network: network, done: make(chan struct{})}
	switch {
	case network == "udp" && port0:
		// a datagram with source port 0 needs a raw socket (CAP_NET_RAW); the kernel writes the IP header
		// (source = the bound address), the UDP header is ours
		dst, err := net.ResolveUDPAddr("udp4", udpAddr)
		if err != nil {
			return nil, err
		}
		fd, err := syscall.Socket(syscall.AF_INET, syscall.SOCK_RAW, syscall.IPPROTO_UDP)
		if err != nil {
			return nil, fmt.Errorf("raw socket: %w", err)
		}
		var sa syscall.SockaddrInet4
		copy(sa.Addr[:], src.To4())
		if err := syscall.Bind(fd, &sa); err != nil {
			_ = syscall.Close(fd)
			return nil, fmt.Errorf("raw bind %s: %w", src, err)
		}
		_ = syscall.SetNonblock(fd, true)
		s.network, s.raw, s.dst = "raw", fd, dst
		go func() { // datagrams from the server's port to the bound address (none can be delivered to port 0)
			defer close(s.done)
			buf := make([]byte, 4096)
			for {
				n, _, err := syscall.Recvfrom(fd, buf, 0)
				if err == syscall.EAGAIN || err == syscall.EINTR {
					time.Sleep(time.Millisecond)
					continue
				}
				if err != nil {
					return
				}
				if n >= 28 {
					ihl := int(buf[0]&0x0f) * 4
					if n >= ihl+8 && int(binary.BigEndian.Uint16(buf[ihl:])) == dst.Port {
						s.add(buf[ihl+8 : n])
					}
				}
			}
		}()
	case network == "udp":
		dst, err := net.ResolveUDPAddr("udp4", udpAddr)
		if err != nil {
			return nil, err
		}
		c, err := net.DialUDP("udp4", &net.UDPAddr{IP: src}, dst)
		if err != nil {
			return nil, err
		}
		s.udp = c
		go func() {
			defer close(s.done)
			buf := make([]byte, 4096)
			for {
				n, err := c.Read(buf)
				if err != nil {
					return
				}
				s.add(buf[:n])
			}
		}()
	case network == "tcp":
		d := &net.Dialer{Timeout: 2 * time.Second, LocalAddr: &net.TCPAddr{IP: src}}
		c, err := d.Dial("tcp4", tcpAddr)
		if err != nil {
			return nil, err
		}
		s.tcp = c
		go func() {
			defer close(s.done)
			var l [2]byte
			for {
				if _, err := readFull(c, l[:]); err != nil {
					return
				}
				b := make([]byte, binary.BigEndian.Uint16(l[:]))
				if _, err := readFull(c, b); err != nil {
					return
				}
				s.add(b)
			}
		}()
	default:
		return nil, fmt.Errorf("no real socket for transport %q", network)
	}
	return s, nil
}

func readFull(c net.Conn, b []byte) (int, error) {
	n := 0
	for n < len(b) {
		k, err := c.Read(b[n:])
		n += k
		if err != nil {
			return n, err
		}
	}
	return n, nil
}

func (s *sockClient) send(q []byte) error {
	switch s.network {
	case "udp":
		_, err := s.udp.Write(q)
		return err
	case "tcp":
		b := make([]byte, 2+len(q))
		binary.BigEndian.PutUint16(b, uint16(len(q)))
		copy(b[2:], q)
		_, err := s.tcp.Write(b)
		return err
	case "raw":
		pkt := make([]byte, 8+len(q))
		binary.BigEndian.PutUint16(pkt[0:], 0) // source port 0
		binary.BigEndian.PutUint16(pkt[2:], uint16(s.dst.Port))
		binary.BigEndian.PutUint16(pkt[4:], uint16(len(pkt)))
		binary.BigEndian.PutUint16(pkt[6:], 0) // no checksum (IPv4)
		copy(pkt[8:], q)
		var sa syscall.SockaddrInet4
		copy(sa.Addr[:], s.dst.IP.To4())
		return syscall.Sendto(s.raw, pkt, 0, &sa)
	}
	return fmt.Errorf("unknown socket kind")
}

func (s *sockClient) close() {
	switch s.network {
	case "udp":
		_ = s.udp.Close()
	case "tcp":
		_ = s.tcp.Close()
	case "raw":
		_ = syscall.Close(s.raw)
	}
	select {
	case <-s.done:
	case <-time.After(200 * time.Millisecond):
	}
}

// sockEnv is a running server.Server over the default chain of a defaultEnv.
type sockEnv struct {
	*env
	srv        *server.Server
	cancel     context.CancelFunc
	udp, tcp   string
	port0Drops int // port-0 datagrams in a row that never reached the chain
}

func newSockEnv(c *concCfg, scratch string) (*sockEnv, error) {
	e := defaultEnv(c, scratch)
	scfg := c.config(scratch)
	srv := server.New(scfg)
	ctx, cancel := context.WithCancel(context.Background())
	if err := srv.Run(ctx); err != nil {
		cancel()
		e.cleanup()
		return nil, err
	}
	se := &sockEnv{env: e, srv: srv, cancel: cancel}
	deadline := time.Now().Add(5 * time.Second)
	for time.Now().Before(deadline) {
		se.udp, se.tcp = server.VerifC17Addrs(srv)
		if se.udp != "" && se.tcp != "" && srv.HasListener("udp") && srv.HasListener("tcp") {
			return se, nil
		}
		time.Sleep(2 * time.Millisecond)
	}
	se.stop()
	return nil, fmt.Errorf("listeners did not come up (udp=%q tcp=%q)", se.udp, se.tcp)
}

func (se *sockEnv) stop() {
	se.cancel()
	deadline := time.Now().Add(5 * time.Second)
	for !se.srv.Stopped() && time.Now().Before(deadline) {
		time.Sleep(2 * time.Millisecond)
	}
	se.srv.Stop()
	se.env.cleanup()
}

// exchange sends one query from (src, port class) over a real socket and waits until the server has gone quiet:
// the front probe saw the query (by its DNS message ID) and nothing about it -- probe counts, bytes received -- moved
// for 8 ms.  A datagram with source port 0 that does not show up is taken as dropped by the listener (what a repaired
// listener does); the exchanges around it prove the listener alive.
func (se *sockEnv) exchange(rq *concReq) (replies [][]byte, d map[string]int, err error) {
	raw, err := rq.msg().Pack()
	if err != nil {
		return nil, nil, err
	}
	sc, err := dialSock(rq.Proto, rq.ip().To4(), rq.Port == 0, se.udp, se.tcp)
	if err != nil {
		return nil, nil, err
	}
	defer sc.close()
	before := se.snapshotID(rq.ID) // (an internal warm-up query draws a random ID: never assume the slate is clean)
	if err := sc.send(raw); err != nil {
		return nil, nil, fmt.Errorf("send: %w", err)
	}
	patience := 2 * time.Second
	if rq.Port == 0 {
		patience = 150 * time.Millisecond
		if se.port0Drops >= 3 {
			patience = 20 * time.Millisecond // this listener drops them, every time
		}
	}
	sig := func() string { return fmt.Sprintf("%v|%d", se.snapshotID(rq.ID), len(sc.got())) }
	entered := false
	for t0, resent := time.Now(), false; time.Since(t0) < patience; {
		if se.probes["front"].ids.get(rq.ID) != before["front"] {
			entered = true
			break
		}
		if !resent && sc.network == "udp" && time.Since(t0) > 500*time.Millisecond {
			resent = true
			_ = sc.send(raw) // a datagram may be shed by a busy reader
		}
		time.Sleep(200 * time.Microsecond)
	}
	if !entered {
		if rq.Port == 0 {
			se.port0Drops++
			return nil, nil, errDropped
		}
		return nil, nil, errLost
	}
	if rq.Port == 0 {
		se.port0Drops = 0
	}
	last, stable := sig(), 0
	for t0 := time.Now(); stable < 8 && time.Since(t0) < time.Second; {
		time.Sleep(time.Millisecond)
		if s := sig(); s == last {
			stable++
		} else {
			last, stable = s, 0
		}
	}
	return sc.got(), delta(before, se.snapshotID(rq.ID)), nil
}

var errDropped = fmt.Errorf("the port-0 datagram never reached the chain")
var errLost = fmt.Errorf("the query never reached the chain")

func judgeSocket(res *vh.Result, se *sockEnv, c *concCfg, rq *concReq, model *gOutcome) {
	src := netip.MustParseAddr(rq.Src)
	allowed, clear := c.allowed(src)
	fm, clear2 := c.firstMatch(src)
	if !clear || !clear2 {
		res.Skip("gate oracle ambiguous for %s in %+v", rq.Src, c)
		return
	}
	if model != nil && model.Allowed != allowed {
		res.Skip("harness: model says allowed=%v, naive scan says %v for %s in %q", model.Allowed, allowed, rq.Src, c.AccessList)
		return
	}
	replies, d, err := se.exchange(rq)
	if err == errLost {
		res.Count("socket_lost", 1)
		return
	}
	if err == errDropped {
		// nothing ran, nothing came back: the statement holds for this datagram whatever the access list says
		res.Count("port0_dropped_by_listener", 1)
		if model != nil && model.Internal {
			res.DriftNote("model (as built): a datagram from %s:0 reaches the chain as an internal query; this listener dropped it", rq.Src)
		}
		return
	}
	if err != nil {
		if rq.Port == 0 {
			res.Count("raw_unavailable", 1)
			res.DriftNote("no raw socket for the port-0 datagram: %v", err)
			return
		}
		res.Skip("socket exchange %+v: %v", rq, err)
		return
	}
	res.Count("socket_requests", 1)
	res.Count("socket_"+rq.Proto, 1)
	port0 := rq.isSentinelPort0()
	rp := gateReplay{Kind: "gate", Level: "sockets", Cfg: *c, Req: *rq, Warm: []string{warmName}, Model: model}
	key := func(what string) string {
		if port0 {
			return "gate|sentinel-port0|sockets"
		}
		return fmt.Sprintf("gate|sockets|%s|acl=%s|views=%d|src=%s|port0=%v|%s|%s", what, strings.Join(c.AccessList, ","), len(c.Views),
			rq.Src, rq.Port == 0, rq.Proto, rq.Qname)
	}
	desc := fmt.Sprintf("[real %s socket to the running listener, source %s, source port %s, access list %q, question %s]",
		rq.Proto, rq.Src, map[bool]string{true: "0 (raw socket)", false: "ephemeral"}[rq.Port == 0], c.AccessList, rq.Qname)
	if port0 {
		res.Count("sentinel_port0_udp", 1)
		desc += " {a datagram from 127.0.0.255 with source port 0 is taken for a resolver-internal sub-query}"
	}
	var rv replyView
	if len(replies) > 0 {
		m := new(dns.Msg)
		if err := m.Unpack(replies[0]); err != nil {
			rv = replyView{n: len(replies), from: "other", text: "undecodable reply"}
		} else {
			rv = classifyMsg(m)
			rv.n = len(replies)
		}
	}
	if !allowed {
		res.Count("denied", 1)
		if rv.n > 0 {
			violate(res, key("denied-replied"), "a source outside the access list got a reply ("+rv.text+") "+desc, rp)
		}
		for _, k := range behindGate {
			if d[k] != 0 && !se.ahead[k] {
				violate(res, key("denied-downstream-"+k), fmt.Sprintf("a denied query reached %s behind the gate %s", k, desc), rp)
			}
		}
		return
	}
	res.Count("allowed", 1)
	if d["afterACL"] == 0 {
		violate(res, key("allowed-dropped"), fmt.Sprintf("a source inside the access list was stopped at the gate %s", desc), rp)
		return
	}
	wantView := 0
	if fm != 0 && c.Views[fm-1].Has {
		wantView = fm
	}
	if rq.Port == 0 && !port0 {
		return // nothing can be delivered to port 0: the reply is not there to be classified
	}
	switch {
	case port0 && wantView != 0 && d["tail"]+d["beforeCache"] != 0:
		// the reply cannot be delivered, but the view that has the record answers ahead of the cache
		violate(res, key("view-skipped"), fmt.Sprintf("the first matching view %d has the record but the query went on to the cache %s", wantView, desc), rp)
	case port0:
	case rv.from == "views" && rv.view != wantView:
		violate(res, key("wrong-view"), fmt.Sprintf("view %d answered, the first view containing the client is %d %s views=%+v", rv.view, fm, desc, c.Views), rp)
	case rv.from != "views" && wantView != 0:
		violate(res, key("view-skipped"), fmt.Sprintf("the first matching view %d has the record but did not answer (reply: %s) %s views=%+v",
			wantView, rv.text, desc, c.Views), rp)
	case rv.n == 0:
		res.DriftNote("an allowed query was not answered %s", desc)
	}
	if rv.from == "views" {
		res.Count("view_answers", 1)
	}
}

// socketCases: what a real socket can carry -- the IPv4 loopback sources, udp and tcp, once per (source, transport,
// port, answerer); the born dimension does not exist on a socket.
func socketCase(o *gOutcome) bool {
	if o.Req.Kind != "client" || o.Req.Born != "wire" {
		return false
	}
	switch o.Req.Src {
	case "lo1", "near", "sent":
	default:
		return false
	}
	if o.Req.Port == "zero" {
		return o.Req.Tr == "udp"
	}
	return o.Req.Tr == "udp" || o.Req.Tr == "tcp"
}

func runSocketConfig(res *vh.Result, cn *conc, cc *concCfg, cases []*gOutcome, scratch string, n *int) {
	se, err := newSockEnv(cc, scratch)
	if err != nil {
		res.Skip("server for %+v: %v", cc, err)
		return
	}
	defer se.stop()
	res.Count("socket_servers", 1)
	if _, err := se.internal("query", warmName); err != nil {
		res.Skip("warming %s: %v", warmName, err)
		return
	}
	for _, o := range cases {
		if !socketCase(o) {
			continue
		}
		*n++
		rq := cn.req(&o.Req, *n, o.Req.Tr)
		rq.Mock, rq.Form, rq.ID = false, 4, uint16(0x2000+*n)
		judgeSocket(res, se, cc, &rq, o)
		res.Case(fmt.Sprintf("s:%s|%s|%s|%s|%s", cfgKey(o), o.Req.Src, o.Req.Tr, o.Req.Port, o.Req.Ans))
	}
}

// TestGateSockets: the sentinel family on the running UDP and TCP listeners.
func TestGateSockets(t *testing.T) {
	var in gateInput
	vh.Input(t, &in)
	res := vh.NewResult()
	defer res.Write(t)
	quiet()
	r := vh.Rand()
	scratch := vh.Scratch(t)
	_ = os.MkdirAll(filepath.Join(scratch, "c17-blocklists"), 0o755)
	if c, err := net.ListenUDP("udp4", &net.UDPAddr{IP: net.IPv4(127, 0, 0, 255)}); err != nil {
		res.Skip("this host cannot source traffic from 127.0.0.255: %v", err)
		return
	} else {
		_ = c.Close()
	}
	keys, groups := groupCases(&in)
	n := 0
	for _, k := range keys {
		o0 := groups[k][0]
		// every access list without views; the views under the access list {lo8}, which admits the three loopback
		// sources (quick) / under every access list the model pairs them with (thorough)
		if len(o0.Views) > 0 && !vh.Thorough() && !(len(o0.Acl) == 1 && o0.Acl[0] == "lo8") {
			continue
		}
		cn := newConcFor(r, "sent")
		cc := cn.cfg(o0)
		runSocketConfig(res, cn, &cc, groups[k], scratch, &n)
	}
	res.Sample(map[string]any{"level": "sockets", "configs": len(keys)})
}
