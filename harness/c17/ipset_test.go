package c17

// Spec -> code replay for IpSet.tla (property C17, membership half).
//
// Every case is a list of model entries (family, W-bit address, length, or
// "unparsable") produced by TLC (tla/IpSet/Cases.tla: all ordered lists of
// <= 2 entries; Sim_*.cfg: simulated Add/Compile/Query behaviours with 3
// entries) plus what the model's Contains answers.  A case is scaled into
// real IPv4 / IPv6 space at several bit offsets (a "placement": the W-bit
// window sits at bit `off`, the bits above it are a fixed base, the bits
// below are host-bit noise), rendered as CIDR strings, compiled with the
// real ipset.New and queried with the real Contains / ContainsIP.
//
// Verdict: the real answer against the naive per-prefix scan (two
// independent ones: netip.Prefix.Contains after Unmap, and net.IPNet.Contains;
// sources on which the two disagree -- IPv4-mapped *prefix entries* -- carry
// no verdict).  The model's answer is cross-checked against the oracle; a
// disagreement there is a harness fault (Skip => exit 2), never a violation.

import (
	"encoding/binary"
	"fmt"
	"math/rand"
	"net"
	"net/netip"
	"strings"
	"testing"

	"github.com/semihalev/sdns/internal/ipset"
	"github.com/semihalev/sdns/verifharness/vh"
)

type mEntry struct {
	Bad bool `json:"bad"`
	Fam int  `json:"fam"`
	A   int  `json:"a"`
	L   int  `json:"l"`
}

type mCase struct {
	List    []mEntry `json:"list"`
	N4      int      `json:"n4"`
	N6      int      `json:"n6"`
	Exp4    []bool   `json:"exp4"`
	Exp6    []bool   `json:"exp6"`
	Queries [][3]int `json:"queries"` // fam, a, got (sim behaviours)
}

type ipsetInput struct {
	HB         int     `json:"hb"`
	LB         int     `json:"lb"`
	V4         int     `json:"v4"`
	MapPat     int     `json:"mapPat"`
	Cases      []mCase `json:"cases"`
	Placements int     `json:"placements"`
	Tag        string  `json:"tag"`
}

// maxViolations caps what one driver run reports: every reported violation becomes a replay file.
const maxViolations = 4

func violate(res *vh.Result, key, what string, replay any) {
	res.Count("violations_seen", 1)
	if res.NViolations() < maxViolations {
		res.Violate(key, what, replay)
	}
}

// ---- bit helpers (bit 0 = most significant bit of the address) -------------

func setBits(b []byte, off, width int, val uint64) {
	for i := 0; i < width; i++ {
		idx := off + i
		if (val>>(uint(width-1-i)))&1 == 1 {
			b[idx/8] |= 1 << uint(7-idx%8)
		} else {
			b[idx/8] &^= 1 << uint(7-idx%8)
		}
	}
}

// fillFrom sets every bit from index `from` to the end: mode 0 zeros, 1 ones, 2 random.
func fillFrom(b []byte, from int, mode int, r *rand.Rand) {
	for idx := from; idx < len(b)*8; idx++ {
		bit := mode == 1
		if mode == 2 {
			bit = r.Intn(2) == 1
		}
		if bit {
			b[idx/8] |= 1 << uint(7-idx%8)
		} else {
			b[idx/8] &^= 1 << uint(7-idx%8)
		}
	}
}

func incBytes(b []byte) ([]byte, bool) {
	o := append([]byte(nil), b...)
	for i := len(o) - 1; i >= 0; i-- {
		o[i]++
		if o[i] != 0 {
			return o, true
		}
	}
	return nil, false
}

func decBytes(b []byte) ([]byte, bool) {
	o := append([]byte(nil), b...)
	for i := len(o) - 1; i >= 0; i-- {
		o[i]--
		if o[i] != 0xff {
			return o, true
		}
	}
	return nil, false
}

func addrOf(b []byte) netip.Addr {
	a, ok := netip.AddrFromSlice(b)
	if !ok {
		panic("bad address bytes")
	}
	return a
}

func mapped(a netip.Addr) netip.Addr { // IPv4 -> ::ffff:a.b.c.d
	return netip.AddrFrom16(a.As16())
}

// ---- placements -------------------------------------------------------------

type placement struct {
	Name  string `json:"name"`
	Off4  int    `json:"off4"`
	Base4 []byte `json:"base4"`
	Off6  int    `json:"off6"`
	Base6 []byte `json:"base6"`
}

func baseBytes(n int, mode int, r *rand.Rand) []byte {
	b := make([]byte, n)
	fillFrom(b, 0, mode, r)
	return b
}

// catalogue lists the placements every run must exercise; more are drawn at random.
func catalogue(in *ipsetInput, r *rand.Rand) []placement {
	w6 := in.HB + in.LB
	v4 := in.V4
	var out []placement
	add := func(name string, off4, m4, off6, m6 int) {
		out = append(out, placement{Name: name, Off4: off4, Base4: baseBytes(4, m4, r), Off6: off6, Base6: baseBytes(16, m6, r)})
	}
	add("top(/0..)", 0, 2, 0, 2)                    // /0 and the top of both spaces
	add("bottom(../32,/128)", 32-v4, 2, 128-w6, 2)  // /32, /128 edges
	add("bottom-zeros", 32-v4, 0, 128-w6, 0)        // lo-1 runs off the bottom of the space
	add("bottom-ones", 32-v4, 1, 128-w6, 1)         // hi+1 runs off the top of the space
	add("straddle64", 16-v4/2, 2, 64-w6/2, 2)       // window crosses the u128 word boundary
	add("straddle64-ones", 16-v4/2, 1, 64-w6/2, 1)  //   with carries into the high word
	add("straddle64-zeros", 16-v4/2, 0, 64-w6/2, 0) //
	add("ends-at-64", 8, 2, 64-w6, 2)               // prefixes /(64-W)../64
	add("starts-at-64", 24-v4, 2, 64, 2)            // prefixes /64../(64+W)
	add("off63", 7, 2, 63, 2)                       //
	add("off1", 1, 2, 1, 2)                         //
	add("low-word", 20, 2, 100, 2)                  //
	// the model's IPv4-mapped block laid exactly over ::ffff:0:0/96 (needs MapPat = all ones)
	hiBits := w6 - v4
	if in.MapPat == (1<<uint(hiBits))-1 && hiBits <= 16 {
		p := placement{Name: "iso-mapped", Off4: 0, Base4: baseBytes(4, 2, r), Off6: 96 - hiBits, Base6: make([]byte, 16)}
		p.Base6[10], p.Base6[11] = 0xff, 0xff
		out = append(out, p)
	}
	return out
}

func randomPlacement(in *ipsetInput, r *rand.Rand) placement {
	w6 := in.HB + in.LB
	modes := []int{2, 2, 2, 0, 1}
	return placement{Name: "random", Off4: r.Intn(32 - in.V4 + 1), Base4: baseBytes(4, modes[r.Intn(len(modes))], r),
		Off6: r.Intn(128 - w6 + 1), Base6: baseBytes(16, modes[r.Intn(len(modes))], r)}
}

type scaler struct {
	in *ipsetInput
	pl placement
	r  *rand.Rand
}

func (s *scaler) width(f int) int {
	if f == 4 {
		return s.in.V4
	}
	return s.in.HB + s.in.LB
}

// addr scales model address a of family f; the bits below the window are filled per `low`.
func (s *scaler) addr(f, a, low int) netip.Addr {
	var b []byte
	off := s.pl.Off6
	if f == 4 {
		b = append([]byte(nil), s.pl.Base4...)
		off = s.pl.Off4
	} else {
		b = append([]byte(nil), s.pl.Base6...)
	}
	setBits(b, off, s.width(f), uint64(a))
	fillFrom(b, off+s.width(f), low, s.r)
	return addrOf(b)
}

// prefix scales a model prefix; host bits (model and real) are left set.
func (s *scaler) prefix(e mEntry, low int) netip.Prefix {
	off := s.pl.Off6
	if e.Fam == 4 {
		off = s.pl.Off4
	}
	return netip.PrefixFrom(s.addr(e.Fam, e.A, low), off+e.L)
}

func (s *scaler) modelMapped(a int) bool { return a>>uint(s.in.V4) == s.in.MapPat }

// ---- rendering --------------------------------------------------------------

func renderPrefix(p netip.Prefix, r *rand.Rand) string {
	a := p.Addr()
	switch r.Intn(4) {
	case 0:
		if a.Is6() && !a.Is4In6() {
			return strings.ToUpper(a.String()) + fmt.Sprintf("/%d", p.Bits())
		}
	case 1:
		if a.Is6() && !a.Is4In6() {
			return a.StringExpanded() + fmt.Sprintf("/%d", p.Bits())
		}
	}
	return fmt.Sprintf("%s/%d", a.String(), p.Bits())
}

var genericBad = []string{"1", "abc", "", "/", "/24", "10.0.0.0/8/8", "300.1.1.1/8", "10.0.0/8", "10.0.0.0.0/8",
	"2001:db8::/32x", "fe80::1%eth0/64", "2001:db8:::/32", "0x0a.0.0.0/8", "010.0.0.0/8", "10.0.0.0\\8", "cidr",
	"0.0.0.0/0 ", " ::/0", "0.0.0.0/00", "::/", "*", "0.0.0.0/0,::/0", "all", "any"}

// craftBad names `a` in a string no CIDR parser accepts.
func craftBad(a netip.Addr, r *rand.Rand) string {
	s := a.String()
	over := 33
	if a.Is6() {
		over = 129
	}
	forms := []string{s, s + "/", fmt.Sprintf("%s/%d", s, over), s + "/-1", s + "/+8", s + " /24", s + "//8",
		s + "/8 ", " " + s + "/8", s + "/0x8", s + "/ 0", s + "/0/0", s + "/1e1", s + "%lo/8", s + "/２４"}
	return forms[r.Intn(len(forms))]
}

func unparsable(s string) bool {
	if _, err := netip.ParsePrefix(s); err == nil {
		return false
	}
	if _, _, err := net.ParseCIDR(s); err == nil {
		return false
	}
	return true
}

// ---- oracles ----------------------------------------------------------------

type oracle struct {
	np []netip.Prefix
	nn []*net.IPNet
}

func newOracle(cidrs []string) *oracle {
	o := &oracle{}
	for _, c := range cidrs {
		if p, err := netip.ParsePrefix(c); err == nil {
			o.np = append(o.np, p.Masked())
		}
		if _, n, err := net.ParseCIDR(c); err == nil {
			o.nn = append(o.nn, n)
		}
	}
	return o
}

// contains: (answer, unambiguous)
func (o *oracle) contains(a netip.Addr) (bool, bool) {
	u := a.Unmap()
	x := false
	for _, p := range o.np {
		if p.Contains(u) {
			x = true
			break
		}
	}
	y := false
	ip := net.IP(a.AsSlice())
	for _, n := range o.nn {
		if n.Contains(ip) {
			y = true
			break
		}
	}
	return x, x == y
}

// ---- probes -----------------------------------------------------------------

type probe struct {
	addr  netip.Addr
	model int // -1 none, 0 false, 1 true
	what  string
}

func b2i(b bool) int {
	if b {
		return 1
	}
	return 0
}

type ipsetReplay struct {
	Kind      string    `json:"kind"`
	CIDRs     []string  `json:"cidrs"`
	Addr      string    `json:"addr"`
	Form      string    `json:"form"`
	Got       bool      `json:"got"`
	Want      bool      `json:"want"`
	Placement placement `json:"placement"`
	Model     []mEntry  `json:"model"`
	Probe     string    `json:"probe"`
}

// askAll queries the real set in every form the code offers; returns form -> answer.
func askAll(set *ipset.Set, a netip.Addr) map[string]bool {
	out := map[string]bool{"Contains": set.Contains(a)}
	out["ContainsIP"] = set.ContainsIP(net.IP(a.AsSlice()))
	if a.Is4() {
		b := a.As16()
		out["ContainsIP(16-byte)"] = set.ContainsIP(net.IP(b[:]))
		out["Contains(4in6)"] = set.Contains(netip.AddrFrom16(b))
	}
	return out
}

func runIpsetCase(res *vh.Result, in *ipsetInput, c *mCase, pl placement, r *rand.Rand) {
	s := &scaler{in: in, pl: pl, r: r}

	// 1. the parsable entries
	type slot struct {
		bad  bool
		cidr string
	}
	slots := make([]slot, len(c.List))
	var good []netip.Prefix
	var goodStr []string
	for i, e := range c.List {
		if e.Bad {
			slots[i].bad = true
			continue
		}
		p := s.prefix(e, r.Intn(3))
		good = append(good, p.Masked())
		slots[i].cidr = renderPrefix(p, r)
		goodStr = append(goodStr, slots[i].cidr)
	}
	pre := newOracle(goodStr)

	// 2. probes
	var probes []probe
	for _, f := range []int{4, 6} {
		exp := c.Exp4
		if f == 6 {
			exp = c.Exp6
		}
		n := 1 << uint(s.width(f))
		for a := 0; a < n; a++ {
			m := -1
			if exp != nil && a < len(exp) {
				m = b2i(exp[a])
			}
			for low := 0; low < 3; low++ {
				switch {
				case f == 4:
					x := s.addr(4, a, low)
					probes = append(probes, probe{x, m, "v4 window"}, probe{mapped(x), m, "v4 window as ::ffff:"})
				case s.modelMapped(a):
					// the model's IPv4-mapped source: the real one is ::ffff:<scaled IPv4>
					x := s.addr(4, a&((1<<uint(in.V4))-1), low)
					probes = append(probes, probe{mapped(x), m, "model-mapped v6 source"})
					probes = append(probes, probe{s.addr(6, a, low), -1, "v6 window (model-mapped slot, native)"})
				default:
					x := s.addr(6, a, low)
					if x.Is4In6() {
						m = -1
					}
					probes = append(probes, probe{x, m, "v6 window"})
				}
			}
		}
	}
	for _, q := range c.Queries {
		f, a, got := q[0], q[1], q[2]
		if f == 4 {
			x := s.addr(4, a, r.Intn(3))
			probes = append(probes, probe{x, got, "sim query v4"}, probe{mapped(x), got, "sim query v4 as ::ffff:"})
		} else if s.modelMapped(a) {
			probes = append(probes, probe{mapped(s.addr(4, a&((1<<uint(in.V4))-1), r.Intn(3))), got, "sim query mapped"})
		} else if x := s.addr(6, a, r.Intn(3)); !x.Is4In6() {
			probes = append(probes, probe{x, got, "sim query v6"})
		}
	}
	// boundaries of every real prefix: lo-1, lo, hi, hi+1
	for _, p := range good {
		lo := p.Addr().AsSlice()
		hi := append([]byte(nil), lo...)
		fillFrom(hi, p.Bits(), 1, nil)
		edge := [][]byte{lo, hi}
		if b, ok := decBytes(lo); ok {
			edge = append(edge, b)
		}
		if b, ok := incBytes(hi); ok {
			edge = append(edge, b)
		}
		for _, b := range edge {
			x := addrOf(b)
			probes = append(probes, probe{x, -1, "boundary"})
			if x.Is4() {
				probes = append(probes, probe{mapped(x), -1, "boundary as ::ffff:"})
			}
		}
	}
	// fixed far points and the u128 word boundary next to the base
	far := []string{"0.0.0.0", "255.255.255.255", "127.0.0.1", "::", "::1", "ffff:ffff:ffff:ffff:ffff:ffff:ffff:ffff",
		"::ffff:0.0.0.0", "::ffff:255.255.255.255", "::fffe:ffff:ffff", "::1:0:0:0", "0:0:0:1::", "::ffff:ffff:ffff:ffff"}
	for _, fs := range far {
		probes = append(probes, probe{netip.MustParseAddr(fs), -1, "far"})
	}
	hiw := binary.BigEndian.Uint64(pl.Base6[:8])
	for _, w := range []uint64{hiw, hiw + 1, hiw - 1} {
		b := make([]byte, 16)
		binary.BigEndian.PutUint64(b[:8], w)
		probes = append(probes, probe{addrOf(b), -1, "word boundary lo=0"})
		fillFrom(b, 64, 1, nil)
		probes = append(probes, probe{addrOf(b), -1, "word boundary lo=max"})
	}
	// 3. the unparsable entries name addresses the parsable ones do not cover
	var outs []netip.Addr
	for _, p := range probes {
		if x, ok := pre.contains(p.addr); ok && !x && !p.addr.Is4In6() {
			outs = append(outs, p.addr)
		}
	}
	nbad := 0
	mkBad := func() string {
		for tries := 0; tries < 50; tries++ {
			var b string
			if len(outs) > 0 && r.Intn(4) != 0 {
				b = craftBad(outs[r.Intn(len(outs))], r)
			} else {
				b = genericBad[r.Intn(len(genericBad))]
			}
			if unparsable(b) {
				return b
			}
		}
		return "not-a-cidr"
	}
	var cidrs []string
	for _, sl := range slots {
		// now and then an extra unparsable entry is mixed in where the model has none
		if r.Intn(6) == 0 {
			cidrs = append(cidrs, mkBad())
			nbad++
		}
		if sl.bad {
			cidrs = append(cidrs, mkBad())
			nbad++
		} else {
			cidrs = append(cidrs, sl.cidr)
		}
	}

	// 4. the real thing
	set, bad := ipset.New(cidrs)
	res.Count("ipset_new", 1)
	if len(bad) != nbad {
		res.DriftNote("ipset.New reported %d bad entries, %d are unparsable: %q", len(bad), nbad, cidrs)
	}
	if set.Len() != len(good) {
		res.DriftNote("Set.Len()=%d, %d parsable entries: %q", set.Len(), len(good), cidrs)
	}
	full := newOracle(cidrs)
	for _, p := range probes {
		want, clear := full.contains(p.addr)
		if !clear {
			res.Count("ambiguous_mapped_prefix", 1)
			continue
		}
		if p.model >= 0 && (p.model == 1) != want {
			res.Skip("harness: model says %v, naive scan says %v for %s in %q (placement %+v, model %+v, %s)",
				p.model == 1, want, p.addr, cidrs, pl, c.List, p.what)
			continue
		}
		for form, got := range askAll(set, p.addr) {
			res.Count("queries", 1)
			if got == want {
				continue
			}
			kind := "admits an address outside every configured CIDR"
			if want {
				kind = "rejects an address inside a configured CIDR"
			}
			violate(res, fmt.Sprintf("ipset|%s|%s|%s", strings.Join(cidrs, ","), p.addr, form),
				fmt.Sprintf("ipset %s: New(%q).%s(%s) = %v, naive scan = %v [%s, placement %s]",
					kind, cidrs, form, p.addr, got, want, p.what, pl.Name),
				ipsetReplay{Kind: "ipset", CIDRs: cidrs, Addr: p.addr.String(), Form: form, Got: got, Want: want,
					Placement: pl, Model: c.List, Probe: p.what})
		}
		if want {
			res.Count("members", 1)
		}
	}
	res.Count("probes", len(probes))
}

func listSig(l []mEntry) string {
	var sb strings.Builder
	for _, e := range l {
		if e.Bad {
			sb.WriteString("x;")
		} else {
			fmt.Fprintf(&sb, "%d.%d/%d;", e.Fam, e.A, e.L)
		}
	}
	return sb.String()
}

func TestIpSetReplay(t *testing.T) {
	var in ipsetInput
	vh.Input(t, &in)
	res := vh.NewResult()
	defer res.Write(t)
	r := vh.Rand()
	cat := catalogue(&in, r)
	if in.Placements < 1 {
		in.Placements = 1
	}
	used := map[string]int{}
	k := 0
	for ci := range in.Cases {
		c := &in.Cases[ci]
		sig := listSig(c.List)
		for j := 0; j < in.Placements; j++ {
			var pl placement
			if j == in.Placements-1 && in.Placements > 1 && r.Intn(2) == 0 {
				pl = randomPlacement(&in, r)
			} else {
				pl = cat[k%len(cat)] // round robin: every catalogue placement is used all along the run
				k++
			}
			used[pl.Name]++
			runIpsetCase(res, &in, c, pl, r)
			res.Case(in.Tag + ":" + sig + "@" + pl.Name)
		}
	}
	for _, pl := range cat {
		if used[pl.Name] == 0 && len(in.Cases) >= len(cat) {
			res.Skip("placement %s never exercised", pl.Name)
		}
		res.Count("placement:"+pl.Name, used[pl.Name])
	}
	res.Sample(map[string]any{"tag": in.Tag, "cases": len(in.Cases), "placements": used})
}

// TestIpSetOne re-runs one recorded (cidrs, address) pair: bin/check C17 --replay.
func TestIpSetOne(t *testing.T) {
	var rp ipsetReplay
	vh.Input(t, &rp)
	res := vh.NewResult()
	defer res.Write(t)
	set, _ := ipset.New(rp.CIDRs)
	a, err := netip.ParseAddr(rp.Addr)
	if err != nil {
		t.Fatalf("bad replay address: %v", err)
	}
	want, clear := newOracle(rp.CIDRs).contains(a)
	res.Case("replay")
	if !clear {
		res.Skip("replay pair is ambiguous under the two oracles")
		return
	}
	for form, got := range askAll(set, a) {
		if got != want {
			violate(res, fmt.Sprintf("ipset|%s|%s|%s", strings.Join(rp.CIDRs, ","), a, form),
				fmt.Sprintf("ipset: New(%q).%s(%s) = %v, naive scan = %v", rp.CIDRs, form, a, got, want), rp)
		}
	}
}
