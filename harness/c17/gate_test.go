package c17

// Spec -> code replay for Gate.tla (property C17, gate half).
//
// Every case is a terminal state of the model: an access list and views (as
// network classes), one request (source class, wire- or message-born, who
// would answer downstream, or an internal sub-query) and the model's outcome.
// Classes are turned into concrete CIDR strings and addresses (seeded: prefix
// lengths incl. /1 /31 /32 /63../65 /127 /128, host bits set, boundary
// addresses lo, hi, lo-1, hi+1, unparsable strings naming outside addresses)
// and the request is driven
//   (a) through the real accesslist.New / views.New handlers in a minimal
//       chain with counting probes behind each, and
//   (b) through the real default chain (defaults.RegisterUpTo("resolver") +
//       middleware.Setup) with probes inserted by RegisterBefore and a tail
//       standing in for the resolver, incl. the Queryer / prefetch Queryer
//       that autoWire hands to the tail.
//
// Verdict (on what the real code did, against the naive per-prefix scan):
//   denied source  => nothing written, no probe / stub behind the gate ran,
//                     a later lookup of the same name still misses the cache;
//   allowed source => the gate let it through and somebody answered;
//   a view answer comes from the first view, in declaration order, whose
//   networks contain the client, and only from it;
//   an internal sub-query is answered whatever the access list and views say,
//   and the sub-pipelines it runs on contain none of accesslist / ratelimit /
//   reflex / views.
// Anything else that differs from the model is drift.

import (
	"context"
	"fmt"
	"math/rand"
	"net"
	"net/netip"
	"os"
	"path/filepath"
	"sort"
	"strings"
	"sync"
	"testing"
	"time"

	"github.com/miekg/dns"
	"github.com/semihalev/sdns/config"
	"github.com/semihalev/sdns/internal/mock"
	"github.com/semihalev/sdns/middleware"
	"github.com/semihalev/sdns/middleware/accesslist"
	"github.com/semihalev/sdns/middleware/defaults"
	"github.com/semihalev/sdns/middleware/views"
	"github.com/semihalev/sdns/verifharness/vh"
	"github.com/semihalev/zlog/v2"
)

// ---- model side ---------------------------------------------------------------

type gView struct {
	Net string `json:"net"`
	Has bool   `json:"has"`
}

type gReq struct {
	Kind string `json:"kind"`
	Src  string `json:"src"`
	Born string `json:"born"`
	Ans  string `json:"ans"`
	Pipe string `json:"pipe"`
	// gap C17-r3-2 (sentinel family, sentinel_test.go): the listener the request came in on ("any": the driver
	// rotates udp/tcp/doh/doq itself) and the source port class ("zero" | "eph")
	Tr   string `json:"tr"`
	Port string `json:"port"`
}

type gOutcome struct {
	Acl     []string `json:"acl"`
	Views   []gView  `json:"views"`
	Req     gReq     `json:"req"`
	Written string   `json:"written"`
	ViewSel int      `json:"viewSel"`
	Touched []string `json:"touched"`
	Allowed bool     `json:"allowed"`
	// what the model says ch.Writer.Internal() reports for this request (a client: never, by the statement)
	Internal bool `json:"internal"`
}

type gateInput struct {
	Cases       []gOutcome `json:"cases"`
	Chain       []string   `json:"chain"`
	ClientOnly  []string   `json:"clientOnly"`
	Tail        string     `json:"tail"`
	Variants    int        `json:"variants"`
	FullConfigs int        `json:"fullConfigs"`
	// Family "sent": the cases come from the sentinel family of Gate.tla (MC_Gate.tla SNets / SSrcs): concrete
	// networks and sources at and around 127.0.0.255, see sentinel_test.go
	Family string `json:"family"`
}

func cfgKey(o *gOutcome) string {
	a := append([]string(nil), o.Acl...)
	sort.Strings(a)
	var sb strings.Builder
	sb.WriteString(strings.Join(a, ","))
	sb.WriteString("|")
	for _, v := range o.Views {
		fmt.Fprintf(&sb, "%s:%v;", v.Net, v.Has)
	}
	return sb.String()
}

// ---- concrete side ------------------------------------------------------------

type concView struct {
	Zone     string   `json:"zone"`
	Networks []string `json:"networks"`
	Answers  []string `json:"answers"`
	Has      bool     `json:"has"`
}

type concCfg struct {
	AccessList []string   `json:"accessList"`
	Views      []concView `json:"views"`
}

type concReq struct {
	Src   string `json:"src"`  // address
	Form  int    `json:"form"` // 4 or 16: length of the net.IP handed to the chain
	Port  int    `json:"port"`
	Proto string `json:"proto"`
	Mock  bool   `json:"mock"` // use internal/mock.Writer instead of the harness transport
	Born  string `json:"born"`
	Qname string `json:"qname"`
	Qtype uint16 `json:"qtype"`
	Class uint16 `json:"class"`
	// Cookie: 16 hex digits of a DNS client cookie carried in an OPT ("" = no OPT): the client limiter in front of
	// or behind the gate remembers cookies and answers a changed one with BADCOOKIE -- never to a denied source
	Cookie string `json:"cookie,omitempty"`
	// ID: the DNS message ID (0 = the fixed 0x1717).  The socket replay gives every exchange its own, and the probes
	// count per ID, so a datagram that arrives late cannot be booked to the next exchange.
	ID uint16 `json:"id,omitempty"`
}

type gateReplay struct {
	Kind  string   `json:"kind"`
	Level string   `json:"level"` // "handlers" | "default"
	Cfg   concCfg  `json:"cfg"`
	Req   concReq  `json:"req"`
	Warm  []string `json:"warm"` // names warmed in the cache before the request
	Int   string   `json:"internal,omitempty"`
	Model any      `json:"model,omitempty"`
}

const (
	warmName  = "warm.c17.test."
	viewZone  = "c17.test."
	tailAddr  = "192.0.2.77"
	blockName = "blocked.c17.test."
)

// tw is a transport double with an exact RemoteAddr and protocol.
type tw struct {
	proto  string
	remote net.Addr
	msgs   []*dns.Msg
	raws   [][]byte
}

func newTW(proto string, ip net.IP, port int) *tw {
	w := &tw{proto: proto}
	switch proto {
	case "udp", "doq":
		w.remote = &net.UDPAddr{IP: ip, Port: port}
	default:
		w.remote = &net.TCPAddr{IP: ip, Port: port}
	}
	return w
}

func (w *tw) LocalAddr() net.Addr  { return &net.UDPAddr{IP: net.IPv4(127, 0, 0, 1), Port: 53} }
func (w *tw) RemoteAddr() net.Addr { return w.remote }
func (w *tw) Close() error         { return nil }
func (w *tw) Proto() string        { return w.proto }
func (w *tw) WriteMsg(m *dns.Msg) error {
	w.msgs = append(w.msgs, m)
	return nil
}
func (w *tw) Write(b []byte) (int, error) {
	w.raws = append(w.raws, append([]byte(nil), b...))
	return len(b), nil
}

type replyView struct {
	n     int
	rcode int
	from  string // "views" | "stub" | "other"
	view  int
	text  string
}

func classifyMsg(m *dns.Msg) replyView {
	rv := replyView{n: 1, rcode: m.Rcode, from: "other", text: strings.ReplaceAll(m.String(), "\n", " | ")}
	if len(rv.text) > 300 {
		rv.text = rv.text[:300]
	}
	for _, rr := range m.Answer {
		if a, ok := rr.(*dns.A); ok {
			ip := a.A.To4()
			if ip != nil && ip[0] == 10 && ip[1] == 17 && ip[2] == 0 {
				rv.from, rv.view = "views", int(ip[3])
				return rv
			}
			if a.A.String() == tailAddr {
				rv.from = "stub"
			}
		}
	}
	return rv
}

func (w *tw) reply() replyView {
	n := len(w.msgs) + len(w.raws)
	if n == 0 {
		return replyView{}
	}
	var m *dns.Msg
	if len(w.msgs) > 0 {
		m = w.msgs[0]
	} else {
		m = new(dns.Msg)
		if err := m.Unpack(w.raws[0]); err != nil {
			return replyView{n: n, from: "other", text: "undecodable reply"}
		}
	}
	rv := classifyMsg(m)
	rv.n = n
	return rv
}

// counter is a pass-through probe.
type counter struct {
	name     string
	n        int
	internal int
	ids      idCount // per DNS message ID (read by the socket replay, whose requests run on the listeners' goroutines)
}

// idCount counts by DNS message ID under a lock.
type idCount struct {
	mu sync.Mutex
	m  map[uint16]int
}

func (c *idCount) inc(id uint16) {
	c.mu.Lock()
	if c.m == nil {
		c.m = map[uint16]int{}
	}
	c.m[id]++
	c.mu.Unlock()
}

func (c *idCount) get(id uint16) int {
	c.mu.Lock()
	defer c.mu.Unlock()
	return c.m[id]
}

func (c *counter) Name() string { return c.name }
func (c *counter) ServeDNS(ctx context.Context, ch *middleware.Chain) {
	c.n++
	if ch.Writer.Internal() {
		c.internal++
	}
	if ch.Request != nil {
		c.ids.inc(ch.Request.ID())
	}
	ch.Next(ctx)
}

// answerer stands in for the resolver (only == "") or, at handler level, for a warm cache.
type answerer struct {
	name string
	only string
	n    int
	ids  idCount
	q    middleware.Queryer
	pq   middleware.Queryer
}

func (a *answerer) Name() string                            { return a.name }
func (a *answerer) SetQueryer(q middleware.Queryer)         { a.q = q }
func (a *answerer) SetPrefetchQueryer(q middleware.Queryer) { a.pq = q }
func (a *answerer) ServeDNS(ctx context.Context, ch *middleware.Chain) {
	a.n++
	ctx, req := ch.Materialize(ctx)
	if req == nil {
		return
	}
	a.ids.inc(req.Id)
	if a.only != "" && dns.CanonicalName(req.Question[0].Name) != a.only {
		ch.Next(ctx)
		return
	}
	resp := new(dns.Msg)
	resp.SetReply(req)
	resp.RecursionAvailable = true
	if req.Question[0].Qtype == dns.TypeA && req.Question[0].Qclass == dns.ClassINET {
		resp.Answer = []dns.RR{&dns.A{
			Hdr: dns.RR_Header{Name: req.Question[0].Name, Rrtype: dns.TypeA, Class: dns.ClassINET, Ttl: 300},
			A:   net.ParseIP(tailAddr),
		}}
	}
	_ = ch.Writer.WriteMsg(resp)
	ch.Cancel()
}

// env is one built chain (handler level or default chain).
type env struct {
	level   string
	chain   func() *middleware.Chain // a chain over the handlers (pooled or fresh)
	done    func(*middleware.Chain)
	probes  map[string]*counter // "front", "afterACL", "beforeViews", "afterViews", "beforeCache"
	ahead   map[string]bool     // probes the real chain placed ahead of the access list
	cache   *answerer           // handler level only
	tail    *answerer
	pipe    *middleware.Pipeline
	cleanup func()
}

func (e *env) snapshot() map[string]int {
	m := map[string]int{"tail": e.tail.n}
	for k, p := range e.probes {
		m[k] = p.n
	}
	if e.cache != nil {
		m["cacheStub"] = e.cache.n
	}
	return m
}

// snapshotID: how often each probe ran for the request with this DNS message ID.
func (e *env) snapshotID(id uint16) map[string]int {
	m := map[string]int{"tail": e.tail.ids.get(id)}
	for k, p := range e.probes {
		m[k] = p.ids.get(id)
	}
	if e.cache != nil {
		m["cacheStub"] = e.cache.ids.get(id)
	}
	return m
}

func delta(a, b map[string]int) map[string]int {
	d := map[string]int{}
	for k, v := range b {
		d[k] = v - a[k]
	}
	return d
}

func quiet() {
	l := zlog.NewStructured()
	l.SetWriter(zlog.StdoutTerminal())
	l.SetLevel(zlog.LevelFatal)
	zlog.SetDefault(l)
}

func (c *concCfg) config(scratch string) *config.Config {
	cfg := &config.Config{ //nolint:gosec
		Bind:          "127.0.0.1:0",
		Expire:        600,
		CacheSize:     1024,
		CookieSecret:  "6c6f6f6b61686172646c6f6f6b6168617264",
		Chaos:         true,
		Nullroute:     "0.0.0.0",
		Nullroutev6:   "::0",
		Blocklist:     []string{blockName},
		BlockListDir:  filepath.Join(scratch, "c17-blocklists"),
		Directory:     scratch,
		ReflexEnabled: true,
		// the client limiter is on (generous budget): whatever it does for a source, it does behind the gate
		ClientRateLimit: 600,
	}
	cfg.QueryTimeout.Duration = 10 * time.Second
	cfg.AccessList = append([]string(nil), c.AccessList...)
	for _, v := range c.Views {
		cfg.Views = append(cfg.Views, config.ViewConfig{Zone: v.Zone,
			Networks: append([]string(nil), v.Networks...), Answers: append([]string(nil), v.Answers...)})
	}
	return cfg
}

// handlerEnv: [accesslist, probe, views, probe, warm-cache stub, tail].
func handlerEnv(c *concCfg, scratch string) *env {
	cfg := c.config(scratch)
	e := &env{level: "handlers", probes: map[string]*counter{}}
	front := &counter{name: "c17-front"}
	after := &counter{name: "c17-after-acl"}
	afterV := &counter{name: "c17-after-views"}
	e.probes["front"], e.probes["afterACL"], e.probes["afterViews"] = front, after, afterV
	e.cache = &answerer{name: "c17-cache", only: warmName}
	e.tail = &answerer{name: "c17-tail"}
	hs := []middleware.Handler{front, accesslist.New(cfg), after, views.New(cfg), afterV, e.cache, e.tail}
	e.chain = func() *middleware.Chain { return middleware.NewChain(hs) }
	e.done = func(ch *middleware.Chain) { ch.Finish() }
	e.cleanup = func() {}
	return e
}

// defaultEnv: the real default chain up to the resolver, probes inserted, Setup run.
func defaultEnv(c *concCfg, scratch string) *env {
	cfg := c.config(scratch)
	e := &env{level: "default", probes: map[string]*counter{}}
	middleware.Reset()
	defaults.RegisterUpTo("resolver")
	e.tail = &answerer{name: "c17-tail"}
	middleware.Register("c17-tail", func(*config.Config) middleware.Handler { return e.tail })
	add := func(key, name, before string) {
		p := &counter{name: name}
		e.probes[key] = p
		middleware.RegisterBefore(name, func(*config.Config) middleware.Handler { return p }, before)
	}
	// probes sit right behind the gate, around views and ahead of the cache, wherever the
	// registered order puts those three
	order := middleware.List()
	next := func(name string) string {
		for i, n := range order {
			if n == name && i+1 < len(order) {
				return order[i+1]
			}
		}
		return ""
	}
	add("afterACL", "c17-after-acl", next("accesslist"))
	add("beforeViews", "c17-before-views", "views")
	add("afterViews", "c17-after-views", next("views"))
	add("beforeCache", "c17-before-cache", "cache")
	front := &counter{name: "c17-front"}
	e.probes["front"] = front
	middleware.RegisterAt("c17-front", func(*config.Config) middleware.Handler { return front }, 0)
	middleware.Setup(cfg)
	e.pipe = middleware.GlobalPipeline()
	// "behind the gate" is decided by where the real chain put things
	pos := map[string]int{}
	for i, n := range names(e.pipe) {
		pos[n] = i
	}
	e.ahead = map[string]bool{}
	for k, p := range e.probes {
		if pos[p.name] < pos["accesslist"] {
			e.ahead[k] = true
		}
	}
	e.chain = func() *middleware.Chain { return e.pipe.NewChain() }
	e.done = func(ch *middleware.Chain) { e.pipe.PutChain(ch) }
	e.cleanup = middleware.Reset
	return e
}

func (rq *concReq) ip() net.IP {
	a := netip.MustParseAddr(rq.Src)
	if rq.Form == 16 {
		b := a.As16()
		return net.IP(b[:])
	}
	return net.IP(a.AsSlice())
}

func (rq *concReq) msg() *dns.Msg {
	m := new(dns.Msg)
	m.SetQuestion(rq.Qname, rq.Qtype)
	m.Question[0].Qclass = rq.Class
	m.Id = 0x1717
	if rq.ID != 0 {
		m.Id = rq.ID
	}
	if rq.Cookie != "" {
		m.SetEdns0(1232, false)
		o := m.IsEdns0()
		o.Option = append(o.Option, &dns.EDNS0_COOKIE{Code: dns.EDNS0COOKIE, Cookie: rq.Cookie})
	}
	return m
}

type written interface{ reply() replyView }

type mockView struct{ w *mock.Writer }

func (m mockView) reply() replyView {
	if !m.w.Written() {
		return replyView{}
	}
	return classifyMsg(m.w.Msg())
}

// drive runs one client request; returns what was written.
func (e *env) drive(rq *concReq) (replyView, error) {
	var tr middleware.Transport
	var wv written
	if rq.Mock {
		host := rq.Src
		if strings.Contains(host, ":") {
			host = "[" + host + "]"
		}
		mw := mock.NewWriter(rq.Proto, fmt.Sprintf("%s:%d", host, rq.Port))
		if mw.RemoteAddr() == nil {
			return replyView{}, fmt.Errorf("mock writer did not resolve %s", rq.Src)
		}
		tr, wv = mw, mockView{mw}
	} else {
		w := newTW(rq.Proto, rq.ip(), rq.Port)
		tr, wv = w, w
	}
	ctx, cancel := context.WithTimeout(context.Background(), 5*time.Second)
	defer cancel()
	ch := e.chain()
	m := rq.msg()
	if rq.Born == "wire" {
		raw, err := m.Pack()
		if err != nil {
			return replyView{}, err
		}
		var req middleware.Request
		if !req.ParseWire(raw, time.Now(), nil) {
			return replyView{}, fmt.Errorf("ParseWire refused a plain query for %s", rq.Qname)
		}
		ch.ResetWire(tr, &req)
		ch.Next(ctx)
		e.done(ch)
	} else {
		ch.Reset(tr, m)
		ch.Next(ctx)
		e.done(ch)
	}
	return wv.reply(), nil
}

func (e *env) internal(pipe, qname string) (*dns.Msg, error) {
	q := e.tail.q
	if pipe == "prefetch" {
		q = e.tail.pq
	}
	if q == nil {
		return nil, fmt.Errorf("no %s Queryer was wired into the tail", pipe)
	}
	m := new(dns.Msg)
	m.SetQuestion(qname, dns.TypeA)
	ctx, cancel := context.WithTimeout(context.Background(), 5*time.Second)
	defer cancel()
	return q.Query(ctx, m)
}

// ---- naive oracles --------------------------------------------------------------

func naive(cidrs []string, a netip.Addr) (bool, bool) { return newOracle(cidrs).contains(a) }

func (c *concCfg) allowed(a netip.Addr) (bool, bool) {
	if len(c.AccessList) == 0 {
		return true, true
	}
	return naive(c.AccessList, a)
}

// firstMatch: 1-based index of the first view containing a, 0 if none.
func (c *concCfg) firstMatch(a netip.Addr) (int, bool) {
	for i, v := range c.Views {
		x, clear := naive(v.Networks, a)
		if !clear {
			return 0, false
		}
		if x {
			return i + 1, true
		}
	}
	return 0, true
}

// ---- judging one client request ---------------------------------------------------

var behindGate = []string{"afterACL", "beforeViews", "afterViews", "beforeCache", "cacheStub", "tail"}

func judgeClient(res *vh.Result, e *env, c *concCfg, rq *concReq, warm []string, model *gOutcome) {
	src := netip.MustParseAddr(rq.Src)
	if rq.Form == 16 && src.Is4() {
		src = netip.AddrFrom16(src.As16())
	}
	allowed, clear := c.allowed(src)
	fm, clear2 := c.firstMatch(src)
	if !clear || !clear2 {
		res.Skip("gate oracle ambiguous for %s in %+v", rq.Src, c)
		return
	}
	if model != nil && model.Allowed != allowed {
		res.Skip("harness: model says allowed=%v, naive scan says %v for %s (%s) in %q", model.Allowed, allowed, rq.Src, model.Req.Src, c.AccessList)
		return
	}
	before := e.snapshot()
	rv, err := e.drive(rq)
	if err != nil {
		res.Skip("drive: %v", err)
		return
	}
	d := delta(before, e.snapshot())
	res.Count("client_requests", 1)
	if d["front"] != 1 {
		res.Skip("the chain did not run for %+v (front probe %d)", rq, d["front"])
		return
	}
	// (gap C17-r3-2) a peer 127.0.0.255 with source port 0 is the address sentinel of a synthesised internal query
	// (responseWriter.Reset).  On a writer DOUBLE that is the legacy convention for an internal writer (plugins, the
	// repository's own tests), not a client: compared with the model, never judged.  Whether a LISTENER can be handed
	// such a peer by the network is decided on real sockets (TestGateSockets: a raw socket sends the datagram).
	if rq.isSentinelPort0() {
		res.Count("legacy_sentinel_writer", 1)
		if model != nil && model.Internal && d["afterACL"] != 1 {
			res.DriftNote("model: a %s writer double with peer %s:0 reports Internal() and passes the gate, the code stopped it", rq.Proto, rq.Src)
		}
		return
	}
	rp := gateReplay{Kind: "gate", Level: e.level, Cfg: *c, Req: *rq, Warm: warm, Model: model}
	key := func(what string) string {
		return fmt.Sprintf("gate|%s|%s|acl=%s|views=%d|src=%s/%d|%s|%s|%s", e.level, what,
			strings.Join(c.AccessList, ","), len(c.Views), rq.Src, rq.Form, rq.Proto, rq.Born, rq.Qname)
	}
	desc := fmt.Sprintf("[%s chain, %s %s-born, source %s (%d-byte) port %d, access list %q, question %s %s]",
		e.level, rq.Proto, rq.Born, rq.Src, rq.Form, rq.Port, c.AccessList, rq.Qname, dns.TypeToString[rq.Qtype])

	if !allowed {
		res.Count("denied", 1)
		if rv.n > 0 {
			violate(res, key("denied-replied"), "a source outside the access list got a reply ("+rv.text+") "+desc, rp)
		}
		for _, k := range behindGate {
			if d[k] != 0 && !e.ahead[k] {
				violate(res, key("denied-downstream-"+k), fmt.Sprintf("a denied query reached %s behind the gate %s", k, desc), rp)
			}
		}
		if model != nil && (model.Written != "none") {
			res.DriftNote("model wrote %s for a denied source?", model.Written)
		}
		return
	}
	res.Count("allowed", 1)
	if d["afterACL"] != 1 {
		violate(res, key("allowed-dropped"), fmt.Sprintf("a source inside the access list was stopped at the gate (probe behind it ran %d times) %s", d["afterACL"], desc), rp)
		return
	}
	if rq.Qtype != dns.TypeA || rq.Class != dns.ClassINET || !strings.HasSuffix(dns.CanonicalName(rq.Qname), viewZone) {
		return // battery questions: only the gate is judged
	}
	wantView := 0
	if fm != 0 && c.Views[fm-1].Has {
		wantView = fm
	}
	switch {
	case rv.from == "views" && rv.view != wantView:
		violate(res, key("wrong-view"), fmt.Sprintf("view %d answered, the first view containing the client is %d (answers there: %v) %s views=%+v",
			rv.view, fm, fm != 0 && c.Views[fm-1].Has, desc, c.Views), rp)
	case rv.from != "views" && wantView != 0:
		violate(res, key("view-skipped"), fmt.Sprintf("the first matching view %d has the record but did not answer (reply: %s) %s views=%+v",
			wantView, rv.text, desc, c.Views), rp)
	case rv.n == 0:
		// C17 promises no answer; a silent chain behind an open gate is booked, not judged
		res.DriftNote("an allowed query was not answered %s", desc)
	}
	if rv.from == "views" {
		res.Count("view_answers", 1)
	}
	// model comparison (drift only)
	if model != nil {
		got := "none"
		switch {
		case rv.from == "views":
			got = "views"
		case rv.n > 0 && d["tail"] == 0:
			got = "cache"
		case rv.n > 0:
			got = "resolver"
		}
		if got != model.Written || (got == "views" && rv.view != model.ViewSel) {
			res.DriftNote("model outcome %s/%d, real %s/%d (%s) %s", model.Written, model.ViewSel, got, rv.view, rv.text, desc)
		}
	}
}

// ---- concretisation -----------------------------------------------------------------

type conc struct {
	sent   bool // sentinel family: fixed concrete networks and sources (sentinel_test.go)
	r      *rand.Rand
	v4net  netip.Prefix
	v6net  netip.Prefix
	inside map[string][]netip.Addr // "v4in","v4out","v6in","v6out"
}

func prefixRange(p netip.Prefix) (lo, hi []byte) {
	lo = p.Masked().Addr().AsSlice()
	hi = append([]byte(nil), lo...)
	fillFrom(hi, p.Bits(), 1, nil)
	return
}

func randAddr(r *rand.Rand, n int) netip.Addr {
	b := make([]byte, n)
	r.Read(b)
	return addrOf(b)
}

func usable(a netip.Addr) bool {
	return !a.Is4In6() && !a.IsLoopback() && !a.IsUnspecified()
}

func newConc(r *rand.Rand) *conc {
	c := &conc{r: r, inside: map[string][]netip.Addr{}}
	bits4 := []int{1, 8, 16, 23, 24, 31, 32, 1 + r.Intn(32), 1 + r.Intn(32)}
	bits6 := []int{1, 32, 48, 63, 64, 65, 127, 128, 1 + r.Intn(128), 1 + r.Intn(128)}
	pick := func(n int, bits []int, fam string) netip.Prefix {
		for {
			a := randAddr(r, n)
			p := netip.PrefixFrom(a, bits[r.Intn(len(bits))]).Masked()
			if n == 16 && (p.Contains(netip.MustParseAddr("::ffff:0.0.0.0")) || a.Is4In6()) {
				continue
			}
			lo, hi := prefixRange(p)
			var in, out []netip.Addr
			in = append(in, addrOf(lo), addrOf(hi))
			for i := 0; i < 3; i++ {
				b := append([]byte(nil), a.AsSlice()...)
				fillFrom(b, p.Bits(), 2, r)
				in = append(in, addrOf(b))
			}
			if b, ok := decBytes(lo); ok {
				out = append(out, addrOf(b))
			}
			if b, ok := incBytes(hi); ok {
				out = append(out, addrOf(b))
			}
			for len(out) < 5 {
				x := randAddr(r, n)
				if !p.Contains(x) {
					out = append(out, x)
				}
			}
			keep := func(xs []netip.Addr) []netip.Addr {
				var o []netip.Addr
				for _, x := range xs {
					if usable(x) {
						o = append(o, x)
					}
				}
				return o
			}
			in, out = keep(in), keep(out)
			if len(in) == 0 || len(out) == 0 {
				continue
			}
			c.inside[fam+"in"], c.inside[fam+"out"] = in, out
			return p
		}
	}
	c.v4net = pick(4, bits4, "v4")
	c.v6net = pick(16, bits6, "v6")
	return c
}

func (c *conc) netString(class string) string {
	r := c.r
	noisy := func(p netip.Prefix) string {
		b := append([]byte(nil), p.Addr().AsSlice()...)
		fillFrom(b, p.Bits(), r.Intn(3), r)
		return renderPrefix(netip.PrefixFrom(addrOf(b), p.Bits()), r)
	}
	switch class {
	case "v4all":
		return []string{"0.0.0.0/0", randAddr(r, 4).String() + "/0"}[r.Intn(2)]
	case "v6all":
		for {
			a := randAddr(r, 16)
			if !a.Is4In6() {
				return []string{"::/0", "::0/0", a.String() + "/0"}[r.Intn(3)]
			}
		}
	case "v4net":
		return noisy(c.v4net)
	case "v6net":
		return noisy(c.v6net)
	case "bad":
		pool := append(append([]netip.Addr(nil), c.inside["v4out"]...), c.inside["v6out"]...)
		pool = append(pool, c.inside["v4in"]...) // also names an inside address: must not admit it on its own
		for tries := 0; tries < 50; tries++ {
			var b string
			if r.Intn(4) != 0 {
				b = craftBad(pool[r.Intn(len(pool))], r)
			} else {
				b = genericBad[r.Intn(len(genericBad))]
			}
			if unparsable(b) {
				return b
			}
		}
		return "not-a-cidr"
	}
	panic("unknown net class " + class)
}

func (c *conc) cfg(o *gOutcome) concCfg {
	var cc concCfg
	if c.sent {
		return c.sentCfg(o)
	}
	acl := append([]string(nil), o.Acl...)
	sort.Strings(acl)
	c.r.Shuffle(len(acl), func(i, j int) { acl[i], acl[j] = acl[j], acl[i] })
	for _, n := range acl {
		cc.AccessList = append(cc.AccessList, c.netString(n))
		if n != "bad" && c.r.Intn(5) == 0 {
			cc.AccessList = append(cc.AccessList, c.netString(n)) // duplicate, rendered afresh
		}
	}
	for i, v := range o.Views {
		cv := concView{Zone: fmt.Sprintf("view%d", i+1), Networks: []string{c.netString(v.Net)}, Has: v.Has}
		if c.r.Intn(4) == 0 {
			cv.Networks = append(cv.Networks, c.netString("bad"))
		}
		if v.Has {
			cv.Answers = []string{fmt.Sprintf("*.%s 60 IN A 10.17.0.%d", viewZone, i+1)}
		} else {
			cv.Answers = []string{fmt.Sprintf("*.elsewhere.test. 60 IN A 10.17.9.%d", i+1)}
		}
		cc.Views = append(cc.Views, cv)
	}
	return cc
}

var protos = []string{"udp", "tcp", "doh", "doq"}

func (c *conc) req(q *gReq, n int, proto string) concReq {
	if c.sent {
		return c.sentReq(q, n)
	}
	class := q.Src
	form := 0
	switch class {
	case "mapin":
		class, form = "v4in", 16
	case "mapout":
		class, form = "v4out", 16
	case "v4in", "v4out":
		form = 4
	default:
		form = 16
	}
	pool := c.inside[class]
	rq := concReq{Src: pool[c.r.Intn(len(pool))].String(), Form: form, Port: 1024 + c.r.Intn(60000), Proto: proto,
		Born: q.Born, Qtype: dns.TypeA, Class: dns.ClassINET}
	if q.Ans == "cache" {
		rq.Qname = warmName
	} else {
		rq.Qname = fmt.Sprintf("cold%d.%s", n, viewZone)
	}
	// internal/mock.Writer resolves the address from a string (always the 16-byte form); it is
	// also what Server.ServeHTTP really hands the chain for DoH
	if ((proto == "udp" || proto == "tcp") && c.r.Intn(4) == 0) || (proto == "doh" && c.r.Intn(2) == 0) {
		rq.Mock = true
		rq.Form = 16
	}
	return rq
}

// ---- drivers ------------------------------------------------------------------------

func groupCases(in *gateInput) (keys []string, groups map[string][]*gOutcome) {
	groups = map[string][]*gOutcome{}
	for i := range in.Cases {
		k := cfgKey(&in.Cases[i])
		if _, ok := groups[k]; !ok {
			keys = append(keys, k)
		}
		groups[k] = append(groups[k], &in.Cases[i])
	}
	sort.Strings(keys)
	return
}

func TestGateHandlers(t *testing.T) {
	var in gateInput
	vh.Input(t, &in)
	res := vh.NewResult()
	defer res.Write(t)
	quiet()
	r := vh.Rand()
	scratch := vh.Scratch(t)
	keys, groups := groupCases(&in)
	if in.Variants < 1 {
		in.Variants = 1
	}
	n := 0
	for _, k := range keys {
		for v := 0; v < in.Variants; v++ {
			cn := newConcFor(r, in.Family)
			cc := cn.cfg(groups[k][0])
			e := handlerEnv(&cc, scratch)
			for _, o := range groups[k] {
				if o.Req.Kind != "client" {
					continue
				}
				ps := protos
				if !vh.Thorough() { // quick tier: two of the four transports per case, rotating
					ps = []string{protos[n%4], protos[(n+2)%4]}
				}
				if o.Req.Tr != "" && o.Req.Tr != "any" { // the model fixed the transport
					ps = []string{o.Req.Tr}
				}
				for _, proto := range ps {
					n++
					rq := cn.req(&o.Req, n, proto)
					judgeClient(res, e, &cc, &rq, nil, o)
					res.Case(fmt.Sprintf("h:%s|%s|%s|%s|%s|%s", k, o.Req.Src, o.Req.Born, o.Req.Ans, proto, o.Req.Port))
				}
			}
		}
	}
	res.Sample(map[string]any{"level": "handlers", "configs": len(keys), "variants": in.Variants})
}

// policyHandlers: an internal sub-query must never be subjected to these.
var policyHandlers = map[string]bool{"accesslist": true, "ratelimit": true, "reflex": true, "views": true}

func names(p *middleware.Pipeline) []string {
	var out []string
	for _, h := range p.Handlers() {
		out = append(out, h.Name())
	}
	return out
}

func checkSubPipelines(res *vh.Result, e *env, in *gateInput, c *concCfg) {
	main := names(e.pipe)
	for _, want := range []string{"accesslist", "ratelimit", "reflex", "views", "cache"} {
		found := false
		for _, n := range main {
			found = found || n == want
		}
		if !found {
			res.Skip("default chain built without %q: %v", want, main)
			return
		}
	}
	rp := gateReplay{Kind: "gate", Level: "default", Cfg: *c, Int: "structure"}
	for _, pq := range []struct {
		pipe string
		q    middleware.Queryer
	}{{"query", e.tail.q}, {"prefetch", e.tail.pq}} {
		sub := middleware.VerifQueryerSub(pq.q)
		if sub == nil {
			res.Skip("%s Queryer is not pipeline backed (%T)", pq.pipe, pq.q)
			continue
		}
		res.Count("subpipelines_checked", 1)
		for _, h := range sub.Handlers() {
			co, isCO := h.(middleware.ClientOnly)
			switch {
			case policyHandlers[h.Name()]:
				violate(res, "gate|subpipeline|"+pq.pipe+"|"+h.Name(),
					fmt.Sprintf("the %s sub-pipeline that resolver-internal sub-queries run on contains the client policy handler %q: %v",
						pq.pipe, h.Name(), names(sub)), rp)
			case isCO && co.ClientOnly():
				res.DriftNote("%s sub-pipeline keeps ClientOnly handler %q", pq.pipe, h.Name())
			}
		}
		if pq.pipe == "prefetch" && sub.Get("cache") != nil {
			res.DriftNote("prefetch sub-pipeline keeps the cache handler")
		}
	}
	// the model's chain against the real one (order of the common names): drift only
	pos := map[string]int{}
	for i, n := range main {
		pos[n] = i
	}
	last := -1
	for _, n := range in.Chain {
		if n == in.Tail {
			n = "c17-tail"
		}
		p, ok := pos[n]
		if !ok {
			continue
		}
		if p < last {
			res.DriftNote("real chain order differs from the model at %q: %v", n, main)
			break
		}
		last = p
	}
	res.Sample(map[string]any{"real_chain": main, "query_sub": names(middleware.VerifQueryerSub(e.tail.q)),
		"prefetch_sub": names(middleware.VerifQueryerSub(e.tail.pq))})
}

func judgeInternal(res *vh.Result, e *env, c *concCfg, pipe, qname string, model *gOutcome) {
	before := e.snapshot()
	ib := e.probes["beforeCache"].internal
	resp, err := e.internal(pipe, qname)
	d := delta(before, e.snapshot())
	res.Count("internal_queries", 1)
	rp := gateReplay{Kind: "gate", Level: "default", Cfg: *c, Int: pipe, Req: concReq{Qname: qname}, Model: model}
	key := fmt.Sprintf("gate|internal|%s|acl=%s|views=%d", pipe, strings.Join(c.AccessList, ","), len(c.Views))
	desc := fmt.Sprintf("[%s sub-query for %s, access list %q, views %+v]", pipe, qname, c.AccessList, c.Views)
	if err != nil || resp == nil {
		violate(res, key+"|unanswered", fmt.Sprintf("a resolver-internal sub-query was not answered (err=%v): client policy applied to it? %s", err, desc), rp)
		return
	}
	rv := classifyMsg(resp)
	if rv.from == "views" {
		violate(res, key+"|view", fmt.Sprintf("a resolver-internal sub-query was answered by view %d %s", rv.view, desc), rp)
		return
	}
	if e.probes["beforeCache"].internal-ib != 1 {
		res.DriftNote("internal sub-query did not pass the probe ahead of the cache with Internal()=true %s", desc)
	}
	if model != nil {
		got := "resolver"
		if d["tail"] == 0 {
			got = "cache"
		}
		if got != model.Written {
			res.DriftNote("model: internal answered by %s, real: %s %s", model.Written, got, desc)
		}
	}
}

// battery: questions the handlers ahead of the cache would answer on their own.
var battery = []struct {
	name  string
	qtype uint16
	class uint16
}{
	{"version.bind.", dns.TypeTXT, dns.ClassCHAOS},
	{"1.0.0.10.in-addr.arpa.", dns.TypePTR, dns.ClassINET},
	{blockName, dns.TypeA, dns.ClassINET},
	{warmName, dns.TypeA, dns.ClassINET},
}

func runDefaultConfig(res *vh.Result, in *gateInput, cn *conc, cc *concCfg, cases []*gOutcome, scratch string, n *int, first bool) {
	e := defaultEnv(cc, scratch)
	defer e.cleanup()
	res.Count("default_chain_setups", 1)
	if first {
		checkSubPipelines(res, e, in, cc)
	} else {
		// cheap re-check on every config: no policy handler in either sub-pipeline
		for _, q := range []middleware.Queryer{e.tail.q, e.tail.pq} {
			if sub := middleware.VerifQueryerSub(q); sub != nil {
				for _, h := range sub.Handlers() {
					if policyHandlers[h.Name()] {
						violate(res, "gate|subpipeline|"+h.Name(), fmt.Sprintf("an internal sub-pipeline contains the client policy handler %q: %v", h.Name(), names(sub)),
							gateReplay{Kind: "gate", Level: "default", Cfg: *cc, Int: "structure"})
					}
				}
			}
		}
	}
	// warm the cache through the internal Queryer (itself an internal sub-query under this policy)
	judgeInternal(res, e, cc, "query", warmName, nil)
	warm := []string{warmName}
	deniedSeen := map[string]bool{}
	for _, o := range cases {
		switch o.Req.Kind {
		case "internal":
			*n++
			qn := warmName
			if o.Req.Ans != "cache" {
				qn = fmt.Sprintf("icold%d.%s", *n, viewZone)
			}
			judgeInternal(res, e, cc, o.Req.Pipe, qn, o)
			res.Case(fmt.Sprintf("d:%s|internal|%s|%s", cfgKey(o), o.Req.Pipe, o.Req.Ans))
		case "client":
			*n++
			proto := protos[cn.r.Intn(len(protos))]
			rq := cn.req(&o.Req, *n, proto)
			judgeClient(res, e, cc, &rq, warm, o)
			res.Case(fmt.Sprintf("d:%s|%s|%s|%s|%s|%s", cfgKey(o), o.Req.Src, o.Req.Born, o.Req.Ans, o.Req.Tr, o.Req.Port))
			if !o.Allowed {
				// no later-visible state: the denied question is still a cache miss afterwards
				if rq.Qname != warmName {
					before := e.tail.n
					if rq.isSentinelPort0() {
						continue // a legacy internal writer double, not a client (see judgeClient)
					}
					if _, err := e.internal("query", rq.Qname); err == nil && e.tail.n-before != 1 {
						violate(res, "gate|default|denied-cached|"+strings.Join(cc.AccessList, ","),
							fmt.Sprintf("after a denied query for %s a later lookup did not reach the resolver (tail ran %d times): the denied query left cache state", rq.Qname, e.tail.n-before),
							gateReplay{Kind: "gate", Level: "default", Cfg: *cc, Req: rq, Warm: warm, Model: o})
					}
				}
				// once per denied source class: questions chaos / as112 / blocklist / cache answer on their own
				if !deniedSeen[o.Req.Src+o.Req.Born+o.Req.Tr+o.Req.Port] {
					deniedSeen[o.Req.Src+o.Req.Born+o.Req.Tr+o.Req.Port] = true
					for _, b := range battery {
						bq := rq
						bq.Qname, bq.Qtype, bq.Class = b.name, b.qtype, b.class
						judgeClient(res, e, cc, &bq, warm, nil)
						res.Count("battery", 1)
					}
					// the same source with a client cookie, then with a different one (what the limiter's cookie
					// memory turns into BADCOOKIE over UDP), then without: silence every time
					for _, ck := range []string{"0011223344556677", "8899aabbccddeeff", "0011223344556677", ""} {
						bq := rq
						bq.Cookie = ck
						judgeClient(res, e, cc, &bq, warm, nil)
						res.Count("battery_cookie", 1)
					}
				}
			}
		}
	}
}

func TestGateDefaultChain(t *testing.T) {
	var in gateInput
	vh.Input(t, &in)
	res := vh.NewResult()
	defer res.Write(t)
	quiet()
	r := vh.Rand()
	scratch := vh.Scratch(t)
	_ = os.MkdirAll(filepath.Join(scratch, "c17-blocklists"), 0o755)
	keys, groups := groupCases(&in)
	r.Shuffle(len(keys), func(i, j int) { keys[i], keys[j] = keys[j], keys[i] })
	if in.FullConfigs > 0 && in.FullConfigs < len(keys) {
		keys = keys[:in.FullConfigs]
	}
	n := 0
	for i, k := range keys {
		cn := newConcFor(r, in.Family)
		cc := cn.cfg(groups[k][0])
		runDefaultConfig(res, &in, cn, &cc, groups[k], scratch, &n, i == 0)
	}
	res.Sample(map[string]any{"level": "default", "configs": len(keys)})
}

// TestGateOne re-runs one recorded gate case: bin/check C17 --replay.
func TestGateOne(t *testing.T) {
	var rp gateReplay
	vh.Input(t, &rp)
	res := vh.NewResult()
	defer res.Write(t)
	quiet()
	scratch := vh.Scratch(t)
	res.Case("replay")
	if rp.Level == "handlers" {
		e := handlerEnv(&rp.Cfg, scratch)
		judgeClient(res, e, &rp.Cfg, &rp.Req, nil, nil)
		return
	}
	if rp.Level == "sockets" { // sentinel_test.go: the running UDP / TCP listeners
		_ = os.MkdirAll(filepath.Join(scratch, "c17-blocklists"), 0o755)
		se, err := newSockEnv(&rp.Cfg, scratch)
		if err != nil {
			res.Skip("server: %v", err)
			return
		}
		defer se.stop()
		for _, w := range rp.Warm {
			_, _ = se.internal("query", w)
		}
		if rp.Req.ID == 0 {
			rp.Req.ID = 0x2001
		}
		judgeSocket(res, se, &rp.Cfg, &rp.Req, nil)
		return
	}
	e := defaultEnv(&rp.Cfg, scratch)
	defer e.cleanup()
	in := gateInput{}
	switch rp.Int {
	case "structure":
		checkSubPipelines(res, e, &in, &rp.Cfg)
	case "query", "prefetch":
		judgeInternal(res, e, &rp.Cfg, rp.Int, rp.Req.Qname, nil)
	default:
		for _, w := range rp.Warm {
			_, _ = e.internal("query", w)
		}
		judgeClient(res, e, &rp.Cfg, &rp.Req, rp.Warm, nil)
	}
}
