//go:build verif

package blocklist

import (
	"sort"
	"sync/atomic"
)

// Thin accessors injected with `go test -overlay` by /verif for property C18
// (never committed to the repository).

// VerifLists returns sorted copies of the three lists.
func (b *BlockList) VerifLists() (m, wild, w []string) {
	b.mu.RLock()
	defer b.mu.RUnlock()
	for k := range b.m {
		m = append(m, k)
	}
	for k := range b.wild {
		wild = append(wild, k)
	}
	for k := range b.w {
		w = append(w, k)
	}
	sort.Strings(m)
	sort.Strings(wild)
	sort.Strings(w)
	return m, wild, w
}

// VerifSetLists replaces the three lists. Keys must already be canonical
// (lower case, trailing dot); wild holds suffixes without the "*." prefix.
func (b *BlockList) VerifSetLists(m, wild, w []string) {
	b.mu.Lock()
	defer b.mu.Unlock()
	b.m = make(map[string]bool, len(m))
	b.wild = make(map[string]bool, len(wild))
	b.w = make(map[string]bool, len(w))
	for _, k := range m {
		b.m[k] = true
	}
	for _, k := range wild {
		b.wild[k] = true
	}
	for _, k := range w {
		b.w[k] = true
	}
}

// VerifVersions reads the snapshot counters without their locks. Only sound
// while every goroutine mutating the list is parked (gated schedule replay).
func (b *BlockList) VerifVersions() (version, lastPersisted uint64) {
	return verifU64(&b.version), verifU64(&b.lastPersisted)
}

// verifU64 reads a counter whether the tree under test keeps it as a plain or
// as an atomic word (a change of representation alone is not a finding).
func verifU64(p any) uint64 {
	switch x := p.(type) {
	case *uint64:
		return *x
	case *atomic.Uint64:
		return x.Load()
	case *uint32:
		return uint64(*x)
	case *atomic.Uint32:
		return uint64(x.Load())
	case *int64:
		return uint64(*x)
	case *atomic.Int64:
		return uint64(x.Load())
	}
	panic("verif: unknown counter representation")
}

// VerifSaveMuFree reports whether the persistence lock is currently free.
func (b *BlockList) VerifSaveMuFree() bool {
	if b.saveMu.TryLock() {
		b.saveMu.Unlock()
		return true
	}
	return false
}
