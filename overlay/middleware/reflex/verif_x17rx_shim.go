//go:build verif

package reflex

// Thin accessors injected with `go test -overlay` by the verification
// framework for module XREFLEX (never committed to the repository): the
// observable projection of the per-IP table, a bounded table for the
// eviction scenarios, and a virtual clock -- the tracker stamps entries
// with time.Now(), so time is moved by shifting the stored stamps into
// the past; VerifSnap removes the real time that leaked in between.

import (
	"sort"
	"time"
)

// VerifEntry is what can be seen of one address's entry without touching it.
type VerifEntry struct {
	Present   bool
	FirstAge  time.Duration // now - FirstSeen
	LastAge   time.Duration // now - LastSeen
	Queries   uint32
	HighAmp   uint32
	AmpSum    float64
	ReqBytes  uint64
	RespBytes uint64
	HasTCP    bool
	HasNormal bool
	Types     uint16
	Score     float64 // calculateScore on the entry as it stands (the function only reads)
}

// VerifPeek reads an address's entry; ages are taken as of now.
func (r *Reflex) VerifPeek(ip string) VerifEntry { return r.VerifPeekAt(ip, time.Now()) }

// VerifPeekAt reads an address's entry; ages are taken as of ref (the instant VerifSnap returned, so that the
// time a request takes does not leak into the ages of the entries it did not touch).
func (r *Reflex) VerifPeekAt(ip string, now time.Time) VerifEntry {
	t := r.tracker
	t.mu.RLock()
	defer t.mu.RUnlock()
	e, ok := t.entries[ip]
	if !ok {
		return VerifEntry{}
	}
	return VerifEntry{Present: true, FirstAge: now.Sub(e.FirstSeen), LastAge: now.Sub(e.LastSeen), Queries: e.TotalQueries,
		HighAmp: e.HighAmpQueries, AmpSum: e.TotalAmpFactor, ReqBytes: e.TotalRequestBytes, RespBytes: e.TotalResponseBytes,
		HasTCP: e.HasTCP, HasNormal: e.HasNormalQ, Types: e.QueryTypes, Score: t.calculateScore(e)}
}

// VerifKeys lists the tracked addresses, least recently seen first.
func (r *Reflex) VerifKeys() []string {
	t := r.tracker
	t.mu.RLock()
	defer t.mu.RUnlock()
	out := make([]string, 0, len(t.entries))
	for k := range t.entries {
		out = append(out, k)
	}
	sort.Slice(out, func(i, j int) bool {
		a, b := t.entries[out[i]], t.entries[out[j]]
		if !a.LastSeen.Equal(b.LastSeen) {
			return a.LastSeen.Before(b.LastSeen)
		}
		return out[i] < out[j]
	})
	return out
}

// VerifLen is IPTracker.Count.
func (r *Reflex) VerifLen() int { return r.tracker.Count() }

// VerifMax is the table bound.
func (r *Reflex) VerifMax() int { return r.tracker.maxSize }

// VerifSetMax bounds the table (the production bound is 100000 entries).
func (r *Reflex) VerifSetMax(n int) {
	r.tracker.mu.Lock()
	r.tracker.maxSize = n
	r.tracker.mu.Unlock()
}

// VerifThreshold / VerifMode: the configuration as the handler reads it.
func (r *Reflex) VerifThreshold() float64 { return r.threshold() }
func (r *Reflex) VerifMode() string       { return r.mode() }

// VerifAdvance moves the clock forward by d: every stamp moves d into the past.
func (r *Reflex) VerifAdvance(d time.Duration) {
	t := r.tracker
	t.mu.Lock()
	defer t.mu.Unlock()
	for _, e := range t.entries {
		e.FirstSeen = e.FirstSeen.Add(-d)
		e.LastSeen = e.LastSeen.Add(-d)
	}
}

// VerifSnap rounds the age of every stamp to a whole number of units as of
// now (the real time that elapsed between the driver's steps is removed; it
// must stay below half a unit).  The last-seen order of the entries is kept:
// entries of one age are spaced a nanosecond apart, oldest first.
// It returns the instant the ages were taken at.
func (r *Reflex) VerifSnap(unit time.Duration) time.Time {
	t := r.tracker
	t.mu.Lock()
	defer t.mu.Unlock()
	now := time.Now()
	snap := func(s time.Time) time.Time {
		age := now.Sub(s)
		n := (age + unit/2) / unit
		return now.Add(-n * unit)
	}
	es := make([]*IPEntry, 0, len(t.entries))
	for _, e := range t.entries {
		es = append(es, e)
	}
	sort.Slice(es, func(i, j int) bool { return es[i].LastSeen.Before(es[j].LastSeen) })
	for i, e := range es {
		e.FirstSeen = snap(e.FirstSeen)
		e.LastSeen = snap(e.LastSeen).Add(-time.Duration(len(es)-i) * time.Nanosecond)
		if e.LastSeen.Before(e.FirstSeen) {
			e.FirstSeen = e.LastSeen
		}
	}
	return now
}

// VerifCleanup is the periodic job's body.
func (r *Reflex) VerifCleanup() { r.tracker.Cleanup() }
