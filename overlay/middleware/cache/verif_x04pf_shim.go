//go:build verif

package cache

import (
	"net/netip"
	"time"

	"github.com/miekg/dns"
)

// Thin accessors injected with `go test -overlay` by /verif for the Prefetch
// module (X04PF; never committed to the repository): a small prefetch queue in
// place of the 4-worker / 1000-slot default so that "queue full" and "worker
// busy" can be forced, raw reads of the claim flag and entry lifetimes, and the
// timestamp shifter that stands in for a clock advance.  Self-contained: this
// file is injected into every check's build and uses no other shim.

// VerifX04pfStore exposes the concrete store.
func (c *Cache) VerifX04pfStore() *Store { return c.store }

// VerifX04pfSetQueue stops the queue Cache.New created and installs one with
// the given worker count and channel capacity (same constructor, same metrics).
func (c *Cache) VerifX04pfSetQueue(workers, size int) {
	if c.prefetchQueue != nil {
		c.prefetchQueue.Stop()
	}
	c.prefetchQueue = NewPrefetchQueue(workers, size, c.metrics)
}

// VerifX04pfQueue reads the queue: buffered requests, the stopped mark, and
// whether its context was cancelled.
func (c *Cache) VerifX04pfQueue() (queued int, stopped, cancelled bool) {
	pq := c.prefetchQueue
	if pq == nil {
		return 0, true, true
	}
	return len(pq.items), pq.stopped.Load(), pq.ctx.Err() != nil
}

// VerifX04pfQueued lists the questions (name of the request, message id) still
// buffered in the channel after the workers have left.  Only sound once Stop
// has returned: it drains and refills the channel.
func (c *Cache) VerifX04pfQueued() []uint16 {
	pq := c.prefetchQueue
	if pq == nil {
		return nil
	}
	var ids []uint16
	n := len(pq.items)
	for i := 0; i < n; i++ {
		select {
		case r := <-pq.items:
			if r.Request != nil {
				ids = append(ids, r.Request.Id)
			}
			pq.items <- r
		default:
		}
	}
	return ids
}

// VerifX04pfPrefetches reads the successful-refresh counter.
func (c *Cache) VerifX04pfPrefetches() int64 { return c.metrics.prefetches.Load() }

// VerifX04pfShift rewrites stored / cutUntil of every answer entry at rest by
// -d (a clock advance of d).  Entries are shifted in place: pointer identity
// (the prefetch CAS) is kept.  Only sound when no hit or write is in progress;
// a refresh parked inside its Queryer holds no timestamp.
func (c *Cache) VerifX04pfShift(d time.Duration) int {
	n := 0
	c.store.ForEach(func(_ bool, _ uint64, e *CacheEntry) bool {
		e.stored = e.stored.Add(-d)
		if !e.cutUntil.IsZero() {
			e.cutUntil = e.cutUntil.Add(-d)
		}
		n++
		return true
	})
	return n
}

// VerifX04pfPeek returns the entry stored under key in the positive (then the
// negative) sub-cache without the expiry check and without the
// delete-on-expired side effect of PositiveCache.Get.
func (s *Store) VerifX04pfPeek(key uint64) *CacheEntry {
	if v, ok := s.positive.cache.Get(key); ok {
		if e, ok := v.(*CacheEntry); ok {
			return e
		}
	}
	if v, ok := s.negative.cache.Get(key); ok {
		if e, ok := v.(*CacheEntry); ok {
			return e
		}
	}
	return nil
}

// VerifX04pfTimes reads an entry's clock.
func (e *CacheEntry) VerifX04pfTimes() (stored time.Time, ttl time.Duration, cutUntil time.Time) {
	return e.stored, e.ttl, e.cutUntil
}

// VerifX04pfClaimed reads the prefetch claim flag.
func (e *CacheEntry) VerifX04pfClaimed() bool { return e.prefetch.Load() }

// VerifX04pfIdentity reads the partition an entry is filed under.
func (e *CacheEntry) VerifX04pfIdentity() (q dns.Question, cd bool, scope netip.Prefix) {
	return e.question, e.cd, e.scope
}

// VerifX04pfStored unpacks the message an entry retains (no serve-time shaping).
func (e *CacheEntry) VerifX04pfStored() *dns.Msg { return e.storedMsg() }
