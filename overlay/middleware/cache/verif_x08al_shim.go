//go:build verif

package cache

import (
	"time"

	"github.com/miekg/dns"
)

// Thin accessors injected with `go test -overlay` by /verif for the AliasLease
// module (X08AL; never committed to the repository): the timestamp shifter that
// stands in for a clock advance of the answer cache, and a raw read of one
// entry's clock and retained message.  Self-contained (uses no other shim).

// VerifX08alShift rewrites every timestamp the answer cache holds at rest by
// -d: answer entries' stored / cutUntil, subtree cuts, denial-proof RRsets.
// Observationally a clock advance of d; only sound at a quiescent point.
func (c *Cache) VerifX08alShift(d time.Duration) int {
	n := 0
	s := c.store
	s.ForEach(func(_ bool, _ uint64, e *CacheEntry) bool {
		e.stored = e.stored.Add(-d)
		if !e.cutUntil.IsZero() {
			e.cutUntil = e.cutUntil.Add(-d)
		}
		n++
		return true
	})
	if cc := s.nxDomainCuts; cc != nil {
		cc.mu.Lock()
		for _, e := range cc.entries {
			e.stored = e.stored.Add(-d)
			e.expires = e.expires.Add(-d)
			n++
		}
		cc.mu.Unlock()
	}
	if dp := s.denialProofs; dp != nil {
		dp.mu.Lock()
		for _, e := range dp.byID {
			e.expires = e.expires.Add(-d)
			n++
		}
		for k, t := range dp.nsec3Conflicts {
			dp.nsec3Conflicts[k] = t.Add(-d)
		}
		if !dp.nsec3ConflictOverflowUntil.IsZero() {
			dp.nsec3ConflictOverflowUntil = dp.nsec3ConflictOverflowUntil.Add(-d)
		}
		dp.mu.Unlock()
	}
	return n
}

// VerifX08alEntry is the clock and content of one stored answer entry.
type VerifX08alEntry struct {
	Found    bool
	Stored   time.Time
	TTL      time.Duration
	CutUntil time.Time // zero = no delegation lease attached
	Msg      *dns.Msg  // the retained message (no serve-time shaping)
}

// VerifX08alPeek reads the entry stored for q in the given CD partition (shared
// key) without the expiry check and without the delete-on-expired side effect
// of a lookup.
func (c *Cache) VerifX08alPeek(q dns.Question, cd bool) VerifX08alEntry {
	key := CacheKey{Question: q, CD: cd}.Hash()
	v, ok := c.store.positive.cache.Get(key)
	if !ok {
		return VerifX08alEntry{}
	}
	e, ok := v.(*CacheEntry)
	if !ok || e == nil {
		return VerifX08alEntry{}
	}
	return VerifX08alEntry{Found: true, Stored: e.stored, TTL: e.ttl, CutUntil: e.cutUntil, Msg: e.storedMsg()}
}
