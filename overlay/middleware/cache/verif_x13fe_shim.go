//go:build verif

package cache

// Thin accessors for the X13FE tier (failure cache x ECS audiences x concurrent
// followers), injected with `go test -overlay` by /verif; never committed to
// the repository.  Names are disjoint from the C13 shim: both are injected when
// the tier runs inside C13.

import (
	"net/netip"
	"time"

	"github.com/miekg/dns"
)

// VerifX13feEntry is the projection of one retained failure state.
type VerifX13feEntry struct {
	Kind       FailureKind
	Question   dns.Question
	CD         bool
	Scope      netip.Prefix
	Zone       string
	Streak     uint32
	RetryAfter time.Time
}

// VerifX13feSnapshot lists every retained (active or expired) failure state.
func (c *Cache) VerifX13feSnapshot() []VerifX13feEntry {
	var out []VerifX13feEntry
	c.failure.entries.ForEach(func(_ uint64, value any) bool {
		e, ok := value.(*failureEntry)
		if !ok || e == nil {
			return true
		}
		out = append(out, VerifX13feEntry{
			Kind:       e.kind,
			Question:   e.question.Question,
			CD:         e.question.CD,
			Scope:      e.question.Scope,
			Zone:       e.zone.Zone,
			Streak:     e.streak,
			RetryAfter: e.retryAfter,
		})
		return true
	})
	return out
}

// VerifX13feSetNow installs the virtual clock of the failure cache.
func (c *Cache) VerifX13feSetNow(now func() time.Time) { c.failure.now = now }

// VerifX13feDropAnswer removes the ordinary answer-cache entry of a question
// under one scope ("its TTL ran out"), leaving failure state alone.
func (c *Cache) VerifX13feDropAnswer(q dns.Question, cd bool, scope netip.Prefix) {
	key := CacheKey{Question: q, CD: cd, Scope: scope}.Hash()
	c.positive.Remove(key)
	c.negative.Remove(key)
}

// VerifX13feFlights is the number of generations registered in the dedup group.
func (c *Cache) VerifX13feFlights() int { return c.wg.VerifX13feLen() }
