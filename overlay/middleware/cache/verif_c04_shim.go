//go:build verif

package cache

import (
	"time"

	"github.com/miekg/dns"
)

// Thin accessors injected with `go test -overlay` by /verif for property C04
// (never committed to the repository): the timestamp *shifter* that stands in
// for a clock advance, and raw reads of entry lifetimes.
//
// VerifC04Shift rewrites every timestamp the answer cache holds at rest by
// -d: positive/negative (incl. scoped) entries' stored and cutUntil, subtree
// cuts' stored/expires, denial-proof RRset expiries, NSEC3-conflict
// tombstones and the retryAfter of RFC 9520 failure records (the DNS64
// failure dimension of Lease64.tla).  Observationally that is a clock advance of d for everything at
// rest; it is only sound at a quiescent point (no hit or write in progress).
// Entries are shifted in place so pointer identity (the prefetch CAS) is kept.

// VerifC04ShiftStats counts what one shift touched.
type VerifC04ShiftStats struct {
	Entries, Cuts, Proofs, Conflicts, Failures int
}

// VerifC04Shift shifts every stored timestamp of the cache's store.
func (c *Cache) VerifC04Shift(d time.Duration) VerifC04ShiftStats { return c.store.VerifC04Shift(d) }

// VerifC04Store exposes the concrete store.
func (c *Cache) VerifC04Store() *Store { return c.store }

// VerifC04Shift shifts every stored timestamp of s.
func (s *Store) VerifC04Shift(d time.Duration) VerifC04ShiftStats {
	var st VerifC04ShiftStats
	s.ForEach(func(_ bool, _ uint64, e *CacheEntry) bool {
		e.stored = e.stored.Add(-d)
		if !e.cutUntil.IsZero() {
			e.cutUntil = e.cutUntil.Add(-d)
		}
		st.Entries++
		return true
	})
	if c := s.nxDomainCuts; c != nil {
		c.mu.Lock()
		for _, e := range c.entries {
			e.stored = e.stored.Add(-d)
			e.expires = e.expires.Add(-d)
			st.Cuts++
		}
		c.mu.Unlock()
	}
	if c := s.denialProofs; c != nil {
		c.mu.Lock()
		for _, e := range c.byID {
			e.expires = e.expires.Add(-d)
			st.Proofs++
		}
		for k, t := range c.nsec3Conflicts {
			c.nsec3Conflicts[k] = t.Add(-d)
			st.Conflicts++
		}
		if !c.nsec3ConflictOverflowUntil.IsZero() {
			c.nsec3ConflictOverflowUntil = c.nsec3ConflictOverflowUntil.Add(-d)
		}
		c.mu.Unlock()
	}
	// RFC 9520 failure records: retryAfter is the only instant a record holds (the
	// streak reset compares it with now as well, so one shift keeps both right)
	if f := s.failure; f != nil && f.entries != nil {
		f.entries.ForEach(func(_ uint64, v any) bool {
			if e, ok := v.(*failureEntry); ok && e != nil {
				e.retryAfter = e.retryAfter.Add(-d)
				st.Failures++
			}
			return true
		})
	}
	return st
}

// VerifC04Peek returns the entry stored under key in the positive (then the
// negative) sub-cache without the expiry check and without the
// delete-on-expired side effect of PositiveCache.Get.
func (s *Store) VerifC04Peek(key uint64) *CacheEntry {
	if v, ok := s.positive.cache.Get(key); ok {
		if e, ok := v.(*CacheEntry); ok {
			return e
		}
	}
	if v, ok := s.negative.cache.Get(key); ok {
		if e, ok := v.(*CacheEntry); ok {
			return e
		}
	}
	return nil
}

// VerifC04Times reads an entry's clock: admission instant, effective TTL and
// the delegation-cut deadline (zero = unbounded).
func (e *CacheEntry) VerifC04Times() (stored time.Time, ttl time.Duration, cutUntil time.Time) {
	return e.stored, e.ttl, e.cutUntil
}

// VerifC04Stored unpacks the message an entry retains (no serve-time shaping).
func (e *CacheEntry) VerifC04Stored() *dns.Msg { return e.storedMsg() }

// VerifC04CutExpiry reads the expiry of the subtree cut recorded for exactly
// deniedName (canonical form), expired or not.
func (s *Store) VerifC04CutExpiry(deniedName string, qclass uint16) (time.Time, bool) {
	c := s.nxDomainCuts
	if c == nil {
		return time.Time{}, false
	}
	c.mu.RLock()
	defer c.mu.RUnlock()
	e := c.entries[nxDomainCutID{deniedName: dns.CanonicalName(deniedName), qclass: qclass}]
	if e == nil {
		return time.Time{}, false
	}
	return e.expires, true
}

// VerifC04ProofExpiries reads the expiry of every retained denial-proof RRset
// of a signer zone, keyed "SOA"/"NSEC"/"NSEC3" + ":" + owner.
func (s *Store) VerifC04ProofExpiries(zone string) map[string]time.Time {
	out := map[string]time.Time{}
	c := s.denialProofs
	if c == nil {
		return out
	}
	zone = dns.CanonicalName(zone)
	c.mu.RLock()
	defer c.mu.RUnlock()
	for id, e := range c.byID {
		if id.zone != zone {
			continue
		}
		kind := "SOA"
		switch id.kind {
		case denialProofNSEC:
			kind = "NSEC"
		case denialProofNSEC3:
			kind = "NSEC3"
		}
		out[kind+":"+id.owner] = e.expires
	}
	return out
}
