//go:build verif

package cache

// Thin accessors for the C13 (RFC 9520 failure cache) conformance drivers,
// injected with `go test -overlay` by /verif; never committed to the repository.

import (
	"net/netip"
	"time"

	"github.com/miekg/dns"
)

// VerifC13Entry is the projection of one retained failure state.
type VerifC13Entry struct {
	Kind       FailureKind
	Question   dns.Question
	CD         bool
	Scope      netip.Prefix
	Zone       string
	Qclass     uint16
	Streak     uint32
	RetryAfter time.Time
	Provenance string
}

// VerifC13Snapshot lists every retained (active or expired) failure state.
func (c *FailureCache) VerifC13Snapshot() []VerifC13Entry {
	var out []VerifC13Entry
	c.entries.ForEach(func(_ uint64, value any) bool {
		e, ok := value.(*failureEntry)
		if !ok || e == nil {
			return true
		}
		out = append(out, VerifC13Entry{
			Kind:       e.kind,
			Question:   e.question.Question,
			CD:         e.question.CD,
			Scope:      e.question.Scope,
			Zone:       e.zone.Zone,
			Qclass:     e.zone.Qclass,
			Streak:     e.streak,
			RetryAfter: e.retryAfter,
			Provenance: string(e.provenance),
		})
		return true
	})
	return out
}

// VerifC13Failure exposes the failure cache behind a Cache.
func (c *Cache) VerifC13Failure() *FailureCache { return c.failure }

// VerifC13SetFailureNow installs the virtual clock of the failure cache.
func (c *Cache) VerifC13SetFailureNow(now func() time.Time) { c.failure.now = now }

// VerifC13DropAnswer removes the ordinary answer-cache entry of a question
// ("the answer's TTL ran out"), leaving failure state alone.
func (c *Cache) VerifC13DropAnswer(q dns.Question, cd bool) {
	key := CacheKey{Question: q, CD: cd}.Hash()
	c.positive.Remove(key)
	c.negative.Remove(key)
}

// VerifC13KillSwitch reports the Store's RFC 9520 rollback switch.
func (c *Cache) VerifC13KillSwitch() bool { return c.store.failureCacheDisabled }
