//go:build verif

package cache

import "time"

// Thin accessor injected with `go test -overlay` by /verif for the C08 pipeline
// tier's long-lease family (tag c08p; never committed to the repository): the
// timestamp shifter that stands in for a clock advance of the answer cache.
// Self-contained (uses no other shim).

// VerifC08pShift rewrites every timestamp the answer cache holds at rest by
// -d: answer entries' stored / cutUntil, subtree cuts, denial-proof RRsets.
// Observationally a clock advance of d; only sound at a quiescent point.
func (c *Cache) VerifC08pShift(d time.Duration) int {
	n := 0
	s := c.store
	s.ForEach(func(_ bool, _ uint64, e *CacheEntry) bool {
		e.stored = e.stored.Add(-d)
		if !e.cutUntil.IsZero() {
			e.cutUntil = e.cutUntil.Add(-d)
		}
		n++
		return true
	})
	if cc := s.nxDomainCuts; cc != nil {
		cc.mu.Lock()
		for _, e := range cc.entries {
			e.stored = e.stored.Add(-d)
			e.expires = e.expires.Add(-d)
			n++
		}
		cc.mu.Unlock()
	}
	if dp := s.denialProofs; dp != nil {
		dp.mu.Lock()
		for _, e := range dp.byID {
			e.expires = e.expires.Add(-d)
			n++
		}
		for k, t := range dp.nsec3Conflicts {
			dp.nsec3Conflicts[k] = t.Add(-d)
		}
		if !dp.nsec3ConflictOverflowUntil.IsZero() {
			dp.nsec3ConflictOverflowUntil = dp.nsec3ConflictOverflowUntil.Add(-d)
		}
		dp.mu.Unlock()
	}
	return n
}
