//go:build verif

package cache

import (
	"time"

	"github.com/semihalev/sdns/internal/cache"
)

// Accessors for the ExpCache tier of property C16 (injected with -overlay,
// never committed to the repository).

// VerifC16Entry makes a bare entry whose lifetime is [stored, stored+ttl).
// Only the expiry fields matter to PositiveCache / NegativeCache.
func VerifC16Entry(stored time.Time, ttl time.Duration) *CacheEntry {
	return &CacheEntry{stored: stored, ttl: ttl}
}

// VerifC16Expire is the virtual clock of the replay: it moves the entry's
// birth far enough into the past that its lifetime is over.  Only called
// while no goroutine is inside the cache.
func (e *CacheEntry) VerifC16Expire() { e.stored = time.Now().Add(-e.ttl - time.Hour) }

// VerifC16Table is the bounded table behind the positive cache.
func (pc *PositiveCache) VerifC16Table() *cache.Cache { return pc.cache }

// VerifC16Table is the bounded table behind the negative cache.
func (nc *NegativeCache) VerifC16Table() *cache.Cache { return nc.cache }
