//go:build verif

package cache

// Thin accessor injected with `go test -overlay` by the verification
// framework for module X06RL (never committed to the repository): the
// process-wide per-entry limiter a cache entry of the given key charges
// (CacheEntry.GetRateLimiter), so the harness can read its tokens and move
// its clock through the public API of golang.org/x/time/rate.

import "golang.org/x/time/rate"

// VerifX06EntryLimiter is getSharedRateLimiter.
func VerifX06EntryLimiter(rateLimit int, key uint64) *rate.Limiter {
	return getSharedRateLimiter(rateLimit, key)
}

// VerifX06LimiterOf is CacheEntry.GetRateLimiter for the entry stored under key (nil when absent).
func (c *Cache) VerifX06LimiterOf(key uint64) *rate.Limiter {
	if e := c.checkCache(key); e != nil {
		return e.GetRateLimiter()
	}
	return nil
}
