//go:build verif

package cache

import (
	"time"

	"github.com/miekg/dns"
	"github.com/semihalev/sdns/middleware"
)

// Thin accessors injected with `go test -overlay` by /verif for the X04DP tier
// (DenialProof.tla, serves C04 / C02); never committed to the repository and no
// logic of their own: a timestamp shifter that stands in for a clock advance
// (sound at quiescent points only) and raw reads of what the denial-proof index
// and the answer cache retain.

// VerifX04dpStore exposes the concrete store of the cache middleware.
func (c *Cache) VerifX04dpStore() *Store { return c.store }

// VerifX04dpShift moves every timestamp the store holds at rest d into the past:
// answer entries (stored, cutUntil), subtree cuts, denial-proof RRsets, NSEC3
// conflict tombstones.  Entries are shifted in place.
func (s *Store) VerifX04dpShift(d time.Duration) (entries, cuts, proofs int) {
	s.ForEach(func(_ bool, _ uint64, e *CacheEntry) bool {
		e.stored = e.stored.Add(-d)
		if !e.cutUntil.IsZero() {
			e.cutUntil = e.cutUntil.Add(-d)
		}
		entries++
		return true
	})
	if c := s.nxDomainCuts; c != nil {
		c.mu.Lock()
		for _, e := range c.entries {
			e.stored = e.stored.Add(-d)
			e.expires = e.expires.Add(-d)
			cuts++
		}
		c.mu.Unlock()
	}
	if c := s.denialProofs; c != nil {
		c.mu.Lock()
		for _, e := range c.byID {
			e.expires = e.expires.Add(-d)
			proofs++
		}
		for k, t := range c.nsec3Conflicts {
			c.nsec3Conflicts[k] = t.Add(-d)
		}
		if !c.nsec3ConflictOverflowUntil.IsZero() {
			c.nsec3ConflictOverflowUntil = c.nsec3ConflictOverflowUntil.Add(-d)
		}
		c.mu.Unlock()
	}
	return
}

// VerifX04dpProof is one retained RRset of the denial-proof index.
type VerifX04dpProof struct {
	Kind    string // SOA | NSEC | NSEC3
	Owner   string
	Expires time.Time
	Serial  uint32 // SOA entries: the serial of the retained record
	SigInc  uint32 // inception of the first retained RRSIG (the harness tags admissions with it)
	Records int
}

// VerifX04dpProofs lists every RRset retained for a signer zone, expired or not.
func (s *Store) VerifX04dpProofs(zone string) []VerifX04dpProof {
	c := s.denialProofs
	if c == nil {
		return nil
	}
	zone = dns.CanonicalName(zone)
	c.mu.RLock()
	defer c.mu.RUnlock()
	var out []VerifX04dpProof
	for id, e := range c.byID {
		if id.zone != zone {
			continue
		}
		p := VerifX04dpProof{Owner: id.owner, Expires: e.expires, Records: len(e.records)}
		switch id.kind {
		case denialProofSOA:
			p.Kind = "SOA"
		case denialProofNSEC:
			p.Kind = "NSEC"
		case denialProofNSEC3:
			p.Kind = "NSEC3"
		}
		for _, rr := range e.records {
			switch r := rr.(type) {
			case *dns.SOA:
				p.Serial = r.Serial
			case *dns.RRSIG:
				if p.SigInc == 0 {
					p.SigInc = r.Inception
				}
			}
		}
		out = append(out, p)
	}
	return out
}

// VerifX04dpPublished reports whether the index publishes a snapshot for zone and,
// if so, whether that snapshot carries an SOA entry.
func (s *Store) VerifX04dpPublished(zone string) (published, soa bool) {
	c := s.denialProofs
	if c == nil {
		return false, false
	}
	c.mu.RLock()
	defer c.mu.RUnlock()
	snap := c.zoneIndex[denialProofZoneKey{zone: dns.CanonicalName(zone), qclass: dns.ClassINET}]
	if snap == nil {
		return false, false
	}
	return true, snap.soa != nil
}

// VerifX04dpEntryEnd reads the lifetime of the answer entry stored for q (CD=0,
// unscoped) without the expiry check of the ordinary lookup: the admission
// instant, the instant its own TTL ends and the delegation / lineage bound
// (zero = unbounded).
func (s *Store) VerifX04dpEntryEnd(q dns.Question) (stored, ttlEnd, cutUntil time.Time, ok bool) {
	key := CacheKey{Question: q}.Hash()
	var e *CacheEntry
	if v, found := s.positive.cache.Get(key); found {
		e, _ = v.(*CacheEntry)
	}
	if e == nil {
		if v, found := s.negative.cache.Get(key); found {
			e, _ = v.(*CacheEntry)
		}
	}
	if e == nil {
		return time.Time{}, time.Time{}, time.Time{}, false
	}
	return e.stored, e.stored.Add(e.ttl), e.cutUntil, true
}

// ---- the lookup-in-flight dimension of DenialProof.tla (Race = TRUE) ------------------------------------------------

// VerifX04dpSetProofClock replaces the clock of the denial-proof index (the seam denialProofCache.now; lookupWithMeta
// reads it right after it has captured the zone snapshots and released the read lock, recordWithKind before it
// extracts).  The harness installs a function that returns time.Now() and can hold a lookup there.  Call it before any
// traffic.
func (s *Store) VerifX04dpSetProofClock(now func() time.Time) {
	if s.denialProofs != nil && now != nil {
		s.denialProofs.now = now
	}
}

// VerifX04dpCryptoLimiter returns the shared DNSSEC crypto gate the cache was wired with, so that the harness can put
// itself in front of it (Cache.SetDNSSECCryptoLimiter is public) and hold the production BeginNSEC3Hash of an
// aggressive lookup mid-evaluation.
func (c *Cache) VerifX04dpCryptoLimiter() middleware.DNSSECCryptoLimiter { return c.dnssecCryptoLimiter }

// VerifX04dpQuarantine reports the NSEC3 conflict tombstones of a signer zone: how many are active at the index clock
// and the latest instant one of them ends.
func (s *Store) VerifX04dpQuarantine(zone string) (active int, until time.Time) {
	c := s.denialProofs
	if c == nil {
		return 0, time.Time{}
	}
	zone = dns.CanonicalName(zone)
	c.mu.RLock()
	defer c.mu.RUnlock()
	now := c.now()
	for k, t := range c.nsec3Conflicts {
		if k.zone.zone != zone || !now.Before(t) {
			continue
		}
		active++
		if t.After(until) {
			until = t
		}
	}
	if now.Before(c.nsec3ConflictOverflowUntil) {
		active++
		if c.nsec3ConflictOverflowUntil.After(until) {
			until = c.nsec3ConflictOverflowUntil
		}
	}
	return active, until
}
