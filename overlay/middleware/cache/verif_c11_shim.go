//go:build verif

package cache

import (
	"time"

	"github.com/semihalev/sdns/internal/waitgroup"
)

// Thin accessors injected with `go test -overlay` by /verif for property C11
// (never committed to the repository).

// VerifC11WaitGroup exposes the dedup wait group of the cache middleware.
func (c *Cache) VerifC11WaitGroup() *waitgroup.WaitGroup { return c.wg }

// VerifC11Store exposes the concrete store (failure cache seeding / probing).
func (c *Cache) VerifC11Store() *Store { return c.store }

// VerifC11SetFailureClock replaces the failure cache's clock (virtual time for
// "the retained failure generation has expired").
func (c *Cache) VerifC11SetFailureClock(now func() time.Time) { c.failure.now = now }
