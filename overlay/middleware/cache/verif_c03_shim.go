//go:build verif

package cache

// Thin accessors injected with `go test -overlay` by /verif for property C03
// (never committed to the repository).  The answer store already has exported
// pre-keyed writers (SetFromResponseWithKey / SetFromResponseScoped), so a
// 64-bit key collision can be staged there without help.  The failure cache
// and the subtree-cut wire index have no pre-keyed writer; these shims file an
// entry of identity A under the hash the code computes for identity B, which
// is exactly the state a real xxhash64 collision would produce.  They call the
// same unexported writers the real paths call (FailureCache.record, the
// byHash map) and change no logic.

import (
	"github.com/miekg/dns"
)

// VerifC03ForgeFailure records a question-kind failure whose identity is
// idKey under the hash of hashKey.
func (s *Store) VerifC03ForgeFailure(hashKey, idKey FailureQuestionKey) {
	hashKey = normalizeFailureQuestionKey(hashKey)
	idKey = normalizeFailureQuestionKey(idKey)
	s.failure.record(failureQuestionHash(hashKey), &failureEntry{
		kind:       FailureKindQuestion,
		provenance: FailureProvenance("verif"),
		question:   idKey,
	})
}

// VerifC03DropFailureHash removes whatever failure entry sits under the hash
// of hashKey (used to mirror an emulated collision after a real purge/reset).
func (s *Store) VerifC03DropFailureHash(hashKey FailureQuestionKey) {
	hashKey = normalizeFailureQuestionKey(hashKey)
	s.failure.entries.Remove(failureQuestionHash(hashKey))
}

// VerifC03DropKey removes the answer entry filed under key in both answer
// sub-caches.
func (s *Store) VerifC03DropKey(key uint64) {
	s.positive.Remove(key)
	s.negative.Remove(key)
}

// VerifC03ForgeCut points the wire index slot of (underName, underClass) at
// the recorded cut (deniedName, qclass).  False when that cut is not recorded.
func (s *Store) VerifC03ForgeCut(underName string, underClass uint16, deniedName string, qclass uint16) bool {
	c := s.nxDomainCuts
	c.mu.Lock()
	defer c.mu.Unlock()
	e := c.entries[nxDomainCutID{deniedName: dns.CanonicalName(deniedName), qclass: qclass}]
	if e == nil {
		return false
	}
	c.byHash[nxDomainCutHash(dns.CanonicalName(underName), underClass)] = e
	return true
}

// VerifC03DropCutHash clears the wire index slot of (underName, underClass).
func (s *Store) VerifC03DropCutHash(underName string, underClass uint16) {
	c := s.nxDomainCuts
	c.mu.Lock()
	defer c.mu.Unlock()
	delete(c.byHash, nxDomainCutHash(dns.CanonicalName(underName), underClass))
}

// VerifC03CutWireServable reports whether the recorded cut has a wire template
// (lookupWire skips cuts without one).
func (s *Store) VerifC03CutWireServable(deniedName string, qclass uint16) bool {
	c := s.nxDomainCuts
	c.mu.RLock()
	defer c.mu.RUnlock()
	e := c.entries[nxDomainCutID{deniedName: dns.CanonicalName(deniedName), qclass: qclass}]
	return e != nil && e.wireFull != nil
}

// VerifC03WireCounters reads the byte-path serve counters (which ladder rung
// answered), so the driver can tell that a route was really exercised.
func VerifC03WireCounters() map[string]int64 {
	return map[string]int64{
		"fast":    wireFastServed.Value(),
		"chase":   wireChaseServed.Value(),
		"cut":     wireCutServed.Value(),
		"failure": wireFailureServed.Value(),
	}
}

// VerifC03EntryIdentity exposes what an entry remembers of its own key.
func (e *CacheEntry) VerifC03EntryIdentity() (q dns.Question, cd bool, scope string) {
	if e == nil {
		return dns.Question{}, false, ""
	}
	s := ""
	if e.scope.IsValid() {
		s = e.scope.String()
	}
	return e.question, e.cd, s
}
