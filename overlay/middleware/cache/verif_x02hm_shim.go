//go:build verif

package cache

// Thin constructor for the X02HM (HashMemo) conformance driver: the cache-side
// optional NSEC3Work adapter (denial-proof synthesis) exactly as the cache
// builds it.  Injected with `go test -overlay`; never committed to the
// repository.

import (
	"context"

	"github.com/semihalev/sdns/middleware"
	"github.com/semihalev/sdns/middleware/resolver/dnssec"
)

// VerifX02hmWork is what the driver needs from the adapter.
type VerifX02hmWork interface {
	dnssec.NSEC3Work
	dnssec.NSEC3HashMemoProvider
}

// VerifX02hmCacheOptionalWork is newDenialProofWork(ctx, limiter).
func VerifX02hmCacheOptionalWork(ctx context.Context, limiter middleware.DNSSECCryptoLimiter) VerifX02hmWork {
	return newDenialProofWork(ctx, limiter)
}
