//go:build verif

package cache

// Thin accessor for the C05 ladder family (Serve.tla: Elapse), injected with
// `go test -overlay` by /verif; never committed to the repository.

import "time"

// VerifC05SetFailureNow installs the clock of the RFC 9520 failure cache, so a
// replayed history can let a back-off run out without sleeping through it.
func (c *Cache) VerifC05SetFailureNow(now func() time.Time) { c.failure.now = now }
