//go:build verif

package cache

// Thin accessor injected with `go test -overlay` by /verif for C19 (EcsDenial.tla, resolver
// tier; never committed to the repository, no logic of its own): the process-wide counters
// the cache itself keeps of answers it SYNTHESISED from shared denial state -- RFC 8020
// subtree-cut hits (client-facing ladder, wire ladder and Store.GetWithContext, i.e. the
// resolver's private DS / DNSKEY reads) and RFC 8198 aggressive NSEC / NSEC3 hits.  The
// harness reads them before and after one client query while nothing else is in flight.
func VerifC19SharedDenialHits() (cut, aggressive int64) {
	return nxDomainCutHits.Value(),
		aggressiveNSECNXDomainHits.Value() + aggressiveNSECNODATAHits.Value() +
			aggressiveNSEC3NXDomainHits.Value() + aggressiveNSEC3NODATAHits.Value()
}
