//go:build verif

package cache

// Thin accessors injected with `go test -overlay` by /verif for property C02
// (never committed to the repository).  They change no logic: the denial-proof
// index already has a `now` seam (denialProofCache.now); the subtree-cut cache
// reads time.Now() directly, so its entries are shifted at a quiescent point
// instead (observationally a clock advance for entries at rest).

import (
	"sort"
	"time"
)

// VerifC02Store exposes the concrete store of the cache middleware.
func (c *Cache) VerifC02Store() *Store { return c.store }

// VerifC02SetDenialClock replaces the denial-proof index clock.
func (s *Store) VerifC02SetDenialClock(now func() time.Time) { s.denialProofs.now = now }

// VerifC02ShiftCuts moves every subtree cut d into the past.
func (s *Store) VerifC02ShiftCuts(d time.Duration) {
	c := s.nxDomainCuts
	c.mu.Lock()
	defer c.mu.Unlock()
	for _, e := range c.entries {
		e.stored = e.stored.Add(-d)
		e.expires = e.expires.Add(-d)
	}
}

// VerifC02CutNames lists the denied names currently recorded (live or not).
func (s *Store) VerifC02CutNames() []string {
	c := s.nxDomainCuts
	c.mu.RLock()
	defer c.mu.RUnlock()
	out := make([]string, 0, len(c.entries))
	for id := range c.entries {
		out = append(out, id.deniedName)
	}
	sort.Strings(out)
	return out
}

// VerifC02ProofOwners lists the owners of the NSEC / NSEC3 RRsets retained for
// zone that are unexpired at the index clock.
func (s *Store) VerifC02ProofOwners(zone string, qclass uint16) []string {
	c := s.denialProofs
	c.mu.RLock()
	defer c.mu.RUnlock()
	now := c.now()
	var out []string
	for id, e := range c.zoneEntries[denialProofZoneKey{zone: zone, qclass: qclass}] {
		if id.kind == denialProofSOA || !now.Before(e.expires) {
			continue
		}
		out = append(out, id.owner)
	}
	sort.Strings(out)
	return out
}
