//go:build verif

package middleware

import (
	"context"

	dto "github.com/prometheus/client_model/go"
)

// Thin accessors injected with `go test -overlay` by /verif for property C12
// (never committed to the repository).

// VerifC12Refs reads the ledger's reference count.
func (l *RecursionWorkLedger) VerifC12Refs() int64 { return l.refs.Load() }

// VerifC12Finished reads the publication latch.
func (l *RecursionWorkLedger) VerifC12Finished() bool { return l.finished.Load() }

// VerifC12First reads the first-rejection latch (0 = none, else kind+1).
func (l *RecursionWorkLedger) VerifC12First() uint32 { return l.first.Load() }

// VerifC12RootState reads the root/lifecycle word (0 live, 1 rootDone, 2 pending, 3 closed).
func (l *RecursionWorkLedger) VerifC12RootState() uint32 { return l.rootState.Load() }

// VerifC12Pin reports the lazy owner pin of a request context:
// "none", "pending", "closed" or "ledger".
func VerifC12Pin(ctx context.Context) (string, *RecursionWorkLedger) {
	pinned, ok := pinnedRecursionWork(ctx)
	switch {
	case !ok || pinned == nil:
		return "none", nil
	case pinned == recursionWorkPending:
		return "pending", nil
	case pinned == recursionWorkClosed:
		return "closed", nil
	}
	return "ledger", pinned
}

// VerifC12Publications is the number of request trees published so far
// (release() observes the fan-out histogram exactly once per publication).
func VerifC12Publications() uint64 {
	var m dto.Metric
	if err := recursionFanoutRatio.Write(&m); err != nil || m.Histogram == nil {
		return 0
	}
	return m.Histogram.GetSampleCount()
}
