//go:build verif

package ratelimit

// Accessors for the concurrent LimStore tier of property C16 (injected with
// -overlay, never committed to the repository).  LimiterStore.Get has no hook
// between its read-locked look-up and its write-locked insert; the harness
// borrows the store's own lock: clients that call Get while it is held park
// in RLock, and sync.RWMutex admits all of them together on release - before
// any of them can take the write lock.

// VerifC16Lock takes the store's write lock.
func (s *LimiterStore) VerifC16Lock() { s.mu.Lock() }

// VerifC16Unlock releases it.
func (s *LimiterStore) VerifC16Unlock() { s.mu.Unlock() }
