//go:build verif

package ratelimit

import "time"

// Accessors for the LimStore tier of property C16 (injected with -overlay,
// never committed to the repository).

// VerifGet is LimiterStore.Get; the limiter comes back boxed (comparable by
// identity, and kept alive by whoever holds it).
func (s *LimiterStore) VerifGet(key uint64) any {
	return s.Get(key)
}

// VerifPeek reports what the store maps under key without stamping it.
func (s *LimiterStore) VerifPeek(key uint64) (any, bool) {
	s.mu.RLock()
	defer s.mu.RUnlock()
	tl, ok := s.limiters[key]
	if !ok {
		return nil, false
	}
	return tl.limiter, true
}

// VerifKeys lists the keys currently mapped that satisfy keep.
func (s *LimiterStore) VerifKeys(keep func(uint64) bool) []uint64 {
	s.mu.RLock()
	defer s.mu.RUnlock()
	var out []uint64
	for k := range s.limiters {
		if keep(k) {
			out = append(out, k)
		}
	}
	return out
}

// VerifAge moves every stamp d into the past (the virtual clock of the replay).
func (s *LimiterStore) VerifAge(d time.Duration) {
	s.mu.Lock()
	defer s.mu.Unlock()
	for _, tl := range s.limiters {
		tl.lastSeen.Store(tl.lastSeen.Load() - int64(d))
	}
}
