//go:build verif

package ratelimit

// Thin accessors injected with `go test -overlay` by the verification
// framework for module X06RL (never committed to the repository): the
// observable projection of the limiter store, a bounded store for the
// eviction scenarios, and a virtual clock built from the public API of
// golang.org/x/time/rate (the limiter keeps the limit and burst the code
// configured; only its notion of "now" is moved).

import (
	"net"
	"sort"
	"sync"
	"time"
)

// VerifBucket is what can be seen of one client's limiter without touching it.
type VerifBucket struct {
	Present  bool
	Tokens   float64 // tokens available now
	Burst    int
	PerMin   float64 // refill rate, tokens per minute
	Cookie   string  // remembered server cookie ("" = none)
	LastSeen int64
}

var (
	verifKeyMu sync.Mutex
	verifKeys  = map[string]uint64{}
)

// VerifKey is the store key the code derives for an address.  It is taken
// from the code's own getLimiter, run once per address against a throw-away
// store (so a changed key derivation is followed, not re-implemented here).
// Call it for every address of interest before traffic starts: the first call
// for an address swaps r.store for the duration of one getLimiter.
func (r *RateLimit) VerifKey(ip net.IP) uint64 {
	verifKeyMu.Lock()
	defer verifKeyMu.Unlock()
	id := string(ip)
	if k, ok := verifKeys[id]; ok {
		return k
	}
	saved := r.store
	probe := NewLimiterStore(4, r.rate)
	r.store = probe
	r.getLimiter(ip)
	r.store = saved
	var key uint64
	for k := range probe.limiters {
		key = k
	}
	verifKeys[id] = key
	return key
}

// VerifPeek reads a client's bucket without creating or touching it.
func (r *RateLimit) VerifPeek(ip net.IP) VerifBucket {
	key := r.VerifKey(ip)
	r.store.mu.RLock()
	tl, ok := r.store.limiters[key]
	r.store.mu.RUnlock()
	if !ok {
		return VerifBucket{}
	}
	c, _ := tl.limiter.cookie.Load().(string)
	return VerifBucket{
		Present:  true,
		Tokens:   tl.limiter.rl.TokensAt(time.Now()),
		Burst:    tl.limiter.rl.Burst(),
		PerMin:   float64(tl.limiter.rl.Limit()) * 60,
		Cookie:   c,
		LastSeen: tl.lastSeen.Load(),
	}
}

// VerifKeys lists the store's keys (sorted).
func (r *RateLimit) VerifKeys() []uint64 {
	r.store.mu.RLock()
	defer r.store.mu.RUnlock()
	out := make([]uint64, 0, len(r.store.limiters))
	for k := range r.store.limiters {
		out = append(out, k)
	}
	sort.Slice(out, func(i, j int) bool { return out[i] < out[j] })
	return out
}

// VerifLen is LimiterStore.Len.
func (r *RateLimit) VerifLen() int { return r.store.Len() }

// VerifRate is the configured per-minute client rate (0 = limiter off).
func (r *RateLimit) VerifRate() int { return r.rate }

// VerifResetStore replaces the store by an empty one bounded to maxSize
// entries (the production bound is the constant cacheSize); maxSize <= 0
// keeps the production bound.
func (r *RateLimit) VerifResetStore(maxSize int) {
	if maxSize <= 0 {
		maxSize = cacheSize
	}
	r.store = NewLimiterStore(maxSize, r.rate)
}

// VerifAdvance moves every limiter's clock forward by d: lastSeen moves
// into the past, and the token bucket is advanced through the library's own
// refill arithmetic with the limit and burst the code gave it.
func (r *RateLimit) VerifAdvance(d time.Duration) {
	r.store.mu.Lock()
	defer r.store.mu.Unlock()
	now := time.Now()
	for _, tl := range r.store.limiters {
		tl.lastSeen.Store(tl.lastSeen.Load() - int64(d))
		rl := tl.limiter.rl
		lim := rl.Limit()
		rl.SetLimitAt(now, lim)        // normalise `last` to now (no refill beyond real elapsed time)
		rl.SetLimitAt(now.Add(d), lim) // advance by d
	}
}

// VerifCleanup is the periodic job's body.
func (r *RateLimit) VerifCleanup(olderThan time.Duration) { r.store.Cleanup(olderThan) }
