//go:build verif

package resolver

// Thin accessors for the X13ZB (ZoneBrk) conformance driver: the per-server
// circuit breaker of the resolver behind the full pipeline.  Injected with
// `go test -overlay` by the verification framework; never committed.

// VerifX13zbBreakerShift moves the server's last failure secs seconds into the
// past (a clock advance for the breaker's cool-down).  It reports whether the
// breaker remembers the server.
func (r *Resolver) VerifX13zbBreakerShift(server string, secs int64) bool {
	r.circuitBreaker.mu.RLock()
	sf := r.circuitBreaker.failures[server]
	r.circuitBreaker.mu.RUnlock()
	if sf == nil {
		return false
	}
	sf.lastFailure.Add(-secs)
	return true
}

// VerifX13zbBreakerState reads one server's record (diagnostics only).
func (r *Resolver) VerifX13zbBreakerState(server string) (exists bool, count int, disabled bool) {
	r.circuitBreaker.mu.RLock()
	sf := r.circuitBreaker.failures[server]
	r.circuitBreaker.mu.RUnlock()
	if sf == nil {
		return false, 0, false
	}
	return true, int(sf.count.Load()), sf.disabled.Load()
}
