//go:build verif

package resolver

import (
	"time"

	"github.com/miekg/dns"
	"github.com/semihalev/sdns/internal/cache"
)

// Thin accessors injected with `go test -overlay` by /verif for the C08 pipeline
// tier's long-lease family (tag c08p; never committed to the repository): the
// delegation cache's timestamp shifter and a raw read of one zone's lease.

// VerifC08pShift moves every stored delegation lease d into the past.
func (h *DNSHandler) VerifC08pShift(d time.Duration) int {
	return h.resolver.delegations.VerifC08pShift(d)
}

// VerifC08pLease reads the stored lease end of zone's delegation.  With DNSSEC
// off the handler resolves with CD=1, so delegations are filed under that key.
func (h *DNSHandler) VerifC08pLease(zone string) (time.Time, bool) {
	for _, cd := range []bool{!h.resolver.dnssec, h.resolver.dnssec} {
		key := cache.Key(dns.Question{Name: dns.Fqdn(zone), Qtype: dns.TypeNS, Qclass: dns.ClassINET}, cd)
		if t, ok := h.resolver.delegations.VerifC08pExpiry(key); ok {
			return t, true
		}
	}
	return time.Time{}, false
}
