//go:build verif

package resolver

// Thin accessor injected with `go test -overlay` by /verif for property C12
// (never committed to the repository).

// VerifC12Detached is the number of detached helper jobs of this resolver that are still
// running: IPv6 nameserver-enrichment jobs (a slot is taken synchronously in
// processDelegation, before the job is started, and handed back when lookupV6Nss has
// returned) plus exploration probes that outlive their lookup. Both retain the ledger of
// the request tree that started them; zero means every started tree is really finished.
func (r *Resolver) VerifC12Detached() int {
	return len(r.v6LookupSlots) + len(r.probeSlots)
}
