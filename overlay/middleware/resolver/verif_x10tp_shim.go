//go:build verif

package resolver

import (
	"context"
	"time"

	"github.com/miekg/dns"
	"github.com/semihalev/sdns/internal/authority"
)

// Thin accessors injected with `go test -overlay` by the X10TP check
// (TcpPool.tla / Rank.tla); never committed to the repository.

// VerifX10tpExchange is Resolver.exchange with an empty resolve state and the
// lookup's interrupt group on ctx (what Resolver.lookup builds around it).
func (r *Resolver) VerifX10tpExchange(ctx context.Context, proto string, req *dns.Msg, server *authority.Server, retried int) (*dns.Msg, error) {
	interrupts := NewInterruptGroup(ctx)
	defer interrupts.Close()
	return r.exchange(ctx, &resolveState{req: req}, interrupts, proto, req, server, retried)
}

// VerifX10tpLookup is Resolver.lookup on a delegation's servers.
func (r *Resolver) VerifX10tpLookup(ctx context.Context, req *dns.Msg, servers *authority.Servers) (*dns.Msg, error) {
	return r.lookup(ctx, &resolveState{req: req, servers: servers}, req, servers)
}

// VerifX10tpSetResolveTarget remaps advertised upstream addresses to dial targets.
func (r *Resolver) VerifX10tpSetResolveTarget(f func(addr string) string) { r.resolveTarget.Store(&f) }

// VerifX10tpSetNetTimeout sets the per-attempt network timeout (read when an attempt starts).
func (r *Resolver) VerifX10tpSetNetTimeout(d time.Duration) { r.netTimeout = d }

// VerifX10tpPool is the resolver's connection pool (nil when keepalive is off).
func (r *Resolver) VerifX10tpPool() *TCPConnPool { return r.tcpPool }

// VerifX10tpProbeSlots reports the exploration probes in flight and the cap.
func (r *Resolver) VerifX10tpProbeSlots() (inflight, limit int) { return len(r.probeSlots), cap(r.probeSlots) }

// VerifX10tpFillProbeSlots takes every free probe slot; the returned func gives them back.
func (r *Resolver) VerifX10tpFillProbeSlots() func() {
	n := 0
	for {
		select {
		case r.probeSlots <- struct{}{}:
			n++
			continue
		default:
		}
		break
	}
	return func() {
		for ; n > 0; n-- {
			<-r.probeSlots
		}
	}
}

// VerifX10tpPooled is one resident connection of the pool.
type VerifX10tpPooled struct {
	Server  string
	Root    bool
	Local   string // local address of the socket (identifies the connection at the peer)
	Expired bool   // time.Since(lastUsed) > idleTime
	Idle    time.Duration
}

// VerifX10tpSnapshot reads the pool under its lock: the resident connections,
// the active counter and the bound.
func (p *TCPConnPool) VerifX10tpSnapshot() (conns []VerifX10tpPooled, active, maxConns int) {
	p.mu.Lock()
	defer p.mu.Unlock()
	add := func(m map[string]*pooledConn, root bool) {
		for k, c := range m {
			e := VerifX10tpPooled{Server: k, Root: root, Expired: time.Since(c.lastUsed) > c.idleTime, Idle: c.idleTime}
			if c.Conn != nil && c.Conn.Conn != nil && c.Conn.LocalAddr() != nil {
				e.Local = c.Conn.LocalAddr().String()
			}
			conns = append(conns, e)
		}
	}
	add(p.rootConns, true)
	add(p.tldConns, false)
	return conns, p.active, p.maxConns
}

// VerifX10tpAge emulates the passing of time for the resident connection of
// server: its lastUsed moves back by more than its idle timeout.  logged (may
// be nil) runs under the pool lock.  Reports whether a connection was there.
func (p *TCPConnPool) VerifX10tpAge(server string, logged func()) bool {
	p.mu.Lock()
	defer p.mu.Unlock()
	found := false
	for _, m := range []map[string]*pooledConn{p.rootConns, p.tldConns} {
		if c, ok := m[server]; ok && c != nil {
			c.lastUsed = time.Now().Add(-c.idleTime - time.Hour)
			found = true
		}
	}
	if found && logged != nil {
		logged()
	}
	return found
}

// VerifX10tpCleanup is one pass of the cleanup goroutine.
func (p *TCPConnPool) VerifX10tpCleanup() { p.cleanup() }

// VerifX10tpIsRoot / VerifX10tpIsTLD are the two classifiers exchange keys the pool on.
func VerifX10tpIsRoot(addr string) bool  { return isRootServer(addr) }
func VerifX10tpIsTLD(qname string) bool  { return isTLDServer(qname) }
