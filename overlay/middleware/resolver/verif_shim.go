//go:build verif

package resolver

// Shared accessors injected by /verif with `go test -overlay` (never committed).

// VerifSetResolveTarget remaps advertised upstream addresses to dial targets
// (scripted authoritative servers on loopback).
func (h *DNSHandler) VerifSetResolveTarget(f func(addr string) string) {
	h.resolver.resolveTarget.Store(&f)
}

// VerifResolver exposes the resolver behind the handler.
func (h *DNSHandler) VerifResolver() *Resolver { return h.resolver }

// VerifHasTrustAnchors reports whether the resolver currently holds root keys.
func (r *Resolver) VerifHasTrustAnchors() bool { return r.hasTrustAnchors() }
