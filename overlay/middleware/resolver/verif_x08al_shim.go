//go:build verif

package resolver

import (
	"time"

	"github.com/miekg/dns"
	"github.com/semihalev/sdns/internal/cache"
)

// Thin accessors injected with `go test -overlay` by /verif for the AliasLease
// module (X08AL; never committed to the repository): the delegation cache's
// timestamp shifter and a raw read of one zone's lease.

// VerifX08alShift moves every stored delegation lease d into the past.
func (h *DNSHandler) VerifX08alShift(d time.Duration) int {
	return h.resolver.delegations.VerifX08alShift(d)
}

// VerifX08alLease reads the stored lease end of zone's delegation.  With DNSSEC
// off the handler resolves with CD=1, so delegations are filed under that key.
func (h *DNSHandler) VerifX08alLease(zone string) (time.Time, bool) {
	for _, cd := range []bool{!h.resolver.dnssec, h.resolver.dnssec} {
		key := cache.Key(dns.Question{Name: dns.Fqdn(zone), Qtype: dns.TypeNS, Qclass: dns.ClassINET}, cd)
		if t, ok := h.resolver.delegations.VerifX08alExpiry(key); ok {
			return t, true
		}
	}
	return time.Time{}, false
}
