//go:build verif

package resolver

// Accessors injected by /verif with `go test -overlay` for property C20
// (never committed to the repository): the decision-table replay needs the
// REAL resolver handler's load-shed branch (DNSHandler.handle: errResolutionCapacity
// / errZoneCapacity -> SERVFAIL marked request-local) as the reply of the rest of
// the chain behind middleware/dns64, instead of a scripted mark.

// VerifC20HoldResolutionSlots occupies every free in-flight resolution slot
// of the handler's resolver, the way lookups waiting out dead authorities pin
// them.  It never blocks; release frees exactly the slots taken here.
func (h *DNSHandler) VerifC20HoldResolutionSlots() (held int, release func()) {
	slots := h.resolver.resolutionSlots
	for {
		select {
		case slots <- struct{}{}:
			held++
			continue
		default:
		}
		break
	}
	n := held
	return held, func() {
		for ; n > 0; n-- {
			<-slots
		}
	}
}

// VerifC20HoldZoneQuota takes the whole in-flight quota of one zone (the
// per-zone limiter's bucket of that name); the global slot pool stays free.
func (h *DNSHandler) VerifC20HoldZoneQuota(zone string) (held int, release func()) {
	var rel []func()
	for {
		r, ok := h.resolver.zoneInflight.acquire(zone)
		if !ok {
			break
		}
		rel = append(rel, r)
	}
	return len(rel), func() {
		for _, r := range rel {
			r()
		}
		rel = nil
	}
}

// VerifC20SlotsFree reports how many global resolution slots are free right now.
func (h *DNSHandler) VerifC20SlotsFree() int {
	return cap(h.resolver.resolutionSlots) - len(h.resolver.resolutionSlots)
}

// VerifC20RootZone is the zone name the root server set is filed under in the per-zone limiter.
func (h *DNSHandler) VerifC20RootZone() string {
	return h.resolver.rootServers.Zone
}

// VerifC20ShedTexts returns the EDE texts of the two load-shed sentinels.
func VerifC20ShedTexts() (global, zone string) {
	return errResolutionCapacity.Message, errZoneCapacity.Message
}
