//go:build verif

package resolver

import "github.com/miekg/dns"

// Thin accessors for the C09 (RFC 5011) conformance driver, injected with
// `go test -overlay` by /verif and never committed to the repository.

// VerifC09StateFile / VerifC09TombstoneFile are the file names AutoTA uses
// below cfg.Directory.
const (
	VerifC09StateFile     = stateFile
	VerifC09TombstoneFile = tombstoneFile
)

// VerifC09RootKeys returns a copy of the live trust set (Resolver.rootKeys)
// taken under the resolver's read lock.
func (r *Resolver) VerifC09RootKeys() []dns.RR {
	r.RLock()
	defer r.RUnlock()
	return append([]dns.RR(nil), r.rootKeys...)
}

// VerifC09ConfiguredRootKeys returns the immutable start-up snapshot.
func (r *Resolver) VerifC09ConfiguredRootKeys() []dns.RR {
	return append([]dns.RR(nil), r.configuredRootKeys...)
}

// VerifC09HasTrustAnchors is the predicate the validation paths consult.
func (r *Resolver) VerifC09HasTrustAnchors() bool { return r.hasTrustAnchors() }

// VerifC09AutoTA runs one RFC 5011 refresh synchronously.
func (r *Resolver) VerifC09AutoTA() { r.AutoTA() }

// VerifC09MaterialFP is the key the tombstone store is indexed by.
func VerifC09MaterialFP(k *dns.DNSKEY) string { return dnskeyMaterialFP(k) }
