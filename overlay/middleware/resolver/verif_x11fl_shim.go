//go:build verif

package resolver

// Thin accessors for the X11FL (Flight) conformance drivers: shared upstream
// lookups (SingleflightWrapper / groupLookup), the resolver's capacity slots
// and the per-server circuit breaker.  Injected with `go test -overlay` by the
// verification framework; never committed to the repository.

import (
	"context"
	"hash/maphash"
	"reflect"
	"sort"
	"sync"
	"time"
	"unsafe"

	"github.com/miekg/dns"
	"github.com/semihalev/sdns/internal/authority"
)

// VerifX11GroupLookup runs Resolver.groupLookup for one caller.
func (r *Resolver) VerifX11GroupLookup(ctx context.Context, req *dns.Msg, servers *authority.Servers, owned bool) (*dns.Msg, error) {
	rs := &resolveState{req: req, servers: servers, depth: 10}
	return r.groupLookup(ctx, rs, req, servers, owned)
}

// VerifX11Flight exposes the resolver's shared-lookup wrapper.
func (r *Resolver) VerifX11Flight() *SingleflightWrapper { return r.sfGroup }

// VerifX11Errs are the sentinels groupLookup's leader closure can return.
func VerifX11Errs() (resCap, zoneCap, connFailed error) {
	return errResolutionCapacity, errZoneCapacity, errConnectionFailed
}

// VerifX11FlightState is the wrapper's registration state per key.
type VerifX11FlightState struct {
	Current  []string       // keys with a current generation token
	Tracked  []string       // keys in the stuck-call tracking map
	Inflight []string       // keys registered in the x/sync singleflight group
	Dups     map[string]int // followers that joined the registered call of a key
	Chans    map[string]int // result channels of the registered call of a key
	// SameGen[k]: the tracked generation of k is the current one
	SameGen map[string]bool
}

// VerifX11State reads the wrapper's maps under its own lock and the
// singleflight group's map under the group's lock.
func (w *SingleflightWrapper) VerifX11State() VerifX11FlightState {
	st := VerifX11FlightState{Dups: map[string]int{}, Chans: map[string]int{}, SameGen: map[string]bool{}}
	w.generationMu.Lock()
	for k := range w.current {
		st.Current = append(st.Current, k)
	}
	w.tracking.Range(func(k, v any) bool {
		ks, _ := k.(string)
		st.Tracked = append(st.Tracked, ks)
		g, _ := v.(*singleflightGeneration)
		st.SameGen[ks] = g != nil && w.current[ks] == g
		return true
	})
	gv := reflect.ValueOf(&w.group).Elem()
	mu := (*sync.Mutex)(unsafe.Pointer(gv.FieldByName("mu").UnsafeAddr()))
	mu.Lock()
	m := gv.FieldByName("m")
	if m.IsValid() && !m.IsNil() {
		it := m.MapRange()
		for it.Next() {
			k := it.Key().String()
			st.Inflight = append(st.Inflight, k)
			c := it.Value().Elem()
			st.Dups[k] = int(c.FieldByName("dups").Int())
			st.Chans[k] = c.FieldByName("chans").Len()
		}
	}
	mu.Unlock()
	w.generationMu.Unlock()
	sort.Strings(st.Current)
	sort.Strings(st.Tracked)
	sort.Strings(st.Inflight)
	return st
}

// VerifX11Age moves the stuck-call clock of every tracked generation d into
// the past (virtual time for cleanupStuckQueries).
func (w *SingleflightWrapper) VerifX11Age(key string, d time.Duration) bool {
	w.generationMu.Lock()
	defer w.generationMu.Unlock()
	v, ok := w.tracking.Load(key)
	if !ok {
		return false
	}
	g := v.(*singleflightGeneration)
	g.started = g.started.Add(-d)
	return true
}

// VerifX11CleanupStuck runs one pass of the periodic stuck-call cleanup.
func (w *SingleflightWrapper) VerifX11CleanupStuck() { w.cleanupStuckQueries() }

// VerifX11SetSlots replaces the capacity pools (call only while nothing is in
// flight).  A value <= 0 leaves that pool unchanged.
func (r *Resolver) VerifX11SetSlots(resolution, zone, maxConc, probe, v6 int) {
	if resolution > 0 {
		r.resolutionSlots = make(chan struct{}, resolution)
	}
	if zone > 0 {
		r.zoneInflight = newZoneInflightLimiter(zone)
	}
	if maxConc > 0 {
		r.maxConcurrent = make(chan struct{}, maxConc)
	}
	if probe > 0 {
		r.probeSlots = make(chan struct{}, probe)
	}
	if v6 > 0 {
		r.v6LookupSlots = make(chan struct{}, v6)
	}
}

// VerifX11Slots is the occupancy of every capacity pool.
type VerifX11Slots struct {
	Resolution, ResolutionCap int
	MaxConc, MaxConcCap       int
	Probe, ProbeCap           int
	V6, V6Cap                 int
	ZoneSum                   int // sum of all zone buckets
	ZoneMin, ZoneMax          int // extreme bucket values
	ZoneCap                   int
}

func (r *Resolver) VerifX11Slots() VerifX11Slots {
	s := VerifX11Slots{
		Resolution: len(r.resolutionSlots), ResolutionCap: cap(r.resolutionSlots),
		MaxConc: len(r.maxConcurrent), MaxConcCap: cap(r.maxConcurrent),
		Probe: len(r.probeSlots), ProbeCap: cap(r.probeSlots),
		V6: len(r.v6LookupSlots), V6Cap: cap(r.v6LookupSlots),
	}
	if l := r.zoneInflight; l != nil {
		s.ZoneCap = int(l.perZone)
		for i := range l.buckets {
			v := int(l.buckets[i].Load())
			s.ZoneSum += v
			if v < s.ZoneMin {
				s.ZoneMin = v
			}
			if v > s.ZoneMax {
				s.ZoneMax = v
			}
		}
	}
	return s
}

// VerifX11ZoneBucket is the bucket a zone hashes to and its current value.
func (r *Resolver) VerifX11ZoneBucket(zone string) (index int, value int) {
	l := r.zoneInflight
	i := maphash.String(l.seed, zone) % zoneInflightBuckets
	return int(i), int(l.buckets[i].Load()) //nolint:gosec
}

// VerifX11ZoneAcquire is zoneInflightLimiter.acquire.
func (r *Resolver) VerifX11ZoneAcquire(zone string) (release func(), ok bool) {
	return r.zoneInflight.acquire(zone)
}

// VerifX11Attempt is one upstream attempt exactly as Resolver.lookup starts
// it: take a maxConcurrent slot (or leave on ctx), then run queryServer,
// which owns the slot.  done receives the attempt's result, or is closed
// when the attempt ends without reporting one.
type VerifX11AttemptResult struct {
	Resp *dns.Msg
	Err  error
}

func (r *Resolver) VerifX11Attempt(ctx context.Context, req *dns.Msg, server *authority.Server, probing bool) (admitted bool, done <-chan VerifX11AttemptResult) {
	out := make(chan VerifX11AttemptResult, 1)
	serverReq := acquireAttemptReq(req)
	select {
	case r.maxConcurrent <- struct{}{}:
	case <-ctx.Done():
		ReleaseMsg(serverReq)
		close(out)
		return false, out
	}
	results := make(chan lookupResult)
	rs := &resolveState{req: req, depth: 10}
	fin := make(chan struct{})
	go func() {
		r.queryServer(ctx, rs, nil, req.Id, serverReq, server, results, probing)
		close(fin)
	}()
	go func() {
		select {
		case res := <-results:
			out <- VerifX11AttemptResult{Resp: res.resp, Err: res.err}
			<-fin
		case <-fin:
		}
		close(out)
	}()
	return true, out
}

// ---- circuit breaker -------------------------------------------------------

// VerifX11Breaker wraps a circuitBreaker.
type VerifX11Breaker struct{ cb *circuitBreaker }

// VerifX11NewBreaker builds a breaker without the periodic cleanup goroutine.
func VerifX11NewBreaker() VerifX11Breaker {
	return VerifX11Breaker{cb: &circuitBreaker{failures: make(map[string]*serverFailure)}}
}

// VerifX11Breaker exposes the resolver's own breaker.
func (r *Resolver) VerifX11Breaker() VerifX11Breaker { return VerifX11Breaker{cb: r.circuitBreaker} }

func (b VerifX11Breaker) CanQuery(server string) bool { return b.cb.canQuery(server) }
func (b VerifX11Breaker) RecordFailure(server string) { b.cb.recordFailure(server) }
func (b VerifX11Breaker) RecordSuccess(server string) { b.cb.recordSuccess(server) }
func (b VerifX11Breaker) CleanupOnce(now int64)       { b.cb.cleanupOnce(now) }

// Shift moves the server's last failure secs seconds into the past: a clock
// advance for everything the breaker has at rest.
func (b VerifX11Breaker) Shift(server string, secs int64) {
	b.cb.mu.RLock()
	sf := b.cb.failures[server]
	b.cb.mu.RUnlock()
	if sf != nil {
		sf.lastFailure.Add(-secs)
	}
}

// State reads one server's record.
func (b VerifX11Breaker) State(server string) (exists bool, count int, disabled bool, lastFailure int64) {
	b.cb.mu.RLock()
	sf := b.cb.failures[server]
	b.cb.mu.RUnlock()
	if sf == nil {
		return false, 0, false, 0
	}
	return true, int(sf.count.Load()), sf.disabled.Load(), sf.lastFailure.Load()
}

// Entries is the number of servers the breaker remembers.
func (b VerifX11Breaker) Entries() int {
	b.cb.mu.RLock()
	defer b.cb.mu.RUnlock()
	return len(b.cb.failures)
}

// Reset forgets everything (between replayed behaviours).
func (b VerifX11Breaker) Reset() {
	b.cb.mu.Lock()
	for k := range b.cb.failures {
		delete(b.cb.failures, k)
	}
	b.cb.mu.Unlock()
}

// VerifX11SetResolveTarget remaps advertised upstream addresses to dial
// targets (scripted authorities on loopback).
func (r *Resolver) VerifX11SetResolveTarget(f func(addr string) string) { r.resolveTarget.Store(&f) }
