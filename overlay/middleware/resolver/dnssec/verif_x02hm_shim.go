//go:build verif

package dnssec

// Thin read-only accessor for the X02HM (HashMemo) conformance driver: the
// resident entries of one request-tree NSEC3 hash memo.  Injected with
// `go test -overlay` by the verification framework; never committed to the
// repository.

// VerifX02hmEntry is one resident memo entry as seen under the memo's lock.
type VerifX02hmEntry struct {
	Key   string // the complete memo key (algorithm, iterations, class, salt, zone, owner)
	Ready bool   // the entry's ready channel is closed
	Value []byte // digest (copied) of a ready entry
	Err   bool   // a ready entry that carries an error
}

// VerifX02hmSnapshot lists the resident entries of m.  A pending entry is
// reported with Ready=false and without a value (the owner writes value/err
// under m.mu before it closes ready, and this reads them only after the
// channel is seen closed, under the same lock).
func (m *NSEC3HashMemo) VerifX02hmSnapshot() []VerifX02hmEntry {
	if m == nil {
		return nil
	}
	m.mu.Lock()
	defer m.mu.Unlock()
	out := make([]VerifX02hmEntry, 0, len(m.entries))
	for k, e := range m.entries {
		s := VerifX02hmEntry{Key: k}
		if e != nil {
			select {
			case <-e.ready:
				s.Ready = true
				s.Value = append([]byte(nil), e.value...)
				s.Err = e.err != nil
			default:
			}
		}
		out = append(out, s)
	}
	return out
}

// VerifX02hmBound is the memo's entry ceiling.
func VerifX02hmBound() int { return maxNSEC3HashMemoEntries }
