//go:build verif

package resolver

import (
	"context"

	"github.com/semihalev/sdns/middleware/resolver/dnssec"
)

// Thin accessor injected with `go test -overlay` by /verif for the X12OL tier of
// property C12 (never committed to the repository).

// VerifX12olAdapter is what the validators' loops are handed in production.
type VerifX12olAdapter interface {
	dnssec.SignatureWork
	dnssec.DSDigestWork
}

// VerifX12olWork builds the production DNSSEC work adapter (dnssecWorkBudget: the
// request-tree ledger found in ctx + the resolver-wide crypto semaphore), exactly as
// (*Resolver).dnssecWork does.
func VerifX12olWork(ctx context.Context, limiter *dnssec.CryptoLimiter) VerifX12olAdapter {
	return dnssecWorkBudget{ctx: ctx, limiter: limiter}
}
