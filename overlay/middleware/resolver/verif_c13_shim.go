//go:build verif

package resolver

// Thin accessors for the C13 (RFC 9520 failure cache) conformance drivers,
// injected with `go test -overlay` by /verif; never committed to the repository.

import (
	"context"

	"github.com/miekg/dns"
	"github.com/semihalev/sdns/middleware"
)

// VerifC13RecordZoneFailure runs the resolver's admission filter for zone-wide
// failure state (Resolver.recordResolutionZoneFailure) against store.
func VerifC13RecordZoneFailure(ctx context.Context, store middleware.Store, q dns.Question, zone string, cause error) {
	r := new(Resolver)
	r.store.Store(&store)
	r.recordResolutionZoneFailure(ctx, q, zone, cause)
}

// VerifC13ClearZoneFailure runs Resolver.clearResolutionZoneFailure against store.
func VerifC13ClearZoneFailure(store middleware.Store, q dns.Question, zone string) {
	r := new(Resolver)
	r.store.Store(&store)
	r.clearResolutionZoneFailure(q, zone)
}

// VerifC13FatalConnectionFailed is the error handleLookupError sees when every
// server of a delegation failed.
func VerifC13FatalConnectionFailed() error { return fatalError(errConnectionFailed) }

// VerifC13NoReachableAuth is the error of a delegation without any usable server.
func VerifC13NoReachableAuth() error { return errNoReachableAuth }

// VerifC13FillResolutionSlots occupies every in-flight resolution slot (the
// load-shedding ceiling) and returns the release function.
func (h *DNSHandler) VerifC13FillResolutionSlots() func() {
	r := h.resolver
	n := 0
	for {
		select {
		case r.resolutionSlots <- struct{}{}:
			n++
			continue
		default:
		}
		break
	}
	return func() {
		for ; n > 0; n-- {
			<-r.resolutionSlots
		}
	}
}
