//go:build verif

package resolver

// Thin constructors for the X02HM (HashMemo) conformance driver: the two
// production NSEC3Work adapters of the resolver exactly as Resolver.dnssecWork
// and the RFC 8198 classification path build them, so the driver exercises
// the production Read/Write memo wiring and the production use of the
// resolver-wide crypto limiter.  Injected with `go test -overlay`; never
// committed to the repository.

import (
	"context"

	"github.com/semihalev/sdns/middleware/resolver/dnssec"
)

// VerifX02hmWork is what the driver needs from an adapter.
type VerifX02hmWork interface {
	dnssec.NSEC3Work
	dnssec.NSEC3HashMemoProvider
}

// VerifX02hmRequiredWork is Resolver.dnssecWork(ctx) for a resolver whose
// crypto limiter is limiter.
func VerifX02hmRequiredWork(ctx context.Context, limiter *dnssec.CryptoLimiter) VerifX02hmWork {
	return (&Resolver{cryptoLimiter: limiter}).dnssecWork(ctx)
}

// VerifX02hmResolverOptionalWork is the adapter of the resolver-side optional
// (aggressive proof classification) work class.
func VerifX02hmResolverOptionalWork(ctx context.Context, limiter *dnssec.CryptoLimiter) VerifX02hmWork {
	return newResolverAggressiveProofWork(ctx, limiter)
}
