//go:build verif

package resolver

import (
	"time"

	"github.com/miekg/dns"
)

// Thin accessors injected with `go test -overlay` by /verif for property C08
// (never committed to the repository): the pure pieces of the resolver's
// lease arithmetic, so the API-tier replay composes the real functions.

// VerifC08MinCut is minCut.
func VerifC08MinCut(a time.Time, aKey uint64, b time.Time, bKey uint64) (time.Time, uint64) {
	return minCut(a, aKey, b, bKey)
}

// VerifC08MinNonZero is minNonZero.
func VerifC08MinNonZero(a, b time.Time) time.Time { return minNonZero(a, b) }

// VerifC08MinRRSetTTL is minRRSetTTL.
func VerifC08MinRRSetTTL(rrs []dns.RR) uint32 { return minRRSetTTL(rrs) }

// VerifC08Referral runs extractDelegationInfo and validReferral on a
// response: the referral's owner, its lease TTL (minimum over the NS RRset)
// and whether processDelegation would accept it as progressing when received
// from the servers of authZone while resolving q.
func VerifC08Referral(resp *dns.Msg, authZone string, q dns.Question) (owner string, nsTTL uint32, valid bool) {
	info := (*Resolver)(nil).extractDelegationInfo(resp)
	if info.nsRecord == nil {
		return "", 0, false
	}
	return info.nsRecord.Header().Name, info.nsTTL, validReferral(info, authZone, q)
}
