//go:build verif

package resolver

import (
	"fmt"
	"time"

	"github.com/miekg/dns"
	"github.com/semihalev/sdns/internal/cache"
)

// Thin accessor injected with `go test -overlay` by /verif for X07DC (never committed):
// what is published in the delegation (NS) cache for one zone and one client CD bit.

// VerifX07dcSet is a snapshot of a published server set.
type VerifX07dcSet struct {
	Present   bool     `json:"present"`
	Zone      string   `json:"zone"`
	CD        bool     `json:"cd"`
	Checked   bool     `json:"checked"`
	Hosts     []string `json:"hosts"`
	Addrs     []string `json:"addrs"`
	DS        int      `json:"ds"`
	Ptr       string   `json:"ptr"` // identity of the shared *authority.Servers
	ExpiresIn float64  `json:"expiresIn"`
}

// VerifX07dcPublished reads the entry a query for a name in zone with the given client CD
// bit would be handed by searchCache / processDelegation (expired entries are invisible).
func (r *Resolver) VerifX07dcPublished(zone string, cd bool) VerifX07dcSet {
	key := cache.Key(dns.Question{Name: zone, Qtype: dns.TypeNS, Qclass: dns.ClassINET}, cd)
	d, err := r.delegations.Get(key)
	if err != nil || d == nil || d.Servers == nil {
		return VerifX07dcSet{}
	}
	s := d.Servers
	out := VerifX07dcSet{Present: true, DS: len(d.DSSet), Ptr: fmt.Sprintf("%p", s), ExpiresIn: time.Until(d.ExpiresAt).Seconds()}
	s.RLock()
	out.Zone, out.CD, out.Checked = s.Zone, s.CheckingDisable, s.Checked
	out.Hosts = append([]string{}, s.Hosts...)
	for _, a := range s.List {
		out.Addrs = append(out.Addrs, a.Addr)
	}
	s.RUnlock()
	return out
}
