//go:build verif

package hostsfile

import (
	"sort"

	"github.com/miekg/dns"
)

// XHOSTS conformance shim (injected by /verif with `go test -overlay`; never
// committed).  Thin accessors only: a forced load (what the debounce timer
// runs), the path the loader opens, the watcher's stop, and a read-only
// projection of the published lookup tables.

// VerifLoad runs one load exactly as the watcher's timer does.
func (h *Hostsfile) VerifLoad() error { return h.load() }

// VerifSetPath redirects the loader (call only while no load is in flight).
func (h *Hostsfile) VerifSetPath(p string) { h.path = p }

// VerifPath is the path the loader opens.
func (h *Hostsfile) VerifPath() string { return h.path }

// VerifStopWatcher closes the fsnotify watcher; watchLoop returns.
func (h *Hostsfile) VerifStopWatcher() {
	if h.watcher != nil {
		_ = h.watcher.Close()
	}
}

// VerifHost is the projection of one forward entry.
type VerifHost struct {
	V4    []string `json:"v4"`
	V6    []string `json:"v6"`
	CNAME string   `json:"cname"`
	A     []string `json:"a"`    // pre-built A answers (rdata)
	AAAA  []string `json:"aaaa"` // pre-built AAAA answers (rdata)
}

// VerifWild is the projection of one wildcard entry.
type VerifWild struct {
	Pattern string   `json:"pattern"`
	V4      []string `json:"v4"`
	V6      []string `json:"v6"`
}

// VerifTables is the projection of the published database.
type VerifTables struct {
	Hosts map[string]VerifHost `json:"hosts"`
	Wild  []VerifWild          `json:"wild"`
	PTR   map[string][]string  `json:"ptr"` // canonical address -> targets, in order
	Names []string             `json:"names"`
}

// VerifDBIdentity distinguishes published databases (pointer identity).
func (h *Hostsfile) VerifDBIdentity() any { return h.getDB() }

// VerifTables projects the database a query arriving now would read.
func (h *Hostsfile) VerifTables() VerifTables {
	db := h.getDB()
	db.mu.RLock()
	defer db.mu.RUnlock()
	out := VerifTables{Hosts: map[string]VerifHost{}, PTR: map[string][]string{}}
	for name, e := range db.hosts {
		vh := VerifHost{}
		for _, ip := range e.IPv4 {
			vh.V4 = append(vh.V4, ip.String())
		}
		for _, ip := range e.IPv6 {
			vh.V6 = append(vh.V6, ip.String())
		}
		if c, ok := e.cnameRR.(*dns.CNAME); ok && c != nil {
			vh.CNAME = c.Target
		}
		for _, rr := range e.aRRs {
			vh.A = append(vh.A, rr.(*dns.A).A.String())
		}
		for _, rr := range e.aaaaRRs {
			vh.AAAA = append(vh.AAAA, rr.(*dns.AAAA).AAAA.String())
		}
		out.Hosts[name] = vh
		out.Names = append(out.Names, name)
	}
	sort.Strings(out.Names)
	for _, w := range db.wildcards {
		vw := VerifWild{Pattern: w.Pattern}
		for _, ip := range w.IPv4 {
			vw.V4 = append(vw.V4, ip.String())
		}
		for _, ip := range w.IPv6 {
			vw.V6 = append(vw.V6, ip.String())
		}
		out.Wild = append(out.Wild, vw)
	}
	for ip, rrs := range db.ptrs {
		for _, rr := range rrs {
			out.PTR[ip] = append(out.PTR[ip], rr.(*dns.PTR).Ptr)
		}
	}
	return out
}
