//go:build verif

package forwarder

import (
	"crypto/tls"
	"crypto/x509"
	"net/http"
)

// Thin accessors injected with `go test -overlay` by /verif for the Forward
// binding (X11FW); never committed to the repository.

// VerifX11fwServerCount is the number of upstreams New accepted.
func (f *Forwarder) VerifX11fwServerCount() int { return len(f.servers) }

// VerifX11fwTrust makes the DoT and DoH upstream clients trust the harness's
// self-signed loopback certificate (production uses the system roots: the
// unexported tlsConfig stays nil and the DoH transport has no RootCAs).
func (f *Forwarder) VerifX11fwTrust(pool *x509.CertPool) {
	f.tlsConfig = &tls.Config{RootCAs: pool, MinVersion: tls.VersionTLS12}
	for _, s := range f.servers {
		if s.DoHClient == nil {
			continue
		}
		if tr, ok := s.DoHClient.Transport.(*http.Transport); ok && tr.TLSClientConfig != nil {
			tr.TLSClientConfig.RootCAs = pool
		}
	}
}
