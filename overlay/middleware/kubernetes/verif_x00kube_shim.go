//go:build verif

package kubernetes

// Thin accessors injected with `go test -overlay` by the verification
// framework for module XKUBE (never committed to the repository).  They
// build the middleware without a cluster (registry + an informer-less
// Client, exactly what the package's own tests build), expose the informer
// callbacks the shared informers would call, the rebuild worker's drain, and
// a read-only listing of the answer shards.

import (
	"context"
	"sort"
	"time"

	"github.com/semihalev/sdns/config"
)

// VerifNewClient is the package's own newTestClient: a Client bound to
// registry with no clientset.  Without VerifStartWorker its rebuilds run
// inline (scheduleRebuild's documented test path).
func VerifNewClient(registry *Registry) *Client {
	return &Client{
		registry:        registry,
		stopCh:          make(chan struct{}),
		stopped:         make(chan struct{}),
		slicesByService: map[string]*serviceSlices{},
	}
}

// VerifNew builds the handler New builds for an enabled cluster whose API
// connection succeeded, minus the connection: registry configured from cfg,
// a Client attached, informers not started, synced false.
func VerifNew(cfg *config.Config) (*Kubernetes, *Client) {
	saved := cfg.Kubernetes.Enabled
	cfg.Kubernetes.Enabled = false
	demo := cfg.Kubernetes.Demo
	cfg.Kubernetes.Demo = true // the branch of New that builds the registry without NewClient
	k := New(cfg)
	cfg.Kubernetes.Enabled, cfg.Kubernetes.Demo = saved, demo
	// New(demo) seeded synthetic data: start from an empty registry with the same settings
	reg := NewRegistry()
	reg.SetTTLs(cfg.Kubernetes.TTL.Service, cfg.Kubernetes.TTL.Pod, cfg.Kubernetes.TTL.SRV, cfg.Kubernetes.TTL.PTR)
	reg.SetClusterDomain(k.clusterDomain)
	k.registry = reg
	k.demoLoaded = false
	c := VerifNewClient(reg)
	k.k8sClient = c
	return k, c
}

// VerifAttach gives an existing handler (e.g. the one middleware.Setup built)
// a fresh empty registry with its settings and an informer-less Client.
func (k *Kubernetes) VerifAttach(cfg *config.Config) *Client {
	reg := NewRegistry()
	reg.SetTTLs(cfg.Kubernetes.TTL.Service, cfg.Kubernetes.TTL.Pod, cfg.Kubernetes.TTL.SRV, cfg.Kubernetes.TTL.PTR)
	if k.clusterDomain != "" {
		reg.SetClusterDomain(k.clusterDomain)
	}
	k.registry = reg
	k.demoLoaded = false
	c := VerifNewClient(reg)
	k.k8sClient = c
	return c
}

func (k *Kubernetes) VerifRegistry() *Registry { return k.registry }
func (k *Kubernetes) VerifReady() bool         { return k.ready() }

func (c *Client) VerifRegistry() *Registry { return c.registry }
func (c *Client) VerifSetSynced(b bool)    { c.synced.Store(b) }

// The callbacks registered with the shared informers in Client.Run.
func (c *Client) VerifServiceAdd(obj any)           { c.safeServiceAdd(obj) }
func (c *Client) VerifServiceUpdate(o, n any)       { c.safeServiceUpdate(o, n) }
func (c *Client) VerifServiceDelete(obj any)        { c.safeServiceDelete(obj) }
func (c *Client) VerifEndpointSliceAdd(obj any)     { c.safeEndpointSliceAdd(obj) }
func (c *Client) VerifEndpointSliceUpdate(o, n any) { c.safeEndpointSliceUpdate(o, n) }
func (c *Client) VerifEndpointSliceDelete(obj any)  { c.safeEndpointSliceDelete(obj) }
func (c *Client) VerifPodAdd(obj any)               { c.safePodAdd(obj) }
func (c *Client) VerifPodUpdate(o, n any)           { c.safePodUpdate(o, n) }
func (c *Client) VerifPodDelete(obj any)            { c.safePodDelete(obj) }

// VerifStartWorker starts the real rebuild worker (Run does this before the
// informers) with the given debounce; the returned func stops it and waits.
func (c *Client) VerifStartWorker(debounce time.Duration) func() {
	ctx, cancel := context.WithCancel(context.Background())
	c.rebuildDebounce = debounce
	done := c.startRebuildWorker(ctx)
	return func() {
		cancel()
		<-done
	}
}

// VerifFlush is Run's flushRebuilds (drain the queue now, waiting for a
// worker cycle in flight).
func (c *Client) VerifFlush() { c.flushRebuilds() }

// VerifPending is the number of services queued for a rebuild.
func (c *Client) VerifPending() int {
	if c.queue == nil {
		return 0
	}
	c.queue.mu.Lock()
	defer c.queue.mu.Unlock()
	return len(c.queue.pending)
}

// VerifAnswerNames lists the owner names present in the answer shards.
func (r *Registry) VerifAnswerNames() []string {
	var out []string
	for _, sh := range r.answerShards {
		sh.mu.RLock()
		for k := range sh.entries {
			out = append(out, k)
		}
		sh.mu.RUnlock()
	}
	sort.Strings(out)
	return out
}
