//go:build verif

package middleware

// Thin accessor injected with `go test -overlay` by /verif for property C17
// (never committed to the repository): the sub-pipeline a Queryer built by
// autoWire dispatches through, so the harness can see which handlers an
// internal sub-query is subjected to.

// VerifQueryerSub returns the Pipeline behind a pipeline-backed Queryer, nil otherwise.
func VerifQueryerSub(q Queryer) *Pipeline {
	if pq, ok := q.(*pipelineQueryer); ok {
		return pq.sub
	}
	return nil
}
