//go:build verif

package api

import "net/http"

// XAPI conformance shim (injected by /verif with `go test -overlay`; never
// committed).  Thin accessors only: the router the real Run() has populated,
// as an http.Handler for net/http/httptest, and a bare Router's tree for the
// route-set replays.

// VerifHandler returns the API's router (routes are registered by the real Run).
func (a *API) VerifHandler() http.Handler { return a.router }
