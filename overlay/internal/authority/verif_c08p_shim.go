//go:build verif

package authority

import "time"

// Thin accessors injected with `go test -overlay` by /verif for the C08 pipeline
// tier's long-lease family (tag c08p; never committed to the repository).
// Self-contained (uses no other shim).

// VerifC08pShift emulates a clock advance of d for every stored delegation:
// delegations are immutable, so each is replaced by a copy whose ExpiresAt is d
// earlier.  Only sound at a quiescent point.  Returns how many were rewritten.
func (n *Cache) VerifC08pShift(d time.Duration) int {
	type kv struct {
		k uint64
		v *Delegation
	}
	var all []kv
	n.cache.ForEach(func(key uint64, value any) bool {
		if dg, ok := value.(*Delegation); ok && dg != nil {
			all = append(all, kv{key, dg})
		}
		return true
	})
	for _, e := range all {
		n.cache.Add(e.k, &Delegation{Servers: e.v.Servers, DSSet: e.v.DSSet, ExpiresAt: e.v.ExpiresAt.Add(-d)})
	}
	return len(all)
}

// VerifC08pExpiry reads the stored expiry of a delegation, expired or not.
func (n *Cache) VerifC08pExpiry(key uint64) (time.Time, bool) {
	el, ok := n.cache.Get(key)
	if !ok {
		return time.Time{}, false
	}
	d, ok := el.(*Delegation)
	if !ok || d == nil {
		return time.Time{}, false
	}
	return d.ExpiresAt, true
}
