//go:build verif

package authority

import (
	"sync/atomic"
	"time"
)

// Thin accessors injected with `go test -overlay` by the X10TP check
// (Rank.tla); never committed to the repository.

// VerifX10tpSetRandN pins the ranking's only source of randomness (nil restores it).
// The previous function is returned.
func VerifX10tpSetRandN(f func(int) int) func(int) int {
	old := randN
	if f == nil {
		f = defaultRandN
	}
	randN = f
	return old
}

var defaultRandN = randN

// VerifX10tpAge moves the server's last refresh back by d (a measurement older
// than staleAfter is out of date).
func (s *Server) VerifX10tpAge(d time.Duration) {
	if last := atomic.LoadInt64(&s.lastNs); last != 0 {
		atomic.StoreInt64(&s.lastNs, last-int64(d))
	}
}

// VerifX10tpState reads the packed state word: estimate, measured, answered, and lastNs.
func (s *Server) VerifX10tpState() (est time.Duration, measured, answered bool, lastNs int64) {
	w := atomic.LoadInt64(&s.state)
	return time.Duration(w >> stateRTTShift), w&stateMeasured != 0, w&stateAnswered != 0, atomic.LoadInt64(&s.lastNs)
}

// VerifX10tpScore is the ranking score and the out-of-date flag at nowNs.
func (s *Server) VerifX10tpScore(nowNs int64) (int64, bool) { return s.score(nowNs) }

// VerifX10tpRank ranks at a given instant (Sort with the clock as an argument).
func VerifX10tpRank(list []*Server, nowNs int64) *Server {
	if len(list) < 2 {
		return nil
	}
	return rank(list, make([]int64, len(list)), nowNs)
}

const (
	VerifX10tpSeed       = time.Duration(rttUnknownSeed)
	VerifX10tpStaleAfter = time.Duration(staleAfter)
)
