//go:build verif

package authority

import (
	"time"

	"github.com/miekg/dns"
)

// Thin accessors injected with `go test -overlay` by /verif for property C08
// (never committed to the repository): the delegation cache's clock seam, a
// timestamp shifter for callers that cannot use the seam, and raw reads.

// VerifC08SetNow replaces the cache's clock (nil restores time.Now).
func (n *Cache) VerifC08SetNow(f func() time.Time) {
	if f == nil {
		f = time.Now
	}
	n.now = f
}

// VerifC08Now reads the cache's clock.
func (n *Cache) VerifC08Now() time.Time { return n.now() }

// VerifC08Shift emulates a clock advance of d for everything at rest:
// delegations are immutable, so every stored one is replaced by a copy whose
// ExpiresAt is d earlier. Only sound at a quiescent point. Returns how many
// entries were rewritten.
func (n *Cache) VerifC08Shift(d time.Duration) int {
	type kv struct {
		k uint64
		v *Delegation
	}
	var all []kv
	n.cache.ForEach(func(key uint64, value any) bool {
		if dg, ok := value.(*Delegation); ok && dg != nil {
			all = append(all, kv{key, dg})
		}
		return true
	})
	for _, e := range all {
		n.cache.Add(e.k, &Delegation{Servers: e.v.Servers, DSSet: e.v.DSSet, ExpiresAt: e.v.ExpiresAt.Add(-d)})
	}
	return len(all)
}

// VerifC08Peek returns the stored delegation whether or not it has expired.
func (n *Cache) VerifC08Peek(key uint64) (*Delegation, bool) {
	el, ok := n.cache.Get(key)
	if !ok {
		return nil, false
	}
	d, ok := el.(*Delegation)
	return d, ok
}

// VerifC08Len is the number of stored delegations (expired ones included).
func (n *Cache) VerifC08Len() int { return n.cache.Len() }

// VerifC08MaximumTTL is the lease ceiling.
func VerifC08MaximumTTL() time.Duration { return maximumTTL }

var _ = dns.TypeNS
