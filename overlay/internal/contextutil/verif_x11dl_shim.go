//go:build verif

package contextutil

import "unsafe"

// Thin accessors injected with `go test -overlay` by the X11DL check
// (LazyDeadline.tla); never committed to the repository.

// VerifX11dlView is the unexported state of a LazyDeadline as the model sees it.
type VerifX11dlView struct {
	State      uint32          // lazyDeadlineLive / Canceled / Exceeded
	Holder     uintptr         // identity of the materialized stdlib context, 0 = nil
	HolderErr  error           // its Err()
	HolderDone <-chan struct{} // its Done()
}

// VerifX11dl reads c.state and c.active the way the lock-free readers do.
func (c *LazyDeadline) VerifX11dl() VerifX11dlView {
	v := VerifX11dlView{State: c.state.Load()}
	if a := c.active.Load(); a != nil {
		v.Holder = uintptr(unsafe.Pointer(a))
		v.HolderErr = a.ctx.Err()
		v.HolderDone = a.ctx.Done()
	}
	return v
}

// VerifX11dlClosedSentinel is the shared closed channel handed out by Done()
// after a fast-path Cancel.
func VerifX11dlClosedSentinel() <-chan struct{} { return lazyDeadlineClosed }

const (
	VerifX11dlLive     = lazyDeadlineLive
	VerifX11dlCanceled = lazyDeadlineCanceled
	VerifX11dlExceeded = lazyDeadlineExceeded
)
