//go:build verif

package dnsclient

import "net"

// Thin accessors injected with `go test -overlay` by the X11DL check
// (InterruptGroup.tla); never committed to the repository.

// VerifX11dlSlots is the number of connections one group can watch.
const VerifX11dlSlots = interruptGroupSlots

// VerifX11dlArm is the unexported arm (what ExchangeInterruptible calls first).
func (g *InterruptGroup) VerifX11dlArm(conn net.Conn) (int, bool) { return g.arm(conn) }

// VerifX11dlDisarm is the unexported disarm (ExchangeInterruptible's deferred call).
func (g *InterruptGroup) VerifX11dlDisarm(slot int) { g.disarm(slot) }

// VerifX11dlSnapshot reads fired and the slot table if the group mutex is free
// (ok=false: somebody holds it, e.g. a fire in flight).
func (g *InterruptGroup) VerifX11dlSnapshot() (fired bool, conns [interruptGroupSlots]net.Conn, ok bool) {
	if !g.mu.TryLock() {
		return false, conns, false
	}
	defer g.mu.Unlock()
	return g.fired, g.conns, true
}
