//go:build verif

package waitgroup

import "time"

// Thin accessors injected with `go test -overlay` by /verif for property C11
// (never committed to the repository).

// VerifC11SetTimeout sets the bounded wait given to generations created from
// now on (schedule control: the driver decides which generation expires).
func (wg *WaitGroup) VerifC11SetTimeout(d time.Duration) {
	wg.mu.Lock()
	wg.timeout = d
	wg.mu.Unlock()
}

// VerifC11Current returns the generation registered for key, or nil.
func (wg *WaitGroup) VerifC11Current(key uint64) *Generation {
	wg.mu.RLock()
	defer wg.mu.RUnlock()
	return wg.groups[key]
}

// VerifC11Registered returns the number of registered generations.
func (wg *WaitGroup) VerifC11Registered() int {
	wg.mu.RLock()
	defer wg.mu.RUnlock()
	return len(wg.groups)
}

// VerifC11Keys returns the keys that currently have a registered generation.
func (wg *WaitGroup) VerifC11Keys() []uint64 {
	wg.mu.RLock()
	defer wg.mu.RUnlock()
	out := make([]uint64, 0, len(wg.groups))
	for k := range wg.groups {
		out = append(out, k)
	}
	return out
}

// VerifC11Next returns the generation this one's cohort was linked to by Regroup.
func (g *Generation) VerifC11Next() *Generation {
	g.nextMu.Lock()
	defer g.nextMu.Unlock()
	return g.next
}
