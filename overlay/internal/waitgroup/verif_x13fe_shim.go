//go:build verif

package waitgroup

// VerifX13feLen is the number of registered generations (X13FE tier).
func (wg *WaitGroup) VerifX13feLen() int {
	wg.mu.RLock()
	defer wg.mu.RUnlock()
	return len(wg.groups)
}
