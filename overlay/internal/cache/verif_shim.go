//go:build verif

package cache

// Thin accessors injected with `go test -overlay` by /verif (never committed
// to the repository): slot layout and ideal slot of the open-addressing table.

// VerifPrimaryIndex is the table's own ideal-slot function.
func (m *UInt64Map[V]) VerifPrimaryIndex(key uint64) int { return m.primaryIndex(key) }

// VerifSlots returns the key held by every slot (0 = empty).
func (m *UInt64Map[V]) VerifSlots() []uint64 {
	out := make([]uint64, len(m.data))
	for i := range m.data {
		out[i] = m.data[i].Key
	}
	return out
}

// VerifSegmentIndex is the segment a key is filed under.
func (m *SegmentUInt64Map[V]) VerifSegmentIndex(key uint64) uint { return m.getSegmentIndex(key) }

// VerifSegmentLen reads one segment's own length under its lock.
func (m *SegmentUInt64Map[V]) VerifSegmentLen(i int) int {
	s := m.segments[i]
	s.rwlock.RLock()
	defer s.rwlock.RUnlock()
	return s.data.Len()
}

// VerifSegments exposes the segmented map behind a Cache.
func (c *Cache) VerifSegments() *SegmentUInt64Map[any] { return c.data.data }

// VerifPeek reads a key without taking the segment lock. Only sound while
// every goroutine touching the map is parked (gated schedule replay).
func (m *SegmentUInt64Map[V]) VerifPeek(key uint64) (V, bool) {
	return m.segments[m.getSegmentIndex(key)].data.Get(key)
}

// VerifCount reads the atomic occupancy counter.
func (m *SegmentUInt64Map[V]) VerifCount() int64 { return m.count.Load() }

// VerifLockFree reports whether a segment's lock is currently free.
func (m *SegmentUInt64Map[V]) VerifLockFree(i uint) bool {
	s := m.segments[i]
	if s.rwlock.TryLock() {
		s.rwlock.Unlock()
		return true
	}
	return false
}

// VerifSegmentLenUnlocked reads one segment's length without its lock
// (parked goroutines only).
func (m *SegmentUInt64Map[V]) VerifSegmentLenUnlocked(i uint) int { return m.segments[i].data.Len() }
