//go:build verif

package cache

// Accessors for the ExpCache tier of property C16 (injected with -overlay,
// never committed to the repository).  The sub-caches of middleware/cache
// have no hook between "load the entry" and "clean up the expired entry";
// the only place a goroutine can be made to wait there is the segment lock
// itself, so the harness borrows it.

// VerifC16SegLock takes the write lock of the segment key is filed under.
// While it is held, readers park in RLock and writers park in Lock; when it
// is released sync.RWMutex admits every parked reader before any writer.
func (c *Cache) VerifC16SegLock(key uint64) { c.data.data.getSegment(key).rwlock.Lock() }

// VerifC16SegUnlock releases it.
func (c *Cache) VerifC16SegUnlock(key uint64) { c.data.data.getSegment(key).rwlock.Unlock() }

// VerifC16SegIndex is the segment key is filed under.
func (c *Cache) VerifC16SegIndex(key uint64) uint { return c.data.data.getSegmentIndex(key) }
