//go:build verif

package server

import "github.com/semihalev/sdns/middleware"

// VerifC12Handlers exposes the handlers of this server's own pipeline: the C12 topology
// replay reads, per resolver instance, whether detached helper jobs of a request tree are
// still running (the registry behind middleware.Get is process-global and belongs to
// whichever server was built last). Injected by /verif with `go test -overlay`; never committed.
func (s *Server) VerifC12Handlers() []middleware.Handler {
	if s.pipeline == nil {
		return nil
	}
	return s.pipeline.Handlers()
}
