//go:build verif

package server

import "github.com/semihalev/sdns/middleware"

// VerifX07dcHandlers exposes the handlers of this server's own pipeline (X07DC reads the
// resolver behind it and stops the workers of its short-lived servers).
// Injected by /verif with `go test -overlay`; never committed.
func (s *Server) VerifX07dcHandlers() []middleware.Handler {
	if s.pipeline == nil {
		return nil
	}
	return s.pipeline.Handlers()
}
