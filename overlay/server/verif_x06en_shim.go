//go:build verif

package server

// X06EN shim (injected by /verif with `go test -overlay`; never committed): the
// engine-serve replay sizes the UDP slab cap exactly, for which it needs the
// per-reader reserve the capacity equation charges on this platform.
const VerifX06enReaderReserve = udpReaderReserve
