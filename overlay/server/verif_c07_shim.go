//go:build verif

package server

import "github.com/semihalev/sdns/middleware"

// VerifC07Handlers exposes the handlers of this server's own pipeline so the C07 replay
// can stop the cache / resolver workers of the thousands of short-lived servers it builds.
// Injected by /verif with `go test -overlay`; never committed.
func (s *Server) VerifC07Handlers() []middleware.Handler {
	if s.pipeline == nil {
		return nil
	}
	return s.pipeline.Handlers()
}
