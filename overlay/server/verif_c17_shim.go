//go:build verif

package server

// C17 shim (injected by /verif with `go test -overlay`; never committed): the socket
// addresses the plain UDP and TCP listeners of a running Server are bound to
// (config bind "127.0.0.1:0"), so the gate replay can reach them from chosen
// source addresses.

// VerifC17Addrs returns the bound UDP and TCP addresses ("" while not bound).
func VerifC17Addrs(s *Server) (udp string, tcp string) {
	s.listenersMu.Lock()
	active := append([]Listener(nil), s.active...)
	s.listenersMu.Unlock()
	for _, l := range active {
		switch x := l.(type) {
		case *udpListener:
			x.mu.Lock()
			if len(x.pcs) > 0 {
				udp = x.pcs[0].LocalAddr().String()
			}
			x.mu.Unlock()
		case *tcpListener:
			x.mu.Lock()
			if x.ln != nil {
				tcp = x.ln.Addr().String()
			}
			x.mu.Unlock()
		}
	}
	return udp, tcp
}
