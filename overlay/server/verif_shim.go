//go:build verif

package server

import (
	"net"

	"github.com/miekg/dns"
	"github.com/semihalev/sdns/internal/wire"
	"github.com/semihalev/sdns/middleware"
	"github.com/semihalev/sdns/middleware/edns"
)

// VerifStrictJob is a transport double offering the strict-path job slots
// (the interface names the unexported *jobCarrier, so it has to live in this
// package). Injected by /verif with `go test -overlay`; never committed.
type VerifStrictJob struct {
	Remote net.Addr
	Local  net.Addr
	Writes [][]byte // every reply written, in order
	NoLease bool    // refuse LeaseWire (forces the non-leased write path)
	tx     [65535]byte

	req        middleware.Request
	chain      middleware.Chain
	carrier    jobCarrier
	ednsWriter edns.ResponseWriter
}

func (j *VerifStrictJob) LeaseWire(capacity int) []byte {
	if j.NoLease || capacity > len(j.tx) {
		return nil
	}
	return j.tx[:0]
}

func (j *VerifStrictJob) LocalAddr() net.Addr {
	if j.Local != nil {
		return j.Local
	}
	if _, ok := j.Remote.(*net.TCPAddr); ok {
		return &net.TCPAddr{IP: net.IPv4(192, 0, 2, 1), Port: 53}
	}
	return &net.UDPAddr{IP: net.IPv4(192, 0, 2, 1), Port: 53}
}
func (j *VerifStrictJob) RemoteAddr() net.Addr { return j.Remote }
func (j *VerifStrictJob) Close() error         { return nil }

func (j *VerifStrictJob) Write(b []byte) (int, error) {
	j.Writes = append(j.Writes, append([]byte(nil), b...))
	return len(b), nil
}

func (j *VerifStrictJob) WriteMsg(m *dns.Msg) error {
	packed, err := m.Pack()
	if err != nil {
		return err
	}
	_, err = j.Write(packed)
	return err
}

func (j *VerifStrictJob) StrictSlots() (*middleware.Request, *middleware.Chain, *jobCarrier, *edns.ResponseWriter) {
	return &j.req, &j.chain, &j.carrier, &j.ednsWriter
}

// VerifTookWirePath reports whether the last ServeRaw on this job entered the
// chain as a wire-born request (ParseWire accepted the packet).
func (j *VerifStrictJob) VerifTookWirePath() bool { return j.req.Raw() != nil }

// VerifAcceptHeader is the engines' header-level verdict for a raw packet:
// "ok", "ignore", "notimp", "formerr" ("short" when there is no header).
func VerifAcceptHeader(raw []byte) string {
	h, ok := wire.ParseHeader(raw)
	if !ok {
		return "short"
	}
	switch acceptHeader(h) {
	case acceptIgnore:
		return "ignore"
	case acceptNotImplemented:
		return "notimp"
	case acceptFormatError:
		return "formerr"
	}
	return "ok"
}
