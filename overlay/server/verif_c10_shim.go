//go:build verif

package server

import (
	"context"
	"errors"
)

// C10/C11-engine conformance shim (injected by /verif with `go test -overlay`;
// never committed). It only reaches unexported state of the owned engines:
// the derived resource plan (so a test can run with tiny slab caps), the bound
// socket addresses, the lease / in-flight / token counters, and the one
// degradation the engine performs on its own that a test cannot provoke from
// outside (the recvmmsg -> portable reader fallback).

// VerifC10Opts overrides the derived ingress plan of a Server before Run.
type VerifC10Opts struct {
	UDPSockets int   // SO_REUSEPORT fan-out (>= 1)
	UDPSpare   int64 // plan.udpSpareSlabs: burst headroom above the steady-state slab cap
	TCPConns   int   // connection admission cap
	TCPSmall   int   // small-class job tokens
	TCPLarge   int   // large-class job tokens
	// Portable takes the whole UDP engine down the portable path (the state
	// newUDPEngine reaches when a socket refuses its raw descriptor).
	Portable bool
	// RetireTX starts with batched TX retired (the state a permanent sendmmsg
	// errno leaves behind): batched receive, direct sends.
	RetireTX bool
}

type verifC10UDP struct {
	*udpListener
	opts VerifC10Opts
}

func (l *verifC10UDP) Bind(ctx context.Context) error {
	if err := l.udpListener.Bind(ctx); err != nil {
		return err
	}
	l.udpListener.mu.Lock()
	defer l.udpListener.mu.Unlock()
	if l.opts.Portable {
		l.udpListener.engine.txConns = nil
	}
	if l.opts.RetireTX {
		l.udpListener.engine.txRetired.Store(true)
	}
	return nil
}

// VerifC10Tune applies o to s's plain UDP and TCP listeners. Call before Run.
func VerifC10Tune(s *Server, o VerifC10Opts) error {
	s.listenersMu.Lock()
	defer s.listenersMu.Unlock()
	done := 0
	for i, l := range s.listeners {
		switch x := l.(type) {
		case *udpListener:
			if o.UDPSockets > 0 {
				x.sockets = o.UDPSockets
				x.plan.udpSockets = o.UDPSockets
			}
			x.plan.udpSpareSlabs = o.UDPSpare
			s.listeners[i] = &verifC10UDP{udpListener: x, opts: o}
			done++
		case *tcpListener:
			if o.TCPConns > 0 {
				x.plan.tcpConns = o.TCPConns
			}
			if o.TCPSmall > 0 {
				x.plan.tcpSmallJobs = o.TCPSmall
			}
			if o.TCPLarge > 0 {
				x.plan.tcpLargeJobs = o.TCPLarge
			}
			done++
		}
	}
	if done != 2 {
		return errors.New("verif c10: plain UDP/TCP listeners not found")
	}
	return nil
}

func verifC10Listeners(s *Server) (*udpListener, *tcpListener) {
	s.listenersMu.Lock()
	defer s.listenersMu.Unlock()
	var u *udpListener
	var t *tcpListener
	for _, l := range s.active {
		switch x := l.(type) {
		case *verifC10UDP:
			u = x.udpListener
		case *udpListener:
			u = x
		case *tcpListener:
			t = x
		}
	}
	return u, t
}

// VerifC10Addrs returns the bound UDP socket address (all sockets of the
// reuseport group share it) and the TCP listener address.
func VerifC10Addrs(s *Server) (udp string, tcp string, sockets int) {
	u, t := verifC10Listeners(s)
	if u != nil {
		u.mu.Lock()
		if len(u.pcs) > 0 {
			udp = u.pcs[0].LocalAddr().String()
		}
		sockets = len(u.pcs)
		u.mu.Unlock()
	}
	if t != nil {
		t.mu.Lock()
		if t.ln != nil {
			tcp = t.ln.Addr().String()
		}
		t.mu.Unlock()
	}
	return udp, tcp, sockets
}

// VerifC10Stats is a snapshot of the engines' admission and settlement state.
type VerifC10Stats struct {
	UDPLeased, UDPInFlight, UDPSlabCap int64
	UDPIdle, UDPReaders, UDPWorkers    int
	UDPBatched                         bool
	TCPSmallFree, TCPSmallCap          int
	TCPLargeFree, TCPLargeCap          int
	TCPActive                          int64
	TCPIdleSmall, TCPIdleLarge         int
}

func VerifC10Snapshot(s *Server) VerifC10Stats {
	var st VerifC10Stats
	u, t := verifC10Listeners(s)
	if u != nil {
		u.mu.Lock()
		if e := u.engine; e != nil {
			st.UDPLeased = e.leased.Load()
			st.UDPInFlight = e.inFlight.Load()
			st.UDPSlabCap = e.slabCap
			st.UDPIdle = e.cache.size()
			st.UDPReaders = len(e.pcs)
			st.UDPWorkers = e.workers
			st.UDPBatched = e.txConns != nil
		}
		u.mu.Unlock()
	}
	if t != nil {
		t.mu.Lock()
		if e := t.engine; e != nil {
			st.TCPSmallFree, st.TCPSmallCap = len(e.smallTokens), cap(e.smallTokens)
			st.TCPLargeFree, st.TCPLargeCap = len(e.largeTokens), cap(e.largeTokens)
			st.TCPActive = e.active.Load()
			st.TCPIdleSmall = e.smallCache.size()
			st.TCPIdleLarge = e.largeCache.size()
		}
		t.mu.Unlock()
	}
	return st
}

// VerifC10Fallback starts the portable reader on UDP socket idx next to its
// batch reader: the shape udpBatchReader.permanentRerr leaves behind (the
// socket stays in the batch TX map, its jobs carry no freshly armed raw
// sockaddr), reached here without a seccomp filter. Both readers consume the
// socket; each datagram is still read by exactly one of them.
func VerifC10Fallback(s *Server, idx int) bool {
	u, _ := verifC10Listeners(s)
	if u == nil {
		return false
	}
	u.mu.Lock()
	defer u.mu.Unlock()
	e := u.engine
	if e == nil || idx >= len(e.pcs) || u.closing.Load() {
		return false
	}
	e.readers.Add(1)
	go e.reader(idx, e.pcs[idx])
	return true
}

// VerifC10LeaseProbe returns a reader of the UDP engine's lease counter that
// stays valid after the server has stopped (the listener forgets its engine on
// shutdown, the probe keeps it): "no held slabs" is `leased == 0` once every
// reader has released its armed ring and every worker has drained.  (gap
// C11-r3-3: a slab lost by a reader is a lease that is never counted down.)
func VerifC10LeaseProbe(s *Server) func() (leased, inFlight int64) {
	u, _ := verifC10Listeners(s)
	if u == nil {
		return nil
	}
	u.mu.Lock()
	e := u.engine
	u.mu.Unlock()
	if e == nil {
		return nil
	}
	return func() (int64, int64) { return e.leased.Load(), e.inFlight.Load() }
}
