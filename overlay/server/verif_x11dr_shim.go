//go:build verif

package server

import (
	"net"
	"unsafe"
)

// X11DR (shutdown / drain barriers) conformance shim. Injected by the
// verification framework with `go test -overlay`; never committed. Thin
// accessors only: engine identity for the trace hook, the barrier-side state a
// drain leaves behind, startAccepting on a stopped engine, and an exported
// face of the generic idle slab cache.

// verifX11drUDP is promoted through any wrapper that embeds *udpListener.
func (l *udpListener) verifX11drUDP() *udpListener { return l }

func verifX11drListeners(s *Server) (*udpListener, *tcpListener) {
	s.listenersMu.Lock()
	defer s.listenersMu.Unlock()
	var u *udpListener
	var t *tcpListener
	for _, l := range s.active {
		if x, ok := l.(interface{ verifX11drUDP() *udpListener }); ok {
			u = x.verifX11drUDP()
			continue
		}
		if x, ok := l.(*tcpListener); ok {
			t = x
		}
	}
	return u, t
}

// VerifX11drEngineID is the identity VerifUDPEvent.Engine carries for this
// server's plain UDP engine (0 before Bind).
func VerifX11drEngineID(s *Server) uintptr {
	u, _ := verifX11drListeners(s)
	if u == nil {
		return 0
	}
	u.mu.Lock()
	defer u.mu.Unlock()
	if u.engine == nil {
		return 0
	}
	return uintptr(unsafe.Pointer(u.engine)) //nolint:gosec // identity only
}

// VerifX11drState is the barrier-side state of the two owned listeners.
type VerifX11drState struct {
	Running       int32 // Serve goroutines alive
	SupDone       bool  // the shutdown supervisor finished
	UDPClosing    bool
	UDPDrainErr   string
	UDPReadyLen   int
	TCPStopped    bool
	TCPClosing    bool // engine.closing is closed
	TCPRegistry   int  // len(engine.conns)
	TCPDrainErr   string
	TCPLnClosed   bool
	UDPSockClosed bool
}

func VerifX11drSnapshot(s *Server) VerifX11drState {
	var st VerifX11drState
	st.Running = s.running.Load()
	s.listenersMu.Lock()
	done := s.shutdownDone
	s.listenersMu.Unlock()
	if done != nil {
		select {
		case <-done:
			st.SupDone = true
		default:
		}
	}
	u, t := verifX11drListeners(s)
	if u != nil {
		st.UDPClosing = u.closing.Load()
		u.mu.Lock()
		e := u.engine
		pcs := append([]*net.UDPConn(nil), u.pcs...)
		ldone := u.done
		u.mu.Unlock()
		if e != nil {
			st.UDPReadyLen = len(e.ready)
		}
		// drainErr is written inside the shutdown Once, before l.done closes
		if ldone != nil {
			select {
			case <-ldone:
				if u.drainErr != nil {
					st.UDPDrainErr = u.drainErr.Error()
				}
			default:
			}
		}
		st.UDPSockClosed = len(pcs) > 0
		for _, pc := range pcs {
			rc, err := pc.SyscallConn()
			if err == nil && rc.Control(func(uintptr) {}) == nil {
				st.UDPSockClosed = false // still open
			}
		}
	}
	if t != nil {
		t.mu.Lock()
		e := t.engine
		ln := t.ln
		ldone := t.done
		t.mu.Unlock()
		if e != nil {
			e.mu.Lock()
			st.TCPStopped = e.stopped
			st.TCPRegistry = len(e.conns)
			e.mu.Unlock()
			select {
			case <-e.closing:
				st.TCPClosing = true
			default:
			}
		}
		if ldone != nil {
			select {
			case <-ldone:
				if t.drainErr != nil {
					st.TCPDrainErr = t.drainErr.Error()
				}
			default:
			}
		}
		if tl, ok := ln.(*net.TCPListener); ok && tl != nil {
			if rc, err := tl.SyscallConn(); err != nil {
				st.TCPLnClosed = true
			} else if rc.Control(func(uintptr) {}) != nil {
				st.TCPLnClosed = true
			}
		}
	}
	return st
}

// VerifX11drStartAccepting hands the plain TCP engine a fresh loopback
// listener, the way tcpListener.Serve does. accepted reports startAccepting's
// answer; lnClosed whether the engine closed the listener it refused.
func VerifX11drStartAccepting(s *Server) (accepted, lnClosed bool, err error) {
	_, t := verifX11drListeners(s)
	if t == nil {
		return false, false, net.ErrClosed
	}
	t.mu.Lock()
	e := t.engine
	t.mu.Unlock()
	if e == nil {
		return false, false, net.ErrClosed
	}
	ln, err := net.Listen("tcp", "127.0.0.1:0")
	if err != nil {
		return false, false, err
	}
	exited := make(chan struct{})
	accepted = e.startAccepting(ln, func() { close(exited) })
	if accepted {
		// not refused: stop the loop we started so the probe itself leaks nothing
		_ = ln.Close()
		<-exited
		return true, true, nil
	}
	_, aerr := ln.Accept()
	return false, aerr != nil && isClosedNetErr(aerr), nil
}

// VerifX11drSlab is a slab of the exported face of slabCache.
type VerifX11drSlab struct{ ID int }

// VerifX11drCache is slabCache[VerifX11drSlab]: the very get/put/trim/size
// the engines use, instantiated over a tag.
type VerifX11drCache struct{ c slabCache[VerifX11drSlab] }

func (c *VerifX11drCache) Get(shard int) *VerifX11drSlab    { return c.c.get(shard) }
func (c *VerifX11drCache) Put(shard int, x *VerifX11drSlab) { c.c.put(shard, x) }
func (c *VerifX11drCache) Trim() int                        { return c.c.trim() }
func (c *VerifX11drCache) Size() int                        { return c.c.size() }

// VerifX11drShardCount is slabShardCount.
const VerifX11drShardCount = slabShardCount

// ShardLens is the number of parked slabs per shard.
func (c *VerifX11drCache) ShardLens() []int {
	out := make([]int, slabShardCount)
	for i := range c.c.shards {
		sh := &c.c.shards[i]
		sh.mu.Lock()
		out[i] = len(sh.idle)
		sh.mu.Unlock()
	}
	return out
}

// VerifX11drReaderReserve is udpReaderReserve (what newUDPEngine charges per socket).
const VerifX11drReaderReserve = udpReaderReserve

// VerifX11drTrim runs what one firing of the trimmer does to the listeners
// (TrimIdleMemory on each; no collection) and reports the slabs dropped.
func VerifX11drTrim(s *Server) int {
	s.listenersMu.Lock()
	active := append([]Listener(nil), s.active...)
	s.listenersMu.Unlock()
	n := 0
	for _, l := range active {
		if t, ok := l.(memoryTrimmer); ok {
			n += t.TrimIdleMemory()
		}
	}
	return n
}

// VerifX11drReadExpired reports whether the UDP sockets refuse a read on their
// deadline (Shutdown expired it) or because they are closed. It consumes
// nothing: RawConn.Read checks the deadline before it ever calls back. It
// waits for a read in progress on the same socket, so it is for use once a
// shutdown has begun (the deadline wakes that read).
func VerifX11drReadExpired(s *Server) bool {
	u, _ := verifX11drListeners(s)
	if u == nil {
		return false
	}
	u.mu.Lock()
	pcs := append([]*net.UDPConn(nil), u.pcs...)
	u.mu.Unlock()
	if len(pcs) == 0 {
		return false
	}
	for _, pc := range pcs {
		rc, err := pc.SyscallConn()
		if err != nil {
			continue // closed
		}
		if rc.Read(func(uintptr) bool { return true }) == nil {
			return false
		}
	}
	return true
}
