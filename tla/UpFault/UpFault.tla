------------------------------- MODULE UpFault -------------------------------
(***************************************************************************)
(* Upstream fault scripts for the C11 engine tier.  A zone is served by    *)
(* two authoritative servers; a script fixes, per server, what its first K *)
(* UDP attempts do (afterwards the server answers honestly):               *)
(*   answer | drop | delay (past the per-attempt timeout) | tcStall (TC,    *)
(*   then the TCP retry stalls) | tcReset (TC, then the TCP retry is       *)
(*   reset) | wrongId | wrongQuestion | garbage | servfail | refused       *)
(* The resolver is abstract: it may try either server at any time, pays    *)
(* the fault's cost out of the query budget QT (attempts may overlap, so   *)
(* any cost up to the fault's is possible), may give up early, and the     *)
(* ingress deadline answers SERVFAIL when the budget is gone.  What must   *)
(* hold for every script and every such schedule is C11's client-side      *)
(* contract: exactly one reply, never two, no later than QT + Margin.      *)
(* TLC enumerates the scripts (the initial states); the check plays        *)
(* sampled scripts on authkit servers against the real pipeline.           *)
(***************************************************************************)
EXTENDS Naturals, FiniteSets, TLC

CONSTANTS Servers, K, Faults, T, QT, Margin

Cost(f) ==
  CASE f \in {"answer", "servfail", "refused", "tcReset"} -> 0
    [] f \in {"drop", "delay", "wrongId", "wrongQuestion", "garbage"} -> T
    [] f = "tcStall" -> T

VARIABLES script, n, now, st, replies, replyAt, rcode
vars == <<script, n, now, st, replies, replyAt, rcode>>

Init ==
  /\ script \in [Servers -> [1..K -> Faults]]
  /\ n = [s \in Servers |-> 0]
  /\ now = 0 /\ st = "resolving" /\ replies = 0 /\ replyAt = 0 /\ rcode = "none"

FaultOf(s) == IF n[s] < K THEN script[s][n[s] + 1] ELSE "answer"

Reply(rc) ==
  /\ replies' = replies + 1 /\ replyAt' = now' /\ rcode' = rc

Attempt(s) ==
  /\ st = "resolving" /\ now < QT
  /\ LET f == FaultOf(s) IN
     /\ n' = [n EXCEPT ![s] = @ + 1]
     /\ \E c \in 0..Cost(f) :
          now' = IF now + c > QT THEN QT ELSE now + c
     /\ IF f = "answer" /\ now' < QT
          THEN st' = "answered" /\ Reply("noerror")
          ELSE st' = st /\ UNCHANGED <<replies, replyAt, rcode>>
  /\ UNCHANGED script

(* every server looks dead, or the work budget is gone: fail before the deadline *)
GiveUp ==
  /\ st = "resolving" /\ now < QT
  /\ \E s \in Servers : n[s] > 0
  /\ now' = now /\ st' = "failed" /\ Reply("servfail")
  /\ UNCHANGED <<script, n>>

(* the ingress deadline: the budget is spent, the client gets SERVFAIL *)
Deadline ==
  /\ st = "resolving" /\ now = QT
  /\ \E d \in 0..Margin : now' = QT + d
  /\ st' = "failed" /\ Reply("servfail")
  /\ UNCHANGED <<script, n>>

Next == (\E s \in Servers : Attempt(s)) \/ GiveUp \/ Deadline
Spec == Init /\ [][Next]_vars /\ WF_vars(Next)

TypeOK == st \in {"resolving", "answered", "failed"} /\ replies \in 0..2
AtMostOneReply == replies <= 1
ExactlyOneWhenDone == st # "resolving" => replies = 1
InTime == replies = 1 => replyAt <= QT + Margin
AnswerOrServfail == rcode \in {"none", "noerror", "servfail"}
EventuallyReplied == <>(st # "resolving")
(* scripts handed to the replay: the per-server fault lists *)
ScriptView == script
=============================================================================
