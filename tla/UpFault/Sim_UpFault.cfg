CONSTANTS
  Servers <- SrvAB
  K = 2
  Faults <- AllFaults
  T = 2  QT = 4  Margin = 2
INIT Init
NEXT Next
CHECK_DEADLOCK FALSE
