CONSTANTS
  Servers <- SrvAB
  K = 2
  Faults <- AllFaults
  T = 2  QT = 4  Margin = 2
SPECIFICATION Spec
INVARIANTS TypeOK AtMostOneReply ExactlyOneWhenDone InTime AnswerOrServfail
PROPERTIES EventuallyReplied
CHECK_DEADLOCK FALSE
