----------------------------- MODULE MC_UpFault -----------------------------
EXTENDS UpFault
AllFaults == {"answer", "drop", "delay", "tcStall", "tcReset", "wrongId", "wrongQuestion",
              "garbage", "servfail", "refused"}
SrvAB == {"A", "B"}
=============================================================================
