CONSTANTS
  Writers = {1, 2, 3}
  Prog <- QProg3b
  Entries <- MCEntries
  WL <- MCWL
  InitMem <- QInitB
  MaxCrash = 1
  CheckOrder = "locked"
  PLabels = {"a", "b", "c"}
  PDepth = 3
SPECIFICATION QSpec
INVARIANTS QTypeOK QueueDiscipline WriterIsNewer SkipJustified NewestPending DiskIsASnapshot SnapshotOnDisk CrashLeavesSnapshot Converged NewestWins LastPersistedExact OneTemp
PROPERTIES NeverBackwards Terminates QueuedServed
CHECK_DEADLOCK FALSE
