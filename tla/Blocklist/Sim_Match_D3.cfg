CONSTANTS
  Labels = {"a", "b", "c"}
  MaxDepth = 3
  MaxM = 2
  MaxWild = 2
  MaxW = 2
  Deep = "z"
  WithTable = TRUE
INIT Init
NEXT Next

CHECK_DEADLOCK FALSE
