CONSTANTS
  Writers = {1, 2, 3}
  Prog <- QProg3b
  Entries <- MCEntries
  WL <- MCWL
  InitMem <- QInitB
  MaxCrash = 0
  CheckOrder = "hoisted"
  PLabels = {"a", "b", "c"}
  PDepth = 3
SPECIFICATION QSpec
INVARIANT WriterIsNewer
CHECK_DEADLOCK FALSE
