CONSTANTS
  Writers = {1, 2}
  Prog <- MCProgF
  Entries <- MCEntries
  WL <- MCWL
  InitMem <- MCInitF
  MaxCrash = 0
  PLabels = {"a", "b", "c"}
  PDepth = 3
  RefreshMode = "skipLocal"
  DirAtStart = FALSE
  PersistMkdir = TRUE
  LoaderExact = TRUE
  RefreshTemp = "leave"
  Faults = {}
  Cleanup = "temp"
SPECIFICATION SpecR
INVARIANTS TypeOK DiskIsASnapshot Converged NewestWins OneTemp ReloadsExactly
PROPERTIES Terminates
CHECK_DEADLOCK FALSE
