----------------------------- MODULE MC_Persist -----------------------------
EXTENDS BlPersist
(* concrete entries (the replay concretises a = "example", b = "notexample", c = "com") *)
P(n) == [k |-> "p", n |-> n]
W(n) == [k |-> "w", n |-> n]
E1 == P(<<"a", "c">>)            \* example.com.
E2 == P(<<"b", "a", "c">>)       \* notexample.example.com.   (covered by E1 and by E3)
E3 == W(<<"a", "c">>)            \* *.example.com.
E4 == P(<<"b", "c">>)            \* notexample.com.
ER == P(<<"a", "c", "c">>)       \* example.com.com.  (whitelisted parent com.com.: Set refuses)
MCEntries == {E1, E2, E3, E4, ER}
MCWL == {<<"c", "c">>}
O(op, keys) == [op |-> op, keys |-> keys]

(* two writers: every kind of call, a refused key, a remove of an absent key *)
MCProg2 == (1 :> << O("Set", {E1}), O("RemoveBatch", {E2, E4}) >>
         @@ 2 :> << O("SetBatch", {E2, E3, ER}), O("Remove", {E1}) >>)
(* three writers *)
MCProg3 == (1 :> << O("Set", {E1}), O("RemoveBatch", {E2, E4}) >>
         @@ 2 :> << O("SetBatch", {E2, E3, ER}), O("Remove", {E1}) >>
         @@ 3 :> << O("Set", {ER}), O("Set", {E4}), O("Remove", {E3}) >>)
(* a file is already there *)
MCProg2b == (1 :> << O("Remove", {E1}), O("Set", {E2}) >>
          @@ 2 :> << O("SetBatch", {E3, E4}), O("RemoveBatch", {E3, E1}) >>)
MCInitB == {E1, E4}
=============================================================================
