--------------------------- MODULE Trace_BlPersist ---------------------------
(***************************************************************************)
(* Validation of executions recorded from the real BlockList               *)
(* (harness/c18/persist_test.go) against BlPersist.tla.                    *)
(*                                                                         *)
(* One NDJSON line per step, written while every goroutine is parked at a  *)
(* gate, so the line order is the real order.  A line carries the WHOLE    *)
(* observed state: memory (b.m / b.wild through the overlay shim), version *)
(* and lastPersisted, the gate every writer is parked at, and the content  *)
(* of `local` and of the temp file as read from the real directory.  The   *)
(* trace state IS the observed state (only the ghosts hist / localVer are  *)
(* derived), so the invariants of BlPersist are evaluated on what the code *)
(* really did: a property invariant failing here is a violation of C18 on  *)
(* a real execution (the reload half of Converged / CrashLeavesSnapshot is  *)
(* judged by the driver with the real loader; here: the file halves).  Whether the step is one BlPersist allows is counted  *)
(* separately in `drift` (model/code difference, not a verdict).           *)
(* Runs are concatenated, separated by Reset lines.                        *)
(***************************************************************************)
EXTENDS MC_Persist, Json, IOUtils

TraceLog == ndJsonDeserialize(IOEnv.TRACE_FILE)

VARIABLES l, drift
tvars == <<vars, l, drift>>

IdMap == ("E1" :> E1 @@ "E2" :> E2 @@ "E3" :> E3 @@ "E4" :> E4 @@ "ER" :> ER)
EntryOf(id) == IF id \in DOMAIN IdMap THEN IdMap[id] ELSE [k |-> "?", n |-> <<id>>]
SetOf(sq) == {EntryOf(sq[i]) : i \in 1..Len(sq)}

TraceInit == Init /\ l = 1 /\ drift = 0

Ln == TraceLog[l]
More == l <= Len(TraceLog)
Report == (l = Len(TraceLog)) => PrintT(<<"C18DRIFT", drift'>>)

Reset ==
  /\ More /\ Ln.ev = "Reset"
  /\ mem' = InitMem /\ version' = 0 /\ lastPersisted' = 0 /\ holder' = 0
  /\ pc' = [p \in Writers |-> IF Len(Prog[p]) = 0 THEN "done" ELSE "idle"]
  /\ opi' = [p \in Writers |-> 1]
  /\ snap' = [p \in Writers |-> [ver |-> 0, set |-> {}]]
  /\ local' = IF InitMem = {} THEN NoLocal ELSE [ex |-> TRUE, lines |-> InitMem]
  /\ tmp' = NoTmp /\ crashed' = 0 /\ hist' = << >> /\ localVer' = 0
  /\ l' = l + 1 /\ drift' = drift
  /\ Report

(* the next state is what the driver saw *)
Observed ==
  /\ mem' = SetOf(Ln.mem)
  /\ version' = Ln.version /\ lastPersisted' = Ln.lp /\ holder' = Ln.hold
  /\ pc' = [p \in Writers |-> Ln.pc[p]]
  /\ opi' = [p \in Writers |-> Ln.opi[p]]
  /\ local' = [ex |-> Ln.local.ex, lines |-> SetOf(Ln.local.lines)]
  /\ tmp' = [ex |-> Ln.tmp.ex, hdr |-> Ln.tmp.hdr, lines |-> SetOf(Ln.tmp.lines)]
  /\ crashed' = 0
  /\ snap' = [p \in Writers |-> IF p = Ln.p /\ Ln.g = 1
                                  THEN [ver |-> Ln.ver, set |-> SetOf(Ln.mem)] ELSE snap[p]]
  /\ hist' = IF Ln.version = version + 1 THEN Append(hist, SetOf(Ln.mem)) ELSE hist
  /\ localVer' = IF (local' # local \/ Ln.g = 8) /\ Ln.p \in Writers THEN snap[Ln.p].ver ELSE localVer

(* a writer's step: is it one the specification allows from here? *)
TStep ==
  /\ More /\ Ln.ev \in {"step", "skip"}
  /\ Observed
  /\ l' = l + 1
  /\ drift' = drift + (IF \E p \in Writers : Step(p) THEN 0 ELSE 1)
  /\ Report

(* a crash point: the directory was copied and loaded elsewhere, the run goes on *)
TCrash ==
  /\ More /\ Ln.ev = "crash"
  /\ Observed
  /\ l' = l + 1 /\ drift' = drift
  /\ Report

TraceNext == Reset \/ TStep \/ TCrash
TraceSpec == TraceInit /\ [][TraceNext]_tvars

TraceAccepted == TLCGet("stats").diameter - 1 = Len(TraceLog)
=============================================================================
