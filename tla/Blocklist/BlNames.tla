------------------------------ MODULE BlNames ------------------------------
(***************************************************************************)
(* Names and the two matchers of property C18, as pure operators shared by *)
(* BlMatch.tla (the matcher table) and BlPersist.tla (reload equivalence). *)
(*                                                                         *)
(* A name is the sequence of its labels, leftmost first; <<>> is the root. *)
(* Labels are opaque (already case-folded: the code canonicalises with     *)
(* dns.CanonicalName before every lookup, the replay concretises labels    *)
(* in mixed case).  "example.com." = <<"a","c">>.                          *)
(*                                                                         *)
(* List entries are never the root and never contain escaped dots          *)
(* (DESIGN 9): the code does not treat "." as a parent and splits on every *)
(* '.' byte, the statement says nothing about either.                      *)
(***************************************************************************)
EXTENDS Integers, FiniteSets, Sequences

Root == << >>

(* all names over the label set L with 0..d labels *)
NamesUpTo(L, d) == UNION {[1..k -> L] : k \in 0..d}

Suffix(n, i) == SubSeq(n, i, Len(n))

(* --- the STATEMENT ----------------------------------------------------- *)
(* strict parent domains of n: every proper suffix, the root included      *)
Parents(n) == {Suffix(n, i) : i \in 2..(Len(n) + 1)}
SelfOrParents(n) == {n} \cup Parents(n)

(* "A name is blocked exactly when it or one of its parent domains is      *)
(*  listed as a plain entry, or one of its strict parents is listed as a   *)
(*  wildcard entry, and neither it nor any parent is whitelisted"          *)
BlockedIn(m, wild, w, n) ==
  /\ \/ SelfOrParents(n) \cap m # {}
     \/ Parents(n) \cap wild # {}
  /\ SelfOrParents(n) \cap w = {}

(* --- the CODE (blocklist.go: Exists, matchHierarchy) ------------------- *)
(* the suffixes the code's walk visits: `offset < len(key)` excludes the   *)
(* root, so only the non-empty proper suffixes                             *)
CodeParents(n) == {Suffix(n, i) : i \in 2..Len(n)}

(* matchHierarchy(name, set) *)
CodeMatchHier(n, s) ==
  IF s = {} THEN FALSE
  ELSE IF n \in s THEN TRUE
  ELSE \E p \in CodeParents(n) : p \in s

(* BlockList.Exists(key) on a plain name *)
CodeBlockedIn(m, wild, w, n) ==
  IF CodeMatchHier(n, w) THEN FALSE
  ELSE IF n \in m THEN TRUE
  ELSE IF m = {} /\ wild = {} THEN FALSE
  ELSE \E p \in CodeParents(n) : p \in m \/ p \in wild

(* BlockList.Exists("*." + s): the key carries a literal "*" label that is *)
(* in no list, so only its parents (s and above) are consulted.            *)
CodeWildKeyExists(m, wild, w, s) ==
  IF w # {} /\ (s \in w \/ \E p \in CodeParents(s) : p \in w) THEN FALSE
  ELSE IF m = {} /\ wild = {} THEN FALSE
  ELSE s \in m \/ s \in wild \/ \E p \in CodeParents(s) : p \in m \/ p \in wild

(* setLocked refuses a key the whitelist shadows; for "*.s" the literal    *)
(* key is in no whitelist, its parents are s and above                     *)
CodeSetRefused(w, n) == w # {} /\ (n \in w \/ \E p \in CodeParents(n) : p \in w)

(* subsets of S with at most k elements, built bottom-up (SUBSET S is far  *)
(* too large to filter for the deeper universes)                           *)
RECURSIVE SubsetsUpTo(_, _)
SubsetsUpTo(S, k) ==
  IF k = 0 THEN {{}}
  ELSE LET prev == SubsetsUpTo(S, k - 1)
       IN prev \cup {x \cup {e} : x \in prev, e \in S}
=============================================================================
