CONSTANTS
  Writers = {1, 2, 3}
  Prog <- MCProg3
  Entries <- MCEntries
  WL <- MCWL
  InitMem = {}
  MaxCrash = 1
  PLabels = {"a", "b", "c"}
  PDepth = 3
SPECIFICATION TraceSpec
INVARIANTS DiskIsASnapshot ConvergedFile NewestWins SnapshotOnDisk LastPersistedExact TypeOK OneTemp
POSTCONDITION TraceAccepted
CHECK_DEADLOCK FALSE
