CONSTANTS
  Writers = {1, 2}
  Prog <- MCProgF
  Entries <- MCEntries
  WL <- MCWL
  InitMem <- MCInitF
  MaxCrash = 0
  PLabels = {"a", "b", "c"}
  PDepth = 3
  RefreshMode = "skipLocal"
  DirAtStart = FALSE
  PersistMkdir = FALSE
  LoaderExact = TRUE
  RefreshTemp = "leave"
  Faults = {}
  Cleanup = "temp"
SPECIFICATION SpecR
INVARIANTS Converged
PROPERTIES Terminates
CHECK_DEADLOCK FALSE
