CONSTANTS
  Writers = {1, 2}
  Prog <- MCProgR
  Entries <- MCEntries
  WL <- MCWL
  InitMem <- MCInitR
  MaxCrash = 0
  PLabels = {"a", "b", "c"}
  PDepth = 3
  RefreshMode = "skipLocal"
  DirAtStart = TRUE
  PersistMkdir = TRUE
  LoaderExact = TRUE
  RefreshTemp = "leave"
  Faults = {"vanish"}
  Cleanup = "local"
SPECIFICATION SpecR
PROPERTIES PreviousFileKept
CHECK_DEADLOCK FALSE
