CONSTANTS
  Labels = {"a", "b", "c"}
  MaxDepth = 3
  MaxM = 1
  MaxWild = 1
  MaxW = 1
  Deep = "z"
  WithTable = FALSE
INIT Init
NEXT NextMC
VIEW View
INVARIANTS TypeOK MatchExact
CHECK_DEADLOCK FALSE
