CONSTANTS
  Writers = {1, 2}
  Prog <- MCProg2
  Entries <- MCEntries
  WL <- MCWL
  InitMem = {}
  MaxCrash = 1
  PLabels = {"a", "b", "c"}
  PDepth = 3
INIT Init
NEXT Next
CHECK_DEADLOCK FALSE
