---------------------------- MODULE Trace_BlQueue ----------------------------
(***************************************************************************)
(* Validation of executions recorded from the real BlockList               *)
(* (harness/c18q/queue_test.go) against BlQueue.tla, as built              *)
(* (CheckOrder = "locked").                                                *)
(*                                                                         *)
(* One NDJSON line per step.  A line is written when every writer          *)
(* goroutine is accounted for: parked at a verifGate point, parked INSIDE   *)
(* b.saveMu.Lock() under persist (seen in the goroutine dump: pc "queued"), *)
(* or returned.  It carries the whole observed state: memory, version and   *)
(* lastPersisted (overlay shim), the pc of every writer, who holds saveMu,  *)
(* the content of `local` and of the temp file read from the directory.    *)
(* The trace state IS the observed state (ghosts hist / localVer derived),  *)
(* so the invariants are evaluated on what the code did: a PROPERTY         *)
(* invariant (DiskIsASnapshot, ConvergedFile, NewestWins) false here is a   *)
(* violation of C18 on a real execution.  Whether a step is one the model   *)
(* allows is counted in `drift` (not a verdict).                            *)
(*                                                                         *)
(* Two things the driver cannot separate:                                   *)
(*  - a writer released from the PersistEnter gate while the lock is free   *)
(*    is next seen at TempCreated / Skipped: QueueAcquire = Queue . Acquire *)
(*  - when the holder unlocks while writers wait, the code hands the lock   *)
(*    to one of them at once; the driver sees both changes together.  It    *)
(*    writes two lines, the release first: that line ("syn": 1) is the      *)
(*    observed state with only the winner's Acquire taken back (its pc      *)
(*    "queued", holder 0, no temp file) -- Acquire touches nothing else.    *)
(* Runs are concatenated, separated by Reset lines.                         *)
(***************************************************************************)
EXTENDS MC_Queue, Json, IOUtils

TraceLog == ndJsonDeserialize(IOEnv.TRACE_FILE)

VARIABLES l, drift
tvars == <<vars, l, drift>>

IdMap == ("E1" :> E1 @@ "E2" :> E2 @@ "E3" :> E3 @@ "E4" :> E4 @@ "ER" :> ER)
EntryOf(id) == IF id \in DOMAIN IdMap THEN IdMap[id] ELSE [k |-> "?", n |-> <<id>>]
SetOf(sq) == {EntryOf(sq[i]) : i \in 1..Len(sq)}

TraceInit == Init /\ l = 1 /\ drift = 0

Ln == TraceLog[l]
More == l <= Len(TraceLog)
Report == (l = Len(TraceLog)) => PrintT(<<"X18QDRIFT", drift'>>)

Reset ==
  /\ More /\ Ln.ev = "Reset"
  /\ mem' = InitMem /\ version' = 0 /\ lastPersisted' = 0 /\ holder' = 0
  /\ pc' = [p \in Writers |-> IF Len(Prog[p]) = 0 THEN "done" ELSE "idle"]
  /\ opi' = [p \in Writers |-> 1]
  /\ snap' = [p \in Writers |-> [ver |-> 0, set |-> {}]]
  /\ local' = IF InitMem = {} THEN NoLocal ELSE [ex |-> TRUE, lines |-> InitMem]
  /\ tmp' = NoTmp /\ crashed' = 0 /\ hist' = << >> /\ localVer' = 0
  /\ l' = l + 1 /\ drift' = drift
  /\ Report

(* the next state is what the driver saw *)
Observed ==
  /\ mem' = SetOf(Ln.mem)
  /\ version' = Ln.version /\ lastPersisted' = Ln.lp /\ holder' = Ln.hold
  /\ pc' = [p \in Writers |-> Ln.pc[p]]
  /\ opi' = [p \in Writers |-> Ln.opi[p]]
  /\ local' = [ex |-> Ln.local.ex, lines |-> SetOf(Ln.local.lines)]
  /\ tmp' = [ex |-> Ln.tmp.ex, hdr |-> Ln.tmp.hdr, lines |-> SetOf(Ln.tmp.lines)]
  /\ crashed' = 0
  /\ snap' = [p \in Writers |-> IF p = Ln.p /\ Ln.g = 1
                                  THEN [ver |-> Ln.ver, set |-> SetOf(Ln.mem)] ELSE snap[p]]
  /\ hist' = IF Ln.version = version + 1 THEN Append(hist, SetOf(Ln.mem)) ELSE hist
  /\ localVer' = IF (local' # local \/ Ln.g = 8) /\ Ln.p \in Writers THEN snap[Ln.p].ver ELSE localVer

(* a writer's step: is it one the specification allows from here? *)
TStep ==
  /\ More /\ Ln.ev = "step"
  /\ Observed
  /\ l' = l + 1
  /\ drift' = drift + (IF \E p \in Writers : QStep(p) \/ QueueAcquire(p) THEN 0 ELSE 1)
  /\ Report

(* a crash point: the directory was copied and loaded elsewhere, the run goes on *)
TCrash ==
  /\ More /\ Ln.ev = "crash"
  /\ Observed
  /\ l' = l + 1 /\ drift' = drift
  /\ Report

TraceNext == Reset \/ TStep \/ TCrash
TraceSpec == TraceInit /\ [][TraceNext]_tvars

TraceAccepted == TLCGet("stats").diameter - 1 = Len(TraceLog)
=============================================================================
