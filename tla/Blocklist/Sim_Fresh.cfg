CONSTANTS
  Writers = {1, 2}
  Prog <- MCProgF
  Entries <- MCEntries
  WL <- MCWL
  InitMem <- MCInitF
  MaxCrash = 0
  PLabels = {"a", "b", "c"}
  PDepth = 3
  RefreshMode = "skipLocal"
  DirAtStart = FALSE
  PersistMkdir = TRUE
  LoaderExact = TRUE
  RefreshTemp = "leave"
  Faults = {}
  Cleanup = "temp"
INIT InitR
NEXT NextR
CHECK_DEADLOCK FALSE
