----------------------------- MODULE BlRefresh -----------------------------
(***************************************************************************)
(* BlPersist.tla plus the one background step of BlockList that touches    *)
(* the same state: refreshRemote() (updater.go), started by New() and      *)
(* running one second later, downloads the remote lists and then re-reads  *)
(* the blocklist directory to merge what it finds into memory              *)
(* (parseHostFile: `if !b.Exists(name) { b.set(name) }`).                  *)
(*                                                                         *)
(* RefreshMode                                                             *)
(*   "skipLocal"   the re-read leaves the API-owned file `local` (and the  *)
(*                 temp file of a persist in flight) alone: memory is      *)
(*                 already at least what `local` holds                     *)
(*   "rereadLocal" the directory walk parses `local` like any other list   *)
(*                 (the code before its repair): an entry removed from     *)
(*                 memory whose removal has not reached the file yet is    *)
(*                 merged back -- and the file then loses it for good      *)
(*                                                                         *)
(* Refresh is modelled where no temp file exists (the walk also deletes    *)
(* `local.tmp.*`, which would make an in-flight rename fail: not modelled).*)
(***************************************************************************)
EXTENDS BlPersist

CONSTANTS RefreshMode,
          DirAtStart,     \* BOOLEAN: the blocklist directory exists when New() runs (FALSE = a fresh install:
                          \* loadInitial creates nothing, refreshRemote creates the directory a second later)
          PersistMkdir,   \* BOOLEAN: persist creates the directory when it is missing (the code after its
                          \* repair); FALSE = os.CreateTemp fails in a missing directory, persist logs and returns
          LoaderExact     \* BOOLEAN: the loader inserts every line of `local` (the code after its repair);
                          \* FALSE = it skips a line that what it has loaded so far already covers (`!b.Exists`)
VARIABLES refreshed, dir

rvars == <<vars, refreshed, dir>>

ASSUME DirAtStart \/ InitMem = {}

InitR == Init /\ refreshed = FALSE /\ dir = DirAtStart

Refresh ==
  /\ Alive /\ ~refreshed /\ ~tmp.ex
  /\ refreshed' = TRUE /\ dir' = TRUE      \* refreshRemote: os.Mkdir when the directory is missing
  /\ IF RefreshMode = "rereadLocal" /\ local.ex
       THEN \E sq \in FileOrders(local.lines) : mem' = ReloadSeq(sq, mem)
       ELSE mem' = mem
  /\ UNCHANGED <<version, lastPersisted, holder, pc, opi, snap, local, tmp, crashed, hist, localVer>>

(* persist in a missing directory: CreateTemp fails, the error is logged, the call returns; nothing reached disk *)
PersistFail(p) ==
  /\ Alive /\ pc[p] = "snapped" /\ holder = 0
  /\ snap[p].ver > lastPersisted
  /\ Return(p)
  /\ UNCHANGED <<mem, version, lastPersisted, holder, snap, local, tmp, crashed, hist, localVer>>

IsCreateTemp(p) == pc[p] = "snapped" /\ pc'[p] = "tmp"
StepR(p) ==
  IF dir \/ PersistMkdir
    THEN Step(p) /\ dir' = (dir \/ IsCreateTemp(p))
    ELSE ((Step(p) /\ ~IsCreateTemp(p)) \/ PersistFail(p)) /\ UNCHANGED dir

NextR == (\E p \in Writers : StepR(p) /\ UNCHANGED refreshed) \/ Refresh

SpecR == InitR /\ [][NextR]_rvars /\ \A p \in Writers : WF_rvars(StepR(p) /\ UNCHANGED refreshed)

(* "the persisted local list reloads to EXACTLY the in-memory list": with the skipping loader an entry that another
   one covers is dropped when the file happens to list the covering entry first - the same answers today, not after
   the covering entry is removed *)
RECURSIVE ReloadSeqX(_, _)
ReloadSeqX(sq, acc) ==
  IF sq = << >> THEN acc
  ELSE LET e == Head(sq)
           acc2 == IF Refused(e) \/ (~LoaderExact /\ LineExists(acc, e)) THEN acc ELSE acc \cup {e}
       IN ReloadSeqX(Tail(sq), acc2)
ReloadsExactly ==
  (AllDone /\ Alive /\ local.ex) => \A sq \in FileOrders(local.lines) : ReloadSeqX(sq, {}) = mem
=============================================================================
