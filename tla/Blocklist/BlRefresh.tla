----------------------------- MODULE BlRefresh -----------------------------
(***************************************************************************)
(* BlPersist.tla plus the one background step of BlockList that touches    *)
(* the same state: refreshRemote() (updater.go), started by New() and      *)
(* running one second later, downloads the remote lists and then re-reads  *)
(* the blocklist directory to merge what it finds into memory              *)
(* (parseHostFile: `if !b.Exists(name) { b.set(name) }`).                  *)
(*                                                                         *)
(* RefreshMode                                                             *)
(*   "skipLocal"   the re-read leaves the API-owned file `local` (and the  *)
(*                 temp file of a persist in flight) alone: memory is      *)
(*                 already at least what `local` holds                     *)
(*   "rereadLocal" the directory walk parses `local` like any other list   *)
(*                 (the code before its repair): an entry removed from     *)
(*                 memory whose removal has not reached the file yet is    *)
(*                 merged back -- and the file then loses it for good      *)
(*                                                                         *)
(* RefreshTemp  what that walk does with `local.tmp.*`, the temp file of a  *)
(*   persist that is between CreateTemp and Rename at that moment:         *)
(*   "leave"    nothing (the code as written: skipLocal covers the temp    *)
(*              file too, it belongs to the persist that owns it)          *)
(*   "delete"   the walk's "leftover temp file of an interrupted persist"  *)
(*              cleanup removes it (the model mutant): the writer goes on  *)
(*              writing to its descriptor, os.Rename fails, the write is   *)
(*              dropped with a log line and `local` stays behind memory    *)
(* Refresh is enabled at every point of a persist (with "rereadLocal" only *)
(* where no temp file exists: that old walk parsed the temp file as a list,*)
(* which is not modelled).                                                 *)
(*                                                                         *)
(* Faults / Cleanup  the I/O faults of BlPersist.tla (TempVanish,          *)
(*   FailWrite, RenameFail) as steps of the environment: Faults is the set *)
(*   of kinds enabled ("vanish", "write"), Cleanup what the failure path   *)
(*   of persist removes ("temp" as written, "local" = the mutant).  With   *)
(*   faults Converged is not owed (persist is best effort: the error is    *)
(*   logged, memory stays); what IS owed is PreviousFileKept: the failed   *)
(*   persist leaves the previous complete `local`, and FaultConverged:     *)
(*   whenever the newest snapshot did reach the disk, file = memory.       *)
(***************************************************************************)
EXTENDS BlPersist

CONSTANTS RefreshMode,
          DirAtStart,     \* BOOLEAN: the blocklist directory exists when New() runs (FALSE = a fresh install:
                          \* loadInitial creates nothing, refreshRemote creates the directory a second later)
          PersistMkdir,   \* BOOLEAN: persist creates the directory when it is missing (the code after its
                          \* repair); FALSE = os.CreateTemp fails in a missing directory, persist logs and returns
          RefreshTemp,    \* "leave" | "delete"
          Faults,         \* SUBSET {"vanish", "write"}
          Cleanup,        \* "temp" | "local"
          LoaderExact     \* BOOLEAN: the loader inserts every line of `local` (the code after its repair);
                          \* FALSE = it skips a line that what it has loaded so far already covers (`!b.Exists`)
VARIABLES refreshed, dir

rvars == <<vars, refreshed, dir>>

ASSUME DirAtStart \/ InitMem = {}
ASSUME RefreshTemp \in {"leave", "delete"} /\ Cleanup \in {"temp", "local"} /\ Faults \subseteq {"vanish", "write"}

InitR == Init /\ refreshed = FALSE /\ dir = DirAtStart

Refresh ==
  /\ Alive /\ ~refreshed
  /\ RefreshMode = "rereadLocal" => ~tmp.ex
  /\ refreshed' = TRUE /\ dir' = TRUE      \* refreshRemote: os.Mkdir when the directory is missing
  /\ IF RefreshMode = "rereadLocal" /\ local.ex
       THEN \E sq \in FileOrders(local.lines) : mem' = ReloadSeq(sq, mem)
       ELSE mem' = mem
  \* readLists(skipLocal = TRUE) meets the temp file of the persist in flight
  /\ tmp' = IF RefreshTemp = "delete" THEN [tmp EXCEPT !.ex = FALSE] ELSE tmp
  /\ UNCHANGED <<version, lastPersisted, holder, pc, opi, snap, local, crashed, hist, localVer>>

(* persist in a missing directory: CreateTemp fails, the error is logged, the call returns; nothing reached disk *)
PersistFail(p) ==
  /\ Alive /\ pc[p] = "snapped" /\ holder = 0
  /\ snap[p].ver > lastPersisted
  /\ Return(p)
  /\ UNCHANGED <<mem, version, lastPersisted, holder, snap, local, tmp, crashed, hist, localVer>>

IsCreateTemp(p) == pc[p] = "snapped" /\ pc'[p] = "tmp"
(* the failure paths of persist after CreateTemp: a rename whose temp file is gone (always possible once something
   removed the name: an enabled fault, or Refresh with RefreshTemp = "delete"), a write that fails *)
FaultStep(p) == RenameFail(p, Cleanup) \/ ("write" \in Faults /\ FailWrite(p, Cleanup))
StepR(p) ==
  \/ IF dir \/ PersistMkdir
       THEN Step(p) /\ dir' = (dir \/ IsCreateTemp(p))
       ELSE ((Step(p) /\ ~IsCreateTemp(p)) \/ PersistFail(p)) /\ UNCHANGED dir
  \/ FaultStep(p) /\ UNCHANGED dir

NextR == \/ \E p \in Writers : StepR(p) /\ UNCHANGED refreshed
         \/ Refresh
         \/ "vanish" \in Faults /\ TempVanish /\ UNCHANGED <<refreshed, dir>>

SpecR == InitR /\ [][NextR]_rvars /\ \A p \in Writers : WF_rvars(StepR(p) /\ UNCHANGED refreshed)

(* "the persisted local list reloads to EXACTLY the in-memory list": with the skipping loader an entry that another
   one covers is dropped when the file happens to list the covering entry first - the same answers today, not after
   the covering entry is removed *)
RECURSIVE ReloadSeqX(_, _)
ReloadSeqX(sq, acc) ==
  IF sq = << >> THEN acc
  ELSE LET e == Head(sq)
           acc2 == IF Refused(e) \/ (~LoaderExact /\ LineExists(acc, e)) THEN acc ELSE acc \cup {e}
       IN ReloadSeqX(Tail(sq), acc2)
(* TypeOK / OneTemp of BlPersist with tmp.ex read as "the NAME of the temp file exists": a fault may take the name away
   while the writer still holds the descriptor *)
TypeOKF ==
  /\ mem \subseteq Entries
  /\ version \in Nat /\ lastPersisted \in 0..version
  /\ holder \in Writers \cup {0}
  /\ local.lines \subseteq Entries /\ (~local.ex => local.lines = {})
  /\ tmp.lines \subseteq Entries
  /\ Len(hist) = version
OneTempF ==
  /\ tmp.ex => \E p \in Writers : pc[p] \in {"tmp", "hdr", "synced", "closed"}
  /\ \A p \in Writers : pc[p] \in {"tmp", "hdr", "synced", "closed", "renamed"} => holder = p
  /\ Cardinality({p \in Writers : pc[p] \in {"tmp", "hdr", "synced", "closed", "renamed"}}) <= 1
(* with faults: every call returned => `local` is a complete snapshot, and it is memory whenever the newest snapshot is
   the one that reached the disk (a fault on the newest one leaves the previous file: PreviousFileKept) *)
FaultConverged ==
  (AllDone /\ Alive) =>
     /\ DiskIsASnapshot
     /\ lastPersisted = version => LocalSet = mem /\ (version > 0 => local.ex)
     /\ local.ex => ReloadFaithful(local.lines)

ReloadsExactly ==
  (AllDone /\ Alive /\ local.ex) => \A sq \in FileOrders(local.lines) : ReloadSeqX(sq, {}) = mem
=============================================================================
