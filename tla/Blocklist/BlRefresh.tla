----------------------------- MODULE BlRefresh -----------------------------
(***************************************************************************)
(* BlPersist.tla plus the one background step of BlockList that touches    *)
(* the same state: refreshRemote() (updater.go), started by New() and      *)
(* running one second later, downloads the remote lists and then re-reads  *)
(* the blocklist directory to merge what it finds into memory              *)
(* (parseHostFile: `if !b.Exists(name) { b.set(name) }`).                  *)
(*                                                                         *)
(* RefreshMode                                                             *)
(*   "skipLocal"   the re-read leaves the API-owned file `local` (and the  *)
(*                 temp file of a persist in flight) alone: memory is      *)
(*                 already at least what `local` holds                     *)
(*   "rereadLocal" the directory walk parses `local` like any other list   *)
(*                 (the code before its repair): an entry removed from     *)
(*                 memory whose removal has not reached the file yet is    *)
(*                 merged back -- and the file then loses it for good      *)
(*                                                                         *)
(* Refresh is modelled where no temp file exists (the walk also deletes    *)
(* `local.tmp.*`, which would make an in-flight rename fail: not modelled).*)
(***************************************************************************)
EXTENDS BlPersist

CONSTANT RefreshMode
VARIABLE refreshed

rvars == <<vars, refreshed>>

InitR == Init /\ refreshed = FALSE

Refresh ==
  /\ Alive /\ ~refreshed /\ ~tmp.ex
  /\ refreshed' = TRUE
  /\ IF RefreshMode = "rereadLocal" /\ local.ex
       THEN \E sq \in FileOrders(local.lines) : mem' = ReloadSeq(sq, mem)
       ELSE mem' = mem
  /\ UNCHANGED <<version, lastPersisted, holder, pc, opi, snap, local, tmp, crashed, hist, localVer>>

NextR == (Next /\ UNCHANGED refreshed) \/ Refresh

SpecR == InitR /\ [][NextR]_rvars /\ \A p \in Writers : WF_rvars(Step(p) /\ UNCHANGED refreshed)
=============================================================================
