----------------------------- MODULE MC_Refresh -----------------------------
EXTENDS BlRefresh
P(n) == [k |-> "p", n |-> n]
W(n) == [k |-> "w", n |-> n]
E1 == P(<<"a", "c">>)
E2 == P(<<"b", "a", "c">>)
E3 == W(<<"a", "c">>)
E4 == P(<<"b", "c">>)
ER == P(<<"a", "c", "c">>)
MCEntries == {E1, E2, E3, E4, ER}
MCWL == {<<"c", "c">>}
O(op, keys) == [op |-> op, keys |-> keys]
(* a file is already there; removals race the re-read *)
MCProgR == (1 :> << O("Remove", {E1}), O("Set", {E2}) >>
         @@ 2 :> << O("SetBatch", {E3}), O("RemoveBatch", {E4}) >>)
MCInitR == {E1, E4}
(* a fresh install: no directory, no file; and a parent and its child both added (E2 is below E1) *)
MCProgF == (1 :> << O("Set", {E1}) >> @@ 2 :> << O("SetBatch", {E2, E3}) >>)
MCInitF == {}
=============================================================================
