CONSTANTS
  Writers = {1, 2, 3}
  Prog <- QProg3b
  Entries <- MCEntries
  WL <- MCWL
  InitMem <- QInitB
  MaxCrash = 0
  CheckOrder = "locked"
  PLabels = {"a", "b", "c"}
  PDepth = 3
INIT Init
NEXT GNext
CHECK_DEADLOCK FALSE
