CONSTANTS
  Writers = {1, 2, 3}
  Prog <- QProg3
  Entries <- MCEntries
  WL <- MCWL
  InitMem = {}
  MaxCrash = 1
  CheckOrder = "locked"
  PLabels = {"a", "b", "c"}
  PDepth = 3
SPECIFICATION TraceSpec
INVARIANTS DiskIsASnapshot ConvergedFile NewestWins SnapshotOnDisk LastPersistedExact QTypeOK OneTemp QueueDiscipline WriterIsNewer SkipJustified NewestPending
POSTCONDITION TraceAccepted
CHECK_DEADLOCK FALSE
