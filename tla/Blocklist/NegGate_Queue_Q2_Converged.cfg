CONSTANTS
  Writers = {1, 2}
  Prog <- QProg2
  Entries <- MCEntries
  WL <- MCWL
  InitMem = {}
  MaxCrash = 0
  CheckOrder = "hoisted"
  PLabels = {"a", "b", "c"}
  PDepth = 3
SPECIFICATION GSpec
INVARIANT Converged
CHECK_DEADLOCK FALSE
