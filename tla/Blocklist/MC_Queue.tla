------------------------------ MODULE MC_Queue ------------------------------
EXTENDS BlQueue
(* the entries of MC_Persist.tla (the replay concretises a = "example", b = "notexample", c = "com") *)
P(n) == [k |-> "p", n |-> n]
W(n) == [k |-> "w", n |-> n]
E1 == P(<<"a", "c">>)            \* example.com.
E2 == P(<<"b", "a", "c">>)       \* notexample.example.com.
E3 == W(<<"a", "c">>)            \* *.example.com.
E4 == P(<<"b", "c">>)            \* notexample.com.
ER == P(<<"a", "c", "c">>)       \* example.com.com.  (whitelisted parent com.com.: Set refuses)
MCEntries == {E1, E2, E3, E4, ER}
MCWL == {<<"c", "c">>}
O(op, keys) == [op |-> op, keys |-> keys]

(* three writers, one call each: an addition, a batch with a refused key, a removal that *)
(* is a no-op unless the addition came first                                             *)
QProg3 == (1 :> << O("Set", {E1}) >>
        @@ 2 :> << O("SetBatch", {E3, ER}) >>
        @@ 3 :> << O("Remove", {E1}) >>)
(* three writers over an existing file; writer 1 makes two calls *)
QProg3b == (1 :> << O("Remove", {E1}), O("Set", {E2}) >>
         @@ 2 :> << O("RemoveBatch", {E4, E3}) >>
         @@ 3 :> << O("Set", {E3}) >>)
QInitB == {E1, E4}
(* two writers, two calls each (every labelled edge is replayed) *)
QProg2 == (1 :> << O("Set", {E1}), O("Remove", {E4}) >>
        @@ 2 :> << O("Set", {E4}), O("RemoveBatch", {E1, E2}) >>)
(* four writers (thorough tier): up to three wait at once *)
QProg4 == (1 :> << O("Set", {E1}) >>
        @@ 2 :> << O("SetBatch", {E3, ER}) >>
        @@ 3 :> << O("Remove", {E1}) >>
        @@ 4 :> << O("Set", {E4}), O("Remove", {E3}) >>)
=============================================================================
