CONSTANTS
  Writers = {1, 2}
  Prog <- MCProg2
  Entries <- MCEntries
  WL <- MCWL
  InitMem = {}
  MaxCrash = 1
  PLabels = {"a", "b", "c"}
  PDepth = 3
SPECIFICATION Spec
INVARIANTS TypeOK DiskIsASnapshot SnapshotOnDisk CrashLeavesSnapshot Converged NewestWins LastPersistedExact OneTemp
PROPERTIES NeverBackwards Terminates
CHECK_DEADLOCK FALSE
