CONSTANTS
  Labels = {"a", "b", "c"}
  MaxDepth = 2
  MaxM = 1
  MaxWild = 1
  MaxW = 1
  Deep = "z"
  WithTable = TRUE
INIT Init
NEXT Next
VIEW View
INVARIANTS TypeOK MatchExact TableOK WildcardSparesApex WhitelistWins WholeLabels
PROPERTIES SetEffective
CHECK_DEADLOCK FALSE
