CONSTANTS
  Writers = {1, 2, 3}
  Prog <- QProg3
  Entries <- MCEntries
  WL <- MCWL
  InitMem = {}
  MaxCrash = 0
  CheckOrder = "locked"
  PLabels = {"a", "b", "c"}
  PDepth = 3
INIT Init
NEXT GNext
CHECK_DEADLOCK FALSE
