CONSTANTS
  Labels = {"a", "b"}
  MaxDepth = 3
  MaxM = 2
  MaxWild = 2
  MaxW = 1
  Deep = "z"
  WithTable = FALSE
INIT Init
NEXT NextMC
VIEW View
INVARIANTS TypeOK MatchExact

CHECK_DEADLOCK FALSE
