CONSTANTS
  Writers = {1, 2, 3, 4}
  Prog <- QProg4
  Entries <- MCEntries
  WL <- MCWL
  InitMem = {}
  MaxCrash = 0
  CheckOrder = "locked"
  PLabels = {"a", "b", "c"}
  PDepth = 3
INIT Init
NEXT GNext
CHECK_DEADLOCK FALSE
