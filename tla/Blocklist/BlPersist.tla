----------------------------- MODULE BlPersist -----------------------------
(***************************************************************************)
(* C18, second half: "the persisted form converges to memory".             *)
(*                                                                         *)
(* Transcription of the mutation / persistence paths of                    *)
(* middleware/blocklist/blocklist.go:                                      *)
(*                                                                         *)
(*   Set / Remove / SetBatch / RemoveBatch                                 *)
(*     = MutateAndSnapshot  (one critical section of b.mu: the in-memory   *)
(*                           change, version++, copy of the maps)          *)
(*       or MutateNoop      (nothing changed: no snapshot, no persist)     *)
(*     ; persist(snap)      under b.saveMu:                                *)
(*         PersistSkip      snap.version <= lastPersisted: return          *)
(*         CreateTemp ; WriteHeader ; WriteLine* ; Sync ; Close ; Rename   *)
(*         Return           (saveMu released)                              *)
(*                                                                         *)
(* Every action ends at a `verifGate` point of the implementation (hook    *)
(* hooks/c18_blocklist_gate.patch), so a TLC-chosen schedule can be forced *)
(* on the real goroutines.  Crash (at most MaxCrash) is enabled after      *)
(* every step: it freezes the disk as it is; what a restart would load is  *)
(* Reload of the file `local`.                                             *)
(*                                                                         *)
(* Disk model: the file `local` (absent, or the set of its entry lines)    *)
(* and the temp file of the writer inside persist.  Lines are entries      *)
(* [k |-> "p" | "w", n |-> name]; the code writes plain lines first.       *)
(***************************************************************************)
EXTENDS BlNames, TLC

CONSTANTS Writers,    \* writer ids 1..W
          Prog,       \* [Writers -> Seq([op : {"Set","Remove","SetBatch","RemoveBatch"}, keys : SUBSET Entries])]
          Entries,    \* the entry universe
          WL,         \* whitelist (set of names) from the configuration, never changes
          InitMem,    \* entries in memory and in `local` at start ({} = no file)
          MaxCrash,
          PLabels, PDepth   \* name universe for the matcher-equivalence checks

VARIABLES mem,            \* set of entries: b.m (k = "p") and b.wild (k = "w")
          version,        \* b.version
          lastPersisted,  \* b.lastPersisted
          holder,         \* writer holding b.saveMu, 0 = free
          pc,             \* [Writers -> {"idle","snapped","tmp","hdr","synced","closed","renamed","done"}]
          opi,            \* [Writers -> index into Prog]
          snap,           \* [Writers -> [ver : Nat, set : SUBSET Entries]]  the blockSnapshot each holds
          local,          \* [ex : BOOLEAN, lines : SUBSET Entries]   ex = the file exists
          tmp,            \* [ex : BOOLEAN, hdr : BOOLEAN, lines : SUBSET Entries]
          crashed,        \* number of crashes so far (a crash is terminal)
          hist,           \* ghost: hist[v] = memory at snapshot v
          localVer        \* ghost: version of the snapshot that `local` holds (0 = initial)

vars == <<mem, version, lastPersisted, holder, pc, opi, snap, local, tmp, crashed, hist, localVer>>

NoLocal == [ex |-> FALSE, lines |-> {}]
NoTmp == [ex |-> FALSE, hdr |-> FALSE, lines |-> {}]

Op(p) == Prog[p][opi[p]]
M(s) == {e.n : e \in {x \in s : x.k = "p"}}
Wd(s) == {e.n : e \in {x \in s : x.k = "w"}}
QUniverse == NamesUpTo(PLabels, PDepth) \cup {<<"z">> \o n : n \in NamesUpTo(PLabels, PDepth)}

(* what ServeDNS/Exists answers for a memory holding the entry set s *)
Matcher(s) == {n \in QUniverse : CodeBlockedIn(M(s), Wd(s), WL, n)}

(* setLocked / removeLocked over a batch of keys; returns <<new mem, number that counted>> *)
Refused(e) == CodeSetRefused(WL, e.n)
SetResult(s, keys) == <<s \cup {e \in keys : ~Refused(e)}, Cardinality({e \in keys : ~Refused(e)})>>
RemoveResult(s, keys) == <<s \ keys, Cardinality(s \cap keys)>>
Result(s, o) == IF o.op \in {"Set", "SetBatch"} THEN SetResult(s, o.keys) ELSE RemoveResult(s, o.keys)

Init ==
  /\ mem = InitMem
  /\ version = 0 /\ lastPersisted = 0 /\ holder = 0
  /\ pc = [p \in Writers |-> IF Len(Prog[p]) = 0 THEN "done" ELSE "idle"]
  /\ opi = [p \in Writers |-> 1]
  /\ snap = [p \in Writers |-> [ver |-> 0, set |-> {}]]
  /\ local = IF InitMem = {} THEN NoLocal ELSE [ex |-> TRUE, lines |-> InitMem]
  /\ tmp = NoTmp
  /\ crashed = 0
  /\ hist = << >>
  /\ localVer = 0

Alive == crashed = 0

(* the API call returns: next call of the writer's program *)
Return(p) ==
  /\ pc' = [pc EXCEPT ![p] = IF opi[p] = Len(Prog[p]) THEN "done" ELSE "idle"]
  /\ opi' = [opi EXCEPT ![p] = IF opi[p] = Len(Prog[p]) THEN opi[p] ELSE opi[p] + 1]

(* b.mu.Lock(); mutate; snapshotLocked(); b.mu.Unlock()   -> gate PersistEnter *)
MutateAndSnapshot(p) ==
  /\ Alive /\ pc[p] = "idle"
  /\ LET r == Result(mem, Op(p)) IN
     /\ r[2] > 0
     /\ mem' = r[1]
     /\ version' = version + 1
     /\ snap' = [snap EXCEPT ![p] = [ver |-> version + 1, set |-> r[1]]]
     /\ hist' = Append(hist, r[1])
  /\ pc' = [pc EXCEPT ![p] = "snapped"]
  /\ UNCHANGED <<lastPersisted, holder, opi, local, tmp, crashed, localVer>>

(* the mutation changed nothing (key whitelisted / not present): the call returns *)
MutateNoop(p) ==
  /\ Alive /\ pc[p] = "idle"
  /\ Result(mem, Op(p))[2] = 0
  /\ Return(p)
  /\ UNCHANGED <<mem, version, lastPersisted, holder, snap, local, tmp, crashed, hist, localVer>>

(* persist: saveMu.Lock(); version <= lastPersisted -> gate Skipped; return *)
PersistSkip(p) ==
  /\ Alive /\ pc[p] = "snapped" /\ holder = 0
  /\ snap[p].ver <= lastPersisted
  /\ Return(p)
  /\ UNCHANGED <<mem, version, lastPersisted, holder, snap, local, tmp, crashed, hist, localVer>>

(* persist: saveMu.Lock(); os.CreateTemp   -> gate TempCreated *)
CreateTemp(p) ==
  /\ Alive /\ pc[p] = "snapped" /\ holder = 0
  /\ snap[p].ver > lastPersisted
  /\ holder' = p
  /\ tmp' = [ex |-> TRUE, hdr |-> FALSE, lines |-> {}]
  /\ pc' = [pc EXCEPT ![p] = "tmp"]
  /\ UNCHANGED <<mem, version, lastPersisted, opi, snap, local, crashed, hist, localVer>>

(* the header line   -> gate WroteHeader *)
WriteHeader(p) ==
  /\ Alive /\ pc[p] = "tmp"
  /\ tmp' = [tmp EXCEPT !.hdr = TRUE]
  /\ pc' = [pc EXCEPT ![p] = "hdr"]
  /\ UNCHANGED <<mem, version, lastPersisted, holder, opi, snap, local, crashed, hist, localVer>>

(* one entry line (plain entries before wildcard ones; the order inside a  *)
(* group is the map iteration order, i.e. arbitrary)   -> gate WroteLine   *)
WriteLine(p, e) ==
  /\ Alive /\ pc[p] = "hdr"
  /\ e \in snap[p].set \ tmp.lines
  /\ e.k = "w" => \A x \in snap[p].set : x.k = "p" => x \in tmp.lines
  /\ tmp' = [tmp EXCEPT !.lines = @ \cup {e}]
  /\ UNCHANGED <<mem, version, lastPersisted, holder, pc, opi, snap, local, crashed, hist, localVer>>

(* tmp.Sync()   -> gate Synced *)
Sync(p) ==
  /\ Alive /\ pc[p] = "hdr" /\ tmp.lines = snap[p].set
  /\ pc' = [pc EXCEPT ![p] = "synced"]
  /\ UNCHANGED <<mem, version, lastPersisted, holder, opi, snap, local, tmp, crashed, hist, localVer>>

(* tmp.Close()   -> gate Closed *)
Close(p) ==
  /\ Alive /\ pc[p] = "synced"
  /\ pc' = [pc EXCEPT ![p] = "closed"]
  /\ UNCHANGED <<mem, version, lastPersisted, holder, opi, snap, local, tmp, crashed, hist, localVer>>

(* os.Rename(tmp, local); lastPersisted = s.version   -> gate Renamed *)
Rename(p) ==
  /\ Alive /\ pc[p] = "closed"
  /\ tmp.ex                      \* the name is still there (always, unless a fault step below took it away)
  /\ local' = [ex |-> TRUE, lines |-> tmp.lines]
  /\ tmp' = NoTmp
  /\ lastPersisted' = snap[p].ver
  /\ localVer' = snap[p].ver
  /\ pc' = [pc EXCEPT ![p] = "renamed"]
  /\ UNCHANGED <<mem, version, holder, opi, snap, crashed, hist>>

(* deferred saveMu.Unlock(); the API call returns *)
Unlock(p) ==
  /\ Alive /\ pc[p] = "renamed"
  /\ holder' = 0
  /\ Return(p)
  /\ UNCHANGED <<mem, version, lastPersisted, snap, local, tmp, crashed, hist, localVer>>

(* interruption: the process dies, the disk stays as it is *)
Crash ==
  /\ crashed < MaxCrash
  /\ \E p \in Writers : pc[p] # "done"
  /\ crashed' = crashed + 1
  /\ UNCHANGED <<mem, version, lastPersisted, holder, pc, opi, snap, local, tmp, hist, localVer>>

(* ------------------- I/O faults inside persist ------------------------ *)
(* NOT steps of Next: the environment layer BlRefresh.tla enables them     *)
(* through its constant Faults (every MC_Persist / BlQueue configuration   *)
(* stays what it was).  A fault is something the surroundings do to the    *)
(* writer between CreateTemp and Rename:                                   *)
(*   TempVanish     the NAME of the temp file is removed from the          *)
(*                  directory (a tmp cleaner, an operator, or - for the    *)
(*                  refresh of a running instance walking the directory -  *)
(*                  the code itself, see BlRefresh!Refresh).  tmp.ex is    *)
(*                  the directory entry; the writer keeps its descriptor,  *)
(*                  so header / lines / sync / close still succeed and     *)
(*                  only os.Rename fails                                   *)
(*   FailWrite(p)   tmp.WriteString fails (disk full, EFBIG, EIO) on the   *)
(*                  header or on an entry line: fail() closes, cleans up,  *)
(*                  logs; persist returns, the API call returns            *)
(*   RenameFail(p)  os.Rename fails because the name is gone: cleanup,     *)
(*                  log, return; lastPersisted is NOT advanced             *)
(* `cleanup` is what the failure path removes: "temp" = the temp file (the *)
(* code as written), "local" = the target path (the model mutant: the last *)
(* good file is deleted and the partial temp file stays behind).           *)
(* tmp.Sync / tmp.Close failing run the same closure and are not separate  *)
(* steps (nothing in the harness can make them fail without a hook).       *)
TempVanish ==
  /\ Alive /\ tmp.ex
  /\ tmp' = [tmp EXCEPT !.ex = FALSE]
  /\ UNCHANGED <<mem, version, lastPersisted, holder, pc, opi, snap, local, crashed, hist, localVer>>

FailedReturn(p, cleanup) ==
  /\ holder' = 0
  /\ Return(p)
  /\ IF cleanup = "temp" THEN tmp' = NoTmp /\ local' = local
                         ELSE tmp' = tmp /\ local' = NoLocal
  /\ UNCHANGED <<mem, version, lastPersisted, snap, crashed, hist, localVer>>

FailWrite(p, cleanup) ==
  /\ Alive /\ (pc[p] = "tmp" \/ (pc[p] = "hdr" /\ tmp.lines # snap[p].set))
  /\ FailedReturn(p, cleanup)

RenameFail(p, cleanup) ==
  /\ Alive /\ pc[p] = "closed" /\ ~tmp.ex
  /\ FailedReturn(p, cleanup)

Step(p) == \/ MutateAndSnapshot(p) \/ MutateNoop(p) \/ PersistSkip(p) \/ CreateTemp(p)
           \/ WriteHeader(p) \/ (\E e \in Entries : WriteLine(p, e))
           \/ Sync(p) \/ Close(p) \/ Rename(p) \/ Unlock(p)

Next == (\E p \in Writers : Step(p)) \/ Crash

Spec == Init /\ [][Next]_vars /\ \A p \in Writers : WF_vars(Step(p))

(* ----------------------- reload (updater.go) --------------------------- *)
(* parseHostFile: for every line, `if !b.Exists(name) { b.set(name) }`,   *)
(* so an entry already covered by what was loaded before it is dropped.    *)
LineExists(acc, e) ==
  IF e.k = "p" THEN CodeBlockedIn(M(acc), Wd(acc), WL, e.n)
  ELSE CodeWildKeyExists(M(acc), Wd(acc), WL, e.n)

RECURSIVE ReloadSeq(_, _)
ReloadSeq(sq, acc) ==
  IF sq = << >> THEN acc
  ELSE LET e == Head(sq)
           acc2 == IF LineExists(acc, e) \/ Refused(e) THEN acc ELSE acc \cup {e}
       IN ReloadSeq(Tail(sq), acc2)

(* all orders in which the lines of a file holding the set s can appear:   *)
(* plain entries (any order) then wildcard entries (any order)             *)
RECURSIVE Perms(_)
Perms(s) == IF s = {} THEN {<< >>}
            ELSE UNION {{<<e>> \o t : t \in Perms(s \ {e})} : e \in s}
FileOrders(s) == {a \o b : a \in Perms({e \in s : e.k = "p"}), b \in Perms({e \in s : e.k = "w"})}

(* e is covered by the other entries of s (so dropping it changes no answer) *)
Subsumed(e, s) == LineExists(s \ {e}, e)

(* reloading a file that holds the entry set s gives the matcher of s, an  *)
(* entry set within s, and only subsumed entries are dropped               *)
ReloadFaithful(s) ==
  \A sq \in FileOrders(s) :
    LET r == ReloadSeq(sq, {}) IN
      /\ Matcher(r) = Matcher(s)
      /\ r \subseteq s
      /\ \A e \in s \ r : Subsumed(e, r \cup {e}) \/ Refused(e)

(* ------------------------------ properties ---------------------------- *)
AllDone == \A p \in Writers : pc[p] = "done"
Snapshots == {InitMem} \cup {hist[v] : v \in 1..Len(hist)}
LocalSet == local.lines

TypeOK ==
  /\ mem \subseteq Entries
  /\ version \in Nat /\ lastPersisted \in 0..version
  /\ holder \in Writers \cup {0}
  /\ local.lines \subseteq Entries /\ (~local.ex => local.lines = {})
  /\ tmp.lines \subseteq Entries /\ (~tmp.ex => tmp = NoTmp)
  /\ Len(hist) = version

(* the file `local` is always absent or exactly some complete past snapshot *)
DiskIsASnapshot == ~local.ex \/ local.lines \in Snapshots

(* ... which is the one `lastPersisted` names (bookkeeping, not a C18 predicate) *)
SnapshotOnDisk ==
  local.ex /\ localVer > 0 => local.lines = hist[localVer] /\ localVer = lastPersisted

(* an interruption at any point leaves a complete snapshot in `local`, and a *)
(* restart from it answers every query as that snapshot did                 *)
CrashLeavesSnapshot ==
  /\ DiskIsASnapshot
  /\ local.ex => ReloadFaithful(local.lines)

(* once every call has returned: file lines = memory entries (as sets) ...  *)
ConvergedFile ==
  (AllDone /\ Alive) => LocalSet = mem /\ (version > 0 => local.ex)
(* ... and the reloaded matcher is extensionally memory's                   *)
Converged ==
  /\ ConvergedFile
  /\ (AllDone /\ Alive) => ReloadFaithful(mem)

(* the highest-version snapshot wins: at the end the file is the last       *)
(* snapshot taken (and the file never goes back: NeverBackwards)            *)
NewestWins ==
  /\ localVer <= version
  /\ (AllDone /\ Alive /\ version > 0) => local.ex /\ local.lines = hist[version]
LastPersistedExact == (AllDone /\ Alive) => lastPersisted = version
NeverBackwards == [][localVer' >= localVer /\ lastPersisted' >= lastPersisted]_vars

(* "an interruption during persistence leaves the previous complete file":  *)
(* whatever happens to a persist (crash, failed write, failed rename), the   *)
(* only step that changes `local` is a Rename, and it installs the complete  *)
(* snapshot of the writer that performs it.  In particular a persist that    *)
(* fails after CreateTemp leaves `local` exactly as it was.                  *)
PreviousFileKept ==
  [][local' # local =>
       \E p \in Writers : /\ pc[p] = "closed" /\ pc'[p] = "renamed"
                          /\ local'.ex /\ local'.lines = snap[p].set]_vars

(* saveMu discipline: the temp file exists exactly while a writer is between *)
(* CreateTemp and Rename, and that writer holds saveMu                       *)
OneTemp ==
  /\ tmp.ex = (\E p \in Writers : pc[p] \in {"tmp", "hdr", "synced", "closed"})
  /\ \A p \in Writers : pc[p] \in {"tmp", "hdr", "synced", "closed", "renamed"} => holder = p
  /\ Cardinality({p \in Writers : pc[p] \in {"tmp", "hdr", "synced", "closed", "renamed"}}) <= 1

(* every call returns (no deadlock between mu and saveMu) *)
Terminates == <>(AllDone \/ ~Alive)

(* NOT a C18 predicate, and FALSE for the code as written (see DESIGN 9 and *)
(* the check's report): a restart reads every file in the directory, the    *)
(* temp file of an interrupted persist included.  Kept so the weakness stays *)
(* visible: MC_Persist_DirReload.cfg expects TLC to refute it.              *)
DirReloadIsASnapshot ==
  (~Alive /\ tmp.ex) =>
     \A sq \in FileOrders(LocalSet), tq \in FileOrders(tmp.lines) :
        \E s \in Snapshots : Matcher(ReloadSeq(sq \o tq, {})) = Matcher(s)
=============================================================================
