CONSTANTS
  Writers = {1, 2}
  Prog <- MCProgR
  Entries <- MCEntries
  WL <- MCWL
  InitMem <- MCInitR
  MaxCrash = 0
  PLabels = {"a", "b", "c"}
  PDepth = 3
  RefreshMode = "skipLocal"
  DirAtStart = TRUE
  PersistMkdir = TRUE
  LoaderExact = TRUE
  RefreshTemp = "leave"
  Faults = {}
  Cleanup = "temp"
INIT InitR
NEXT NextR
CHECK_DEADLOCK FALSE
