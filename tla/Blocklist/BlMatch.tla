------------------------------ MODULE BlMatch ------------------------------
(***************************************************************************)
(* C18, first half: "blocklist matching is exact".                         *)
(*                                                                         *)
(* State = the three lists of middleware/blocklist.BlockList (m: plain     *)
(* entries, wild: wildcard suffixes, w: whitelist), each with at most      *)
(* MaxM / MaxWild / MaxW entries.  The actions are the API calls (Set,     *)
(* Remove, on plain and "*." keys), Query, and Inject* / DropW which put   *)
(* the lists into ANY combination (the statement quantifies over all sets  *)
(* of entries; the API alone never files an entry under a whitelisted      *)
(* name, and the whitelist comes from the configuration).  Every triple of *)
(* bounded lists is reachable, so TLC's state graph is the exhaustive case *)
(* table and its behaviours are replayable histories.                      *)
(*                                                                         *)
(*   Blocked(n)      transcription of the property statement               *)
(*   CodeBlocked(n)  transcription of BlockList.Exists / matchHierarchy    *)
(*                                                                         *)
(* MatchExact (CodeBlocked = Blocked on every query name, including names  *)
(* one opaque label deeper than any entry) is the model-level claim; the   *)
(* replay (harness/c18/matcher_test.go) puts the real Exists and ServeDNS  *)
(* against `blk`, the table of Blocked.                                    *)
(***************************************************************************)
EXTENDS BlNames, TLC

CONSTANTS Labels,     \* label alphabet of list entries, e.g. {"a","b","c"}
          MaxDepth,   \* entries have 1..MaxDepth labels
          MaxM, MaxWild, MaxW,   \* bounds on the list sizes
          Deep,       \* a label that occurs in no entry (stands for "any deeper subdomain")
          WithTable   \* BOOLEAN: carry the table `blk` in the state (replay configs);
                      \* the large exhaustive configs switch it off, it costs 26+ evaluations
                      \* of Blocked per generated state and MatchExact does not need it

ASSUME Deep \notin Labels

Names == NamesUpTo(Labels, MaxDepth)
EntryNames == Names \ {Root}
(* query universe: every name, and every name one (opaque) label deeper *)
QNames == Names \cup {<<Deep>> \o n : n \in Names}
Kinds == {"p", "w"}          \* plain key "x.y." / wildcard key "*.x.y."

VARIABLES m, wild, w,
          blk,     \* derived: the set of query names the STATEMENT calls blocked
          last     \* ghost: the last call and what it returned (for the replay)

vars == <<m, wild, w, blk, last>>

Blocked(n) == BlockedIn(m, wild, w, n)
CodeBlocked(n) == CodeBlockedIn(m, wild, w, n)
Table(mm, ww, wl) == IF WithTable THEN {n \in QNames : BlockedIn(mm, ww, wl, n)} ELSE {}

Init ==
  /\ m = {} /\ wild = {} /\ w = {}
  /\ blk = Table(m, wild, w)
  /\ last = [op |-> "Init"]

(* every bounded triple of lists (reachability target, see AllReachable) *)
AllTriples == SubsetsUpTo(EntryNames, MaxM) \X SubsetsUpTo(EntryNames, MaxWild)
                \X SubsetsUpTo(EntryNames, MaxW)

(* BlockList.Set(key): setLocked refuses what the whitelist shadows, else  *)
(* files "*.s" under wild and anything else under m; returns true even if  *)
(* the key was already there.                                              *)
Set(k, n) ==
  /\ IF CodeSetRefused(w, n)
       THEN /\ UNCHANGED <<m, wild>>
            /\ last' = [op |-> "Set", k |-> k, n |-> n, ret |-> FALSE]
       ELSE /\ m' = IF k = "p" THEN m \cup {n} ELSE m
            /\ wild' = IF k = "w" THEN wild \cup {n} ELSE wild
            /\ last' = [op |-> "Set", k |-> k, n |-> n, ret |-> TRUE]
  /\ Cardinality(m') <= MaxM /\ Cardinality(wild') <= MaxWild
  /\ UNCHANGED w
  /\ blk' = Table(m', wild', w')

(* BlockList.Remove(key) *)
Remove(k, n) ==
  /\ m' = IF k = "p" THEN m \ {n} ELSE m
  /\ wild' = IF k = "w" THEN wild \ {n} ELSE wild
  /\ last' = [op |-> "Remove", k |-> k, n |-> n,
              ret |-> IF k = "p" THEN n \in m ELSE n \in wild]
  /\ UNCHANGED w
  /\ blk' = Table(m', wild', w')

(* BlockList.Exists(name) / a query through ServeDNS *)
Query(n) ==
  /\ last' = [op |-> "Query", n |-> n, ret |-> CodeBlocked(n)]
  /\ UNCHANGED <<m, wild, w, blk>>

(* lists arriving by configuration / an earlier run: any combination.     *)
(* l = "m" | "wild" | "w".  The replay injects through the overlay shim.   *)
Inject(l, n) ==
  /\ m' = IF l = "m" THEN m \cup {n} ELSE m
  /\ wild' = IF l = "wild" THEN wild \cup {n} ELSE wild
  /\ w' = IF l = "w" THEN w \cup {n} ELSE w
  /\ <<m', wild', w'>> # <<m, wild, w>>
  /\ Cardinality(m') <= MaxM /\ Cardinality(wild') <= MaxWild /\ Cardinality(w') <= MaxW
  /\ last' = [op |-> "Inject", l |-> l, n |-> n]
  /\ blk' = Table(m', wild', w')

DropW(n) ==
  /\ n \in w
  /\ w' = w \ {n}
  /\ UNCHANGED <<m, wild>>
  /\ last' = [op |-> "DropW", n |-> n]
  /\ blk' = Table(m', wild', w')

NextMut == \E k \in Kinds, n \in EntryNames : Set(k, n) \/ Remove(k, n)
NextInject == \E n \in EntryNames : DropW(n) \/ \E l \in {"m", "wild", "w"} : Inject(l, n)
NextMC == NextMut \/ NextInject
Next == NextMC \/ \E n \in QNames : Query(n)

Spec == Init /\ [][Next]_vars

(* ------------------------------ properties ---------------------------- *)
TypeOK ==
  /\ m \subseteq EntryNames /\ wild \subseteq EntryNames /\ w \subseteq EntryNames
  /\ blk \subseteq QNames

(* the claim: what the code computes is what the statement says *)
MatchExact == \A n \in QNames : CodeBlocked(n) = Blocked(n)
TableOK == blk = Table(m, wild, w)

(* corollaries spelled out (each follows from MatchExact; kept because     *)
(* they are the corner cases the statement names)                          *)
WildcardSparesApex ==
  \A s \in wild : (SelfOrParents(s) \cap m = {} /\ Parents(s) \cap wild = {}) => ~CodeBlocked(s)
WhitelistWins == \A n \in QNames : SelfOrParents(n) \cap w # {} => ~CodeBlocked(n)
WholeLabels ==   \* a name sharing no whole-label suffix with any entry is untouched
  \A n \in QNames : (SelfOrParents(n) \cap (m \cup wild) = {}) => ~CodeBlocked(n)

(* a successful Set takes effect, a refused one changes nothing *)
SetEffective ==
  [][(last'.op = "Set") =>
       IF last'.ret
         THEN (last'.k = "p" => CodeBlockedIn(m', wild', w', last'.n))
              /\ (last'.k = "w" => CodeBlockedIn(m', wild', w', <<Deep>> \o last'.n))
         ELSE m' = m /\ wild' = wild /\ ~CodeBlockedIn(m', wild', w', last'.n)]_vars

View == <<m, wild, w>>
=============================================================================
