CONSTANTS
  Writers = {1, 2, 3}
  Prog <- QProg3
  Entries <- MCEntries
  WL <- MCWL
  InitMem = {}
  MaxCrash = 0
  CheckOrder = "hoisted"
  PLabels = {"a", "b", "c"}
  PDepth = 3
SPECIFICATION QSpec
INVARIANT Converged
CHECK_DEADLOCK FALSE
