CONSTANTS
  Writers = {1, 2}
  Prog <- QProg2
  Entries <- MCEntries
  WL <- MCWL
  InitMem = {}
  MaxCrash = 0
  CheckOrder = "hoisted"
  PLabels = {"a", "b", "c"}
  PDepth = 3
SPECIFICATION QSpec
PROPERTY NeverBackwards
CHECK_DEADLOCK FALSE
