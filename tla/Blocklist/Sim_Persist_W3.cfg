CONSTANTS
  Writers = {1, 2, 3}
  Prog <- MCProg3
  Entries <- MCEntries
  WL <- MCWL
  InitMem = {}
  MaxCrash = 0
  PLabels = {"a", "b", "c"}
  PDepth = 3
INIT Init
NEXT Next
CHECK_DEADLOCK FALSE
