CONSTANTS
  Writers = {1, 2}
  Prog <- MCProgF
  Entries <- MCEntries
  WL <- MCWL
  InitMem <- MCInitF
  MaxCrash = 0
  PLabels = {"a", "b", "c"}
  PDepth = 3
  RefreshMode = "skipLocal"
  DirAtStart = TRUE
  PersistMkdir = TRUE
  LoaderExact = FALSE
  RefreshTemp = "leave"
  Faults = {}
  Cleanup = "temp"
SPECIFICATION SpecR
INVARIANTS ReloadsExactly
PROPERTIES Terminates
CHECK_DEADLOCK FALSE
