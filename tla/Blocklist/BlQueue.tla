------------------------------ MODULE BlQueue ------------------------------
(***************************************************************************)
(* C18, second half, with the WAIT QUEUE of b.saveMu made explicit.        *)
(*                                                                         *)
(* BlPersist.tla takes `saveMu.Lock(); version check; CreateTemp` as one   *)
(* step enabled only while the lock is free, so a writer never waits.  In  *)
(* the code a writer that has left the PersistEnter gate sits inside       *)
(* `b.saveMu.Lock()` for as long as another writer is between its own Lock *)
(* and its deferred Unlock; several writers can wait there at once, and    *)
(* what each of them knows when it finally gets the lock depends on WHERE  *)
(* the stale-version check `s.version <= b.lastPersisted` is made:         *)
(*                                                                         *)
(*   CheckOrder = "locked"   (as built)  Lock(); check; write              *)
(*   CheckOrder = "hoisted"  (mutant)    check; Lock(); write              *)
(*                           the decision is taken when the writer joins   *)
(*                           the queue and carried in pc = "queuedPassed"  *)
(*                                                                         *)
(* persist(snap) of BlPersist is refined into                              *)
(*                                                                         *)
(*   Queue(p)              the writer leaves the PersistEnter gate and is  *)
(*                         at / inside saveMu.Lock()      pc = "queued"    *)
(*   AcquireSkip(p)        Lock() returns to p; version <= lastPersisted   *)
(*                         -> gate Skipped (lock held)    pc = "skipping"  *)
(*   SkipReturn(p)         deferred Unlock; the call returns               *)
(*   AcquireCreateTemp(p)  Lock() returns to p; version > lastPersisted;   *)
(*                         os.CreateTemp -> gate TempCreated  pc = "tmp"   *)
(*   WriteHeader .. Rename, Unlock         unchanged (BlPersist)           *)
(*                                                                         *)
(* WHICH waiting writer gets the lock is not determined: sync.Mutex hands  *)
(* over roughly first-come first-served, but a late arrival may barge, and *)
(* nothing in the property may depend on it.  Queue(p) is possible while   *)
(* the lock is free too (the writer has not executed Lock() yet).          *)
(*                                                                         *)
(* BlPersist's variables and remaining actions are used as they are; its   *)
(* PersistSkip / CreateTemp (from "snapped") are not part of QNext.        *)
(***************************************************************************)
EXTENDS BlPersist

CONSTANT CheckOrder      \* "locked" | "hoisted"

ASSUME CheckOrder \in {"locked", "hoisted"}

Waiting == {"queued", "queuedPassed"}
Locked == {"skipping", "tmp", "hdr", "synced", "closed", "renamed"}
Writing == {"tmp", "hdr", "synced", "closed"}
InFlight == {"snapped"} \cup Waiting \cup Locked
PcValues == {"idle", "done"} \cup InFlight

Stale(p) == snap[p].ver <= lastPersisted

(* leave the PersistEnter gate: request the lock (as built), or check and  *)
(* then request it (hoisted; a stale writer returns without the lock)      *)
Queue(p) ==
  /\ Alive /\ pc[p] = "snapped"
  /\ IF CheckOrder = "hoisted"
       THEN IF Stale(p)
              THEN Return(p)
              ELSE pc' = [pc EXCEPT ![p] = "queuedPassed"] /\ opi' = opi
       ELSE pc' = [pc EXCEPT ![p] = "queued"] /\ opi' = opi
  /\ UNCHANGED <<mem, version, lastPersisted, holder, snap, local, tmp, crashed, hist, localVer>>

(* saveMu.Lock() returns to p; a newer (or this) snapshot is on disk   -> gate Skipped *)
AcquireSkip(p) ==
  /\ Alive /\ pc[p] = "queued" /\ holder = 0
  /\ Stale(p)
  /\ holder' = p
  /\ pc' = [pc EXCEPT ![p] = "skipping"]
  /\ UNCHANGED <<mem, version, lastPersisted, opi, snap, local, tmp, crashed, hist, localVer>>

(* deferred saveMu.Unlock() of the skipped persist; the API call returns *)
SkipReturn(p) ==
  /\ Alive /\ pc[p] = "skipping"
  /\ holder' = 0
  /\ Return(p)
  /\ UNCHANGED <<mem, version, lastPersisted, snap, local, tmp, crashed, hist, localVer>>

(* saveMu.Lock() returns to p; os.CreateTemp   -> gate TempCreated *)
AcquireCreateTemp(p) ==
  /\ Alive /\ holder = 0
  /\ \/ pc[p] = "queued" /\ ~Stale(p)
     \/ pc[p] = "queuedPassed"
  /\ holder' = p
  /\ tmp' = [ex |-> TRUE, hdr |-> FALSE, lines |-> {}]
  /\ pc' = [pc EXCEPT ![p] = "tmp"]
  /\ UNCHANGED <<mem, version, lastPersisted, opi, snap, local, crashed, hist, localVer>>

Acquire(p) == AcquireSkip(p) \/ AcquireCreateTemp(p)

QStep(p) == \/ MutateAndSnapshot(p) \/ MutateNoop(p)
            \/ Queue(p) \/ AcquireSkip(p) \/ SkipReturn(p) \/ AcquireCreateTemp(p)
            \/ WriteHeader(p) \/ (\E e \in Entries : WriteLine(p, e))
            \/ Sync(p) \/ Close(p) \/ Rename(p) \/ Unlock(p)

QNext == (\E p \in Writers : QStep(p)) \/ Crash

QSpec == Init /\ [][QNext]_vars /\ \A p \in Writers : WF_vars(QStep(p))

(* ---- the schedules a gated driver can force (GSpec) -------------------- *)
(* Goroutines can be held at the gates, not inside Lock().  So (a) a writer *)
(* released from the PersistEnter gate while the lock is free runs straight *)
(* to its next gate: Queue(p) . Acquire(p) in one step (QueueAcquire); and  *)
(* (b) when the holder unlocks while writers wait, one of them moves on at  *)
(* once: nothing else happens between the release and that Acquire (which   *)
(* of them it is stays open: the code decides).  Every behaviour of GSpec   *)
(* is a behaviour of QSpec with QueueAcquire read as two steps.             *)
QueueAcquire(p) ==
  /\ Alive /\ pc[p] = "snapped" /\ holder = 0
  /\ IF Stale(p)
       THEN IF CheckOrder = "hoisted"
              THEN Return(p) /\ holder' = holder /\ tmp' = tmp
              ELSE holder' = p /\ pc' = [pc EXCEPT ![p] = "skipping"] /\ opi' = opi /\ tmp' = tmp
       ELSE /\ holder' = p /\ opi' = opi
            /\ pc' = [pc EXCEPT ![p] = "tmp"]
            /\ tmp' = [ex |-> TRUE, hdr |-> FALSE, lines |-> {}]
  /\ UNCHANGED <<mem, version, lastPersisted, snap, local, crashed, hist, localVer>>

Handoff == holder = 0 /\ \E q \in Writers : pc[q] \in Waiting

GStep(p) ==
  \/ /\ ~Handoff
     /\ \/ MutateAndSnapshot(p) \/ MutateNoop(p)
        \/ (holder # 0 /\ Queue(p)) \/ QueueAcquire(p) \/ SkipReturn(p)
        \/ WriteHeader(p) \/ (\E e \in Entries : WriteLine(p, e))
        \/ Sync(p) \/ Close(p) \/ Rename(p) \/ Unlock(p)
  \/ /\ Handoff
     /\ (AcquireSkip(p) \/ AcquireCreateTemp(p))

GNext == (\E p \in Writers : GStep(p)) \/ (~Handoff /\ Crash)

GSpec == Init /\ [][GNext]_vars /\ \A p \in Writers : WF_vars(GStep(p))

(* ------------------------------ properties ---------------------------- *)
(* (Converged, NewestWins, DiskIsASnapshot, ... are BlPersist's)           *)

QTypeOK ==
  /\ TypeOK
  /\ \A p \in Writers : pc[p] \in PcValues
  /\ CheckOrder = "locked" => \A p \in Writers : pc[p] # "queuedPassed"

(* saveMu: exactly the holder is past Lock(); everybody else who left the  *)
(* gate waits; every writer in flight carries a real snapshot, all distinct *)
QueueDiscipline ==
  /\ \A p \in Writers : (pc[p] \in Locked) <=> (holder = p)
  /\ \A p \in Writers : pc[p] \in InFlight =>
        /\ snap[p].ver \in 1..version
        /\ hist[snap[p].ver] = snap[p].set
  /\ \A p, q \in Writers : (p # q /\ pc[p] \in InFlight /\ pc[q] \in InFlight) => snap[p].ver # snap[q].ver

(* whoever writes is newer than what is on disk (this is what the check    *)
(* UNDER the lock buys; false for the hoisted order)                       *)
WriterIsNewer == \A p \in Writers : pc[p] \in Writing => snap[p].ver > lastPersisted

(* a writer skips only because a snapshot at least as new IS on disk *)
SkipJustified == \A p \in Writers : pc[p] = "skipping" => (local.ex /\ localVer >= snap[p].ver)

(* the inductive core of Converged / NewestWins: the newest snapshot is on *)
(* disk, or the writer that carries it has not finished yet                *)
NewestPending ==
  (Alive /\ version > 0) =>
     \/ (local.ex /\ localVer = version)
     \/ \E p \in Writers : pc[p] \in ({"snapped"} \cup Waiting \cup Writing) /\ snap[p].ver = version

(* a writer that waits is eventually served and its call returns *)
QueuedServed == \A p \in Writers : (pc[p] \in Waiting) ~> (pc[p] \notin Waiting \/ ~Alive)
=============================================================================
