CONSTANTS
  Procs = {1, 2, 3, 4}
  Clients = {"c1", "c2"}
  Forms = {"v4"}
  CCs = {"a", "b"}
  SVs = {"bare", "good", "bad"}
  Shorts = {}
  Protos = {"udp", "tcp"}
  Questions = {"fresh"}
  Entries = {"msg", "wire", "inline"}
  Exempts = {}
  Odds = {FALSE}
  Burst = 3
  StoreCap = 4
  EntryBurst = 0
  BigQs = {}
  MaxOps = 100000
  MaxPend = 8
  MaxAge = 2
  TickSet = {}
  CleanSet = {}
  Atomic = "free"
  KeyByForm = TRUE
  ChargeOnReplay = FALSE
  EchoCached = FALSE
  ReuseEvicted = FALSE
  SharedKey = FALSE
  ChargeBeforeFit = FALSE
  LimitInternal = FALSE
  Aliases = {}
  AliasTarget = "q1"
SPECIFICATION TraceSpec
INVARIANTS TypeOK OneChargePerQuestion DropIsSilent ClientWithinBudget NoSharedBucket RememberedIsOwn ExemptNeverLimited InternalNeverLimited
  ReplyCookieIsOwn AnswerCarriesCookie BadCookieSound VerifiedIsFree HandoffOnlyInline SameOutcomeAcrossEntries
CONSTRAINT HighWater
POSTCONDITION TraceAccepted
CHECK_DEADLOCK FALSE
