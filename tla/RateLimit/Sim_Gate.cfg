CONSTANTS
  Procs = {1, 2, 3}
  Clients = {"c1", "c2"}
  Forms = {"v4"}
  CCs = {"a", "b"}
  SVs = {"bare", "good", "bad"}
  Shorts = {}
  Protos = {"udp", "tcp"}
  Questions = {"fresh"}
  Entries = {"msg", "wire", "inline"}
  Exempts = {}
  Odds = {FALSE}
  Burst = 2
  StoreCap = 2
  EntryBurst = 0
  BigQs = {}
  MaxOps = 10
  MaxPend = 3
  MaxAge = 2
  TickSet = {1}
  CleanSet = {}
  Atomic = "gate"
  KeyByForm = TRUE
  ChargeOnReplay = FALSE
  EchoCached = FALSE
  ReuseEvicted = FALSE
  SharedKey = FALSE
  ChargeBeforeFit = FALSE
  LimitInternal = FALSE
  Aliases = {}
  AliasTarget = "q1"
INIT Init
NEXT Next
CHECK_DEADLOCK FALSE
