--------------------------- MODULE Trace_RateLimit ---------------------------
(***************************************************************************)
(* Validation of concurrent histories recorded from the real pipeline      *)
(* (harness/x06rl: TestStress) against RateLimit.tla, Atomic = "free".     *)
(* Goroutines call Server.ServeMsg / ServeRaw / ServeRawInline /           *)
(* ServeRawReplay concurrently; every call logs an invocation line before  *)
(* it starts and a response line after it returned, both stamped from one  *)
(* harness-side sequence, so the line order respects real time.  The       *)
(* atomic steps inside a call (Gate, Get, Load, Allow, BadStore, Down,     *)
(* Post) are not observable: they are the silent steps TLC interleaves     *)
(* between lines, so acceptance means the history is linearizable with     *)
(* respect to the model of the individual atomics.  An `end` line carries  *)
(* the quiescent store (tokens and remembered cookie per bucket).          *)
(* Histories are concatenated with Reset lines.  A log is accepted when    *)
(* some path consumes every line: the high-water mark of `l` is kept in    *)
(* TLC register 1 (run with -workers 1).                                   *)
(***************************************************************************)
EXTENDS MC_RateLimit, Json, IOUtils

TraceLog == ndJsonDeserialize(IOEnv.TRACE_FILE)

VARIABLE l
tvars == <<vars, l>>

TraceInit == Init /\ l = 1 /\ TLCSet(1, 0)
Line == TraceLog[l]
IsEv(e) == l <= Len(TraceLog) /\ Line.ev = e /\ l' = l + 1

TInv ==
  /\ IsEv("inv")
  /\ \/ /\ Line.op = "call"
        /\ nops + 1 = Line.id
        /\ Start(Line.p, Line.c, Line.f, Line.proto, Line.cc, Line.sv, Line.q, Line.entry, Line.ex, Line.odd)
     \/ /\ Line.op = "replay"
        /\ StartReplay(Line.p, Line.id)

\* what a client can see of a completed call
Seen(r) == CASE r.kind = "answer" -> "answer"
             [] r.kind = "tc" -> "tc"
             [] r.kind = "badcookie" -> "badcookie"
             [] r.kind = "handoff" -> "handoff"
             [] r.kind \in {"drop", "edrop"} -> "silent"
             [] OTHER -> "none"

TRes ==
  /\ IsEv("res")
  /\ pc[Line.p] = "idle"
  /\ Seen(res[Line.p]) = Line.kind
  /\ res[Line.p].rck = <<Line.rc, Line.rcc>>
  /\ res[Line.p].tl = Line.tl
  /\ UNCHANGED vars

Silent ==
  /\ l <= Len(TraceLog)
  /\ \E p \in Procs : Gate(p) \/ Get(p) \/ Load(p) \/ Allow(p) \/ BadStore(p) \/ Down(p) \/ Post(p)
  /\ UNCHANGED l

BK(b) == b[1] \o "/" \o b[2]
TEnd ==
  /\ IsEv("end")
  /\ \A p \in Procs : pc[p] = "idle"
  /\ pend = {}
  /\ \A b \in Bkts : Line.tok[BK(b)] = IF b \in present THEN tok[b] ELSE -1
  /\ \A b \in present : Line.ck[BK(b)] = IF ck[b] = None THEN "-" ELSE BK(ck[b])
  /\ UNCHANGED vars

TReset ==
  /\ IsEv("Reset")
  /\ present' = {} /\ tok' = [b \in Bkts |-> 0] /\ ck' = [b \in Bkts |-> None]
  /\ lru' = <<>> /\ age' = [b \in Bkts |-> 0]
  /\ cached' = {} /\ etok' = [q \in Questions |-> EntryBurst] /\ pend' = {}
  /\ pc' = [p \in Procs |-> "idle"] /\ req' = [p \in Procs |-> NoReq] /\ ld' = [p \in Procs |-> None]
  /\ br' = [p \in Procs |-> "none"] /\ res' = [p \in Procs |-> NoRes] /\ nops' = 0
  /\ gb' = [c \in Clients |-> Burst] /\ own' = [b \in Bkts |-> {}]
  /\ snap' = [p \in Procs |-> <<>>] /\ actor' = AEnv

TraceNext == TReset \/ TInv \/ TRes \/ TEnd \/ Silent
TraceSpec == TraceInit /\ [][TraceNext]_tvars

HighWater == TLCSet(1, IF l > TLCGet(1) THEN l ELSE TLCGet(1))
TraceAccepted == TLCGet(1) > Len(TraceLog)
=============================================================================
