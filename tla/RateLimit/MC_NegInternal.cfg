CONSTANTS
  Procs = {1}
  Clients = {"c1"}
  Forms = {"v4"}
  CCs = {}
  SVs = {}
  Shorts = {}
  Protos = {"udp"}
  Questions = {"q1"}
  Entries = {"msg"}
  Exempts = {"internal"}
  Odds = {FALSE}
  Burst = 2
  StoreCap = 2
  EntryBurst = 1
  BigQs = {}
  MaxOps = 3
  MaxPend = 1
  MaxAge = 2
  TickSet = {}
  CleanSet = {}
  Atomic = "call"
  KeyByForm = TRUE
  ChargeOnReplay = FALSE
  EchoCached = FALSE
  ReuseEvicted = FALSE
  SharedKey = FALSE
  ChargeBeforeFit = FALSE
  LimitInternal = TRUE
  Aliases = {}
  AliasTarget = "q1"
SPECIFICATION Spec
INVARIANTS InternalNeverLimited
PROPERTIES DropLeavesNoTrace EvictionOnlyResets BucketIsolation ExemptUntouched TokensNeverRefillWithoutTime
CHECK_DEADLOCK FALSE
