CONSTANTS
  Procs = {1}
  Clients = {"c1", "c2"}
  Forms = {"v4"}
  CCs = {"a", "b"}
  SVs = {"bare", "good", "bad"}
  Shorts = {"short"}
  Protos = {"udp", "tcp"}
  Questions = {"fresh"}
  Entries = {"msg", "inline"}
  Exempts = {}
  Odds = {FALSE, TRUE}
  Burst = 2
  StoreCap = 2
  EntryBurst = 0
  BigQs = {}
  MaxOps = 3
  MaxPend = 1
  MaxAge = 2
  TickSet = {2}
  CleanSet = {}
  Atomic = "call"
  KeyByForm = TRUE
  ChargeOnReplay = FALSE
  EchoCached = FALSE
  ReuseEvicted = FALSE
  SharedKey = FALSE
  ChargeBeforeFit = FALSE
  LimitInternal = FALSE
  Aliases = {}
  AliasTarget = "q1"
SPECIFICATION Spec
INVARIANTS TypeOK OneChargePerQuestion DropIsSilent ClientWithinBudget NoSharedBucket RememberedIsOwn ExemptNeverLimited InternalNeverLimited
  ReplyCookieIsOwn AnswerCarriesCookie BadCookieSound VerifiedIsFree HandoffOnlyInline SameOutcomeAcrossEntries CookieRemembered
PROPERTIES DropLeavesNoTrace EvictionOnlyResets BucketIsolation ExemptUntouched TokensNeverRefillWithoutTime
CHECK_DEADLOCK FALSE
