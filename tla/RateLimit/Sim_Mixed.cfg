CONSTANTS
  Procs = {1}
  Clients = {"c1", "c2", "c3"}
  Forms = {"v4"}
  CCs = {"a", "b"}
  SVs = {"bare", "good", "bad"}
  Shorts = {}
  Protos = {"udp", "tcp"}
  Questions = {"q1", "q2", "fresh"}
  Entries = {"msg", "wire", "inline"}
  Exempts = {"loopback"}
  Odds = {FALSE}
  Burst = 2
  StoreCap = 2
  EntryBurst = 0
  BigQs = {}
  MaxOps = 16
  MaxPend = 2
  MaxAge = 3
  TickSet = {1, 2}
  CleanSet = {1, 2}
  Atomic = "call"
  KeyByForm = TRUE
  ChargeOnReplay = FALSE
  EchoCached = FALSE
  ReuseEvicted = FALSE
  SharedKey = FALSE
  ChargeBeforeFit = FALSE
  LimitInternal = FALSE
  Aliases = {}
  AliasTarget = "q1"
INIT Init
NEXT Next
CHECK_DEADLOCK FALSE
