CONSTANTS
  Procs = {1}
  Clients = {"c1", "c2"}
  Forms = {"v4"}
  CCs = {}
  SVs = {}
  Shorts = {}
  Protos = {"udp", "tcp"}
  Questions = {"big1", "q1"}
  Entries = {"msg", "wire", "inline"}
  Exempts = {"internal"}
  Odds = {FALSE}
  Burst = 3
  StoreCap = 2
  EntryBurst = 1
  BigQs = {"big1"}
  MaxOps = 14
  MaxPend = 2
  MaxAge = 2
  TickSet = {1}
  CleanSet = {}
  Atomic = "call"
  KeyByForm = TRUE
  ChargeOnReplay = FALSE
  EchoCached = FALSE
  ReuseEvicted = FALSE
  SharedKey = FALSE
  ChargeBeforeFit = FALSE
  LimitInternal = FALSE
  Aliases = {}
  AliasTarget = "q1"
INIT Init
NEXT Next
CHECK_DEADLOCK FALSE
