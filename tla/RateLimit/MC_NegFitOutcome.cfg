CONSTANTS
  Procs = {1}
  Clients = {"c1"}
  Forms = {"v4"}
  CCs = {}
  SVs = {}
  Shorts = {}
  Protos = {"udp"}
  Questions = {"big1"}
  Entries = {"msg", "wire", "inline"}
  Exempts = {}
  Odds = {FALSE}
  Burst = 3
  StoreCap = 2
  EntryBurst = 1
  BigQs = {"big1"}
  MaxOps = 3
  MaxPend = 1
  MaxAge = 2
  TickSet = {}
  CleanSet = {}
  Atomic = "call"
  KeyByForm = TRUE
  ChargeOnReplay = FALSE
  EchoCached = FALSE
  ReuseEvicted = FALSE
  SharedKey = FALSE
  ChargeBeforeFit = TRUE
  LimitInternal = FALSE
  Aliases = {}
  AliasTarget = "q1"
SPECIFICATION Spec
INVARIANTS TypeOK OneChargePerQuestion DropIsSilent ClientWithinBudget NoSharedBucket RememberedIsOwn ExemptNeverLimited InternalNeverLimited
  ReplyCookieIsOwn AnswerCarriesCookie BadCookieSound VerifiedIsFree HandoffOnlyInline SameOutcomeAcrossEntries
PROPERTIES DropLeavesNoTrace EvictionOnlyResets BucketIsolation ExemptUntouched TokensNeverRefillWithoutTime
CHECK_DEADLOCK FALSE
