CONSTANTS
  Procs = {1}
  Clients = {"c1", "c2"}
  Forms = {"v4"}
  CCs = {"a"}
  SVs = {"bare"}
  Shorts = {}
  Protos = {"udp"}
  Questions = {"fresh"}
  Entries = {"msg"}
  Exempts = {}
  Odds = {FALSE}
  Burst = 2
  StoreCap = 1
  EntryBurst = 0
  BigQs = {}
  MaxOps = 3
  MaxPend = 1
  MaxAge = 2
  TickSet = {}
  CleanSet = {}
  Atomic = "call"
  KeyByForm = TRUE
  ChargeOnReplay = FALSE
  EchoCached = FALSE
  ReuseEvicted = TRUE
  SharedKey = FALSE
  ChargeBeforeFit = FALSE
  LimitInternal = FALSE
  Aliases = {}
  AliasTarget = "q1"
SPECIFICATION Spec
INVARIANTS TypeOK OneChargePerQuestion DropIsSilent ClientWithinBudget NoSharedBucket RememberedIsOwn ExemptNeverLimited InternalNeverLimited
  ReplyCookieIsOwn AnswerCarriesCookie BadCookieSound VerifiedIsFree HandoffOnlyInline SameOutcomeAcrossEntries
PROPERTIES DropLeavesNoTrace EvictionOnlyResets BucketIsolation ExemptUntouched TokensNeverRefillWithoutTime
CHECK_DEADLOCK FALSE
