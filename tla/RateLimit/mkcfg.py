#!/usr/bin/env python3
"""Regenerates the TLC configs of RateLimit (run in this directory)."""
INV = ("TypeOK OneChargePerQuestion DropIsSilent ClientWithinBudget NoSharedBucket RememberedIsOwn ExemptNeverLimited InternalNeverLimited\n"
       "  ReplyCookieIsOwn AnswerCarriesCookie BadCookieSound VerifiedIsFree HandoffOnlyInline SameOutcomeAcrossEntries")
INVCK = INV + " CookieRemembered"   # + the post-Next cookie store, on the configs whose requests carry cookies over both transports
ACT = "DropLeavesNoTrace EvictionOnlyResets BucketIsolation ExemptUntouched TokensNeverRefillWithoutTime"


def S(xs):
    return "{" + ", ".join(('"%s"' % x) if isinstance(x, str) else str(x).upper() if isinstance(x, bool) else str(x) for x in xs) + "}"


DEF = dict(Procs=[1], Clients=["c1", "c2"], Forms=["v4"], CCs=["a"], SVs=["bare", "good", "bad"], Shorts=[], Protos=["udp", "tcp"],
           Questions=["q1"], Entries=["msg", "wire", "inline"], Exempts=[], Odds=[False], Burst=2, StoreCap=2, EntryBurst=0, BigQs=[],
           MaxOps=3, MaxPend=1, MaxAge=2, TickSet=[1], CleanSet=[2], Atomic="call", KeyByForm=True,
           ChargeOnReplay=False, EchoCached=False, ReuseEvicted=False, SharedKey=False, ChargeBeforeFit=False, LimitInternal=False,
           Aliases=[], AliasTarget="q1")


def consts(**kw):
    d = dict(DEF)
    for k in kw:
        if k not in d:
            raise KeyError(k)
    d.update(kw)
    out = ["CONSTANTS"]
    for k, v in d.items():
        if isinstance(v, list):
            v = S(v)
        elif isinstance(v, bool):
            v = "TRUE" if v else "FALSE"
        elif isinstance(v, str):
            v = '"%s"' % v
        out.append("  %s = %s" % (k, v))
    return "\n".join(out) + "\n"


def mc(name, c, inv=INV, act=ACT, extra=""):
    c += extra
    open("MC_%s.cfg" % name, "w").write(c + "SPECIFICATION Spec\nINVARIANTS %s\nPROPERTIES %s\nCHECK_DEADLOCK FALSE\n" % (inv, act))


def live(name, c):
    open("MC_%s.cfg" % name, "w").write(c + "SPECIFICATION FairSpec\nINVARIANTS TypeOK\nPROPERTIES CallsComplete JobsReplayed BucketsRefill\nCHECK_DEADLOCK FALSE\n")


def sim(name, c):
    open("Sim_%s.cfg" % name, "w").write(c + "INIT Init\nNEXT Next\nCHECK_DEADLOCK FALSE\n")


def trace(name, c):
    open("Trace_%s.cfg" % name, "w").write(
        c + "SPECIFICATION TraceSpec\nINVARIANTS %s\nCONSTRAINT HighWater\nPOSTCONDITION TraceAccepted\nCHECK_DEADLOCK FALSE\n" % INV)


# ---- exhaustive, sequential calls ---------------------------------------------------------------
# the bucket ladder: three clients over a two-slot store (eviction), ticks, cleanup, every entry, loopback/internal
mc("Budget", consts(Clients=["c1", "c2", "c3"], CCs=[], SVs=[], Protos=["udp"], Questions=["q1", "fresh"], MaxAge=2,
                    Exempts=["loopback", "internal"], MaxOps=3, TickSet=[1, 2], CleanSet=[1, 2]))
mc("Budget4", consts(Clients=["c1", "c2", "c3"], CCs=[], SVs=[], Protos=["udp"], Questions=["q1", "fresh"],
                     Exempts=["loopback", "internal"], MaxOps=4, TickSet=[1, 2], CleanSet=[1, 2]))
# the cookie ladder: two clients, two client cookies, every server half, both transports, malformed cookie, odd packets
mc("Cookie", consts(CCs=["a", "b"], Shorts=["short"], Odds=[False, True], Questions=["fresh"], Entries=["msg", "inline"], MaxOps=3,
                    TickSet=[2], CleanSet=[]), inv=INVCK)
# the edge-cover graph (small: every transition is replayed on the real pipeline)
mc("Edge", consts(Clients=["c1", "c2"], CCs=["a"], SVs=["bare", "good"], Protos=["udp"], Questions=["q1"], StoreCap=1, MaxOps=3, Burst=1,
                  MaxAge=1, TickSet=[1], CleanSet=[1]))
mc("EdgeQ", consts(Clients=["c1", "c2"], CCs=["a"], SVs=["bare", "good"], Protos=["udp"], Questions=["q1"], StoreCap=1, MaxOps=2, Burst=1,
                   MaxAge=1, TickSet=[1], CleanSet=[1]))
mc("EdgeTcp", consts(Clients=["c1"], CCs=["a", "b"], SVs=["bare", "good", "bad"], Protos=["tcp", "udp"], Questions=["fresh"], Entries=["msg", "wire"],
                     StoreCap=1, MaxOps=3, Burst=1, MaxAge=1, TickSet=[], CleanSet=[]), inv=INVCK)
# per-entry limiter of the cache
mc("Entry", consts(Clients=["c1", "c2"], CCs=[], SVs=[], Protos=["udp"], Questions=["q1", "q2"], Exempts=["internal"], EntryBurst=1,
                   MaxOps=4, TickSet=[1], CleanSet=[]))
mc("EntryQ", consts(Clients=["c1"], CCs=[], SVs=[], Protos=["udp"], Questions=["q1", "q2"], Exempts=["internal"], EntryBurst=1,
                    MaxOps=4, TickSet=[1], CleanSet=[]))
# the chase (gap C17-r3-1): a client's alias question makes the cache chase the CNAME target through its internal Queryer;
# the target's entry limiter may be empty (client hits) -- the internal sub-query is neither refused nor charged
CHASE = dict(CCs=[], SVs=[], Protos=["udp"], Questions=["q1", "al1"], Aliases=["al1"], AliasTarget="q1", Exempts=["internal"], EntryBurst=1,
             Entries=["msg", "wire"], TickSet=[1], CleanSet=[])
mc("Chase", consts(Clients=["c1", "c2"], MaxOps=5, **CHASE))
mc("ChaseQ", consts(Clients=["c1"], MaxOps=4, Burst=3, **CHASE))
# answers that do not fit a plain UDP client: the wire ladder declines before the entry limiter is charged
BIG = dict(Clients=["c1"], CCs=[], SVs=[], Protos=["udp", "tcp"], Questions=["big1"], BigQs=["big1"], Burst=3, MaxOps=4, TickSet=[1],
           CleanSet=[])
mc("Big", consts(EntryBurst=1, **BIG))
mc("Big2", consts(EntryBurst=2, **dict(BIG, Questions=["big1", "q1"], MaxOps=4, Clients=["c1", "c2"])))
# both representations of one address: the code keys the store by the raw bytes -> ClientWithinBudget is EXPECTED to fail
mc("Forms", consts(Clients=["c1"], Forms=["v4", "v6m"], CCs=[], SVs=[], Protos=["udp"], Questions=["fresh"], Entries=["msg"],
                   MaxOps=4, TickSet=[], CleanSet=[]))
mc("FormsUnmapped", consts(Clients=["c1"], Forms=["v4", "v6m"], CCs=[], SVs=[], Protos=["udp"], Questions=["fresh"], Entries=["msg"],
                           MaxOps=4, TickSet=[], CleanSet=[], KeyByForm=False))
# ---- exhaustive, overlapping calls ----------------------------------------------------------------
mc("Gate2", consts(Procs=[1, 2], Clients=["c1"], CCs=["a", "b"], SVs=["bare", "good"], Protos=["udp"], Questions=["fresh"],
                   Entries=["msg", "inline"], MaxOps=3, MaxPend=2, TickSet=[1], CleanSet=[], Atomic="gate"))
mc("Free2", consts(Procs=[1, 2], Clients=["c1"], CCs=["a", "b"], SVs=["bare", "good"], Protos=["udp", "tcp"], Questions=["fresh"],
                   Entries=["msg"], MaxOps=3, TickSet=[], CleanSet=[], Atomic="free"))
mc("Free2Q", consts(Procs=[1, 2], Clients=["c1"], CCs=["a", "b"], SVs=["bare", "good"], Protos=["udp"], Questions=["fresh"],
                    Entries=["msg", "inline"], Burst=1, MaxOps=2, MaxPend=2, TickSet=[], CleanSet=[], Atomic="free"))
mc("Free3", consts(Procs=[1, 2, 3], Clients=["c1"], CCs=["a"], SVs=["bare", "good"], Protos=["udp"], Questions=["fresh"],
                   Entries=["msg"], Burst=2, MaxOps=3, TickSet=[], CleanSet=[], Atomic="free"))
# ---- negative configs: each mutant must violate its invariant -----------------------------------------
mc("NegReplay", consts(Clients=["c1"], CCs=[], SVs=[], Protos=["udp"], Questions=["fresh"], Entries=["inline"], MaxOps=2,
                       TickSet=[], CleanSet=[], ChargeOnReplay=True))
mc("NegEcho", consts(Clients=["c1"], CCs=["a", "b"], SVs=["bare"], Protos=["udp"], Questions=["fresh"], Entries=["msg"], MaxOps=3,
                     TickSet=[], CleanSet=[], EchoCached=True))
mc("NegReuse", consts(Clients=["c1", "c2"], CCs=["a"], SVs=["bare"], Protos=["udp"], Questions=["fresh"], Entries=["msg"], StoreCap=1,
                      MaxOps=3, TickSet=[], CleanSet=[], ReuseEvicted=True))
mc("NegReset", consts(Clients=["c1", "c2"], CCs=[], SVs=[], Protos=["udp"], Questions=["fresh"], Entries=["msg"], StoreCap=1,
                      MaxOps=3, TickSet=[], CleanSet=[], ReuseEvicted=True))
mc("NegFitCharge", consts(EntryBurst=2, ChargeBeforeFit=True, **dict(BIG, Protos=["udp"], MaxOps=3, TickSet=[])))
mc("NegFitOutcome", consts(EntryBurst=1, ChargeBeforeFit=True, **dict(BIG, Protos=["udp"], MaxOps=3, TickSet=[])))
mc("NegShared", consts(Clients=["c1", "c2"], CCs=[], SVs=[], Protos=["udp"], Questions=["fresh"], Entries=["msg"], MaxOps=2,
                       TickSet=[], CleanSet=[], SharedKey=True))
# the wire branch of "mismatched cookie over a stream" without its post-Next store (definition override, not a constant)
mc("NegWireStore", consts(Clients=["c1"], CCs=["a", "b"], SVs=["bare"], Protos=["tcp"], Questions=["fresh"], Entries=["msg", "wire"],
                          StoreCap=1, MaxOps=2, Burst=1, MaxAge=1, TickSet=[], CleanSet=[]), inv=INVCK, extra="  WireSkipsStore <- MutOn\n")
# seeded C17-r3-1: the entry limiter is asked for internal hits too -> an internal request is refused / charged, a chase
# comes back without its target
mc("NegInternal", consts(Clients=["c1"], CCs=[], SVs=[], Protos=["udp"], Questions=["q1"], Exempts=["internal"], EntryBurst=1, Entries=["msg"],
                         MaxOps=3, TickSet=[], CleanSet=[], LimitInternal=True), inv="InternalNeverLimited")
mc("NegChase", consts(Clients=["c1"], MaxOps=3, Burst=3, LimitInternal=True, **dict(CHASE, Exempts=[], TickSet=[])), inv="InternalNeverLimited")
# ---- liveness ---------------------------------------------------------------------------------------
live("Live", consts(Procs=[1, 2], Clients=["c1"], CCs=["a"], SVs=["bare", "good"], Protos=["udp"], Questions=["q1"],
                    Entries=["msg", "inline"], MaxOps=3, MaxPend=2, TickSet=[1], CleanSet=[], Atomic="free"))
# ---- simulation (sequential call orders for the pipeline replay) --------------------------------------
sim("Budget", consts(Clients=["c1", "c2", "c3"], CCs=[], SVs=[], Protos=["udp"], Questions=["q1", "fresh"], Exempts=["loopback", "internal"],
                     Burst=2, MaxOps=14, MaxPend=2, MaxAge=3, TickSet=[1, 2], CleanSet=[1, 2, 3]))
sim("Cookie", consts(Clients=["c1", "c2"], CCs=["a", "b"], Shorts=["short"], Odds=[False, True], Questions=["q1", "fresh"], Burst=3,
                     MaxOps=14, MaxPend=2, MaxAge=3, TickSet=[1, 2, 3], CleanSet=[2]))
sim("Mixed", consts(Clients=["c1", "c2", "c3"], CCs=["a", "b"], Questions=["q1", "q2", "fresh"], Exempts=["loopback"], Burst=2,
                    MaxOps=16, MaxPend=2, MaxAge=3, TickSet=[1, 2], CleanSet=[1, 2]))
sim("Entry", consts(Clients=["c1", "c2"], CCs=["a"], SVs=["bare", "good"], Protos=["udp"], Questions=["q1", "q2"], Exempts=["internal"],
                    Burst=3, EntryBurst=2, MaxOps=14, MaxPend=2, TickSet=[1], CleanSet=[]))
sim("Chase", consts(Clients=["c1", "c2"], Burst=4, MaxOps=14, MaxPend=2, **dict(CHASE, Questions=["q1", "al1", "al2"], Aliases=["al1", "al2"], EntryBurst=2)))
sim("Forms", consts(Clients=["c1", "c2"], Forms=["v4", "v6m"], CCs=["a"], SVs=["bare", "good"], Protos=["udp"], Questions=["fresh"],
                    Burst=2, StoreCap=4, MaxOps=12, MaxPend=2, TickSet=[1], CleanSet=[]))
sim("Big", consts(Clients=["c1", "c2"], CCs=[], SVs=[], Protos=["udp", "tcp"], Questions=["big1", "q1"], BigQs=["big1"], Exempts=["internal"],
                  Burst=3, EntryBurst=1, MaxOps=14, MaxPend=2, TickSet=[1], CleanSet=[]))
sim("Big2", consts(Clients=["c1", "c2"], CCs=["a"], SVs=["bare", "good"], Protos=["udp", "tcp"], Questions=["big1", "big2"], BigQs=["big1", "big2"],
                   Burst=3, EntryBurst=2, MaxOps=14, MaxPend=2, TickSet=[1], CleanSet=[]))
sim("Gate", consts(Procs=[1, 2, 3], Clients=["c1", "c2"], CCs=["a", "b"], Protos=["udp", "tcp"], Questions=["fresh"],
                   Entries=["msg", "wire", "inline"], Burst=2, MaxOps=10, MaxPend=3, TickSet=[1], CleanSet=[], Atomic="gate"))
# ---- trace validation of recorded concurrent histories -------------------------------------------------
trace("Free", consts(Procs=[1, 2, 3, 4], Clients=["c1", "c2"], CCs=["a", "b"], Protos=["udp", "tcp"], Questions=["fresh"],
                     Entries=["msg", "wire", "inline"], Burst=3, StoreCap=4, MaxOps=100000, MaxPend=8, TickSet=[], CleanSet=[],
                     Atomic="free"))
