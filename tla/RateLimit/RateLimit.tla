------------------------------ MODULE RateLimit ------------------------------
(***************************************************************************)
(* X06RL: client rate limiting and DNS cookies.                            *)
(*                                                                         *)
(*   middleware/ratelimit/ratelimit.go    RateLimit.ServeDNS (decoded      *)
(*                                        body) and RateLimit.serveWire    *)
(*   middleware/ratelimit/limiter_store.go LimiterStore.Get / evictOne /   *)
(*                                        Cleanup                          *)
(*   internal/dnsutil  GenerateServerCookie(secret, remoteip, cookie)      *)
(*   middleware/edns   ResponseWriter.cookieOption (the cookie on answers) *)
(*   middleware/chain.go  Replay / InlineOnly / MarkHandoff marks,         *)
(*                        CancelWithRcode + rcodeReplyOPT (BADCOOKIE)      *)
(*   middleware/cache  the inline barrier, chargeEntryLimiter /            *)
(*                     handleCacheHit (per-entry limiter, cfg.RateLimit)   *)
(*   server/strict.go  ServeRaw, ServeRawInline, ServeRawReplay; ServeMsg  *)
(*                                                                         *)
(* Requests are served by processes (goroutines).  One call of an entry    *)
(* point is the run  Start, Gate, Get, Load, Allow, Down, Post  of one     *)
(* process; every action is one atomic step of the code:                   *)
(*                                                                         *)
(*   Start      the entry point is invoked (operands fixed).  An inline    *)
(*              call whose packet the strict parser refuses returns        *)
(*              "handoff" at once: the chain never ran.                    *)
(*   Gate       the exemption ladder at the top of RateLimit.ServeDNS:     *)
(*              ch.Replay(), w.Internal(), rate == 0, RemoteIP nil or      *)
(*              loopback -> ch.Next without touching the store.            *)
(*   Get        LimiterStore.Get(xxhash(RemoteIP bytes)): one critical     *)
(*              section (RLock hit + touch, or Lock: evictOne, create a    *)
(*              full bucket with cookie "", touch).                        *)
(*   Load       l.cookie.Load() and the branch decision, a pure function   *)
(*              of the loaded value and the request:                       *)
(*                no usable cookie               -> plain limiter          *)
(*                remembered = "" or = cookie sent-> pass FREE, store after*)
(*                mismatch, UDP                   -> limiter, BADCOOKIE    *)
(*                mismatch, other transports      -> limiter, store after  *)
(*   Allow      l.rl.Allow(): one token or ch.Cancel() (no reply).         *)
(*   BadStore   l.cookie.Store(servercookie); CancelWithRcode(BADCOOKIE).  *)
(*   Down       ch.Next: everything below the limiter -- edns, the cache   *)
(*              (hit: per-entry limiter, reply; miss: inline pass hands    *)
(*              off, otherwise the upstream = the scripted tail), the      *)
(*              reply with the edns server cookie.                         *)
(*   Post       l.cookie.Store(servercookie) after ch.Next returned.       *)
(*   Tick(k)    k refill periods pass (1 period = 1 token = 60s/Burst).    *)
(*   Cleanup(K) LimiterStore.Cleanup: buckets idle for >= K periods go.    *)
(*                                                                         *)
(* Atomic = "call": calls do not overlap (call orders for the sequential   *)
(* replay on the real pipeline); "gate": a call may be overtaken only      *)
(* while it is Parked -- admitted by the limiter and waiting for the       *)
(* upstream, inside ch.Next, its post-Next cookie store still to come (the *)
(* harness gates its scripted tail: TLC-chosen schedules are forced);      *)
(* "free": every interleaving of the atomics (exhaustive check, and the    *)
(* model the recorded concurrent histories are validated against by        *)
(* Trace_RateLimit).                                                       *)
(*                                                                         *)
(* A handed-off job carries `ran` (the inline pass ran the chain, so the   *)
(* replay pass carries the replay mark; a packet the strict parser refuses *)
(* is replayed through the decoded fallback WITHOUT the mark and meets the *)
(* limiter there for the first time) and `paid` (client tokens the inline  *)
(* pass took), so OneChargePerQuestion spans both passes.                  *)
(*                                                                         *)
(* Deliberate deviations                                                   *)
(*  - A remembered / returned server cookie is the pair <<client, cc>>: it *)
(*    stands for GenerateServerCookie(secret, client address, cc).  "good" *)
(*    on a request means it carries exactly that value, "bad" anything     *)
(*    else of the same length (garbage, or another client's cookie).       *)
(*  - A process keeps the *limiter pointer it got from Get.  An eviction   *)
(*    or Cleanup while another process holds a pointer would leave that    *)
(*    process working on an orphan object; orphans are not modelled:       *)
(*    evicting Gets and Cleanup wait until nobody else holds a pointer.    *)
(*  - evictOne on more than 1000 entries takes the first map entry (a      *)
(*    random victim); the model always evicts the least recently seen.     *)
(*  - Time: the code reads time.Now(); the model counts refill periods.    *)
(*  - The 64-bit xxhash key is taken to be injective on the addresses used *)
(*    (KeyByForm: the key is over the raw address BYTES, so the 4-byte and *)
(*    the 16-byte v4-mapped form of one address are two keys).             *)
(*  - The cache is a set of answered questions; "fresh" stands for a       *)
(*    never-repeated name.  TTLs, prefetch, dedup joins are out of scope   *)
(*    (processes in flight together ask different questions).              *)
(*                                                                         *)
(* Gap C17-r3-1 (resolver-internal sub-queries are never subjected to      *)
(* client rate-limit policy).  `Aliases` are questions the upstream        *)
(* answers with a bare CNAME to `AliasTarget`.  The cache keeps only the   *)
(* CNAME under the alias (filterCacheableAnswer) and completes EVERY       *)
(* answer to an alias -- the write-back of a miss and every later hit --   *)
(* by chasing the target through its internal Queryer                      *)
(* (additionalAnswer -> internalExchange -> the query sub-pipeline on a    *)
(* BufferWriter, Internal() = TRUE): that sub-query meets the cache again; *)
(* a hit there is served whatever the target entry's limiter holds and     *)
(* costs it nothing (handleCacheHit: `!w.Internal() && ...`), a miss asks  *)
(* the upstream and caches the target.  The wire ladder composes a chase   *)
(* out of the cache without any limiter (collectWireChase).  `ich` counts  *)
(* entry tokens an internal sub-query was charged, `part` says the reply   *)
(* lacks the target because the sub-query was refused; both stay 0 / FALSE *)
(* in the code (InternalNeverLimited); the mutant LimitInternal drops the  *)
(* guard.  Alias questions come in through the decoded and the wire entry  *)
(* in sequential call orders only.                                         *)
(***************************************************************************)
EXTENDS Integers, FiniteSets, Sequences, TLC

CONSTANTS
  Procs,       \* request slots / goroutines
  Clients,     \* client addresses subject to the limiter
  Forms,       \* representations of one address: SUBSET {"v4", "v6m"}
  CCs,         \* client cookie values
  SVs,         \* server halves a cookie-bearing request may carry: SUBSET {"bare", "good", "bad"}
  Shorts,      \* {"short"} to allow a malformed (< 8 byte) cookie, {} otherwise
  Protos,      \* SUBSET {"udp", "tcp"}
  Questions,   \* cacheable names; "fresh" may be a member (a unique name per request)
  Entries,     \* SUBSET {"msg", "wire", "inline"}
  Exempts,     \* SUBSET {"loopback", "internal"}: exempt origins that may send requests
  Odds,        \* SUBSET BOOLEAN: TRUE = the packet carries ECS + an option the strict parser does not know
  Burst,       \* cfg.ClientRateLimit (tokens per minute = bucket size); > 0
  StoreCap,    \* LimiterStore.maxSize
  EntryBurst,  \* cfg.RateLimit, the cache's per-entry limiter (0 = off)
  BigQs,       \* SUBSET Questions: names whose answer does not fit a plain UDP client (it sends no OPT: 512 bytes)
  MaxOps,      \* entry-point calls (replays of handed-off jobs not counted)
  MaxPend,     \* handed-off jobs waiting for their replay
  MaxAge,      \* idle periods are counted up to this
  TickSet,     \* the k of Tick(k)
  CleanSet,    \* the K of Cleanup(K)
  Atomic,      \* "call" | "gate" | "free"
  KeyByForm,   \* TRUE in the code: the store key is over the raw address bytes
  \* ---- mutant switches, all FALSE in the code --------------------------------------
  ChargeOnReplay,  \* the replay pass runs the limiter again
  EchoCached,      \* BADCOOKIE carries the remembered cookie instead of the fresh one
  ReuseEvicted,    \* a bucket created over an evicted one inherits its tokens and cookie
  SharedKey,       \* every address hashes to one key
  ChargeBeforeFit, \* serveHitFromWire pays the entry token before the size / DNSSEC-fit gate (wireChainMismatch)
  LimitInternal,   \* (seeded C17-r3-1) handleCacheHit lost `!w.Internal() &&`: the entry limiter is asked for internal hits too
  \* ---- the chase dimension --------------------------------------------------------------
  Aliases,         \* SUBSET Questions: names the upstream answers with a bare CNAME to AliasTarget
  AliasTarget      \* the CNAME target (a member of Questions when Aliases is not empty)

(* one more mutant switch, an overridable definition so the generated configs need no new constant (cfg of the negative
   config: WireSkipsStore <- MutOn): the WIRE transcription of the "mismatched cookie over a stream" branch falls to the
   shared limiter tail of serveWire and so loses its post-Next cookie store (the decoded body keeps it) *)
WireSkipsStore == FALSE

Bkts == Clients \X Forms
None == <<"-", "-">>                      \* no cookie
AEnv == <<"env", "-">>
AExempt == <<"exempt", "-">>
ATick == <<"tick", "-">>
ABelow == <<"below", "-">>
Cookies == {None} \cup (Clients \X CCs)   \* <<c, cc>> = GenerateServerCookie(secret, address of c, cc)

Key(c, f) == IF SharedKey THEN <<CHOOSE x \in Clients : TRUE, CHOOSE y \in Forms : TRUE>>
             ELSE IF KeyByForm THEN <<c, f>> ELSE <<c, CHOOSE y \in Forms : TRUE>>

NoReq == [id |-> 0, c |-> "-", f |-> "-", proto |-> "-", cc |-> "none", sv |-> "bare", q |-> "-",
          entry |-> "-", ex |-> "none", odd |-> FALSE, ran |-> FALSE, paid |-> 0, epaid |-> 0,
          ref |-> "skip", clean |-> FALSE]
\* (ref, clean are ghosts: what the decoded entry would have answered when the call began; whether nothing else
\*  happened between a handoff and its replay)
NoRes == [kind |-> "none", rck |-> None, tl |-> 0, chg |-> 0, tot |-> 0, st |-> FALSE, ech |-> 0, etot |-> 0,
          ich |-> 0, part |-> FALSE, cz |-> FALSE]
\* chg: client tokens charged by this pass; tot: by this pass and the inline pass it replays; ech / etot: entry tokens likewise;
\* ich: entry tokens charged to the internal chase sub-query; part: the reply lacks the chase target (the sub-query was
\* refused); cz (ghost): the chase met a cached target whose entry limiter was EMPTY -- the state the guard exists for

VARIABLES
  \* ---- LimiterStore ------------------------------------------------------------
  present,   \* SUBSET Bkts: keys in the map
  tok,       \* [Bkts -> 0..Burst]     whole tokens (meaningful when present)
  ck,        \* [Bkts -> Cookies]      remembered server cookie
  lru,       \* Seq(Bkts): present keys, least recently seen first
  age,       \* [Bkts -> 0..MaxAge]    periods since lastSeen
  \* ---- below the limiter ---------------------------------------------------------
  cached,    \* SUBSET Questions
  etok,      \* [Questions -> 0..EntryBurst]
  pend,      \* handed-off jobs (request records)
  \* ---- processes -------------------------------------------------------------------
  pc, req, ld, br, res,
  nops,      \* entry-point calls so far (= id of the last request)
  \* ---- ghosts --------------------------------------------------------------------
  gb,        \* [Clients -> Int]   the budget of the CLIENT (all representations of its address)
  own,       \* [Bkts -> SUBSET Clients] clients that were served out of bucket b since it was created
  snap,      \* [Procs -> visible state when the call started] ("call" mode)
  actor      \* who took the last step: a bucket, or AEnv / AExempt / ATick / ABelow

store == <<present, tok, ck, lru, age>>
below == <<cached, etok, pend>>
procs == <<pc, req, ld, br, res, nops>>
ghosts == <<gb, own, snap, actor>>
vars == <<store, below, procs, ghosts>>

Visible == <<present, [b \in Bkts |-> IF b \in present THEN <<tok[b], ck[b]>> ELSE <<0, None>>], cached, etok>>

Init ==
  /\ present = {} /\ tok = [b \in Bkts |-> 0] /\ ck = [b \in Bkts |-> None]
  /\ lru = <<>> /\ age = [b \in Bkts |-> 0]
  /\ cached = {} /\ etok = [q \in Questions |-> EntryBurst] /\ pend = {}
  /\ pc = [p \in Procs |-> "idle"] /\ req = [p \in Procs |-> NoReq] /\ ld = [p \in Procs |-> None]
  /\ br = [p \in Procs |-> "none"] /\ res = [p \in Procs |-> NoRes] /\ nops = 0
  /\ gb = [c \in Clients |-> Burst] /\ own = [b \in Bkts |-> {}]
  /\ snap = [p \in Procs |-> <<>>] /\ actor = AEnv

\* ---- scheduling granularity ---------------------------------------------------------
Holding(o) == pc[o] \in {"load", "allow", "badstore", "down", "post"}
\* "gate": a call is parked when it waits for the upstream (the harness holds its scripted tail).
\* A cache hit and the inline pass (which declines at the cache) never get there.
Parked(o) == pc[o] = "down" /\ req[o].entry # "inline" /\ req[o].q \notin cached
CanStep(p) ==
  CASE Atomic = "call" -> \A o \in Procs \ {p} : pc[o] = "idle"
    [] Atomic = "gate" -> \A o \in Procs \ {p} : pc[o] = "idle" \/ Parked(o)
    [] OTHER -> TRUE
NoOtherHolder(p) == \A o \in Procs \ {p} : ~Holding(o) \/ req[o].ex # "none" \/ br[o] = "pass"

HasCookie(r) == r.cc \in CCs
Wirable(r) == r.cc # "short" /\ ~r.odd       \* Request.ParseWire admits the packet
B(r) == Key(r.c, r.f)
\* the stored answer fits the client's buffer (entry_wire.go wireChainMismatch / the edns truncation): a big answer
\* only over a stream; UDP clients of the big class send no OPT
Fits(r) == r.q \notin BigQs \/ r.proto = "tcp"
ReplyKind(r) == IF Fits(r) THEN "answer" ELSE "tc"
\* ghost: the outcome of the decoded entry (ServeMsg: one pass, no wire ladder) for request r in the current state
Oracle(r) ==
  LET b == B(r)
      t == IF b \in present THEN tok[b] ELSE Burst
      have == IF b \in present THEN ck[b] ELSE None
      match == have = None \/ (r.sv = "good" /\ have = <<r.c, r.cc>>)
      branch == IF r.ex # "none" THEN "pass" ELSE IF ~HasCookie(r) THEN "plain" ELSE IF match THEN "free"
                ELSE IF r.proto = "udp" THEN "bad" ELSE "plainstore"
      lim == EntryBurst > 0 /\ (r.ex # "internal" \/ LimitInternal) IN
  IF branch \in {"plain", "bad", "plainstore"} /\ t < 1 THEN "drop"
  ELSE IF branch = "bad" THEN "badcookie"
  ELSE IF r.q \in cached /\ lim /\ etok[r.q] = 0 THEN "edrop"
  ELSE ReplyKind(r)
Dirty(S) == {[j EXCEPT !.clean = FALSE] : j \in S}
RemoveSeq(s, x) == SelectSeq(s, LAMBDA y : y # x)
Touch(b) == /\ lru' = Append(RemoveSeq(lru, b), b)
            /\ age' = [age EXCEPT ![b] = 0]

Finish(p, r) == /\ pc' = [pc EXCEPT ![p] = "idle"]
                /\ res' = [res EXCEPT ![p] = r]
                /\ snap' = [snap EXCEPT ![p] = <<>>]

\* ---- entry points ---------------------------------------------------------------------
Start(p, c, f, proto, cc, sv, q, entry, ex, odd) ==
  /\ pc[p] = "idle" /\ CanStep(p) /\ nops < MaxOps
  /\ c \in Clients /\ f \in Forms /\ proto \in Protos /\ q \in Questions /\ entry \in Entries
  /\ cc \in CCs \cup {"none"} \cup Shorts /\ sv \in SVs \cup {"bare"} /\ odd \in Odds
  /\ ex \in Exempts \cup {"none"}
  /\ cc \notin CCs => sv = "bare"
  /\ ex # "none" => cc = "none" /\ ~odd /\ f = CHOOSE y \in Forms : TRUE
  /\ ex = "internal" => entry = "msg" /\ proto = "udp"
  /\ q \in BigQs => cc = "none" /\ ~odd
  /\ q \in Aliases => entry \in {"msg", "wire"} /\ Atomic = "call" /\ q \notin BigQs /\ AliasTarget \in Questions \ (Aliases \cup BigQs \cup {"fresh"})
  \* requests in flight together ask different questions (no dedup join below the limiter)
  /\ Atomic # "call" => \A o \in Procs \ {p} : pc[o] # "idle" => (req[o].q # q \/ q = "fresh")
  /\ LET r0 == [id |-> nops + 1, c |-> c, f |-> f, proto |-> proto, cc |-> cc, sv |-> sv, q |-> q,
                entry |-> entry, ex |-> ex, odd |-> odd, ran |-> FALSE, paid |-> 0, epaid |-> 0, ref |-> "skip", clean |-> TRUE]
         r == [r0 EXCEPT !.ref = IF Atomic = "call" THEN Oracle(r0) ELSE "skip"] IN
     /\ nops' = nops + 1
     /\ req' = [req EXCEPT ![p] = r]
     /\ snap' = [snap EXCEPT ![p] = IF Atomic = "call" THEN Visible ELSE <<>>]
     /\ IF entry = "inline" /\ ~Wirable(r)
          THEN \* ServeRawInline: ParseWire refuses -> "a handoff outright", nothing ran
               /\ Cardinality(pend) < MaxPend
               /\ pend' = Dirty(pend) \cup {r}
               /\ res' = [res EXCEPT ![p] = [NoRes EXCEPT !.kind = "handoff"]]
               /\ UNCHANGED pc
          ELSE /\ entry = "inline" =>
                    Cardinality(pend) + Cardinality({o \in Procs : pc[o] # "idle" /\ req[o].entry = "inline"}) < MaxPend
               /\ pc' = [pc EXCEPT ![p] = "gate"]
               /\ res' = [res EXCEPT ![p] = NoRes]
               /\ pend' = Dirty(pend)
  /\ actor' = AEnv
  /\ UNCHANGED <<store, cached, etok, ld, br, gb, own>>

\* ServeRawReplay on a handed-off job
StartReplay(p, id) ==
  /\ pc[p] = "idle" /\ CanStep(p)
  /\ \E j \in pend :
       /\ j.id = id
       /\ Atomic # "call" => \A o \in Procs \ {p} : pc[o] # "idle" => (req[o].q # j.q \/ j.q = "fresh")
       /\ pend' = Dirty(pend \ {j})
       /\ req' = [req EXCEPT ![p] = [j EXCEPT !.entry = "replay"]]
       /\ res' = [res EXCEPT ![p] = [NoRes EXCEPT !.tot = j.paid, !.etot = j.epaid]]
  /\ pc' = [pc EXCEPT ![p] = "gate"]
  /\ snap' = [snap EXCEPT ![p] = IF Atomic = "call" THEN Visible ELSE <<>>]
  /\ actor' = AEnv
  /\ UNCHANGED <<store, cached, etok, ld, br, nops, gb, own>>

\* ---- RateLimit.ServeDNS / serveWire ---------------------------------------------------
Gate(p) ==
  LET r == req[p] IN
  /\ pc[p] = "gate" /\ CanStep(p)
  /\ IF (r.entry = "replay" /\ r.ran /\ ~ChargeOnReplay) \/ r.ex # "none"
       THEN /\ br' = [br EXCEPT ![p] = "pass"]
            /\ pc' = [pc EXCEPT ![p] = "down"]
       ELSE /\ br' = [br EXCEPT ![p] = "none"]
            /\ pc' = [pc EXCEPT ![p] = "get"]
  /\ actor' = IF r.ex # "none" THEN AExempt ELSE AEnv
  /\ UNCHANGED <<store, below, req, ld, res, nops, gb, own, snap>>

Get(p) ==
  LET r == req[p]  b == B(r) IN
  /\ pc[p] = "get" /\ CanStep(p)
  /\ IF b \in present
       THEN /\ Touch(b)
            /\ UNCHANGED <<present, tok, ck, gb>>
            /\ own' = [own EXCEPT ![b] = @ \cup {r.c}]
       ELSE IF Cardinality(present) >= StoreCap
       THEN \* evictOne: the least recently seen key goes, the new bucket takes its place
            LET v == Head(lru) IN
            /\ NoOtherHolder(p)
            /\ present' = (present \ {v}) \cup {b}
            /\ tok' = [tok EXCEPT ![b] = IF ReuseEvicted THEN tok[v] ELSE Burst]
            /\ ck' = [ck EXCEPT ![b] = IF ReuseEvicted THEN ck[v] ELSE None]
            /\ lru' = Append(Tail(lru), b)
            /\ age' = [age EXCEPT ![b] = 0]
            /\ gb' = [c \in Clients |-> IF c = v[1] \/ c = r.c THEN Burst ELSE gb[c]]
            /\ own' = [own EXCEPT ![b] = {r.c}, ![v] = {}]
       ELSE /\ present' = present \cup {b}
            /\ tok' = [tok EXCEPT ![b] = Burst]
            /\ ck' = [ck EXCEPT ![b] = None]
            /\ lru' = Append(lru, b)
            /\ age' = [age EXCEPT ![b] = 0]
            /\ own' = [own EXCEPT ![b] = {r.c}]
            /\ UNCHANGED gb
  /\ pc' = [pc EXCEPT ![p] = "load"]
  /\ actor' = b
  /\ UNCHANGED <<below, req, ld, br, res, nops, snap>>

Load(p) ==
  LET r == req[p]  b == B(r)  have == ck[b]
      match == have = None \/ (r.sv = "good" /\ have = <<r.c, r.cc>>)
      branch == IF ~HasCookie(r) THEN "plain"
                ELSE IF match THEN "free"
                ELSE IF r.proto = "udp" THEN "bad" ELSE "plainstore" IN
  /\ pc[p] = "load" /\ CanStep(p)
  /\ ld' = [ld EXCEPT ![p] = have]
  /\ br' = [br EXCEPT ![p] = branch]
  /\ pc' = [pc EXCEPT ![p] = IF branch = "free" THEN "down" ELSE "allow"]
  /\ actor' = b
  /\ UNCHANGED <<store, below, req, res, nops, gb, own, snap>>

Allow(p) ==
  LET r == req[p]  b == B(r) IN
  /\ pc[p] = "allow" /\ CanStep(p)
  /\ IF tok[b] >= 1
       THEN /\ tok' = [tok EXCEPT ![b] = @ - 1]
            /\ gb' = [gb EXCEPT ![r.c] = @ - 1]
            /\ res' = [res EXCEPT ![p].chg = @ + 1, ![p].tot = @ + 1]
            /\ pc' = [pc EXCEPT ![p] = IF br[p] = "bad" THEN "badstore" ELSE "down"]
            /\ UNCHANGED snap
       ELSE \* rateLimitExceeded.Inc(); ch.Cancel(): no reply
            /\ Finish(p, [res[p] EXCEPT !.kind = "drop"])
            /\ UNCHANGED <<tok, gb>>
  /\ actor' = b
  /\ UNCHANGED <<present, ck, lru, age, below, req, ld, br, nops, own>>

BadStore(p) ==
  LET r == req[p]  b == B(r) IN
  /\ pc[p] = "badstore" /\ CanStep(p)
  /\ ck' = [ck EXCEPT ![b] = <<r.c, r.cc>>]
  /\ Finish(p, [res[p] EXCEPT !.kind = "badcookie", !.st = TRUE,
                              !.rck = IF EchoCached THEN ld[p] ELSE <<r.c, r.cc>>])
  /\ actor' = b
  /\ UNCHANGED <<present, tok, lru, age, below, req, ld, br, nops, gb, own>>

\* everything below the limiter, then back up to it
Down(p) ==
  LET r == req[p]
      hit == r.q \in cached
      lim == EntryBurst > 0 /\ (r.ex # "internal" \/ LimitInternal)
      \* ---- the chase of an alias' target through the internal Queryer (see the head comment) ----
      chase == r.q \in Aliases
      T == AliasTarget
      thit == chase /\ T \in cached
      tlim == thit /\ LimitInternal /\ EntryBurst > 0          \* mutant only: the internal hit asks the entry limiter
      trefused == tlim /\ etok[T] = 0
      tcharged == tlim /\ etok[T] >= 1
      ctl == IF chase /\ ~thit THEN 1 ELSE 0                    \* the sub-query missed: the upstream is asked for the target
      ccached == IF chase THEN {T} ELSE {}
      cetok(e) == IF tcharged THEN [e EXCEPT ![T] = @ - 1] ELSE e
      cres(k) == [k EXCEPT !.tl = @ + ctl, !.ich = IF tcharged THEN 1 ELSE 0, !.part = trefused,
                           !.cz = thit /\ EntryBurst > 0 /\ etok[T] = 0]
      \* the wire ladder (wire-born first pass only; the replay pass skips it) turns the hit away on size
      declines == r.entry \in {"wire", "inline"} /\ Wirable(r) /\ ~Fits(r)
      rck == IF HasCookie(r) THEN <<r.c, r.cc>> ELSE None
      after(k) == IF br[p] \in {"free", "plainstore"}
                       /\ ~(WireSkipsStore /\ br[p] = "plainstore" /\ r.entry \in {"wire", "inline"} /\ Wirable(r))
                    THEN /\ pc' = [pc EXCEPT ![p] = "post"]
                         /\ res' = [res EXCEPT ![p] = k]
                         /\ UNCHANGED snap
                    ELSE Finish(p, k) IN
  /\ pc[p] = "down" /\ CanStep(p)
  /\ CASE hit /\ declines /\ r.entry = "inline" /\ ~(ChargeBeforeFit /\ lim) ->
            \* serveHitFromWire: the stored body does not fit this client -> decline BEFORE the entry limiter is
            \* charged; the reader must not take the Msg body: MarkHandoff, unwritten
            /\ pend' = pend \cup {[r EXCEPT !.ran = TRUE, !.paid = res[p].chg]}
            /\ after([res[p] EXCEPT !.kind = "handoff"])
            /\ UNCHANGED <<cached, etok>>
       [] hit /\ declines /\ r.entry = "inline" /\ ChargeBeforeFit /\ lim /\ etok[r.q] >= 1 ->
            \* mutant: the token is paid, then the fit gate declines; the replay has no memo of it
            /\ etok' = [etok EXCEPT ![r.q] = @ - 1]
            /\ pend' = pend \cup {[r EXCEPT !.ran = TRUE, !.paid = res[p].chg, !.epaid = 1]}
            /\ after([res[p] EXCEPT !.kind = "handoff", !.ech = 1, !.etot = @ + 1])
            /\ UNCHANGED cached
       [] hit /\ ~(declines /\ r.entry = "inline") /\ lim /\ etok[r.q] >= 1 ->
            \* chargeEntryLimiter (wire ladder) or handleCacheHit (Msg body; the `spent` memo makes a ladder that
            \* declined after paying and the Msg body of the SAME call one charge): one token, then the reply
            /\ etok' = cetok([etok EXCEPT ![r.q] = @ - 1])
            /\ after(cres([res[p] EXCEPT !.kind = ReplyKind(r), !.rck = rck, !.ech = 1, !.etot = @ + 1]))
            /\ cached' = cached \cup ccached
            /\ UNCHANGED pend
       [] hit /\ ~(declines /\ r.entry = "inline" /\ ~ChargeBeforeFit) /\ lim /\ etok[r.q] = 0 ->
            /\ after([res[p] EXCEPT !.kind = "edrop"])
            /\ UNCHANGED <<cached, etok, pend>>
       [] hit /\ ~(declines /\ r.entry = "inline") /\ ~lim ->
            /\ after(cres([res[p] EXCEPT !.kind = ReplyKind(r), !.rck = rck]))
            /\ cached' = cached \cup ccached
            /\ etok' = cetok(etok)
            /\ UNCHANGED pend
       [] ~hit /\ r.entry = "inline" ->
            \* Cache.ServeDNS: InlineOnly -> MarkHandoff, unwritten
            /\ pend' = pend \cup {[r EXCEPT !.ran = TRUE, !.paid = res[p].chg]}
            /\ after([res[p] EXCEPT !.kind = "handoff"])
            /\ UNCHANGED <<cached, etok>>
       [] ~hit /\ r.entry # "inline" ->
            \* the upstream (the scripted tail) is asked, the answer is cached
            /\ cached' = (IF r.q = "fresh" THEN cached ELSE cached \cup {r.q}) \cup ccached
            /\ after(cres([res[p] EXCEPT !.kind = ReplyKind(r), !.rck = rck, !.tl = 1]))
            /\ etok' = cetok(etok)
            /\ UNCHANGED pend
  /\ actor' = IF r.ex # "none" THEN AExempt ELSE ABelow
  /\ UNCHANGED <<store, req, ld, br, nops, gb, own>>

Post(p) ==
  LET r == req[p]  b == B(r) IN
  /\ pc[p] = "post" /\ CanStep(p)
  /\ ck' = [ck EXCEPT ![b] = <<r.c, r.cc>>]
  /\ Finish(p, [res[p] EXCEPT !.st = TRUE])
  /\ actor' = b
  /\ UNCHANGED <<present, tok, lru, age, below, req, ld, br, nops, gb, own>>

\* ---- environment ----------------------------------------------------------------------
AllQuiet == \A p \in Procs : pc[p] = "idle" \/ (Atomic = "gate" /\ Parked(p)) \/ (Atomic = "free" /\ pc[p] = "down")
Min(a, b) == IF a < b THEN a ELSE b

Tick(k) ==
  /\ k \in TickSet /\ AllQuiet
  /\ tok' = [b \in Bkts |-> IF b \in present THEN Min(Burst, tok[b] + k) ELSE tok[b]]
  /\ age' = [b \in Bkts |-> IF b \in present THEN Min(MaxAge, age[b] + k) ELSE age[b]]
  /\ etok' = [q \in Questions |-> EntryBurst]     \* the entry limiter refills per SECOND: full again
  /\ gb' = [c \in Clients |-> Min(Burst, gb[c] + k)]
  /\ actor' = ATick
  /\ pend' = Dirty(pend)
  /\ UNCHANGED <<present, ck, lru, cached, procs, own, snap>>

Cleanup(K) ==
  /\ K \in CleanSet /\ \A p \in Procs : pc[p] = "idle"
  /\ LET gone == {b \in present : age[b] >= K} IN
     /\ gone # {}
     /\ present' = present \ gone
     /\ lru' = SelectSeq(lru, LAMBDA b : b \notin gone)
     /\ gb' = [c \in Clients |-> IF \E b \in gone : b[1] = c THEN Burst ELSE gb[c]]
     /\ own' = [b \in Bkts |-> IF b \in gone THEN {} ELSE own[b]]
  /\ actor' = AEnv
  /\ pend' = Dirty(pend)
  /\ UNCHANGED <<tok, ck, age, cached, etok, procs, snap>>

Step(p) == Gate(p) \/ Get(p) \/ Load(p) \/ Allow(p) \/ BadStore(p) \/ Down(p) \/ Post(p)

Next ==
  \/ \E p \in Procs :
       \/ \E c \in Clients, f \in Forms, proto \in Protos, cc \in CCs \cup {"none"} \cup Shorts, sv \in SVs \cup {"bare"},
             q \in Questions, entry \in Entries, ex \in Exempts \cup {"none"}, odd \in Odds :
            Start(p, c, f, proto, cc, sv, q, entry, ex, odd)
       \/ \E id \in 1..MaxOps : StartReplay(p, id)
       \/ Gate(p) \/ Get(p) \/ Load(p) \/ Allow(p) \/ BadStore(p) \/ Down(p) \/ Post(p)
  \/ \E k \in TickSet : Tick(k)
  \/ \E K \in CleanSet : Cleanup(K)

Spec == Init /\ [][Next]_vars
FairSpec == Spec /\ \A p \in Procs : WF_vars(Step(p)) /\ WF_vars(\E id \in 1..MaxOps : StartReplay(p, id))
                 /\ WF_vars(\E k \in TickSet : Tick(k) /\ tok' # tok)

(* ------------------------------------ properties ------------------------------------ *)
TypeOK ==
  /\ present \subseteq Bkts
  /\ tok \in [Bkts -> 0..Burst] /\ ck \in [Bkts -> Cookies] /\ age \in [Bkts -> 0..MaxAge]
  /\ Len(lru) = Cardinality(present) /\ \A i \in 1..Len(lru) : lru[i] \in present
  /\ \A i, j \in 1..Len(lru) : i # j => lru[i] # lru[j]
  /\ Cardinality(present) <= StoreCap
  /\ cached \subseteq Questions /\ etok \in [Questions -> 0..EntryBurst]
  /\ Cardinality(pend) <= MaxPend
  /\ pc \in [Procs -> {"idle", "gate", "get", "load", "allow", "badstore", "down", "post"}]
  /\ br \in [Procs -> {"none", "pass", "plain", "free", "bad", "plainstore"}]
  /\ \A p \in Procs : res[p].kind \in {"none", "answer", "tc", "badcookie", "drop", "edrop", "handoff"}
  /\ Aliases \subseteq Questions

Done(p) == pc[p] = "idle" /\ res[p].kind # "none"

(* one question costs at most one client token and one entry token, whichever entry serves it,
   the inline pass and its replay taken together *)
OneChargePerQuestion == \A p \in Procs : res[p].tot <= 1 /\ res[p].chg <= 1 /\ res[p].ech <= 1 /\ res[p].etot <= 1

(* wire / msg / inline + replay give the same reply class for the same history: what a completed call (a replay:
   when nothing else happened since its inline pass) gave its client is what the decoded entry would have given
   in the state the call began in *)
SameOutcomeAcrossEntries ==
  \A p \in Procs : (Done(p) /\ Atomic = "call" /\ res[p].kind # "handoff" /\ req[p].ref # "skip"
                    /\ (req[p].entry = "replay" => req[p].clean)) => res[p].kind = req[p].ref

(* a request the limiter refused: no reply, no token, no cookie remembered, nothing below ran *)
DropIsSilent ==
  \A p \in Procs : (Done(p) /\ res[p].kind = "drop") =>
     res[p].chg = 0 /\ ~res[p].st /\ res[p].tl = 0 /\ res[p].rck = None /\ res[p].ech = 0
(* ... and (calls not overlapping) everything later visible is as it was when the call began *)
DropLeavesNoTrace ==
  [][\A p \in Procs : (Atomic = "call" /\ pc[p] # "idle" /\ pc'[p] = "idle" /\ res'[p].kind = "drop") => snap[p] = Visible']_vars

(* the refusal happens exactly on an empty bucket: a client within its budget is served *)
ClientWithinBudget == \A c \in Clients : gb[c] >= 0

(* distinct clients never share a bucket; a bucket only ever holds its own client's cookie *)
NoSharedBucket == \A b \in Bkts : Cardinality(own[b]) <= 1
RememberedIsOwn == \A b \in present : ck[b] # None => (own[b] # {} => ck[b][1] \in own[b])

(* a (re)created bucket is full and remembers nothing: eviction only resets *)
EvictionOnlyResets == [][\A b \in Bkts : (b \notin present /\ b \in present') => (tok'[b] = Burst /\ ck'[b] = None)]_vars
(* a step on behalf of bucket b changes no other live bucket (it may remove one) *)
BucketIsolation ==
  [][\A b \in present \cap present' : (tok'[b] # tok[b] \/ ck'[b] # ck[b]) => actor' \in {b, ATick}]_vars
(* exempt origins never touch the store *)
ExemptUntouched ==
  /\ [][actor' = AExempt => UNCHANGED <<present, tok, ck, lru, age>>]_vars
ExemptNeverLimited ==
  \A p \in Procs : (Done(p) /\ req[p].ex # "none") => res[p].kind \notin {"drop", "badcookie"} /\ res[p].chg = 0 /\ ~res[p].st

(* C17: resolver-internal sub-queries are never subjected to client rate-limit policy -- neither an internal request
   itself nor the chase a client's alias question makes the cache run is refused by, or charged to, the per-entry limiter *)
InternalNeverLimited ==
  \A p \in Procs : Done(p) =>
     /\ res[p].ich = 0 /\ ~res[p].part
     /\ req[p].ex = "internal" => (res[p].kind # "edrop" /\ res[p].ech = 0 /\ res[p].etot = 0)

(* cookies: only against the client cookie sent, and the client's own *)
ReplyCookieIsOwn ==
  \A p \in Procs : (Done(p) /\ res[p].rck # None) => (HasCookie(req[p]) /\ res[p].rck = <<req[p].c, req[p].cc>>)
AnswerCarriesCookie ==
  \A p \in Procs : (Done(p) /\ res[p].kind \in {"answer", "badcookie"} /\ HasCookie(req[p])) => res[p].rck # None
(* a request that carried a usable cookie and got past the limiter leaves the server cookie it was handed remembered,
   whichever entry served it (the decoded body stores after ch.Next in the verified and in the mismatch-over-a-stream
   branch, and before BADCOOKIE): the client's next query echoing that cookie verifies on every entry alike.  A replay
   pass that carries the mark skips the limiter; an inline call the strict parser refuses never ran the chain. *)
CookieRemembered ==
  \A p \in Procs : (Done(p) /\ HasCookie(req[p]) /\ req[p].ex = "none" /\ res[p].kind # "drop"
                    /\ ~(req[p].entry = "replay" /\ req[p].ran) /\ ~(req[p].entry = "inline" /\ ~Wirable(req[p])))
                   => res[p].st
(* BADCOOKIE: UDP only, only for a cookie that does not verify, costs a token, reaches nothing below *)
BadCookieSound ==
  \A p \in Procs : (Done(p) /\ res[p].kind = "badcookie") =>
     /\ req[p].proto = "udp" /\ HasCookie(req[p])
     /\ ~(req[p].sv = "good" /\ ld[p] = <<req[p].c, req[p].cc>>) /\ ld[p] # None
     /\ res[p].chg = 1 /\ res[p].tl = 0 /\ res[p].ech = 0
(* a verified cookie is never charged *)
VerifiedIsFree ==
  \A p \in Procs : (Done(p) /\ br[p] = "free") => res[p].chg = 0 /\ res[p].kind \in {"answer", "tc", "edrop", "handoff"}
HandoffOnlyInline == \A p \in Procs : (Done(p) /\ res[p].kind = "handoff") => req[p].entry = "inline"
TokensNeverRefillWithoutTime ==
  [][\A b \in present \cap present' : tok'[b] > tok[b] => actor' = ATick]_vars

(* liveness (FairSpec): calls complete, handed-off jobs are replayed, buckets refill *)
CallsComplete == \A p \in Procs : (pc[p] # "idle") ~> (pc[p] = "idle")
JobsReplayed == (pend # {}) ~> (pend = {})
BucketsRefill == <>[](\A b \in present : tok[b] = Burst)
=============================================================================
