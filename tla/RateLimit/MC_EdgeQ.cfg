CONSTANTS
  Procs = {1}
  Clients = {"c1", "c2"}
  Forms = {"v4"}
  CCs = {"a"}
  SVs = {"bare", "good"}
  Shorts = {}
  Protos = {"udp"}
  Questions = {"q1"}
  Entries = {"msg", "wire", "inline"}
  Exempts = {}
  Odds = {FALSE}
  Burst = 1
  StoreCap = 1
  EntryBurst = 0
  BigQs = {}
  MaxOps = 2
  MaxPend = 1
  MaxAge = 1
  TickSet = {1}
  CleanSet = {1}
  Atomic = "call"
  KeyByForm = TRUE
  ChargeOnReplay = FALSE
  EchoCached = FALSE
  ReuseEvicted = FALSE
  SharedKey = FALSE
  ChargeBeforeFit = FALSE
  LimitInternal = FALSE
  Aliases = {}
  AliasTarget = "q1"
SPECIFICATION Spec
INVARIANTS TypeOK OneChargePerQuestion DropIsSilent ClientWithinBudget NoSharedBucket RememberedIsOwn ExemptNeverLimited InternalNeverLimited
  ReplyCookieIsOwn AnswerCarriesCookie BadCookieSound VerifiedIsFree HandoffOnlyInline SameOutcomeAcrossEntries
PROPERTIES DropLeavesNoTrace EvictionOnlyResets BucketIsolation ExemptUntouched TokensNeverRefillWithoutTime
CHECK_DEADLOCK FALSE
