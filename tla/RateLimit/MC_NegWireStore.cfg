CONSTANTS
  Procs = {1}
  Clients = {"c1"}
  Forms = {"v4"}
  CCs = {"a", "b"}
  SVs = {"bare"}
  Shorts = {}
  Protos = {"tcp"}
  Questions = {"fresh"}
  Entries = {"msg", "wire"}
  Exempts = {}
  Odds = {FALSE}
  Burst = 1
  StoreCap = 1
  EntryBurst = 0
  BigQs = {}
  MaxOps = 2
  MaxPend = 1
  MaxAge = 1
  TickSet = {}
  CleanSet = {}
  Atomic = "call"
  KeyByForm = TRUE
  ChargeOnReplay = FALSE
  EchoCached = FALSE
  ReuseEvicted = FALSE
  SharedKey = FALSE
  ChargeBeforeFit = FALSE
  LimitInternal = FALSE
  Aliases = {}
  AliasTarget = "q1"
  WireSkipsStore <- MutOn
SPECIFICATION Spec
INVARIANTS TypeOK OneChargePerQuestion DropIsSilent ClientWithinBudget NoSharedBucket RememberedIsOwn ExemptNeverLimited InternalNeverLimited
  ReplyCookieIsOwn AnswerCarriesCookie BadCookieSound VerifiedIsFree HandoffOnlyInline SameOutcomeAcrossEntries CookieRemembered
PROPERTIES DropLeavesNoTrace EvictionOnlyResets BucketIsolation ExemptUntouched TokensNeverRefillWithoutTime
CHECK_DEADLOCK FALSE
