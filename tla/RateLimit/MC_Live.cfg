CONSTANTS
  Procs = {1, 2}
  Clients = {"c1"}
  Forms = {"v4"}
  CCs = {"a"}
  SVs = {"bare", "good"}
  Shorts = {}
  Protos = {"udp"}
  Questions = {"q1"}
  Entries = {"msg", "inline"}
  Exempts = {}
  Odds = {FALSE}
  Burst = 2
  StoreCap = 2
  EntryBurst = 0
  BigQs = {}
  MaxOps = 3
  MaxPend = 2
  MaxAge = 2
  TickSet = {1}
  CleanSet = {}
  Atomic = "free"
  KeyByForm = TRUE
  ChargeOnReplay = FALSE
  EchoCached = FALSE
  ReuseEvicted = FALSE
  SharedKey = FALSE
  ChargeBeforeFit = FALSE
  LimitInternal = FALSE
  Aliases = {}
  AliasTarget = "q1"
SPECIFICATION FairSpec
INVARIANTS TypeOK
PROPERTIES CallsComplete JobsReplayed BucketsRefill
CHECK_DEADLOCK FALSE
