CONSTANTS
  Procs = {1}
  Clients = {"c1", "c2"}
  Forms = {"v4"}
  CCs = {}
  SVs = {}
  Shorts = {}
  Protos = {"udp"}
  Questions = {"q1", "al1", "al2"}
  Entries = {"msg", "wire"}
  Exempts = {"internal"}
  Odds = {FALSE}
  Burst = 4
  StoreCap = 2
  EntryBurst = 2
  BigQs = {}
  MaxOps = 14
  MaxPend = 2
  MaxAge = 2
  TickSet = {1}
  CleanSet = {}
  Atomic = "call"
  KeyByForm = TRUE
  ChargeOnReplay = FALSE
  EchoCached = FALSE
  ReuseEvicted = FALSE
  SharedKey = FALSE
  ChargeBeforeFit = FALSE
  LimitInternal = FALSE
  Aliases = {"al1", "al2"}
  AliasTarget = "q1"
INIT Init
NEXT Next
CHECK_DEADLOCK FALSE
