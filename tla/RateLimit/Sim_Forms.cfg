CONSTANTS
  Procs = {1}
  Clients = {"c1", "c2"}
  Forms = {"v4", "v6m"}
  CCs = {"a"}
  SVs = {"bare", "good"}
  Shorts = {}
  Protos = {"udp"}
  Questions = {"fresh"}
  Entries = {"msg", "wire", "inline"}
  Exempts = {}
  Odds = {FALSE}
  Burst = 2
  StoreCap = 4
  EntryBurst = 0
  BigQs = {}
  MaxOps = 12
  MaxPend = 2
  MaxAge = 2
  TickSet = {1}
  CleanSet = {}
  Atomic = "call"
  KeyByForm = TRUE
  ChargeOnReplay = FALSE
  EchoCached = FALSE
  ReuseEvicted = FALSE
  SharedKey = FALSE
  ChargeBeforeFit = FALSE
  LimitInternal = FALSE
  Aliases = {}
  AliasTarget = "q1"
INIT Init
NEXT Next
CHECK_DEADLOCK FALSE
