CONSTANTS
  Procs = {1}
  Clients = {"c1", "c2"}
  Forms = {"v4"}
  CCs = {"a", "b"}
  SVs = {"bare", "good", "bad"}
  Shorts = {"short"}
  Protos = {"udp", "tcp"}
  Questions = {"q1", "fresh"}
  Entries = {"msg", "wire", "inline"}
  Exempts = {}
  Odds = {FALSE, TRUE}
  Burst = 3
  StoreCap = 2
  EntryBurst = 0
  BigQs = {}
  MaxOps = 14
  MaxPend = 2
  MaxAge = 3
  TickSet = {1, 2, 3}
  CleanSet = {2}
  Atomic = "call"
  KeyByForm = TRUE
  ChargeOnReplay = FALSE
  EchoCached = FALSE
  ReuseEvicted = FALSE
  SharedKey = FALSE
  ChargeBeforeFit = FALSE
  LimitInternal = FALSE
  Aliases = {}
  AliasTarget = "q1"
INIT Init
NEXT Next
CHECK_DEADLOCK FALSE
