CONSTANTS
  Procs = {1}
  Clients = {"c1", "c2", "c3"}
  Forms = {"v4"}
  CCs = {}
  SVs = {}
  Shorts = {}
  Protos = {"udp"}
  Questions = {"q1", "fresh"}
  Entries = {"msg", "wire", "inline"}
  Exempts = {"loopback", "internal"}
  Odds = {FALSE}
  Burst = 2
  StoreCap = 2
  EntryBurst = 0
  BigQs = {}
  MaxOps = 3
  MaxPend = 1
  MaxAge = 2
  TickSet = {1, 2}
  CleanSet = {1, 2}
  Atomic = "call"
  KeyByForm = TRUE
  ChargeOnReplay = FALSE
  EchoCached = FALSE
  ReuseEvicted = FALSE
  SharedKey = FALSE
  ChargeBeforeFit = FALSE
  LimitInternal = FALSE
  Aliases = {}
  AliasTarget = "q1"
SPECIFICATION Spec
INVARIANTS TypeOK OneChargePerQuestion DropIsSilent ClientWithinBudget NoSharedBucket RememberedIsOwn ExemptNeverLimited InternalNeverLimited
  ReplyCookieIsOwn AnswerCarriesCookie BadCookieSound VerifiedIsFree HandoffOnlyInline SameOutcomeAcrossEntries
PROPERTIES DropLeavesNoTrace EvictionOnlyResets BucketIsolation ExemptUntouched TokensNeverRefillWithoutTime
CHECK_DEADLOCK FALSE
