CONSTANTS
  Procs = {1}
  Clients = {"c1", "c2"}
  Forms = {"v4"}
  CCs = {}
  SVs = {}
  Shorts = {}
  Protos = {"udp", "tcp"}
  Questions = {"big1", "q1"}
  Entries = {"msg", "wire", "inline"}
  Exempts = {}
  Odds = {FALSE}
  Burst = 3
  StoreCap = 2
  EntryBurst = 2
  BigQs = {"big1"}
  MaxOps = 4
  MaxPend = 1
  MaxAge = 2
  TickSet = {1}
  CleanSet = {}
  Atomic = "call"
  KeyByForm = TRUE
  ChargeOnReplay = FALSE
  EchoCached = FALSE
  ReuseEvicted = FALSE
  SharedKey = FALSE
  ChargeBeforeFit = FALSE
  LimitInternal = FALSE
  Aliases = {}
  AliasTarget = "q1"
SPECIFICATION Spec
INVARIANTS TypeOK OneChargePerQuestion DropIsSilent ClientWithinBudget NoSharedBucket RememberedIsOwn ExemptNeverLimited InternalNeverLimited
  ReplyCookieIsOwn AnswerCarriesCookie BadCookieSound VerifiedIsFree HandoffOnlyInline SameOutcomeAcrossEntries
PROPERTIES DropLeavesNoTrace EvictionOnlyResets BucketIsolation ExemptUntouched TokensNeverRefillWithoutTime
CHECK_DEADLOCK FALSE
