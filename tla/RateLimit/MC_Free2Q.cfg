CONSTANTS
  Procs = {1, 2}
  Clients = {"c1"}
  Forms = {"v4"}
  CCs = {"a", "b"}
  SVs = {"bare", "good"}
  Shorts = {}
  Protos = {"udp"}
  Questions = {"fresh"}
  Entries = {"msg", "inline"}
  Exempts = {}
  Odds = {FALSE}
  Burst = 1
  StoreCap = 2
  EntryBurst = 0
  BigQs = {}
  MaxOps = 2
  MaxPend = 2
  MaxAge = 2
  TickSet = {}
  CleanSet = {}
  Atomic = "free"
  KeyByForm = TRUE
  ChargeOnReplay = FALSE
  EchoCached = FALSE
  ReuseEvicted = FALSE
  SharedKey = FALSE
  ChargeBeforeFit = FALSE
  LimitInternal = FALSE
  Aliases = {}
  AliasTarget = "q1"
SPECIFICATION Spec
INVARIANTS TypeOK OneChargePerQuestion DropIsSilent ClientWithinBudget NoSharedBucket RememberedIsOwn ExemptNeverLimited InternalNeverLimited
  ReplyCookieIsOwn AnswerCarriesCookie BadCookieSound VerifiedIsFree HandoffOnlyInline SameOutcomeAcrossEntries
PROPERTIES DropLeavesNoTrace EvictionOnlyResets BucketIsolation ExemptUntouched TokensNeverRefillWithoutTime
CHECK_DEADLOCK FALSE
