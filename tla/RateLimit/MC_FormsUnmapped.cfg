CONSTANTS
  Procs = {1}
  Clients = {"c1"}
  Forms = {"v4", "v6m"}
  CCs = {}
  SVs = {}
  Shorts = {}
  Protos = {"udp"}
  Questions = {"fresh"}
  Entries = {"msg"}
  Exempts = {}
  Odds = {FALSE}
  Burst = 2
  StoreCap = 2
  EntryBurst = 0
  BigQs = {}
  MaxOps = 4
  MaxPend = 1
  MaxAge = 2
  TickSet = {}
  CleanSet = {}
  Atomic = "call"
  KeyByForm = FALSE
  ChargeOnReplay = FALSE
  EchoCached = FALSE
  ReuseEvicted = FALSE
  SharedKey = FALSE
  ChargeBeforeFit = FALSE
  LimitInternal = FALSE
  Aliases = {}
  AliasTarget = "q1"
SPECIFICATION Spec
INVARIANTS TypeOK OneChargePerQuestion DropIsSilent ClientWithinBudget NoSharedBucket RememberedIsOwn ExemptNeverLimited InternalNeverLimited
  ReplyCookieIsOwn AnswerCarriesCookie BadCookieSound VerifiedIsFree HandoffOnlyInline SameOutcomeAcrossEntries
PROPERTIES DropLeavesNoTrace EvictionOnlyResets BucketIsolation ExemptUntouched TokensNeverRefillWithoutTime
CHECK_DEADLOCK FALSE
