CONSTANTS
  Fn = "RRSIG"
  Modes = {"off", "shadow", "enforce"}
  Caps = {1, 2, 3}
  GCaps = {1, 2, 3, 4, 99}
  Budgets = {1, 2, 4, 6, 99}
  MaxKeys = 0
  MaxObjs = 0
  MaxBad2 = 2
  MaxKeys2 = 2
  Mutant = "none"
  Emit = TRUE
SPECIFICATION Spec
INVARIANTS TypeOK EnforceObjBound EnforceGroupBound EnforceAggBound RefusalTerminal WorklimitIsARefusal ShadowOffIsUncapped VerdictWithoutLimit RefusalIsNeeded ShadowCounts OffIsSilent AggIsOps
PROPERTIES NoOpsAfterRefusal
CHECK_DEADLOCK FALSE
