------------------------------ MODULE ObjLoop ------------------------------
(***************************************************************************)
(* The per-object work loops of the DNSSEC validators (property C12, the   *)
(* "DNSSEC operations ... never exceed the configured budgets" clause).    *)
(*                                                                         *)
(* middleware/resolver/dnssec/verify.go                                    *)
(*   verifyDSWithWork            Fn = "VerifyDS"  objects = DS records,     *)
(*                                candidates = same-tag DNSKEYs, stops at   *)
(*                                the first digest match                    *)
(*   DSAuthenticatedKeysWithWork Fn = "DSAuth"    same, visits everything   *)
(*   verifyRRSIGWithWork /       Fn = "RRSIG"     groups = RRsets, objects = *)
(*   verifyOneSigWithWork                         RRSIGs of the set,        *)
(*                                candidates = same-tag keys; a key that    *)
(*                                verifies ends the RRset                   *)
(*                                                                         *)
(* A call is a sequence of groups, a group a sequence of objects, an object *)
(* a sequence of candidates whose operation result is "M" (digest matches / *)
(* signature verifies) or "X".  Objects of kind "unsup" (DS with a digest   *)
(* type the validator does not implement) and "stale" (RRSIG outside its    *)
(* validity period) are rejected before any operation.                      *)
(*                                                                         *)
(* The loop, as the code writes it, per candidate:                          *)
(*     work.CheckDNSKEYCandidate(used)      local counter of THIS object    *)
(*     work.CheckRRsetSignature(gused)      (RRSIG) local counter of the set*)
(*     work.Begin{DSDigest,Signature}()     aggregate debit in the ledger   *)
(*     the operation                        ops[g][o]++  (ghost)            *)
(*     used++ ; gused++                                                     *)
(* with the ledger semantics of middleware/recursion_work.go (checkLocal:   *)
(* used >= limit refuses in enforce, marks once in shadow; debit: CAS below *)
(* the limit in enforce, count and mark the crossing in shadow; off: no     *)
(* ledger at all).  A refusal is a WorkError and ends the whole call.       *)
(*                                                                         *)
(* Mutant # "none" selects a deliberately wrong loop (negative configs).    *)
(***************************************************************************)
EXTENDS Naturals, Sequences, FiniteSets, TLC, Json

CONSTANTS
  Fn,          \* "VerifyDS" | "DSAuth" | "RRSIG"
  Modes,       \* subset of {"off", "shadow", "enforce"}
  Caps,        \* per-object limits (max_dnskey_candidates)
  GCaps,       \* per-group limits (max_rrset_signature_checks); DS functions have none: {NoLimit}
  Budgets,     \* aggregate budgets (max_ds_digests / max_signature_checks)
  MaxKeys,     \* same-tag candidate keys: 1..MaxKeys
  MaxObjs,     \* DS functions: DS records per call; RRSIG: bad signatures ahead of the good one (one RRset)
  MaxBad2,     \* RRSIG, two RRsets: bad signatures ahead of the good one in each
  MaxKeys2,    \* RRSIG, two RRsets: same-tag keys
  Mutant,      \* "none" | "countMatchesOnly" | "checkAfter" | "sharedCounter" | "swallow" | "shadowRefuses"
               \* | "ignoreBegin" | "stopAtMatch"
  Emit         \* TRUE: print every finished case as JSON (the binding reads them)

NoLimit == 99

-----------------------------------------------------------------------------
(* Case space *)

OneHot(n) == { [i \in 1..n |-> IF i = p THEN "M" ELSE "X"] : p \in 0..n }
SeqsUpTo(S, lo, hi) == UNION { [1..m -> S] : m \in lo..hi }

\* a DS record: supported with n same-tag candidates of which at most one hashes to it (a digest matches one key),
\* supported but naming a tag nobody carries (no candidates), or of an unsupported digest type
DSObjs(n) == { [k |-> "ok", c |-> pat] : pat \in OneHot(n) }
             \cup { [k |-> "ok", c |-> << >>], [k |-> "unsup", c |-> << >>] }
DSShapes == UNION { { <<grp>> : grp \in SeqsUpTo(DSObjs(n), 1, MaxObjs) } : n \in 1..MaxKeys }

\* an RRSIG over k same-tag keys: stale (no operation), forged (every key fails), good by key j
BadSigs(k)  == { [k |-> "stale", c |-> << >>], [k |-> "ok", c |-> [i \in 1..k |-> "X"]] }
GoodSigs(k) == { [k |-> "ok", c |-> [i \in 1..k |-> IF i = j THEN "M" ELSE "X"]] : j \in 1..k }
RRsets(k, maxBad) ==
  { bad \o tail : bad \in SeqsUpTo(BadSigs(k), 0, maxBad),
                  tail \in { << >> } \cup { <<gd>> : gd \in GoodSigs(k) } } \ { << >> }
SigShapes ==
  UNION { { <<rs>> : rs \in RRsets(k, MaxObjs) } : k \in 1..MaxKeys }
  \cup UNION { { <<r1, r2>> : r1 \in RRsets(k, MaxBad2), r2 \in RRsets(k, MaxBad2) } : k \in 1..MaxKeys2 }

Shapes == IF Fn = "RRSIG" THEN SigShapes ELSE DSShapes

Min(S) == CHOOSE x \in S : \A y \in S : x <= y

\* the firewall is off: no limit is read, one parameter tuple is enough
Cases == { cs \in [shape : Shapes, mode : Modes, cap : Caps, gcap : GCaps, budget : Budgets] :
             cs.mode = "off" => (cs.cap = Min(Caps) /\ cs.gcap = Min(GCaps) /\ cs.budget = Min(Budgets)) }

-----------------------------------------------------------------------------
VARIABLES
  case,      \* the call under study (fixed by Init)
  pc,        \* "obj" (at the head of an object) | "cand" (loop body) | "done" | "emitted"
  g, o, c,   \* current group / object / candidate
  used,      \* the code's local counter of the current object   (candidateUsed)
  gused,     \* the code's local counter of the current group    (rrsetUsed)
  agg,       \* the ledger's aggregate counter
  flags,     \* the ledger's exhaustion marks, subset of {"cand", "group", "agg"}
  refused,   \* "none" | "cand" | "group" | "agg": what the ledger refused first
  matched,   \* DS functions: {<<o, c>>} candidates whose digest matched (DSAuth returns them)
  outcome,   \* "run" | "ok" | "bogus" | "insecure" | "worklimit"
  ops,       \* ghost: ops[g][o] = operations really performed on that object
  log        \* ghost: the calls made on the work adapter, in order

vars == <<case, pc, g, o, c, used, gused, agg, flags, refused, matched, outcome, ops, log>>

Shape     == case.shape
Obj(i, j) == Shape[i][j]
Live(ob)  == ob.k = "ok" /\ Len(ob.c) > 0
IsSig     == Fn = "RRSIG"
LedgerOn  == case.mode # "off"

SumSeq(s) == LET RECURSIVE F(_)
                 F(i) == IF i = 0 THEN 0 ELSE s[i] + F(i - 1)
             IN F(Len(s))
GroupOps(op, i) == SumSeq(op[i])
TotalOps(op)    == SumSeq([i \in 1..Len(op) |-> GroupOps(op, i)])

-----------------------------------------------------------------------------
(* The uncapped run, stated declaratively (what the validators do with work = nil) *)

HasM(ob)   == Live(ob) /\ \E i \in 1..Len(ob.c) : ob.c[i] = "M"
FirstM(ob) == Min({ i \in 1..Len(ob.c) : ob.c[i] = "M" })
AllOps(ob) == IF Live(ob) THEN Len(ob.c) ELSE 0

GroupHasM(i)  == \E j \in 1..Len(Shape[i]) : HasM(Obj(i, j))
FirstGoodO(i) == Min({ j \in 1..Len(Shape[i]) : HasM(Obj(i, j)) })
\* first-match loops: everything before the first matching object, the matching one up to its match, nothing after
FirstMatchOps(i) ==
  [j \in 1..Len(Shape[i]) |->
     IF ~GroupHasM(i) THEN AllOps(Obj(i, j))
     ELSE IF j < FirstGoodO(i) THEN AllOps(Obj(i, j))
     ELSE IF j = FirstGoodO(i) THEN FirstM(Obj(i, j)) ELSE 0]
BadGroups  == { i \in 1..Len(Shape) : ~GroupHasM(i) }

RefOps ==
  CASE Fn = "VerifyDS" -> << FirstMatchOps(1) >>
    [] Fn = "DSAuth"   -> << [j \in 1..Len(Shape[1]) |-> AllOps(Obj(1, j))] >>
    [] Fn = "RRSIG"    -> [i \in 1..Len(Shape) |->
                             IF BadGroups # {} /\ i > Min(BadGroups)
                             THEN [j \in 1..Len(Shape[i]) |-> 0] ELSE FirstMatchOps(i)]

RefOutcome ==
  CASE Fn = "VerifyDS" -> IF GroupHasM(1) THEN "ok"
                          ELSE IF \A j \in 1..Len(Shape[1]) : Obj(1, j).k = "unsup" THEN "insecure" ELSE "bogus"
    [] Fn = "DSAuth"   -> "ok"
    [] Fn = "RRSIG"    -> IF BadGroups = {} THEN "ok" ELSE "bogus"

RefMatched ==
  IF Fn = "DSAuth"
  THEN { <<j, i>> \in (1..Len(Shape[1])) \X (1..MaxKeys) : Live(Obj(1, j)) /\ i <= Len(Obj(1, j).c) /\ Obj(1, j).c[i] = "M" }
  ELSE {}

\* what the uncapped run asks of each limit
NeedsCand  == \E i \in 1..Len(Shape) : \E j \in 1..Len(Shape[i]) : RefOps[i][j] > case.cap
NeedsGroup == IsSig /\ \E i \in 1..Len(Shape) : GroupOps(RefOps, i) > case.gcap
NeedsAgg   == TotalOps(RefOps) > case.budget
RefFlags   == (IF NeedsCand THEN {"cand"} ELSE {}) \cup (IF NeedsGroup THEN {"group"} ELSE {})
              \cup (IF NeedsAgg THEN {"agg"} ELSE {})

-----------------------------------------------------------------------------
Init ==
  /\ case \in Cases
  /\ pc = "obj" /\ g = 1 /\ o = 1 /\ c = 1
  /\ used = 0 /\ gused = 0 /\ agg = 0
  /\ flags = {} /\ refused = "none" /\ matched = {} /\ outcome = "run"
  /\ ops = [i \in 1..Len(case.shape) |-> [j \in 1..Len(case.shape[i]) |-> 0]]
  /\ log = << >>

\* the objects of group i are exhausted without ending the call
EndOutcome ==
  CASE Fn = "VerifyDS" -> IF \A j \in 1..Len(Shape[1]) : Obj(1, j).k = "unsup" THEN "insecure" ELSE "bogus"
    [] Fn = "DSAuth"   -> "ok"
    [] Fn = "RRSIG"    -> "bogus"

AfterObject(i, j) ==
  IF j < Len(Shape[i]) THEN [pc |-> "obj", g |-> i, o |-> j + 1, out |-> "run"]
  ELSE [pc |-> "done", g |-> i, o |-> j, out |-> EndOutcome]

AfterGroupVerified(i) ==
  IF i < Len(Shape) THEN [pc |-> "obj", g |-> i + 1, o |-> 1, out |-> "run"]
  ELSE [pc |-> "done", g |-> i, o |-> o, out |-> "ok"]

Goto(p) == pc' = p.pc /\ g' = p.g /\ o' = p.o /\ outcome' = p.out

\* head of an object: the local counter is declared here (`var candidateUsed uint32`)
ObjStep ==
  /\ pc = "obj"
  /\ IF Live(Obj(g, o))
     THEN /\ pc' = "cand" /\ c' = 1
          /\ used' = IF Mutant = "sharedCounter" THEN used ELSE 0
          /\ UNCHANGED <<g, o, outcome>>
     ELSE Goto(AfterObject(g, o)) /\ UNCHANGED <<c, used>>
  /\ UNCHANGED <<case, gused, agg, flags, refused, matched, ops, log>>

\* ledger.checkLocal(kind, u) against lim
LocalRefuse(u, lim) == LedgerOn /\ u >= lim /\ (case.mode = "enforce" \/ Mutant = "shadowRefuses")
LocalMark(u, lim)   == LedgerOn /\ u >= lim /\ (case.mode = "enforce" \/ u = lim)
Entry(tag, u, bad)  == tag \o ToString(u) \o (IF bad THEN "!" ELSE "")

\* the ledger (or a later loop) refused: a WorkError, terminal in the code
Refuse(kind, lg, fl, op2, agg2) ==
  /\ refused' = IF refused = "none" THEN kind ELSE refused
  /\ flags' = fl /\ log' = lg /\ ops' = op2 /\ agg' = agg2
  /\ IF Mutant = "swallow"
     THEN Goto(AfterObject(g, o))          \* "bad signature, try the sibling"
     ELSE pc' = "done" /\ outcome' = "worklimit" /\ UNCHANGED <<g, o>>
  /\ UNCHANGED <<case, c, used, gused, matched>>

\* the operation was performed with result res: count it, then the loop's control flow
Proceed(res, lg, fl, op2, agg2) ==
  LET used2  == IF Mutant = "countMatchesOnly" /\ res # "M" THEN used ELSE used + 1
      gused2 == IF IsSig THEN gused + 1 ELSE gused
      more   == c < Len(Obj(g, o).c)
  IN
  /\ flags' = fl /\ log' = lg /\ ops' = op2 /\ agg' = agg2
  /\ UNCHANGED <<case, refused>>
  /\ CASE Fn = "VerifyDS" /\ res = "M" ->
            /\ pc' = "done" /\ outcome' = "ok"
            /\ used' = used2 /\ gused' = gused2 /\ UNCHANGED <<g, o, c, matched>>
       [] Fn = "RRSIG" /\ res = "M" ->
            /\ Goto(AfterGroupVerified(g))
            /\ used' = used2 /\ gused' = 0 /\ UNCHANGED <<c, matched>>       \* `var rrsetUsed uint32` per RRset
       [] OTHER ->
            /\ matched' = IF res = "M" THEN matched \cup {<<o, c>>} ELSE matched
            /\ used' = used2 /\ gused' = gused2
            /\ IF more /\ ~(Mutant = "stopAtMatch" /\ res = "M") THEN c' = c + 1 /\ UNCHANGED <<pc, g, o, outcome>>
               ELSE Goto(AfterObject(g, o)) /\ UNCHANGED c

CandStep ==
  /\ pc = "cand"
  /\ LET res     == Obj(g, o).c[c]
         cRef    == LocalRefuse(used, case.cap)
         cMark   == IF LocalMark(used, case.cap) THEN {"cand"} ELSE {}
         gRef    == IsSig /\ LocalRefuse(gused, case.gcap)
         gMark   == IF IsSig /\ LocalMark(gused, case.gcap) THEN {"group"} ELSE {}
         chkRef  == IF cRef THEN "cand" ELSE IF gRef THEN "group" ELSE "none"
         chkLog  == IF cRef THEN << Entry("C", used, TRUE) >>
                    ELSE IF IsSig THEN << Entry("C", used, FALSE), Entry("G", gused, gRef) >>
                    ELSE << Entry("C", used, FALSE) >>
         chkMark == IF cRef THEN cMark ELSE cMark \cup gMark
         bRefL   == case.mode = "enforce" /\ agg >= case.budget       \* what the ledger answers
         bRef    == bRefL /\ Mutant # "ignoreBegin"                   \* what the loop makes of it
         bMark   == IF bRefL \/ (case.mode = "shadow" /\ agg = case.budget) THEN {"agg"} ELSE {}
         agg2    == IF LedgerOn /\ ~bRefL THEN agg + 1 ELSE agg
         op2     == [ops EXCEPT ![g][o] = @ + 1]
     IN
     IF Mutant # "checkAfter"
     THEN IF chkRef # "none" THEN Refuse(chkRef, log \o chkLog, flags \cup chkMark, ops, agg)
          ELSE IF bRef THEN Refuse("agg", log \o chkLog \o <<"B!">>, flags \cup chkMark \cup bMark, ops, agg)
          ELSE Proceed(res, log \o chkLog \o <<"B">>, flags \cup chkMark \cup bMark, op2, agg2)
     ELSE \* mutant: the operation first, the question afterwards
          IF bRef THEN Refuse("agg", log \o <<"B!">>, flags \cup bMark, ops, agg)
          ELSE IF chkRef # "none" THEN Refuse(chkRef, log \o <<"B">> \o chkLog, flags \cup bMark \cup chkMark, op2, agg2)
          ELSE Proceed(res, log \o <<"B">> \o chkLog, flags \cup bMark \cup chkMark, op2, agg2)

Report ==
  [fn |-> Fn, shape |-> Shape, mode |-> case.mode, cap |-> case.cap, gcap |-> case.gcap, budget |-> case.budget,
   outcome |-> outcome, ops |-> ops, total |-> TotalOps(ops), log |-> log, flags |-> flags, refused |-> refused,
   matched |-> matched, refOutcome |-> RefOutcome, refOps |-> RefOps]

EmitStep ==
  /\ pc = "done"
  /\ pc' = "emitted"
  /\ (Emit => PrintT(ToJson(Report)))
  /\ UNCHANGED <<case, g, o, c, used, gused, agg, flags, refused, matched, outcome, ops, log>>

Next == ObjStep \/ CandStep \/ EmitStep
Spec == Init /\ [][Next]_vars

-----------------------------------------------------------------------------
(* Properties *)

Finished == pc \in {"done", "emitted"}

TypeOK ==
  /\ pc \in {"obj", "cand", "done", "emitted"}
  /\ outcome \in {"run", "ok", "bogus", "insecure", "worklimit"}
  /\ refused \in {"none", "cand", "group", "agg"}
  /\ flags \subseteq {"cand", "group", "agg"}
  /\ (outcome = "run") = ~Finished

\* C12: in enforce mode no object gets more operations than the per-object limit, ...
EnforceObjBound ==
  case.mode = "enforce" => \A i \in 1..Len(ops) : \A j \in 1..Len(ops[i]) : ops[i][j] <= case.cap
\* ... no RRset more signature operations than the per-RRset limit, ...
EnforceGroupBound ==
  (case.mode = "enforce" /\ IsSig) => \A i \in 1..Len(ops) : GroupOps(ops, i) <= case.gcap
\* ... and the call as a whole no more than the aggregate budget
EnforceAggBound ==
  case.mode = "enforce" => TotalOps(ops) <= case.budget

\* a refusal ends the call with the work-limit error: nothing is tried afterwards
RefusalTerminal == refused # "none" => (Finished /\ outcome = "worklimit")
WorklimitIsARefusal == outcome = "worklimit" => (refused # "none" /\ case.mode = "enforce")
NoOpsAfterRefusal == [][refused # "none" => ops' = ops]_vars

\* shadow and off: the outcome, the authenticated keys and the operations are those of the uncapped run
ShadowOffIsUncapped ==
  (Finished /\ case.mode # "enforce") =>
     (outcome = RefOutcome /\ (Fn = "DSAuth" => matched = RefMatched) /\ ops = RefOps /\ refused = "none")
\* whenever no limit was hit the verdict is the uncapped verdict
VerdictWithoutLimit ==
  (Finished /\ refused = "none") => (outcome = RefOutcome /\ (Fn = "DSAuth" => matched = RefMatched) /\ ops = RefOps)
\* enforce refuses exactly when the uncapped run needs more than a limit allows (no spurious refusal)
RefusalIsNeeded ==
  (Finished /\ case.mode = "enforce") => ((refused # "none") = (RefFlags # {}))
\* shadow marks what enforce would have refused, off marks nothing
ShadowCounts == (Finished /\ case.mode = "shadow") => (flags = RefFlags /\ agg = TotalOps(ops))
OffIsSilent  == case.mode = "off" => (flags = {} /\ agg = 0)
\* the ledger's accepted count is the number of operations
AggIsOps == LedgerOn => agg = TotalOps(ops)
=============================================================================
