CONSTANTS
  Fn = "RRSIG"
  Modes = {"off", "shadow", "enforce"}
  Caps = {1, 2}
  GCaps = {1, 2, 99}
  Budgets = {2, 99}
  MaxKeys = 2
  MaxObjs = 2
  MaxBad2 = 1
  MaxKeys2 = 2
  Mutant = "sharedCounter"
  Emit = FALSE
SPECIFICATION Spec
INVARIANTS TypeOK RefusalIsNeeded
CHECK_DEADLOCK FALSE
