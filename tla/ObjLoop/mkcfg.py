#!/usr/bin/env python3
"""Generates the ObjLoop configs (run in this directory).  negatives.json lists the mutant configs and the invariant /
action property each must violate; checks/x12ol.py asserts exactly that."""
import json

INV_ALL = ("TypeOK EnforceObjBound EnforceGroupBound EnforceAggBound RefusalTerminal WorklimitIsARefusal ShadowOffIsUncapped "
           "VerdictWithoutLimit RefusalIsNeeded ShadowCounts OffIsSilent AggIsOps")


def cfg(name, fn, modes, caps, gcaps, budgets, maxkeys, maxobjs, maxbad2, maxkeys2, mutant="none", emit=True, invs=INV_ALL,
        props="NoOpsAfterRefusal"):
    s = "CONSTANTS\n"
    s += '  Fn = "%s"\n' % fn
    s += "  Modes = {%s}\n" % ", ".join('"%s"' % m for m in modes)
    s += "  Caps = {%s}\n" % ", ".join(map(str, caps))
    s += "  GCaps = {%s}\n" % ", ".join(map(str, gcaps))
    s += "  Budgets = {%s}\n" % ", ".join(map(str, budgets))
    s += "  MaxKeys = %d\n  MaxObjs = %d\n  MaxBad2 = %d\n  MaxKeys2 = %d\n" % (maxkeys, maxobjs, maxbad2, maxkeys2)
    s += '  Mutant = "%s"\n  Emit = %s\n' % (mutant, "TRUE" if emit else "FALSE")
    s += "SPECIFICATION Spec\nINVARIANTS %s\n" % invs
    if props:
        s += "PROPERTIES %s\n" % props
    s += "CHECK_DEADLOCK FALSE\n"
    open(name, "w").write(s)


ALL = ["off", "shadow", "enforce"]
# quick: 1..4 same-tag keys, 1..2 DS records; one RRset with up to 3 bad signatures ahead of the good one over 1..3 keys;
# two RRsets with up to 1 bad signature each over 1..2 keys
cfg("MC_VerifyDS.cfg", "VerifyDS", ALL, [1, 2, 3], [99], [2, 4, 99], 4, 2, 0, 0)
cfg("MC_DSAuth.cfg", "DSAuth", ALL, [1, 2, 3], [99], [2, 4, 99], 4, 2, 0, 0)
cfg("MC_RRSIG.cfg", "RRSIG", ALL, [1, 2, 3], [1, 2, 3, 99], [2, 4, 99], 3, 3, 0, 0)
cfg("MC_RRSIG2.cfg", "RRSIG", ALL, [1, 2, 3], [1, 2, 3, 99], [2, 4, 99], 0, 0, 1, 2)
# thorough: 3 DS records, 5 signatures, more limits
cfg("MC_VerifyDS_T.cfg", "VerifyDS", ALL, [1, 2, 3, 4], [99], [1, 2, 3, 5, 99], 4, 3, 0, 0)
cfg("MC_DSAuth_T.cfg", "DSAuth", ALL, [1, 2, 3, 4], [99], [1, 2, 3, 5, 99], 4, 3, 0, 0)
cfg("MC_RRSIG_T.cfg", "RRSIG", ALL, [1, 2, 3], [1, 2, 3, 4, 99], [1, 2, 4, 6, 99], 3, 4, 0, 0)
cfg("MC_RRSIG2_T.cfg", "RRSIG", ALL, [1, 2, 3], [1, 2, 3, 4, 99], [1, 2, 4, 6, 99], 0, 0, 2, 2)
# tiny (evidence of a --replay run)
cfg("MC_Tiny.cfg", "DSAuth", ALL, [1, 2], [99], [2, 99], 2, 1, 0, 0, emit=False)
# negative twins: (file, fn, mutant, invariant, action property)
NEG = [
    ("Neg_CountMatchesOnly.cfg", "DSAuth", "countMatchesOnly", "EnforceObjBound", ""),     # = seeded change C12-3
    ("Neg_CountMatchesOnly_Shadow.cfg", "DSAuth", "countMatchesOnly", "ShadowCounts", ""),
    ("Neg_CheckAfter.cfg", "VerifyDS", "checkAfter", "EnforceObjBound", ""),
    ("Neg_CheckAfter_Group.cfg", "RRSIG", "checkAfter", "EnforceGroupBound", ""),
    ("Neg_SharedCounter.cfg", "VerifyDS", "sharedCounter", "RefusalIsNeeded", ""),
    ("Neg_SharedCounter_Sig.cfg", "RRSIG", "sharedCounter", "RefusalIsNeeded", ""),
    ("Neg_Swallow.cfg", "RRSIG", "swallow", "RefusalTerminal", ""),
    ("Neg_Swallow_Ops.cfg", "RRSIG", "swallow", "", "NoOpsAfterRefusal"),
    ("Neg_ShadowRefuses.cfg", "DSAuth", "shadowRefuses", "ShadowOffIsUncapped", ""),
    ("Neg_ShadowRefuses_Sig.cfg", "RRSIG", "shadowRefuses", "WorklimitIsARefusal", ""),
    ("Neg_IgnoreBegin.cfg", "RRSIG", "ignoreBegin", "EnforceAggBound", ""),
    ("Neg_StopAtMatch.cfg", "DSAuth", "stopAtMatch", "VerdictWithoutLimit", ""),
]
for f, fn, mut, inv, prop in NEG:
    sig = fn == "RRSIG"
    cfg(f, fn, ALL, [1, 2], [1, 2, 99] if sig else [99], [2, 99], 2 if sig else 3, 2, 1 if sig else 0, 2 if sig else 0,
        mutant=mut, emit=False, invs=("TypeOK " + inv).strip(), props=prop)
json.dump([[f, inv or prop] for f, _, _, inv, prop in NEG], open("negatives.json", "w"), indent=0)
