CONSTANTS
  Fn = "RRSIG"
  Modes = {"off", "shadow", "enforce"}
  Caps = {1, 2, 3}
  GCaps = {1, 2, 3, 99}
  Budgets = {2, 4, 99}
  MaxKeys = 3
  MaxObjs = 3
  MaxBad2 = 0
  MaxKeys2 = 0
  Mutant = "none"
  Emit = TRUE
SPECIFICATION Spec
INVARIANTS TypeOK EnforceObjBound EnforceGroupBound EnforceAggBound RefusalTerminal WorklimitIsARefusal ShadowOffIsUncapped VerdictWithoutLimit RefusalIsNeeded ShadowCounts OffIsSilent AggIsOps
PROPERTIES NoOpsAfterRefusal
CHECK_DEADLOCK FALSE
