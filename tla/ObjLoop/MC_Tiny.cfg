CONSTANTS
  Fn = "DSAuth"
  Modes = {"off", "shadow", "enforce"}
  Caps = {1, 2}
  GCaps = {99}
  Budgets = {2, 99}
  MaxKeys = 2
  MaxObjs = 1
  MaxBad2 = 0
  MaxKeys2 = 0
  Mutant = "none"
  Emit = FALSE
SPECIFICATION Spec
INVARIANTS TypeOK EnforceObjBound EnforceGroupBound EnforceAggBound RefusalTerminal WorklimitIsARefusal ShadowOffIsUncapped VerdictWithoutLimit RefusalIsNeeded ShadowCounts OffIsSilent AggIsOps
PROPERTIES NoOpsAfterRefusal
CHECK_DEADLOCK FALSE
