CONSTANTS
  Fn = "VerifyDS"
  Modes = {"off", "shadow", "enforce"}
  Caps = {1, 2, 3, 4}
  GCaps = {99}
  Budgets = {1, 2, 3, 5, 99}
  MaxKeys = 4
  MaxObjs = 3
  MaxBad2 = 0
  MaxKeys2 = 0
  Mutant = "none"
  Emit = TRUE
SPECIFICATION Spec
INVARIANTS TypeOK EnforceObjBound EnforceGroupBound EnforceAggBound RefusalTerminal WorklimitIsARefusal ShadowOffIsUncapped VerdictWithoutLimit RefusalIsNeeded ShadowCounts OffIsSilent AggIsOps
PROPERTIES NoOpsAfterRefusal
CHECK_DEADLOCK FALSE
