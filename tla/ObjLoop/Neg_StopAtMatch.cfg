CONSTANTS
  Fn = "DSAuth"
  Modes = {"off", "shadow", "enforce"}
  Caps = {1, 2}
  GCaps = {99}
  Budgets = {2, 99}
  MaxKeys = 3
  MaxObjs = 2
  MaxBad2 = 0
  MaxKeys2 = 0
  Mutant = "stopAtMatch"
  Emit = FALSE
SPECIFICATION Spec
INVARIANTS TypeOK VerdictWithoutLimit
CHECK_DEADLOCK FALSE
