CONSTANTS
  Keys = {"a", "b"}
  ScopedKeys = {}
  Clients = {1, 2, 3}
  Workers = {1, 2}
  QCap = 1
  MaxId = 40
  RawTTLs = {10}
  Leases = {0}
  Ticks = {}
  Horizon = 0
  Thr = 90
  EcsCap = 0
  Routes = {"msg"}
  Kinds = {"pos", "err"}
  OpSet = {"hit", "write"}
  MaxOps = 100000
  MaxEnv = 100000
  Atomic = FALSE
  Eager = FALSE
  CasBug = FALSE
  CutBug = FALSE
  ScopeBug = FALSE
  DropBug = FALSE
  KeepClientEcs = TRUE
  InternalAllowed = TRUE
SPECIFICATION TraceSpec
INVARIANTS TypeOK SingleFlight NoOrphanClaim Eligible LateWriteLoses RefreshWithinGrant ServedLive TTLMonotone StopDrains
CONSTRAINT HighWater
POSTCONDITION TraceAccepted
CHECK_DEADLOCK FALSE
