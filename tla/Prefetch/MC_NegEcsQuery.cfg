CONSTANTS
  Keys = {"a", "s"}
  ScopedKeys = {"s"}
  Clients = {1}
  Workers = {1}
  QCap = 1
  MaxId = 4
  RawTTLs = {10}
  Leases = {0}
  Ticks = {}
  Horizon = 0
  Thr = 90
  EcsCap = 0
  Routes = {"msg", "ecs"}
  Kinds = {"pos", "err"}
  OpSet = {"hit", "write"}
  MaxOps = 4
  MaxEnv = 2
  Atomic = FALSE
  Eager = FALSE
  CasBug = FALSE
  CutBug = FALSE
  ScopeBug = FALSE
  DropBug = FALSE
  KeepClientEcs = TRUE
  InternalAllowed = TRUE
SPECIFICATION Spec
INVARIANTS TypeOK RefreshOfSharedCarriesNoClientSubnet
PROPERTIES StoppedIsFinal
CHECK_DEADLOCK FALSE
