------------------------------ MODULE Prefetch ------------------------------
(***************************************************************************)
(* Prefetch queue and background refresh of the cache middleware            *)
(* (middleware/cache: cache.go handleCacheHit / serveHitFromWire,           *)
(* types.go ShouldPrefetch / PrefetchEligible, prefetch_queue.go,           *)
(* store.go ReplaceIfCurrent).  Serves property C04 (lifetimes; a late      *)
(* refresh never overwrites newer data) and states the module's own         *)
(* protocol properties (single flight, claim release, eligibility, Stop).   *)
(*                                                                         *)
(* One action per atomic step of the code:                                  *)
(*  client goroutine, cache hit (handleCacheHit)                            *)
(*   Hit         checkCache: PositiveCache.Get under the segment lock;      *)
(*               the client now holds the entry pointer                     *)
(*   HitShould   PrefetchEligible (scope) + ShouldPrefetch: prefetch.Load() *)
(*               and the TTL threshold on the clock                         *)
(*   HitCas      entry.prefetch.CompareAndSwap(false, true)   (the claim)   *)
(*   HitAdd      PrefetchQueue.Add: stopped.Load()                          *)
(*   HitSend1    first select: <-ctx.Done() | default                       *)
(*   HitSend2    second select: <-ctx.Done() | items <- req | default(full) *)
(*   HitRelease  entry.prefetch.Store(false) after a refused Add            *)
(*   HitServe    ToMsg on the held entry (liveness re-checked on the clock) *)
(*  client goroutine, miss                                                  *)
(*   Miss        Get finds nothing / an expired entry (CompareAndDelete),   *)
(*               the request goes downstream and parks there                *)
(*   MissFinish  downstream answers; ResponseWriter.WriteMsg stores         *)
(*               unconditionally (positive.Set) with the request-tree cut   *)
(*  other writers                                                           *)
(*   DirectWrite Store.SetFromResponseWithCut / SetFromResponseScoped       *)
(*   Purge       Cache.Purge                                                *)
(*  worker goroutine (PrefetchQueue.worker / processPrefetch)               *)
(*   WTake       receive from the items channel; the refresh is now inside  *)
(*               prefetchExchange (Queryer.Query) -- nothing shared is      *)
(*               touched between the receive and the query                  *)
(*   WResp       Query returns (answer with its own ResponseMeta cut, or    *)
(*               error / nil / SERVFAIL); WAbort: it returns the cancelled  *)
(*               context's error after Stop                                 *)
(*   WCas        Store.ReplaceIfCurrent: positive.cache.CompareAndSwap(key, *)
(*               req.Entry, new) under the segment lock                     *)
(*   WRelease    deferred releasePrefetchClaim: req.Entry.prefetch.Store(false)*)
(*   WExit       the worker leaves on <-ctx.Done()                          *)
(*  Stop        StopMark stopped.Store(true); StopCancel cancel();          *)
(*              StopReturn wg.Wait() returned                               *)
(*  Tick        the clock                                                   *)
(*                                                                         *)
(* Time is whole seconds.  The code reads the clock a little after the      *)
(* instant the model calls `now` (0 < eps < 1 s), and shows / compares      *)
(* int(remaining.Seconds()); so an entry with Left whole seconds left is    *)
(* live iff Left > 0 and shows Left - 1.                                    *)
(*                                                                         *)
(* Deliberate deviations: the dedup wait group of the miss path is not      *)
(* modelled (at most one miss per key is in flight: C11 owns it); a SERVFAIL*)
(* refresh (negative-cache CAS that cannot match a positive holder) is the  *)
(* same as a failed refresh; rate limiting is off; RRSIG-expiry TTLs are    *)
(* left to the driver (they are fractional); the NXDOMAIN-cut publication   *)
(* after a successful CAS belongs to the Lease module.                      *)
(* The ECS option of the claiming request is state too (cl.ecs, queue.ecs,  *)
(* wk.up, ent.aud): PrefetchRequest.Request is a copy of the client request  *)
(* whose OPT still carries the clamped EDNS0_SUBNET; KeepClientEcs = TRUE    *)
(* is what the code does today, and with the internal writer allowed by the  *)
(* ECS policy the refresh of a SHARED entry then asks upstream with that     *)
(* subnet and files a subnet-specific answer under the shared key (the       *)
(* MC_NegEcs* configs fail; MC_EcsFixed models the repair).                  *)
(* Ghost variables (oracle): ent[..].claimed/replaced/hard/grant/aud,       *)
(* reply, lastShown, mono.                                                  *)
(***************************************************************************)
EXTENDS Integers, Sequences, FiniteSets, TLC

CONSTANTS
  Keys,        \* cache keys (question x CD x scope)
  ScopedKeys,  \* the keys stored under an ECS scope (never refreshed)
  Clients,     \* client goroutines
  Workers,     \* worker goroutines of the queue
  QCap,        \* capacity of the items channel
  MaxId,       \* stored-entry identities 1..MaxId (pointer identity in the code)
  RawTTLs,     \* record TTLs a response may carry
  Leases,      \* what is left of the delegation lease a resolution reports (0 = none: unbounded)
  Ticks,       \* clock steps
  Horizon,     \* last instant
  Thr,         \* prefetch threshold (percent of the original TTL)
  EcsCap,      \* ECS cap on scoped entries (0 = none)
  Routes,      \* how a hit enters: "msg" | "msgw" | "wire" | "ecs"  (no effect on the model state)
  Kinds,       \* refresh outcomes: "pos" | "neg" | "servfail" | "err" | "nil"
  OpSet,       \* SUBSET {"hit","miss","write","purge","tick","stop"}
  MaxOps,      \* client calls per client
  MaxEnv,      \* direct writes + purges
  Atomic,      \* TRUE: calls do not overlap (sequential call orders for the replay)
  Eager,       \* TRUE (with Atomic): an idle worker receives before anything else starts
  CasBug,      \* mutant: ReplaceIfCurrent stores without comparing        (LateWriteLoses must fail)
  CutBug,      \* mutant: the refresh drops its ResponseMeta cut            (RefreshWithinGrant must fail)
  ScopeBug,    \* mutant: PrefetchEligible ignores the scope                (Eligible must fail)
  DropBug,     \* mutant: a refused Add does not release the claim          (NoOrphanClaim must fail)
  KeepClientEcs,   \* TRUE = the code today: the refresh request is a copy of the claiming client's request,
                   \*        EDNS0_SUBNET included.  FALSE = repaired: the option is stripped from the refresh request
  InternalAllowed  \* the ECS policy allows the internal writer's sentinel address (empty client_networks = everyone):
                   \*        the sub-pipeline's edns then re-attaches the option to the upstream query

Floor == 5
CapTTL == 86400
NoCut == 1000000
Ids == 1..MaxId
Min2(a, b) == IF a < b THEN a ELSE b
Max2(a, b) == IF a > b THEN a ELSE b
AnsKinds == {"pos", "neg"}

VARIABLES
  now,
  ent,        \* [Ids -> entry record]   (an identity is never reused)
  cur,        \* [Keys -> 0..MaxId]      holder of the key in the positive cache (0 = none)
  flag,       \* [Ids -> BOOLEAN]        CacheEntry.prefetch
  queue,      \* Seq(request)            PrefetchQueue.items
  wk,         \* [Workers -> worker record]
  cl,         \* [Clients -> client record]
  stopped, cancelled, stopRet,
  ops,        \* [Clients -> Nat]
  env,        \* Nat
  reply,      \* [Clients -> last reply served from the cache]   (ghost)
  lastShown,  \* [Ids -> TTL last shown]                         (ghost)
  mono        \* BOOLEAN: no hit showed more than the hit before it on the same entry (ghost)

vars == <<now, ent, cur, flag, queue, wk, cl, stopped, cancelled, stopRet, ops, env, reply, lastShown, mono>>

NoEnt == [key |-> "-", born |-> 0, ttl |-> 0, cut |-> 0, src |-> "none",
          claimed |-> 0, replaced |-> 0, hard |-> 0, grant |-> 0, aud |-> "all"]
NoReply == [e |-> 0, at |-> 0, shown |-> 0, ecs |-> 0]
IdleW == [st |-> "idle", e |-> 0, k |-> "-", h |-> 0, kind |-> "-", n |-> 0, t |-> 0, g |-> 0, up |-> 0]
IdleC == [pc |-> "idle", k |-> "-", e |-> 0, h |-> 0, ecs |-> 0]
(* the audience of an answer: "net" = tailored to one client subnet (authority scope > 0), "all" = global.
   The client path files a scoped answer under the scoped key (ResponseWriter.WriteMsg reads the
   response scope); a key of ScopedKeys holds "net" answers, a shared key must hold "all" answers. *)
KeyAud(k) == IF k \in ScopedKeys THEN "net" ELSE "all"

Eff(t) == Min2(CapTTL, Max2(Floor, t))
ClientEff(k, t) == IF k \in ScopedKeys /\ EcsCap > 0 THEN Min2(EcsCap, Eff(t)) ELSE Eff(t)
RefreshEff(k, t) == Eff(t)        \* ReplaceIfCurrent applies no ECS cap: scoped entries never reach it
AbsLease(L) == IF L = 0 THEN NoCut ELSE now + L

End(e) == Min2(ent[e].born + ent[e].ttl, ent[e].cut)
Left(e) == End(e) - now
Live(e) == Left(e) > 0
Shown(e) == IF Left(e) > 0 THEN Left(e) - 1 ELSE 0
ThrSec(e) == (Thr * ent[e].ttl) \div 100
Due(e) == Shown(e) <= ThrSec(e)

Unused(n) == ent[n].src = "none" /\ \A w \in Workers : wk[w].n # n
HasId == \E n \in Ids : Unused(n)
NextId == CHOOSE n \in Ids : Unused(n) /\ \A m \in Ids : Unused(m) => n <= m

Init ==
  /\ now = 0
  /\ ent = [i \in Ids |-> NoEnt]
  /\ cur = [k \in Keys |-> 0]
  /\ flag = [i \in Ids |-> FALSE]
  /\ queue = <<>>
  /\ wk = [w \in Workers |-> IdleW]
  /\ cl = [c \in Clients |-> IdleC]
  /\ stopped = FALSE /\ cancelled = FALSE /\ stopRet = FALSE
  /\ ops = [c \in Clients |-> 0]
  /\ env = 0
  /\ reply = [c \in Clients |-> NoReply]
  /\ lastShown = [i \in Ids |-> NoCut]
  /\ mono = TRUE

MidHit(c) == cl[c].pc \notin {"idle", "down"}
ClientsQuiet == \A c \in Clients : ~MidHit(c)
WorkersQuiet == \A w \in Workers : wk[w].st \in {"idle", "query", "exited"}
Stopping == stopped /\ ~stopRet
TakeEnabled == queue # <<>> /\ \E w \in Workers : wk[w].st = "idle"
(* a new call may start (sequential mode: only at a quiescent point) *)
StartOK == Atomic => (ClientsQuiet /\ WorkersQuiet /\ ~Stopping /\ (Eager => ~TakeEnabled))

NewEnt(k, ttl, cut, src, claimed, hard, grant, aud) ==
  [key |-> k, born |-> now, ttl |-> ttl, cut |-> cut, src |-> src,
   claimed |-> claimed, replaced |-> cur[k], hard |-> hard, grant |-> grant, aud |-> aud]

(* ------------------------------ client: hit -------------------------------- *)
Hit(c, k, r, h) ==
  /\ "hit" \in OpSet /\ r \in Routes
  /\ (k \in ScopedKeys) => r = "ecs"
  /\ cl[c].pc = "idle" /\ ops[c] < MaxOps /\ StartOK
  /\ cur[k] # 0 /\ Live(cur[k])
  /\ cl' = [cl EXCEPT ![c] = [pc |-> "should", k |-> k, e |-> cur[k], h |-> h, ecs |-> IF r = "ecs" THEN 1 ELSE 0]]
  /\ ops' = [ops EXCEPT ![c] = @ + 1]
  /\ UNCHANGED <<now, ent, cur, flag, queue, wk, stopped, cancelled, stopRet, env, reply, lastShown, mono>>

Goto(c, pc) == cl' = [cl EXCEPT ![c].pc = pc]

HitShould(c) ==
  /\ cl[c].pc = "should"
  /\ LET e == cl[c].e
         elig == (cl[c].k \notin ScopedKeys) \/ ScopeBug
     IN IF elig /\ ~flag[e] /\ Due(e) THEN Goto(c, "cas") ELSE Goto(c, "serve")
  /\ UNCHANGED <<now, ent, cur, flag, queue, wk, stopped, cancelled, stopRet, ops, env, reply, lastShown, mono>>

HitCas(c) ==
  /\ cl[c].pc = "cas"
  /\ IF ~flag[cl[c].e]
       THEN flag' = [flag EXCEPT ![cl[c].e] = TRUE] /\ Goto(c, "add")
       ELSE UNCHANGED flag /\ Goto(c, "serve")
  /\ UNCHANGED <<now, ent, cur, queue, wk, stopped, cancelled, stopRet, ops, env, reply, lastShown, mono>>

HitAdd(c) ==
  /\ cl[c].pc = "add"
  /\ IF stopped THEN Goto(c, "release") ELSE Goto(c, "send1")
  /\ UNCHANGED <<now, ent, cur, flag, queue, wk, stopped, cancelled, stopRet, ops, env, reply, lastShown, mono>>

HitSend1(c) ==
  /\ cl[c].pc = "send1"
  /\ IF cancelled THEN Goto(c, "release") ELSE Goto(c, "send2")
  /\ UNCHANGED <<now, ent, cur, flag, queue, wk, stopped, cancelled, stopRet, ops, env, reply, lastShown, mono>>

HitSend2(c) ==
  /\ cl[c].pc = "send2"
  /\ \/ /\ cancelled                          \* <-done is ready (select may pick it)
        /\ Goto(c, "release") /\ UNCHANGED queue
     \/ /\ Len(queue) < QCap                   \* the send is ready
        /\ queue' = Append(queue, [e |-> cl[c].e, k |-> cl[c].k, h |-> cl[c].h, ecs |-> cl[c].ecs])
        /\ Goto(c, "serve")
     \/ /\ ~cancelled /\ Len(queue) >= QCap    \* default: queue full, dropped
        /\ Goto(c, "release") /\ UNCHANGED queue
  /\ UNCHANGED <<now, ent, cur, flag, wk, stopped, cancelled, stopRet, ops, env, reply, lastShown, mono>>

HitRelease(c) ==
  /\ cl[c].pc = "release"
  /\ flag' = IF DropBug THEN flag ELSE [flag EXCEPT ![cl[c].e] = FALSE]
  /\ Goto(c, "serve")
  /\ UNCHANGED <<now, ent, cur, queue, wk, stopped, cancelled, stopRet, ops, env, reply, lastShown, mono>>

HitServe(c) ==
  /\ cl[c].pc = "serve"
  /\ LET e == cl[c].e IN
     IF Live(e)
       THEN /\ reply' = [reply EXCEPT ![c] = [e |-> e, at |-> now, shown |-> Shown(e), ecs |-> cl[c].ecs]]
            /\ mono' = (mono /\ Shown(e) <= lastShown[e])
            /\ lastShown' = [lastShown EXCEPT ![e] = Shown(e)]
       ELSE /\ reply' = [reply EXCEPT ![c] = NoReply]     \* expired between check and use: not served
            /\ UNCHANGED <<mono, lastShown>>
  /\ cl' = [cl EXCEPT ![c] = IdleC]
  /\ UNCHANGED <<now, ent, cur, flag, queue, wk, stopped, cancelled, stopRet, ops, env>>

(* ------------------------------ client: miss ------------------------------- *)
Miss(c, k, h) ==
  /\ "miss" \in OpSet
  /\ k \notin ScopedKeys
  /\ cl[c].pc = "idle" /\ ops[c] < MaxOps /\ StartOK
  /\ IF cur[k] = 0 THEN TRUE ELSE ~Live(cur[k])
  /\ \A d \in Clients : ~(cl[d].pc = "down" /\ cl[d].k = k)
  /\ cur' = [cur EXCEPT ![k] = 0]                        \* an expired holder is removed by the lookup
  /\ cl' = [cl EXCEPT ![c] = [pc |-> "down", k |-> k, e |-> 0, h |-> h, ecs |-> 0]]
  /\ ops' = [ops EXCEPT ![c] = @ + 1]
  /\ UNCHANGED <<now, ent, flag, queue, wk, stopped, cancelled, stopRet, env, reply, lastShown, mono>>

MissFinish(c, n, t, L) ==
  /\ cl[c].pc = "down" /\ StartOK
  /\ n \in Ids /\ Unused(n) /\ t \in RawTTLs /\ L \in Leases
  /\ LET k == cl[c].k IN
     /\ ent' = [ent EXCEPT ![n] = NewEnt(k, ClientEff(k, t), AbsLease(L), "client", 0,
                                          now + ClientEff(k, t), AbsLease(L), KeyAud(k))]
     /\ cur' = [cur EXCEPT ![k] = n]
  /\ cl' = [cl EXCEPT ![c] = IdleC]
  /\ reply' = [reply EXCEPT ![c] = NoReply]
  /\ UNCHANGED <<now, flag, queue, wk, stopped, cancelled, stopRet, ops, env, lastShown, mono>>

(* ------------------------------ other writers ------------------------------ *)
DirectWrite(k, n, t, L) ==
  /\ "write" \in OpSet /\ env < MaxEnv /\ StartOK
  /\ n \in Ids /\ Unused(n) /\ t \in RawTTLs /\ L \in Leases
  /\ ent' = [ent EXCEPT ![n] = NewEnt(k, ClientEff(k, t), AbsLease(L), "client", 0,
                                       now + ClientEff(k, t), AbsLease(L), KeyAud(k))]
  /\ cur' = [cur EXCEPT ![k] = n]
  /\ env' = env + 1
  /\ UNCHANGED <<now, flag, queue, wk, cl, stopped, cancelled, stopRet, ops, reply, lastShown, mono>>

Purge(k) ==
  /\ "purge" \in OpSet /\ env < MaxEnv /\ StartOK
  /\ cur[k] # 0
  /\ cur' = [cur EXCEPT ![k] = 0]
  /\ env' = env + 1
  /\ UNCHANGED <<now, ent, flag, queue, wk, cl, stopped, cancelled, stopRet, ops, reply, lastShown, mono>>

Tick(d) ==
  /\ "tick" \in OpSet /\ d \in Ticks /\ now + d <= Horizon
  /\ StartOK
  /\ now' = now + d
  /\ UNCHANGED <<ent, cur, flag, queue, wk, cl, stopped, cancelled, stopRet, ops, env, reply, lastShown, mono>>

(* --------------------------------- worker ---------------------------------- *)
WTake(w) ==
  /\ wk[w].st = "idle" /\ queue # <<>>
  /\ Atomic => (ClientsQuiet /\ WorkersQuiet)
  /\ LET r == Head(queue) IN
     wk' = [wk EXCEPT ![w] = [IdleW EXCEPT !.st = "query", !.e = r.e, !.k = r.k, !.h = r.h,
                                            \* processPrefetch: prefetchReq := req.Request.Copy() (DO forced, nothing else
                                            \* touched); the sub-pipeline's edns keeps the option iff the policy allows
                                            \* the internal writer's address
                                            !.up = IF r.ecs = 1 /\ KeepClientEcs /\ InternalAllowed THEN 1 ELSE 0]]
  /\ queue' = Tail(queue)
  /\ UNCHANGED <<now, ent, cur, flag, cl, stopped, cancelled, stopRet, ops, env, reply, lastShown, mono>>

WResp(w, kind, n, t, L) ==
  /\ wk[w].st = "query" /\ ~cancelled /\ StartOK
  /\ kind \in Kinds
  /\ IF kind \in AnsKinds
       THEN n \in Ids /\ Unused(n) /\ t \in RawTTLs /\ L \in Leases
       ELSE n = 0 /\ t = 0 /\ L = 0
  /\ wk' = [wk EXCEPT ![w].st = "resp", ![w].kind = kind, ![w].n = n, ![w].t = t, ![w].g = AbsLease(L)]
  /\ UNCHANGED <<now, ent, cur, flag, queue, cl, stopped, cancelled, stopRet, ops, env, reply, lastShown, mono>>

WAbort(w) ==
  /\ wk[w].st = "query" /\ cancelled
  /\ wk' = [wk EXCEPT ![w].st = "resp", ![w].kind = "err"]
  /\ UNCHANGED <<now, ent, cur, flag, queue, cl, stopped, cancelled, stopRet, ops, env, reply, lastShown, mono>>

WCas(w) ==
  /\ wk[w].st = "resp"
  /\ LET r == wk[w] IN
     IF r.kind \in AnsKinds /\ (cur[r.k] = r.e \/ CasBug)
       THEN /\ ent' = [ent EXCEPT ![r.n] =
                         NewEnt(r.k, RefreshEff(r.k, r.t), IF CutBug THEN NoCut ELSE r.g, "refresh", r.e,
                                now + ClientEff(r.k, r.t), r.g,
                                \* a geo-aware authority tailors the answer when the query carries a subnet;
                                \* ReplaceIfCurrent never looks at the response scope: it inherits the key of expected
                                IF r.up = 1 THEN "net" ELSE KeyAud(r.k))]
            /\ cur' = [cur EXCEPT ![r.k] = r.n]
       ELSE UNCHANGED <<ent, cur>>
  /\ wk' = [wk EXCEPT ![w].st = "rel", ![w].n = 0]
  /\ UNCHANGED <<now, flag, queue, cl, stopped, cancelled, stopRet, ops, env, reply, lastShown, mono>>

WRelease(w) ==
  /\ wk[w].st = "rel"
  /\ flag' = [flag EXCEPT ![wk[w].e] = FALSE]
  /\ wk' = [wk EXCEPT ![w] = IdleW]
  /\ UNCHANGED <<now, ent, cur, queue, cl, stopped, cancelled, stopRet, ops, env, reply, lastShown, mono>>

WExit(w) ==
  /\ wk[w].st = "idle" /\ cancelled
  /\ wk' = [wk EXCEPT ![w].st = "exited"]
  /\ UNCHANGED <<now, ent, cur, flag, queue, cl, stopped, cancelled, stopRet, ops, env, reply, lastShown, mono>>

(* ---------------------------------- Stop ----------------------------------- *)
StopMark ==
  /\ "stop" \in OpSet /\ ~stopped /\ StartOK
  /\ stopped' = TRUE
  /\ UNCHANGED <<now, ent, cur, flag, queue, wk, cl, cancelled, stopRet, ops, env, reply, lastShown, mono>>

StopCancel ==
  /\ stopped /\ ~cancelled
  /\ cancelled' = TRUE
  /\ UNCHANGED <<now, ent, cur, flag, queue, wk, cl, stopped, stopRet, ops, env, reply, lastShown, mono>>

StopReturn ==
  /\ cancelled /\ ~stopRet
  /\ \A w \in Workers : wk[w].st = "exited"
  /\ stopRet' = TRUE
  /\ UNCHANGED <<now, ent, cur, flag, queue, wk, cl, stopped, cancelled, ops, env, reply, lastShown, mono>>

ClientStep(c) ==
  HitShould(c) \/ HitCas(c) \/ HitAdd(c) \/ HitSend1(c) \/ HitSend2(c) \/ HitRelease(c) \/ HitServe(c)
WorkerStep(w) == WTake(w) \/ WAbort(w) \/ WCas(w) \/ WRelease(w) \/ WExit(w)
(* identities are handed out in order (a trace supplies the ones the run used) *)
IsNext(n) == n \in Ids /\ Unused(n) /\ \A m \in 1..(n - 1) : ~Unused(m)
MissFinishN(c, n, t, L) == cl[c].pc = "down" /\ IsNext(n) /\ MissFinish(c, n, t, L)
DirectWriteN(k, n, t, L) == "write" \in OpSet /\ env < MaxEnv /\ IsNext(n) /\ DirectWrite(k, n, t, L)
WRespN(w, kind, n, t, L) ==
  /\ wk[w].st = "query" /\ ~cancelled
  /\ IF kind \in AnsKinds THEN IsNext(n) /\ t # 0 ELSE n = 0 /\ t = 0 /\ L = 0
  /\ WResp(w, kind, n, t, L)
Respond(w) == \E kind \in Kinds, n \in 0..MaxId, t \in RawTTLs \cup {0}, L \in Leases \cup {0} : WRespN(w, kind, n, t, L)

Next ==
  \/ \E c \in Clients, k \in Keys, r \in Routes : Hit(c, k, r, 0)
  \/ \E c \in Clients, k \in Keys : Miss(c, k, 0)
  \/ \E c \in Clients, n \in Ids, t \in RawTTLs, L \in Leases : MissFinishN(c, n, t, L)
  \/ \E c \in Clients : HitShould(c)
  \/ \E c \in Clients : HitCas(c)
  \/ \E c \in Clients : HitAdd(c)
  \/ \E c \in Clients : HitSend1(c)
  \/ \E c \in Clients : HitSend2(c)
  \/ \E c \in Clients : HitRelease(c)
  \/ \E c \in Clients : HitServe(c)
  \/ \E k \in Keys, n \in Ids, t \in RawTTLs, L \in Leases : DirectWriteN(k, n, t, L)
  \/ \E k \in Keys : Purge(k)
  \/ \E d \in Ticks : Tick(d)
  \/ \E w \in Workers : WTake(w)
  \/ \E w \in Workers, kind \in Kinds, n \in 0..MaxId, t \in RawTTLs \cup {0}, L \in Leases \cup {0} : WRespN(w, kind, n, t, L)
  \/ \E w \in Workers : WAbort(w)
  \/ \E w \in Workers : WCas(w)
  \/ \E w \in Workers : WRelease(w)
  \/ \E w \in Workers : WExit(w)
  \/ StopMark \/ StopCancel \/ StopReturn

Spec == Init /\ [][Next]_vars

FairSpec ==
  /\ Spec
  /\ \A c \in Clients : WF_vars(ClientStep(c))
  /\ \A w \in Workers : WF_vars(WorkerStep(w)) /\ WF_vars(Respond(w))
  /\ WF_vars(StopCancel) /\ WF_vars(StopReturn)

(* -------------------------------- properties -------------------------------- *)
EntOK(x) ==
  /\ x.key \in Keys \cup {"-"} /\ x.src \in {"none", "client", "refresh"}
  /\ x.born \in Nat /\ x.ttl \in Nat /\ x.cut \in Nat /\ x.hard \in Nat /\ x.grant \in Nat
  /\ x.claimed \in 0..MaxId /\ x.replaced \in 0..MaxId /\ x.aud \in {"all", "net"}
TypeOK ==
  /\ now \in 0..Horizon
  /\ \A i \in Ids : EntOK(ent[i])
  /\ cur \in [Keys -> 0..MaxId]
  /\ flag \in [Ids -> BOOLEAN]
  /\ Len(queue) <= QCap
  /\ \A i \in DOMAIN queue : queue[i].e \in Ids /\ queue[i].k \in Keys
  /\ \A w \in Workers : wk[w].st \in {"idle", "query", "resp", "rel", "exited"} /\ wk[w].e \in 0..MaxId
  /\ \A c \in Clients : cl[c].pc \in {"idle", "should", "cas", "add", "send1", "send2", "release", "serve", "down"}
  /\ stopped \in BOOLEAN /\ cancelled \in BOOLEAN /\ stopRet \in BOOLEAN
  /\ \A k \in Keys : cur[k] # 0 => ent[cur[k]].key = k
  /\ mono \in BOOLEAN

InFlight(w) == wk[w].st \in {"query", "resp", "rel"}
Pending(e) == Cardinality({i \in DOMAIN queue : queue[i].e = e}) + Cardinality({w \in Workers : InFlight(w) /\ wk[w].e = e})

(* at most one refresh is queued or in flight per stored entry, and it holds the claim *)
SingleFlight == \A e \in Ids : Pending(e) <= 1 /\ (Pending(e) = 1 => flag[e])

(* a claim is always owned by somebody who will release it: a queued / in-flight refresh, or the
   client between its CAS and the end of Add (a refused Add releases) *)
NoOrphanClaim ==
  \A e \in Ids : flag[e] =>
     \/ Pending(e) = 1
     \/ \E c \in Clients : cl[c].e = e /\ cl[c].pc \in {"add", "send1", "send2", "release"}

(* scoped entries are never handed to the queue *)
Eligible ==
  /\ \A i \in DOMAIN queue : queue[i].k \notin ScopedKeys
  /\ \A w \in Workers : InFlight(w) => wk[w].k \notin ScopedKeys

(* a refresh replaces only the entry it claimed: a refresh that completes after newer data was
   stored for the key (or after the key was purged) stores nothing *)
LateWriteLoses ==
  \A i \in Ids : ent[i].src = "refresh" => (ent[i].replaced = ent[i].claimed /\ ent[i].claimed # 0)

(* the refreshed entry lives no longer than a client-path admission of the same response would,
   and it is bounded by the cut its own resolution reported -- never re-anchored, never dropped *)
RefreshWithinGrant ==
  \A i \in Ids : ent[i].src = "refresh" =>
     /\ ent[i].born + ent[i].ttl <= ent[i].hard
     /\ ent[i].cut <= ent[i].grant

(* C04 on every reply served from the cache *)
ServedLive ==
  \A c \in Clients : reply[c].e # 0 =>
     LET x == ent[reply[c].e] IN
       /\ reply[c].at < Min2(x.hard, x.grant)
       /\ reply[c].shown <= Min2(x.hard, x.grant) - reply[c].at
TTLMonotone == mono

(* ECS audience (C19; listed in the MC_Ecs* configs only -- with KeepClientEcs = TRUE, what the code does today,
   both fail: MC_NegEcsQuery / MC_NegEcsStore).  Hit(c, k, "ecs", h) on a shared key = a client with an allowed
   ECS option hits a shared entry; HitCas = claim; WTake = the refresh leaves with / without the client subnet;
   WResp + WCas = it completes. *)
RefreshOfSharedCarriesNoClientSubnet ==
  \A w \in Workers : (InFlight(w) /\ wk[w].k \notin ScopedKeys) => wk[w].up = 0
SharedEntryNeverHoldsScopedAnswer ==
  \A k \in Keys \ ScopedKeys : cur[k] # 0 => ent[cur[k]].aud = "all"
(* a subnet-specific answer is served only through a scoped key (so only to clients inside the scope) *)
ServedWithinScope ==
  \A c \in Clients : (reply[c].e # 0 /\ ent[reply[c].e].aud = "net") => ent[reply[c].e].key \in ScopedKeys

(* Stop returns only after every worker goroutine has left; nothing is in flight then *)
StopDrains == stopRet => \A w \in Workers : wk[w].st = "exited"
(* after the queue was stopped and the stop was seen, nothing new is enqueued behind the workers' backs:
   what is left in the channel was put there before the cancel or by the select race *)
StoppedIsFinal == [][stopRet => (stopRet' /\ \A w \in Workers : wk'[w] = wk[w])]_vars

(* liveness (FairSpec): every claim is released unless the queue is stopped; Stop returns *)
ClaimReleased == \A e \in Ids : (flag[e] ~> (~flag[e] \/ stopped))
StopCompletes == stopped ~> stopRet
=============================================================================
