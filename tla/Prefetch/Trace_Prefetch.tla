--------------------------- MODULE Trace_Prefetch ---------------------------
(***************************************************************************)
(* Validation of concurrent histories recorded from the real cache with     *)
(* its prefetch queue (harness/x04pf TestPrefetchStress) against            *)
(* Prefetch.tla.  Client goroutines hit the cache, a writer stores new data  *)
(* through Store.SetFromResponseWithCut and the queue's workers refresh      *)
(* through a free-running Queryer.  Every call logs an invocation line       *)
(* before it starts and a response line after it returned; the Queryer logs  *)
(* its entry (qstart) and, just before it returns, its outcome (qend).  All  *)
(* lines are stamped from one harness-side sequence, so the line order       *)
(* respects real time.  The atomic steps inside a call -- the lookup, the    *)
(* flag load, the CAS, the channel send, the release, the worker's receive,  *)
(* ReplaceIfCurrent -- are not observable: they are the silent steps TLC     *)
(* interleaves between lines, so acceptance means the history is explained   *)
(* by the model of the individual atomics.  An `end` line carries the        *)
(* holders and claim flags at rest.  Rounds are concatenated with Reset      *)
(* lines.  A log is accepted when some path consumes every line: the         *)
(* high-water mark of `l` is kept in TLC register 1 (run with -workers 1).   *)
(***************************************************************************)
EXTENDS Prefetch, Json, IOUtils

TraceLog == ndJsonDeserialize(IOEnv.TRACE_FILE)

VARIABLES
  l,      \* next line
  pend,   \* [Clients -> invoked hit not yet looked up / looked up]
  ann,    \* hits whose refresh was seen entering the Queryer
  wr      \* the writer's call in progress

tvars == <<vars, l, pend, ann, wr>>

NoPend == [st |-> "none", k |-> "-", h |-> 0]
NoWr == [st |-> "none", k |-> "-", id |-> 0]

TraceInit == Init /\ l = 1 /\ pend = [c \in Clients |-> NoPend] /\ ann = {} /\ wr = NoWr /\ TLCSet(1, 0)
Line == TraceLog[l]
IsEv(e) == l <= Len(TraceLog) /\ Line.ev = e /\ l' = l + 1

TInvHit ==
  /\ IsEv("inv") /\ Line.op = "hit"
  /\ pend[Line.c].st = "none"
  /\ pend' = [pend EXCEPT ![Line.c] = [st |-> "inv", k |-> Line.k, h |-> Line.h]]
  /\ UNCHANGED <<vars, ann, wr>>

(* silent: the lookup of an invoked hit *)
Lookup(c) ==
  /\ pend[c].st = "inv"
  /\ Hit(c, pend[c].k, "msg", pend[c].h)
  /\ pend' = [pend EXCEPT ![c].st = "run"]
  /\ UNCHANGED <<l, ann, wr>>

TResHit ==
  /\ IsEv("res") /\ Line.op = "hit"
  /\ pend[Line.c].st = "run" /\ pend[Line.c].h = Line.h
  /\ cl[Line.c].pc = "idle"
  /\ reply[Line.c].e = Line.e
  /\ pend' = [pend EXCEPT ![Line.c] = NoPend]
  /\ UNCHANGED <<vars, ann, wr>>

TInvWrite ==
  /\ IsEv("inv") /\ Line.op = "write"
  /\ wr.st = "none"
  /\ wr' = [st |-> "inv", k |-> Line.k, id |-> Line.id]
  /\ UNCHANGED <<vars, pend, ann>>

(* silent: the store of the writer's call *)
Commit ==
  /\ wr.st = "inv"
  /\ DirectWrite(wr.k, wr.id, 10, 0)
  /\ wr' = [wr EXCEPT !.st = "done"]
  /\ UNCHANGED <<l, pend, ann>>

TResWrite ==
  /\ IsEv("res") /\ Line.op = "write"
  /\ wr.st = "done" /\ wr.id = Line.id
  /\ wr' = NoWr
  /\ UNCHANGED <<vars, pend, ann>>

TQStart ==
  /\ IsEv("qstart")
  /\ Line.h \notin ann
  /\ \E w \in Workers : wk[w].st = "query" /\ wk[w].h = Line.h
  /\ ann' = ann \cup {Line.h}
  /\ UNCHANGED <<vars, pend, wr>>

TQEnd ==
  /\ IsEv("qend")
  /\ Line.h \in ann
  /\ \E w \in Workers :
       /\ wk[w].st = "query" /\ wk[w].h = Line.h
       /\ IF Line.kind = "pos" THEN WResp(w, "pos", Line.id, 10, 0) ELSE WResp(w, "err", 0, 0, 0)
  /\ UNCHANGED <<pend, ann, wr>>

Silent ==
  /\ l <= Len(TraceLog)
  /\ \/ \E c \in Clients : Lookup(c)
     \/ /\ \/ \E c \in Clients : ClientStep(c)
           \/ \E w \in Workers : WTake(w) \/ WCas(w) \/ WRelease(w)
        /\ UNCHANGED <<l, pend, ann, wr>>
     \/ Commit

Elems(s) == {s[i] : i \in DOMAIN s}

TEnd ==
  /\ IsEv("end")
  /\ \A c \in Clients : cl[c].pc = "idle" /\ pend[c].st = "none"
  /\ wr.st = "none"
  /\ queue = <<>>
  /\ \A w \in Workers : wk[w].st = "idle"
  /\ \A k \in Keys : cur[k] = Line.cur[k]
  /\ \A i \in Ids : flag[i] = (i \in Elems(Line.flag))
  /\ UNCHANGED <<vars, pend, ann, wr>>

TReset ==
  /\ IsEv("Reset")
  /\ now' = 0
  /\ ent' = [i \in Ids |-> NoEnt]
  /\ cur' = [k \in Keys |-> 0]
  /\ flag' = [i \in Ids |-> FALSE]
  /\ queue' = <<>>
  /\ wk' = [w \in Workers |-> IdleW]
  /\ cl' = [c \in Clients |-> IdleC]
  /\ stopped' = FALSE /\ cancelled' = FALSE /\ stopRet' = FALSE
  /\ ops' = [c \in Clients |-> 0]
  /\ env' = 0
  /\ reply' = [c \in Clients |-> NoReply]
  /\ lastShown' = [i \in Ids |-> NoCut]
  /\ mono' = TRUE
  /\ pend' = [c \in Clients |-> NoPend] /\ ann' = {} /\ wr' = NoWr

TraceNext == TReset \/ TInvHit \/ TResHit \/ TInvWrite \/ TResWrite \/ TQStart \/ TQEnd \/ TEnd \/ Silent
TraceSpec == TraceInit /\ [][TraceNext]_tvars

HighWater == TLCSet(1, IF l > TLCGet(1) THEN l ELSE TLCGet(1))
TraceAccepted == TLCGet(1) > Len(TraceLog) \/ Print(<<"high water", TLCGet(1), Len(TraceLog)>>, FALSE)
=============================================================================
