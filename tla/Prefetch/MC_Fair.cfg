CONSTANTS
  Keys = {"a", "b"}
  ScopedKeys = {}
  Clients = {1, 2}
  Workers = {1}
  QCap = 1
  MaxId = 3
  RawTTLs = {10}
  Leases = {0}
  Ticks = {}
  Horizon = 0
  Thr = 90
  EcsCap = 0
  Routes = {"msg"}
  Kinds = {"err"}
  OpSet = {"hit", "write"}
  MaxOps = 2
  MaxEnv = 2
  Atomic = FALSE
  Eager = FALSE
  CasBug = FALSE
  CutBug = FALSE
  ScopeBug = FALSE
  DropBug = FALSE
  KeepClientEcs = TRUE
  InternalAllowed = TRUE
SPECIFICATION FairSpec
INVARIANTS TypeOK
PROPERTIES ClaimReleased
CHECK_DEADLOCK FALSE
