#!/usr/bin/env python3
"""Regenerates the TLC configs of Prefetch (run in this directory)."""
INV = ("TypeOK SingleFlight NoOrphanClaim Eligible LateWriteLoses RefreshWithinGrant ServedLive TTLMonotone StopDrains")
ACT = "StoppedIsFinal"


def q(xs):
    return "{" + ", ".join('"%s"' % x for x in xs) + "}"


def n(xs):
    return "{" + ", ".join(str(x) for x in xs) + "}"


def b(v):
    return "TRUE" if v else "FALSE"


def consts(keys=("a",), scoped=(), clients=(1, 2), workers=(1,), qcap=1, maxid=3, raw=(10,), leases=(0,), ticks=(),
           horizon=0, thr=90, ecscap=0, routes=("msg",), kinds=("pos", "err"), ops=("hit", "write"), maxops=2, maxenv=2,
           atomic=False, eager=False, cas=False, cut=False, scope=False, drop=False, keepecs=True, internal=True):
    return ("CONSTANTS\n  Keys = %s\n  ScopedKeys = %s\n  Clients = %s\n  Workers = %s\n  QCap = %d\n  MaxId = %d\n"
            "  RawTTLs = %s\n  Leases = %s\n  Ticks = %s\n  Horizon = %d\n  Thr = %d\n  EcsCap = %d\n  Routes = %s\n"
            "  Kinds = %s\n  OpSet = %s\n  MaxOps = %d\n  MaxEnv = %d\n  Atomic = %s\n  Eager = %s\n"
            "  CasBug = %s\n  CutBug = %s\n  ScopeBug = %s\n  DropBug = %s\n  KeepClientEcs = %s\n  InternalAllowed = %s\n" % (
                q(keys), q(scoped), n(clients), n(workers), qcap, maxid, n(raw), n(leases), n(ticks), horizon, thr,
                ecscap, q(routes), q(kinds), q(ops), maxops, maxenv, b(atomic), b(eager), b(cas), b(cut), b(scope), b(drop),
                b(keepecs), b(internal)))


def mc(name, c, inv=INV):
    open("MC_%s.cfg" % name, "w").write(c + "SPECIFICATION Spec\nINVARIANTS %s\nPROPERTIES %s\nCHECK_DEADLOCK FALSE\n" % (inv, ACT))


def fair(name, c, props):
    open("MC_%s.cfg" % name, "w").write(c + "SPECIFICATION FairSpec\nINVARIANTS TypeOK\nPROPERTIES %s\nCHECK_DEADLOCK FALSE\n" % props)


def sim(name, c):
    open("Sim_%s.cfg" % name, "w").write(c + "INIT Init\nNEXT Next\nCHECK_DEADLOCK FALSE\n")


def trace(name, c):
    open("Trace_%s.cfg" % name, "w").write(
        c + "SPECIFICATION TraceSpec\nINVARIANTS %s\nCONSTRAINT HighWater\nPOSTCONDITION TraceAccepted\nCHECK_DEADLOCK FALSE\n" % INV)


# -- the claim / queue / CAS protocol, every atomic interleaved (no clock: everything is due) --------------
# two concurrent hits + a writer + one worker, queue of one
mc("Proto", consts(ops=("hit", "write", "purge"), maxid=3, maxops=2, maxenv=2))
# two keys, so that the queue fills while the worker is busy (drop + release), two workers
mc("Full", consts(keys=("a", "b"), clients=(1, 2), workers=(1,), qcap=1, maxid=3, ops=("hit", "write"), maxops=2, maxenv=2,
                  kinds=("pos",)))
mc("Proto2W", consts(keys=("a", "b"), clients=(1, 2), workers=(1, 2), qcap=1, maxid=3, ops=("hit", "write"),
                     maxops=2, maxenv=2, kinds=("pos",)))
# the client miss path racing the refresh (entry purged / expired while the refresh is out)
mc("Miss", consts(clients=(1, 2), ops=("hit", "miss", "write", "purge"), maxid=4, maxops=2, maxenv=2, kinds=("pos",)))
# Stop racing hits and a refresh in flight
mc("Stop", consts(clients=(1, 2), workers=(1, 2), ops=("hit", "write", "stop"), maxid=3, maxops=2, maxenv=1, kinds=("pos",)))
# -- lifetimes: clock, threshold, leases, the ECS cap; calls sequential ----------------------------------------
LIFE = dict(keys=("a",), scoped=(), clients=(1,), workers=(1,), qcap=1, raw=(2, 10), leases=(0, 4, 12), ticks=(3, 6),
            horizon=15, thr=50, ecscap=6, routes=("msg",), kinds=("pos", "err"), ops=("hit", "miss", "write", "tick"),
            maxops=4, maxenv=2, maxid=4, atomic=True, eager=True)
SCOPED = dict(LIFE, keys=("a", "s"), scoped=("s",), raw=(10,), leases=(0,), ticks=(3,), horizon=9, routes=("msg", "ecs"),
              ops=("hit", "write", "tick"), maxops=3, maxenv=2, maxid=3)
mc("Life", consts(**dict(LIFE, leases=(0, 4), horizon=12, maxops=4, maxenv=1, maxid=3)))
mc("LifeQuick", consts(**dict(LIFE, maxid=3, maxops=3, maxenv=1, horizon=9, leases=(0, 4))))
mc("Scoped", consts(**SCOPED))
# -- negative configs: each guard switched off must break its invariant -------------------------------------------
mc("NegCas", consts(ops=("hit", "write", "purge"), maxid=3, maxops=2, maxenv=2, cas=True))
mc("NegCut", consts(**dict(LIFE, maxid=3, maxops=3, maxenv=1, horizon=12, leases=(0, 4), cut=True)))
mc("NegScope", consts(**dict(SCOPED, scope=True)))
mc("NegDrop", consts(keys=("a", "b"), clients=(1, 2), workers=(1,), qcap=1, maxid=3, ops=("hit", "write"), maxops=2, maxenv=2,
                     kinds=("pos",), drop=True))
# -- ECS audience of a refresh claimed by an ECS client on a shared entry (C19) -------------------------------------------
ECSINV = "RefreshOfSharedCarriesNoClientSubnet SharedEntryNeverHoldsScopedAnswer ServedWithinScope"
ECS = dict(keys=("a", "s"), scoped=("s",), clients=(1,), workers=(1,), qcap=1, raw=(10,), leases=(0,), ticks=(), horizon=0,
           thr=90, ecscap=0, routes=("msg", "ecs"), kinds=("pos", "err"), ops=("hit", "write"), maxops=4, maxenv=2, maxid=4)
mc("EcsFixed", consts(**dict(ECS, keepecs=False)), INV + " " + ECSINV)                  # repaired: the option is stripped
mc("EcsAllowlist", consts(**dict(ECS, keepecs=True, internal=False)), INV + " " + ECSINV)  # today, masked by an allow-list
mc("NegEcsQuery", consts(**dict(ECS, keepecs=True, internal=True)), "TypeOK RefreshOfSharedCarriesNoClientSubnet")
mc("NegEcsStore", consts(**dict(ECS, keepecs=True, internal=True)), "TypeOK SharedEntryNeverHoldsScopedAnswer")
mc("NegEcsServe", consts(**dict(ECS, keepecs=True, internal=True)), "TypeOK ServedWithinScope")
# -- liveness under fairness -------------------------------------------------------------------------------------
fair("Fair", consts(keys=("a", "b"), clients=(1, 2), workers=(1,), qcap=1, maxid=3, ops=("hit", "write"), maxops=2,
                    maxenv=2, kinds=("err",)), "ClaimReleased")
fair("FairStop", consts(keys=("a",), clients=(1, 2), workers=(1, 2), qcap=1, maxid=2, ops=("hit", "write", "stop"), maxops=2,
                        maxenv=1, kinds=("pos", "err")), "ClaimReleased StopCompletes")
fair("NegFairDrop", consts(keys=("a", "b"), clients=(1, 2), workers=(1,), qcap=1, maxid=3, ops=("hit", "write"), maxops=2,
                           maxenv=2, kinds=("err",), drop=True), "ClaimReleased")
# -- behaviours for the replay (sequential calls, eager workers) and the trace validation ---------------------------
SIM = dict(keys=("a", "b", "c", "s"), scoped=("s",), clients=(1, 2), workers=(1, 2), qcap=1, raw=(2, 10, 30), leases=(0, 4, 12, 40),
           ticks=(2, 3, 6, 11), horizon=60, thr=50, ecscap=6, routes=("msg", "msgw", "wire", "ecs"),
           kinds=("pos", "neg", "servfail", "err", "nil"), ops=("hit", "miss", "write", "purge", "tick"),
           maxops=12, maxenv=8, maxid=14, atomic=True, eager=True)
sim("Replay", consts(**SIM))
# everything due at once, few parameters: the queue fills while the workers are parked (drop + release)
sim("ReplayFull", consts(**dict(SIM, keys=("a", "b", "c"), scoped=(), workers=(1,), raw=(10,), leases=(0, 12), ticks=(), horizon=0,
                                thr=90, routes=("msg", "wire"), kinds=("pos", "err"), ops=("hit", "write", "purge"), maxenv=6, maxid=12)))
sim("ReplayFull2W", consts(**dict(SIM, keys=("a", "b", "c"), scoped=(), workers=(1, 2), raw=(10,), leases=(0, 12), ticks=(), horizon=0,
                                  thr=90, routes=("msg", "wire"), kinds=("pos", "err"), ops=("hit", "write", "purge"), maxenv=6, maxid=12)))
sim("ReplayStop", consts(**dict(SIM, ops=("hit", "miss", "write", "purge", "tick", "stop"))))
sim("Replay1W", consts(**dict(SIM, workers=(1,))))
sim("ReplayBig", consts(**dict(SIM, raw=(2, 10, 30, 200000), qcap=2, horizon=90)))
trace("Stress", consts(keys=("a", "b"), clients=(1, 2, 3), workers=(1, 2), qcap=1, maxid=40, raw=(10,), leases=(0,), ticks=(),
                       horizon=0, thr=90, kinds=("pos", "err"), ops=("hit", "write"), maxops=100000, maxenv=100000))
