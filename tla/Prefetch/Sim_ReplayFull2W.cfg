CONSTANTS
  Keys = {"a", "b", "c"}
  ScopedKeys = {}
  Clients = {1, 2}
  Workers = {1, 2}
  QCap = 1
  MaxId = 12
  RawTTLs = {10}
  Leases = {0, 12}
  Ticks = {}
  Horizon = 0
  Thr = 90
  EcsCap = 6
  Routes = {"msg", "wire"}
  Kinds = {"pos", "err"}
  OpSet = {"hit", "write", "purge"}
  MaxOps = 12
  MaxEnv = 6
  Atomic = TRUE
  Eager = TRUE
  CasBug = FALSE
  CutBug = FALSE
  ScopeBug = FALSE
  DropBug = FALSE
  KeepClientEcs = TRUE
  InternalAllowed = TRUE
INIT Init
NEXT Next
CHECK_DEADLOCK FALSE
