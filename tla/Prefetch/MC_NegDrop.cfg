CONSTANTS
  Keys = {"a", "b"}
  ScopedKeys = {}
  Clients = {1, 2}
  Workers = {1}
  QCap = 1
  MaxId = 3
  RawTTLs = {10}
  Leases = {0}
  Ticks = {}
  Horizon = 0
  Thr = 90
  EcsCap = 0
  Routes = {"msg"}
  Kinds = {"pos"}
  OpSet = {"hit", "write"}
  MaxOps = 2
  MaxEnv = 2
  Atomic = FALSE
  Eager = FALSE
  CasBug = FALSE
  CutBug = FALSE
  ScopeBug = FALSE
  DropBug = TRUE
  KeepClientEcs = TRUE
  InternalAllowed = TRUE
SPECIFICATION Spec
INVARIANTS TypeOK SingleFlight NoOrphanClaim Eligible LateWriteLoses RefreshWithinGrant ServedLive TTLMonotone StopDrains
PROPERTIES StoppedIsFinal
CHECK_DEADLOCK FALSE
