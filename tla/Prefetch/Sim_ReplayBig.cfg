CONSTANTS
  Keys = {"a", "b", "c", "s"}
  ScopedKeys = {"s"}
  Clients = {1, 2}
  Workers = {1, 2}
  QCap = 2
  MaxId = 14
  RawTTLs = {2, 10, 30, 200000}
  Leases = {0, 4, 12, 40}
  Ticks = {2, 3, 6, 11}
  Horizon = 90
  Thr = 50
  EcsCap = 6
  Routes = {"msg", "msgw", "wire", "ecs"}
  Kinds = {"pos", "neg", "servfail", "err", "nil"}
  OpSet = {"hit", "miss", "write", "purge", "tick"}
  MaxOps = 12
  MaxEnv = 8
  Atomic = TRUE
  Eager = TRUE
  CasBug = FALSE
  CutBug = FALSE
  ScopeBug = FALSE
  DropBug = FALSE
  KeepClientEcs = TRUE
  InternalAllowed = TRUE
INIT Init
NEXT Next
CHECK_DEADLOCK FALSE
