CONSTANTS
  Keys = {"a"}
  ScopedKeys = {}
  Clients = {1, 2}
  Workers = {1, 2}
  QCap = 1
  MaxId = 2
  RawTTLs = {10}
  Leases = {0}
  Ticks = {}
  Horizon = 0
  Thr = 90
  EcsCap = 0
  Routes = {"msg"}
  Kinds = {"pos", "err"}
  OpSet = {"hit", "write", "stop"}
  MaxOps = 2
  MaxEnv = 1
  Atomic = FALSE
  Eager = FALSE
  CasBug = FALSE
  CutBug = FALSE
  ScopeBug = FALSE
  DropBug = FALSE
  KeepClientEcs = TRUE
  InternalAllowed = TRUE
SPECIFICATION FairSpec
INVARIANTS TypeOK
PROPERTIES ClaimReleased StopCompletes
CHECK_DEADLOCK FALSE
