CONSTANTS
  Keys = {"a"}
  ScopedKeys = {}
  Clients = {1}
  Workers = {1}
  QCap = 1
  MaxId = 3
  RawTTLs = {2, 10}
  Leases = {0, 4}
  Ticks = {3, 6}
  Horizon = 12
  Thr = 50
  EcsCap = 6
  Routes = {"msg"}
  Kinds = {"pos", "err"}
  OpSet = {"hit", "miss", "write", "tick"}
  MaxOps = 4
  MaxEnv = 1
  Atomic = TRUE
  Eager = TRUE
  CasBug = FALSE
  CutBug = FALSE
  ScopeBug = FALSE
  DropBug = FALSE
  KeepClientEcs = TRUE
  InternalAllowed = TRUE
SPECIFICATION Spec
INVARIANTS TypeOK SingleFlight NoOrphanClaim Eligible LateWriteLoses RefreshWithinGrant ServedLive TTLMonotone StopDrains
PROPERTIES StoppedIsFinal
CHECK_DEADLOCK FALSE
