CONSTANTS
  MaxMoves = 1
  F <- F_noquestion_s
  PreSet <- AllPre
  KindSet <- AllKinds
  Deep = FALSE
  RaceSet <- NoRace
INIT Init
NEXT Next
INVARIANTS VictimTruth
CHECK_DEADLOCK FALSE
