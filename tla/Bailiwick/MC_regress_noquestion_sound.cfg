CONSTANTS
  MaxMoves = 1
  F <- F_noquestion_s
  PreSet <- AllPre
  KindSet <- AllKinds
INIT Init
NEXT Next
INVARIANTS VictimTruth
CHECK_DEADLOCK FALSE
