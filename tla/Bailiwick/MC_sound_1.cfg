CONSTANTS
  MaxMoves = 1
  F <- F_sound
  PreSet <- AllPre
  KindSet <- AllKinds
  Deep = FALSE
  RaceSet <- NoRace
INIT Init
NEXT Next
INVARIANTS TypeOK Containment
CHECK_DEADLOCK FALSE
