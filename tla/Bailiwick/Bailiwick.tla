------------------------------ MODULE Bailiwick ------------------------------
(***************************************************************************)
(* C07 -- authoritative data is trusted only inside the sender's bailiwick. *)
(*                                                                         *)
(* A zone tree   test. -> { bank.test. (victim, honest server),             *)
(*                          attacker.test. = Z (adversarial server)         *)
(*                            -> sub1 / sub2 .attacker.test. (children) }   *)
(* and the resolver's descent, one action per step of the code:            *)
(*   ClientQuery(m)     a client asks the trigger name of move m           *)
(*   AskZone            Resolver.lookup/exchange: dial the zone's servers   *)
(*   AcceptReply        dnsclient.Conn.Exchange: ID loop on UDP, strict ID  *)
(*                      on streams, QuestionMatches; retry udp, udp, tcp    *)
(*   Classify           Resolver.resolve: answer / authority / empty        *)
(*   ExtractDelegation  extractDelegationInfo (first NS anchors the set)    *)
(*   ValidReferral      validReferral + progressingReferral + the parent-   *)
(*                      detection level test of processDelegation           *)
(*   CheckGlue          checkGlueRR + usableAddr + lookupV4Nss; the branch  *)
(*                      taken when the delegation is already cached is      *)
(*                      resolveWithCachedNameservers                        *)
(*   ConcurrentCold     another client's cold query below the same cut      *)
(*                      finishes while this one waits for the parent: the   *)
(*                      delegation is in the cache when processDelegation   *)
(*                      looks (history, not input: move field `race`)       *)
(*   ResolverAnswer     Resolver.answer + clearAdditional                   *)
(*   ChaseAlias         cache.additionalAnswer                              *)
(*   FilterCacheable    cache.filterCacheableAnswer                         *)
(*   CacheStore         Store.setFromResponseWithKey                        *)
(*   ClientReply, RepeatQuery (same question again: the cache-hit path),    *)
(*   VictimQuery        later queries for the victim names                  *)
(*                                                                         *)
(* The adversary's move per exchange is the parameter of ClientQuery: Z's   *)
(* server plays script[i] whenever it is asked the i-th trigger name (or    *)
(* anything below the i-th child cut), on every retry.  A move is           *)
(*   pre  : datagrams ahead of the real reply -- wrong ID, wrong question   *)
(*          (right ID), both; or "tcpwrongid": truncate on UDP and answer   *)
(*          the TCP retry under a foreign ID;                               *)
(*   kind : what the real reply carries (AnsKinds, RefKinds below);         *)
(*   glue : for a coherent progressing referral, whose address rides along. *)
(* MC_Bailiwick.Emit prints every finished script with the replies the      *)
(* model predicts (Outcome); harness/c07 plays it on the real pipeline.     *)
(*                                                                         *)
(* F is a record of switches, one per filter of the code; F_sound has all   *)
(* of them on.  The pinned code has no owner filter on the answer section   *)
(* (Resolver.answer hands resp.Answer down as received, additionalAnswer    *)
(* returns as soon as *any* record has the query type): F_asis.             *)
(*                                                                         *)
(* Deliberate deviations (named):                                           *)
(*  D1 root and test. are honest and static: the descent starts at test.    *)
(*  D2 sub-resolutions that end in an honest zone (alias target, victim     *)
(*     queries) are one atomic step SubResolve: honest servers cannot lie,  *)
(*     so the only way they go wrong is a poisoned delegation cache, which  *)
(*     SubResolve consults.                                                 *)
(*  D3 NS-address lookups for hosts below Z are not expanded (Z publishes   *)
(*     no address for them outside the glue it chose to send).              *)
(*  D4 DNSSEC is off / the client sets CD: validation never masks a filter. *)
(*  D5 when several servers are raced the adversarial one wins.             *)
(*  D6 the full query name goes to every server (qname minimisation off,    *)
(*     or fallen back, Resolver.minimize returning the request unchanged).  *)
(*     With minimisation the code walks label by label, `level` is exact at *)
(*     every referral and the glue bailiwick is never wider than the asked  *)
(*     zone; the replay runs every script both ways.                        *)
(*                                                                         *)
(* `level` is resolveState.level, the resolver's count of the labels of the *)
(* zone it is asking.  checkGlueRR derives the glue bailiwick from it (the  *)
(* level-label suffix of the name on the wire), processDelegation's parent  *)
(* detection compares it with the referral owner.  Deep = TRUE puts Z and   *)
(* the victim zone TWO labels below test. (attacker.co.test., bank.co.test.;*)
(* co.test. is an empty non-terminal of test., as co.uk is on uk's servers) *)
(* so that one referral descends more than one label.                       *)
(***************************************************************************)
EXTENDS Naturals, Sequences, FiniteSets, TLC

CONSTANTS MaxMoves,   \* moves per script
          F,          \* filter switches (see MC_Bailiwick)
          PreSet, KindSet,
          Deep,       \* BOOLEAN: Z and the victim zone sit two labels below test. (one referral descends two labels)
          RaceSet     \* values the move field `race` may take (a subset of BOOLEAN)

-----------------------------------------------------------------------------
(* names are label tuples, root first *)
IsSub(c, p)    == Len(p) <= Len(c) /\ SubSeq(c, 1, Len(p)) = p
TestZ  == <<"test">>
Mid    == IF Deep THEN <<"co">> ELSE <<>>
BankZ  == TestZ \o Mid \o <<"bank">>
AttZ   == TestZ \o Mid \o <<"attacker">>
ShopZ  == <<"test", "shop">>            \* an unrelated zone whose only nameserver is the victim zone's host, delegated WITHOUT glue
SubL   == <<"sub1", "sub2">>
WL     == <<"w1", "w2">>
SubZ(i)  == AttZ \o <<SubL[i]>>
SubNs(i) == SubZ(i) \o <<"ns">>
SubH(i)  == SubZ(i) \o <<"h">>
W(i)     == AttZ \o <<WL[i]>>
OffPath  == AttZ \o <<"zzz">>
TrapHost == AttZ \o <<"nstrap">>
Victim   == BankZ \o <<"victim">>
NoHost   == BankZ \o <<"nohost">>
WwwBank  == BankZ \o <<"www">>
NsBank   == BankZ \o <<"ns">>
NsAtt    == AttZ \o <<"ns">>
WwwShop  == ShopZ \o <<"www">>
NoName   == <<>>

DelegZones == {TestZ, BankZ, AttZ, SubZ(1), SubZ(2), OffPath, ShopZ}
Hosts      == {NsBank, NsAtt, SubNs(1), SubNs(2), TrapHost}
\* the shop query goes first: a referral to the victim zone carries the honest glue for its host and would refresh
\* the glue cache (victim queries are atomic here, D2, and do not model that)
VictimQs   == <<WwwShop, Victim, NoHost, WwwBank, NsBank>>

(* addresses *)
Trap       == "a_trap"
Unroutable == {"a_loop", "a_local"}      \* 127.0.0.1, an address of a local interface
HonestAddr == [z \in {TestZ, BankZ, AttZ, SubZ(1), SubZ(2)} |->
                 CASE z = TestZ -> "a_test" [] z = BankZ -> "a_bank" [] z = AttZ -> "a_att"
                   [] z = SubZ(1) -> "a_sub1" [] OTHER -> "a_sub2"]
ZoneOfAddr(a) == CHOOSE z \in DOMAIN HonestAddr : HonestAddr[z] = a
TrueServers(z) == IF z = ShopZ THEN {"a_bank"}       \* shop.test. is hosted on the bank's server
                  ELSE IF z \in DOMAIN HonestAddr THEN {HonestAddr[z]} ELSE {}

(* records; `by` is a ghost: the zone whose server put the record on the wire *)
RR(o, t, d, tn, c, by) == [o |-> o, t |-> t, d |-> d, tn |-> tn, c |-> c, by |-> by]
A(o, d, by)     == RR(o, "A", d, NoName, "IN", by)
NS(o, h, by)    == RR(o, "NS", "", h, "IN", by)
CNAME(o, t, by) == RR(o, "CNAME", "", t, "IN", by)
SOA(o, by)      == RR(o, "SOA", "", NoName, "IN", by)
Msg(rc, ans, auth, add) == [rc |-> rc, ans |-> ans, auth |-> auth, add |-> add]
NoMsg == Msg("NONE", <<>>, <<>>, <<>>)

Foreign(r) == r.by = "att" /\ ~IsSub(r.o, AttZ)   \* sent by Z's server, owned outside Z

-----------------------------------------------------------------------------
(* the adversary's alphabet *)
RefKinds == {"ref_ok", "ref_self", "ref_up", "ref_side", "ref_mixed", "ref_mixed2",
             "ref_class", "ref_offpath"}
\* "dname_out" is "cname_out" reached through a DNAME at Z's apex: the answer carries the DNAME, the CNAME synthesised
\* from it and a forged record for the (out-of-zone) target; the model's records have no DNAME type, so the abstract
\* message is the same alias with an out-of-zone tail (the resolver trims the answer on a separate branch when a DNAME applies)
AnsKinds == {"honest", "ans_foreign", "cname_out", "dname_out", "cname_bare", "auth_foreign", "neg_foreign"}
\* "out6" is "out" with the glue given as an AAAA record (the resolver checks the two families in separate
\* branches; the model's address records have no family, so the abstract message is the same)
GlueKinds == {"in", "out", "out6", "loop", "local"}
\* race = TRUE: while the attack query waits for test.'s referral to Z, another client's cold query below Z
\* completes and caches Z's delegation (ConcurrentCold).  It matters only while Z is not cached yet.
Moves == {m \in [pre : PreSet, kind : KindSet, glue : GlueKinds \cup {"na"}, race : RaceSet] :
             (m.kind = "ref_ok") = (m.glue # "na")}
Trigger(i, kind) == IF kind \in RefKinds THEN SubH(i) ELSE W(i)

PoisonV == A(Victim, "poison", "att")
TrapGlue == A(TrapHost, Trap, "att")

(* what Z's server sends for move m (the i-th of the script) *)
ZContent(i, m) ==
  LET w == A(W(i), "t_w", "att")
      goodNS == NS(SubZ(i), SubNs(i), "att")
      goodGlue == A(SubNs(i), HonestAddr[SubZ(i)], "att")
  IN CASE m.kind = "honest"       -> Msg("OK", <<w>>, <<>>, <<>>)
       [] m.kind = "ans_foreign"  -> Msg("OK", <<w, PoisonV>>, <<>>, <<>>)
       [] m.kind \in {"cname_out", "dname_out"} -> Msg("OK", <<CNAME(W(i), Victim, "att"), PoisonV>>, <<>>, <<>>)
       [] m.kind = "cname_bare"   -> Msg("OK", <<CNAME(W(i), Victim, "att")>>, <<>>, <<>>)
       [] m.kind = "auth_foreign" -> Msg("OK", <<w>>, <<NS(BankZ, TrapHost, "att")>>, <<TrapGlue, PoisonV>>)
       [] m.kind = "neg_foreign"  -> Msg("OK", <<>>, <<SOA(BankZ, "att")>>, <<PoisonV>>)
       [] m.kind = "ref_ok" ->
            CASE m.glue = "in"    -> Msg("OK", <<>>, <<goodNS>>, <<goodGlue>>)
              [] m.glue \in {"out", "out6"} -> Msg("OK", <<>>, <<NS(SubZ(i), NsBank, "att")>>, <<A(NsBank, Trap, "att")>>)
              [] m.glue = "loop"  -> Msg("OK", <<>>, <<goodNS>>, <<A(SubNs(i), "a_loop", "att")>>)
              [] OTHER            -> Msg("OK", <<>>, <<goodNS>>, <<A(SubNs(i), "a_local", "att")>>)
       [] m.kind = "ref_self"     -> Msg("OK", <<>>, <<NS(AttZ, TrapHost, "att")>>, <<TrapGlue>>)
       [] m.kind = "ref_up"       -> Msg("OK", <<>>, <<NS(TestZ, TrapHost, "att")>>, <<TrapGlue>>)
       [] m.kind = "ref_side"     -> Msg("OK", <<>>, <<NS(BankZ, TrapHost, "att")>>, <<TrapGlue>>)
       [] m.kind = "ref_mixed"    -> Msg("OK", <<>>, <<goodNS, NS(BankZ, TrapHost, "att")>>, <<goodGlue, TrapGlue>>)
       [] m.kind = "ref_mixed2"   -> Msg("OK", <<>>, <<NS(BankZ, TrapHost, "att"), goodNS>>, <<goodGlue, TrapGlue>>)
       [] m.kind = "ref_class"    -> Msg("OK", <<>>, <<RR(SubZ(i), "NS", "", TrapHost, "CH", "att")>>, <<TrapGlue>>)
       [] OTHER (* ref_offpath *) -> Msg("OK", <<>>, <<NS(OffPath, TrapHost, "att")>>, <<TrapGlue>>)

(* a datagram: does its ID match, which question does it echo, what does it carry *)
Dgram(idok, q, m) == [idok |-> idok, q |-> q, m |-> m]
PreDgrams(pre, q) ==
  CASE pre = "wrongid"  -> <<Dgram(FALSE, q, Msg("OK", <<A(q, "spoof", "att")>>, <<>>, <<>>))>>
    [] pre = "wrongq"   -> <<Dgram(TRUE, Victim, Msg("OK", <<A(Victim, "spoof", "att")>>, <<>>, <<>>))>>
    [] pre = "wrongidq" -> <<Dgram(FALSE, Victim, Msg("OK", <<A(Victim, "spoof", "att")>>, <<>>, <<>>))>>
    \* right ID, TWO questions: the victim's first, the outstanding one second.  The question section of a
    \* reply is the outstanding question and nothing else, so this is one more wrong question ("Victim+q")
    [] pre = "twoq"     -> <<Dgram(TRUE, <<"victim+q">>, Msg("OK", <<A(Victim, "spoof", "att")>>, <<>>, <<>>))>>
    \* a RUN of wrong-ID datagrams echoing the right question ahead of the genuine reply (the driver sends twelve):
    \* however many there are, none of them is the reply
    [] pre = "flood"    -> LET d == Dgram(FALSE, q, Msg("OK", <<A(q, "spoof", "att")>>, <<>>, <<>>)) IN <<d, d, d>>
    [] OTHER            -> <<>>

-----------------------------------------------------------------------------
(* honest zone data *)
BankAnswer(n) ==
  CASE n = Victim  -> Msg("OK", <<A(Victim, "t_victim", "bank")>>, <<>>, <<>>)
    [] n = WwwBank -> Msg("OK", <<A(WwwBank, "t_www", "bank")>>, <<>>, <<>>)
    [] n = NsBank  -> Msg("OK", <<A(NsBank, "a_bank", "bank")>>, <<>>, <<>>)
    [] OTHER       -> Msg("NXDOMAIN", <<>>, <<SOA(BankZ, "bank")>>, <<>>)
ShopAnswer(n) ==
  IF n = WwwShop THEN Msg("OK", <<A(WwwShop, "t_shop", "bank")>>, <<>>, <<>>)
  ELSE Msg("NXDOMAIN", <<>>, <<SOA(ShopZ, "bank")>>, <<>>)
Truth(n) == IF IsSub(n, ShopZ) THEN ShopAnswer(n) ELSE BankAnswer(n)
HonestReply(z, n) ==
  CASE z = TestZ /\ IsSub(n, ShopZ) -> Msg("OK", <<>>, <<NS(ShopZ, NsBank, "test")>>, <<>>)   \* glue-less
    [] z = BankZ /\ IsSub(n, ShopZ) -> ShopAnswer(n)
    [] z = TestZ /\ IsSub(n, BankZ) -> Msg("OK", <<>>, <<NS(BankZ, NsBank, "test")>>, <<A(NsBank, "a_bank", "test")>>)
    [] z = TestZ /\ IsSub(n, AttZ)  -> Msg("OK", <<>>, <<NS(AttZ, NsAtt, "test")>>, <<A(NsAtt, "a_att", "test")>>)
    [] z = BankZ /\ IsSub(n, BankZ) -> BankAnswer(n)
    [] z \in {SubZ(1), SubZ(2)} /\ IsSub(n, z) ->
         IF n = z \o <<"h">> THEN Msg("OK", <<A(n, "t_h", "sub")>>, <<>>, <<>>)
         ELSE Msg("NXDOMAIN", <<>>, <<SOA(z, "sub")>>, <<>>)
    [] OTHER -> Msg("REFUSED", <<>>, <<>>, <<>>)

-----------------------------------------------------------------------------
VARIABLES
  script,    \* moves played so far
  pc, task, zone, srv, tries, tcp, depth, inbox, msg, info, out, hit, tostore,
  level,     \* resolveState.level: how many labels the resolver believes the asked zone has
  deleg,     \* Resolver.delegations: zone -> server addresses ({} = absent)
  glue,      \* Resolver.glueV4: host -> addresses
  cache,     \* answer cache: set of [qn, rc, rrs]
  replies,   \* client-visible replies so far
  vq, vres,  \* victim queries
  \* ghosts (never read by the resolver actions)
  dialled, bankLog, acceptedBad, usedGlue, acceptedRefs, usedForeign

vars == <<script, pc, task, zone, srv, tries, tcp, depth, inbox, msg, info, out, hit, tostore, level, deleg, glue,
          cache, replies, vq, vres, dialled, bankLog, acceptedBad, usedGlue, acceptedRefs, usedForeign>>

NoTask == [qn |-> NoName, sq |-> NoName, kind |-> "none", i |-> 0]
NoInfo == [owner |-> NoName, class |-> "IN", hosts |-> {}, incoherent |-> FALSE, hasSOA |-> FALSE, hasNS |-> FALSE]
NoOut  == [rc |-> "NONE", ans |-> <<>>]

Init ==
  /\ script = <<>> /\ pc = "idle" /\ task = NoTask /\ zone = TestZ /\ srv = {} /\ tries = 0 /\ tcp = FALSE /\ depth = 0
  /\ inbox = <<>> /\ msg = NoMsg /\ info = NoInfo /\ out = NoOut /\ hit = FALSE /\ tostore = <<>> /\ level = 1
  /\ deleg = [z \in DelegZones |-> IF z = TestZ THEN {"a_test"} ELSE {}]
  /\ glue = [h \in Hosts |-> {}]
  /\ cache = {} /\ replies = <<>> /\ vq = 1 /\ vres = <<>>
  /\ dialled = {} /\ bankLog = {} /\ acceptedBad = FALSE /\ usedGlue = {} /\ acceptedRefs = {}
  /\ usedForeign = FALSE

(* Resolver.searchCache: the deepest cached delegation covering the name *)
Covering(n) == {z \in DelegZones : deleg[z] # {} /\ IsSub(n, z)}
StartZone(n) == CHOOSE z \in Covering(n) : \A y \in Covering(n) : Len(y) <= Len(z)
CacheHit(n) == {e \in cache : e.qn = n}

Begin(n, kind, i) ==
  /\ task' = [qn |-> n, sq |-> n, kind |-> kind, i |-> i]
  /\ zone' = StartZone(n) /\ srv' = deleg[StartZone(n)] /\ tries' = 0 /\ tcp' = FALSE /\ depth' = 3
  /\ level' = Len(StartZone(n))          \* searchCache: CompareSuffix(origin, cached zone)
  /\ msg' = NoMsg /\ info' = NoInfo /\ out' = NoOut /\ hit' = FALSE /\ tostore' = <<>> /\ inbox' = <<>>
  /\ pc' = "ask"

ClientQuery(m) ==
  /\ pc = "idle" /\ Len(script) < MaxMoves /\ m \in Moves
  /\ script' = Append(script, m)
  /\ Begin(Trigger(Len(script) + 1, m.kind), "attack", Len(script) + 1)
  /\ UNCHANGED <<deleg, glue, cache, replies, vq, vres, dialled, bankLog, acceptedBad, usedGlue,
                 acceptedRefs, usedForeign>>

(* which move does Z's server play for a question name *)
MoveFor(n) == {i \in 1..Len(script) :
                 \/ n = Trigger(i, script[i].kind)
                 \/ script[i].kind \in RefKinds /\ IsSub(n, SubZ(i))}

(* Resolver.lookup / exchange: every listed server is dialled; who answers *)
AskZone ==
  /\ pc = "ask"
  /\ dialled' = dialled \cup srv
  /\ LET n == task.qn
         honest == srv \ ({Trap} \cup Unroutable)
     IN IF Trap \in srv
        THEN \* D5: the adversary's second server answers anything
             /\ inbox' = <<Dgram(TRUE, n, Msg("OK", <<A(n, "poison", "att")>>, <<>>, <<>>))>>
             /\ pc' = "recv" /\ UNCHANGED bankLog
        ELSE IF honest = {} THEN /\ pc' = "fail" /\ UNCHANGED <<inbox, bankLog>>
        ELSE LET a == CHOOSE x \in honest : TRUE
                 z == ZoneOfAddr(a)
             IN /\ bankLog' = IF z = BankZ THEN bankLog \cup {n} ELSE bankLog
                /\ pc' = "recv"
                /\ IF z = AttZ
                   THEN IF MoveFor(n) = {}
                        THEN inbox' = <<Dgram(TRUE, n, Msg("NXDOMAIN", <<>>, <<SOA(AttZ, "att")>>, <<>>))>>
                        ELSE LET i == CHOOSE j \in MoveFor(n) : TRUE
                                 pre == script[i].pre
                                 real == Dgram(TRUE, n, ZContent(i, script[i]))
                             IN \* pre-datagrams travel on UDP only; "tcpwrongid" truncates on UDP and
                                \* answers the TCP retry with a foreign ID (strict ID on streams)
                                inbox' = IF pre = "tcpwrongid"
                                         THEN IF ~tcp THEN <<Dgram(TRUE, n, Msg("TC", <<>>, <<>>, <<>>))>>
                                              ELSE <<Dgram(FALSE, n, Msg("OK", <<A(n, "spoof", "att")>>, <<>>, <<>>))>>
                                         ELSE IF ~tcp THEN PreDgrams(pre, n) \o <<real>> ELSE <<real>>
                   ELSE inbox' = <<Dgram(TRUE, n, HonestReply(z, n))>>
  /\ UNCHANGED <<script, level, task, zone, srv, tries, tcp, depth, msg, info, out, hit, tostore, deleg, glue, cache,
                 replies, vq, vres, acceptedBad, usedGlue, acceptedRefs, usedForeign>>

(* dnsclient.Conn.Exchange + the retry policy of Resolver.exchange (udp, udp, tcp; a    *)
(* truncated UDP reply moves the same attempt to TCP)                                  *)
Retry == IF tries < 2 THEN /\ tries' = tries + 1 /\ tcp' = (tcp \/ tries = 1) /\ pc' = "ask"
         ELSE /\ pc' = "fail" /\ UNCHANGED <<tries, tcp>>
AcceptReply ==
  /\ pc = "recv"
  /\ LET \* UDP: skip datagrams whose ID does not match, take the first that does;
         \* TCP: the one message on the stream must carry the ID
         idCheck == IF tcp THEN F.StreamIdCheck ELSE F.IdCheck
         cand == {k \in 1..Len(inbox) : inbox[k].idok \/ ~idCheck}
     IN IF cand = {} THEN /\ Retry /\ UNCHANGED <<msg, acceptedBad, task>>   \* dns.ErrId / read deadline
        ELSE LET k == CHOOSE x \in cand : \A y \in cand : x <= y
                 d == inbox[k]
             IN IF F.QuestionCheck /\ d.q # task.qn
                THEN /\ Retry /\ UNCHANGED <<msg, acceptedBad, task>>        \* ErrQuestion
                ELSE IF d.m.rc = "TC" /\ ~tcp
                THEN /\ tcp' = TRUE /\ pc' = "ask" /\ UNCHANGED <<msg, acceptedBad, task, tries>>
                ELSE /\ msg' = d.m /\ pc' = "classify" /\ UNCHANGED <<tries, tcp>>
                     /\ task' = [task EXCEPT !.sq = d.q]   \* the cache keys on the accepted message's question
                     /\ acceptedBad' = (acceptedBad \/ ~d.idok \/ d.q # task.qn)
  /\ inbox' = <<>>
  /\ UNCHANGED <<script, level, zone, srv, depth, info, out, hit, tostore, deleg, glue, cache, replies, vq,
                 vres, dialled, bankLog, usedGlue, acceptedRefs, usedForeign>>

(* Resolver.resolve *)
Classify ==
  /\ pc = "classify"
  /\ IF msg.rc # "OK" /\ msg.ans = <<>> /\ msg.auth = <<>>
     THEN /\ out' = [rc |-> IF msg.rc = "REFUSED" THEN "SERVFAIL" ELSE msg.rc, ans |-> <<>>]   \* handler: REFUSED -> SERVFAIL
          /\ pc' = "reply"
     ELSE IF msg.ans # <<>> THEN pc' = "answer" /\ UNCHANGED out
     ELSE IF msg.auth # <<>> THEN pc' = "authority" /\ UNCHANGED out
     ELSE out' = [rc |-> "OK", ans |-> <<>>] /\ pc' = "filter"
  /\ UNCHANGED <<script, level, task, zone, srv, tries, tcp, depth, inbox, msg, info, hit, tostore, deleg, glue, cache,
                 replies, vq, vres, dialled, bankLog, acceptedBad, usedGlue, acceptedRefs, usedForeign>>

(* extractDelegationInfo: the first NS anchors owner and class *)
NSIdx == {k \in 1..Len(msg.auth) : msg.auth[k].t = "NS"}
ExtractDelegation ==
  /\ pc = "authority"
  /\ LET soa == \E k \in 1..Len(msg.auth) : msg.auth[k].t = "SOA"
     IN IF NSIdx = {}
        THEN /\ info' = [NoInfo EXCEPT !.hasSOA = soa]
             /\ out' = [rc |-> msg.rc, ans |-> <<>>] /\ pc' = "filter"   \* Resolver.authority: a negative answer
        ELSE LET f == msg.auth[CHOOSE x \in NSIdx : \A y \in NSIdx : x <= y]
                 same == {k \in NSIdx : msg.auth[k].o = f.o /\ msg.auth[k].c = f.c}
             IN /\ info' = [owner |-> f.o, class |-> f.c, hosts |-> {msg.auth[k].tn : k \in same},
                            incoherent |-> (same # NSIdx), hasSOA |-> soa, hasNS |-> TRUE]
                /\ IF soa THEN out' = [rc |-> msg.rc, ans |-> <<>>] /\ pc' = "filter"
                   ELSE pc' = "referral" /\ UNCHANGED out
  /\ UNCHANGED <<script, level, task, zone, srv, tries, tcp, depth, inbox, msg, hit, tostore, deleg, glue, cache,
                 replies, vq, vres, dialled, bankLog, acceptedBad, usedGlue, acceptedRefs, usedForeign>>

(* validReferral / progressingReferral, then processDelegation's level test *)
Progressing(owner, asked, qn) == IsSub(owner, asked) /\ owner # asked /\ IsSub(qn, owner)
ValidReferral ==
  /\ pc = "referral"
  /\ LET ok == /\ (F.Coherent => ~info.incoherent)
               /\ (F.ClassCheck => info.class = "IN")
               /\ (F.Progress => Progressing(info.owner, zone, task.qn))
               /\ (F.ParentDetect => Len(info.owner) >= level)   \* processDelegation: rs.level > nlevel is errParentDetection
     IN IF ok
        THEN /\ pc' = "glue"
             /\ acceptedRefs' = acceptedRefs \cup
                  {[coherent |-> ~info.incoherent, classIN |-> info.class = "IN",
                    below |-> IsSub(info.owner, zone) /\ info.owner # zone,
                    onpath |-> IsSub(task.qn, info.owner)]}
        ELSE pc' = "fail" /\ UNCHANGED acceptedRefs
  /\ UNCHANGED <<script, level, task, zone, srv, tries, tcp, depth, inbox, msg, info, out, hit, tostore, deleg, glue,
                 cache, replies, vq, vres, dialled, bankLog, acceptedBad, usedGlue, usedForeign>>

(* checkGlueRR + usableAddr; lookupV4Nss for hosts without usable glue *)
\* checkGlueRR(resp, hosts, rs.level): the bailiwick is the suffix of the name on the wire that has `level` labels
\* (dns.PrevLabel(qname, level)); it is the asked zone exactly when level counts that zone's labels.  (D6: the
\* name on the wire is the full query name.)
Bailiwick == SubSeq(task.qn, 1, level)
GlueOK(r) == /\ r.t = "A" /\ r.o \in info.hosts
             /\ (F.GlueBailiwick => IsSub(r.o, Bailiwick))
             /\ (F.GlueRoutable => r.d \notin Unroutable)
(* lookupNSAddrV4: glue cache, else an internal resolution (D2/D3) *)
HostAddrs(h) == IF h \in Hosts /\ glue[h] # {} THEN glue[h]
                ELSE IF h = NsBank /\ Trap \notin deleg[BankZ] /\ Trap \notin deleg[TestZ] THEN {"a_bank"}
                ELSE {}
(* The window between searchCache (Begin) and processDelegation's look into the delegation cache: the attack  *)
(* query of a move with race = TRUE has test.'s referral to Z in hand, Z is not cached -- and another client's *)
(* cold query for a name below Z (not a trigger: Z's server answers it honestly) gets there first and caches   *)
(* Z's delegation with test.'s in-bailiwick glue.  Nothing between Begin and CheckGlue reads the delegation     *)
(* cache, so taking the step at pc = "glue" covers every earlier interleaving; CheckGlue waits for it, which    *)
(* keeps one script = one behaviour.                                                                           *)
RacePending == /\ pc = "glue" /\ task.kind = "attack" /\ script[task.i].race
               /\ zone = TestZ /\ info.owner = AttZ /\ deleg[AttZ] = {}
ConcurrentCold ==
  /\ RacePending
  /\ deleg' = [deleg EXCEPT ![AttZ] = {"a_att"}]
  /\ glue' = [glue EXCEPT ![NsAtt] = {"a_att"}]
  /\ dialled' = dialled \cup {"a_test", "a_att"}
  /\ UNCHANGED <<script, level, pc, task, zone, srv, tries, tcp, depth, inbox, msg, info, out, hit, tostore, cache,
                 replies, vq, vres, bankLog, acceptedBad, usedGlue, acceptedRefs, usedForeign>>

CheckGlue ==
  /\ pc = "glue" /\ ~RacePending
  /\ LET owner == info.owner
         dz == owner \in DelegZones
     IN IF depth = 0 THEN pc' = "fail" /\ UNCHANGED <<zone, srv, tries, tcp, depth, deleg, glue, usedGlue, level>>   \* errMaxDepth
        ELSE IF dz /\ deleg[owner] # {}
        THEN \* resolveWithCachedNameservers: the pinned code does rs.level++ here, the fresh path below does
             \* rs.level = nlevel; the two agree only when the referral descends exactly one label
             /\ zone' = owner /\ srv' = deleg[owner] /\ pc' = "ask" /\ tries' = 0 /\ tcp' = FALSE /\ depth' = depth - 1
             /\ level' = IF F.CachedLevel THEN Len(owner) ELSE level + 1
             /\ UNCHANGED <<deleg, glue, usedGlue>>
        ELSE LET used == {k \in 1..Len(msg.add) : GlueOK(msg.add[k])}
                 found == {msg.add[k].o : k \in used}
                 fromGlue == {msg.add[k].d : k \in used}
                 looked == UNION {HostAddrs(h) : h \in info.hosts \ found}
                 servers == fromGlue \cup looked
             IN /\ glue' = [h \in Hosts |-> IF h \in found
                                            THEN {msg.add[k].d : k \in {x \in used : msg.add[x].o = h}}
                                            ELSE glue[h]]
                /\ usedGlue' = usedGlue \cup {[host |-> msg.add[k].o, addr |-> msg.add[k].d, zone |-> zone] : k \in used}
                /\ IF servers = {} THEN pc' = "fail" /\ UNCHANGED <<zone, srv, tries, tcp, depth, deleg, level>>
                   ELSE /\ deleg' = IF dz THEN [deleg EXCEPT ![owner] = servers] ELSE deleg
                        /\ level' = Len(owner)                      \* rs.level = nlevel
                        /\ zone' = owner /\ srv' = servers /\ tries' = 0 /\ tcp' = FALSE /\ depth' = depth - 1 /\ pc' = "ask"
  /\ UNCHANGED <<script, task, inbox, msg, info, out, hit, tostore, cache, replies, vq, vres, dialled,
                 bankLog, acceptedBad, acceptedRefs, usedForeign>>

(* Resolver.answer: the answer section goes down as received; clearAdditional *)
ResolverAnswer ==
  /\ pc = "answer"
  /\ out' = [rc |-> "OK",
             ans |-> IF F.AnswerOwnerFilter THEN SelectSeq(msg.ans, LAMBDA r : IsSub(r.o, zone)) ELSE msg.ans]
  /\ msg' = IF F.ClearAdditional THEN [msg EXCEPT !.auth = <<>>, !.add = <<>>] ELSE msg
  /\ pc' = "chase"
  /\ UNCHANGED <<script, level, task, zone, srv, tries, tcp, depth, inbox, info, hit, tostore, deleg, glue, cache, replies,
                 vq, vres, dialled, bankLog, acceptedBad, usedGlue, acceptedRefs, usedForeign>>

(* D2: an internal query for a name of an honest zone, through cache and delegations *)
\* shop.test. is delegated without glue: its servers are whatever lookupNSAddrV4 finds for the NS host -- the glue
\* cache first (HostAddrs), so an address planted there for ns.bank... is where shop.test.'s queries go
ShopNs == IF deleg[ShopZ] # {} THEN deleg[ShopZ] ELSE HostAddrs(NsBank)
Poisoned(n) == \/ \E z \in Covering(n) : Trap \in deleg[z]
               \/ IsSub(n, ShopZ) /\ Trap \in ShopNs
Unreach(n)  == IsSub(n, ShopZ) /\ ~Poisoned(n) /\ ShopNs = {}     \* errNoReachableAuth
SubAns(n)  == IF CacheHit(n) # {} THEN (CHOOSE e \in CacheHit(n) : TRUE).rrs
              ELSE IF Poisoned(n) THEN <<A(n, "poison", "att")>>
              ELSE IF Unreach(n) THEN <<>>
              ELSE Truth(n).ans
SubRc(n)   == IF CacheHit(n) # {} THEN (CHOOSE e \in CacheHit(n) : TRUE).rc
              ELSE IF Poisoned(n) THEN "OK" ELSE IF Unreach(n) THEN "SERVFAIL" ELSE Truth(n).rc
\* the glue cache has nothing for the host: lookupNSAddrV4 asks for its address through the pipeline (cache included)
NsLookup == deleg[ShopZ] = {} /\ glue[NsBank] = {} /\ ShopNs # {} /\ CacheHit(NsBank) = {}
SubEffects(n) ==   \* what the sub-resolution leaves behind
  IF CacheHit(n) # {} THEN UNCHANGED <<cache, deleg, bankLog, dialled>>
  ELSE /\ cache' = cache \cup {[qn |-> n, rc |-> SubRc(n), rrs |-> SubAns(n)]}
                  \cup IF IsSub(n, ShopZ) /\ NsLookup
                       THEN {[qn |-> NsBank, rc |-> BankAnswer(NsBank).rc, rrs |-> BankAnswer(NsBank).ans]} ELSE {}
       /\ IF IsSub(n, ShopZ)
          THEN /\ deleg' = [deleg EXCEPT ![ShopZ] = IF @ = {} THEN ShopNs ELSE @,
                                         ![BankZ] = IF @ = {} /\ NsLookup THEN {"a_bank"} ELSE @]
               /\ dialled' = dialled \cup ShopNs
               /\ bankLog' = (IF Poisoned(n) \/ Unreach(n) THEN bankLog ELSE bankLog \cup {n})
                              \cup IF NsLookup THEN {NsBank} ELSE {}
          ELSE IF Poisoned(n) THEN UNCHANGED <<deleg, bankLog>> /\ dialled' = dialled \cup {Trap}
          ELSE /\ deleg' = [deleg EXCEPT ![BankZ] = IF @ = {} THEN {"a_bank"} ELSE @]
               /\ bankLog' = bankLog \cup {n}
               /\ dialled' = dialled \cup {"a_bank"}

(* cache.additionalAnswer: stop as soon as ANY record has the query type *)
HasType(s, t) == \E k \in 1..Len(s) : s[k].t = t
ChaseAlias ==
  /\ pc = "chase"
  /\ LET cn == {k \in 1..Len(out.ans) : out.ans[k].t = "CNAME"}
     IN IF out.rc # "OK" \/ HasType(out.ans, "A") \/ cn = {}
        THEN UNCHANGED <<out, cache, deleg, bankLog, dialled>>
        ELSE LET target == out.ans[CHOOSE x \in cn : \A y \in cn : y <= x].tn
             IN IF IsSub(target, BankZ)
                THEN /\ out' = [rc |-> SubRc(target), ans |-> out.ans \o SubAns(target)]
                     /\ SubEffects(target)
                ELSE UNCHANGED <<out, cache, deleg, bankLog, dialled>>   \* D3
  /\ pc' = IF hit THEN "reply" ELSE "filter"
  /\ UNCHANGED <<script, level, task, zone, srv, tries, tcp, depth, inbox, msg, info, hit, tostore, glue, replies, vq, vres,
                 acceptedBad, usedGlue, acceptedRefs, usedForeign>>

(* cache.filterCacheableAnswer: keep records owned by the question name *)
FilterCacheable ==
  /\ pc = "filter"
  /\ tostore' = IF F.CacheOwnerFilter THEN SelectSeq(out.ans, LAMBDA r : r.o = task.sq) ELSE out.ans
  /\ pc' = "store"
  /\ UNCHANGED <<script, level, task, zone, srv, tries, tcp, depth, inbox, msg, info, out, hit, deleg, glue, cache, replies,
                 vq, vres, dialled, bankLog, acceptedBad, usedGlue, acceptedRefs, usedForeign>>

(* Store.setFromResponseWithKey: keyed by the question of the ACCEPTED message *)
CacheStore ==
  /\ pc = "store"
  /\ cache' = {e \in cache : e.qn # task.sq} \cup {[qn |-> task.sq, rc |-> out.rc, rrs |-> tostore]}
  /\ pc' = "reply"
  /\ UNCHANGED <<script, level, task, zone, srv, tries, tcp, depth, inbox, msg, info, out, hit, tostore, deleg, glue, replies,
                 vq, vres, dialled, bankLog, acceptedBad, usedGlue, acceptedRefs, usedForeign>>

Fail ==
  /\ pc = "fail"
  /\ out' = [rc |-> "SERVFAIL", ans |-> <<>>] /\ pc' = "reply"
  /\ UNCHANGED <<script, level, task, zone, srv, tries, tcp, depth, inbox, msg, info, hit, tostore, deleg, glue, cache, replies,
                 vq, vres, dialled, bankLog, acceptedBad, usedGlue, acceptedRefs, usedForeign>>

ClientReply ==
  /\ pc = "reply"
  /\ replies' = Append(replies, [kind |-> task.kind, i |-> task.i, qn |-> task.qn, rc |-> out.rc, ans |-> out.ans])
  /\ pc' = IF task.kind = "attack" THEN "repeat" ELSE "idle"
  /\ UNCHANGED <<script, level, task, zone, srv, tries, tcp, depth, inbox, msg, info, out, hit, tostore, deleg, glue, cache,
                 vq, vres, dialled, bankLog, acceptedBad, usedGlue, acceptedRefs, usedForeign>>

(* the same question from another client: Cache.handleCacheHit (ToMsg + additionalAnswer) or a new descent *)
RepeatQuery ==
  /\ pc = "repeat"
  /\ IF CacheHit(task.qn) # {}
     THEN LET e == CHOOSE x \in CacheHit(task.qn) : TRUE
          IN /\ task' = [task EXCEPT !.kind = "repeat"]
             /\ out' = [rc |-> e.rc, ans |-> e.rrs] /\ hit' = TRUE /\ pc' = "chase"
             /\ UNCHANGED <<zone, srv, tries, tcp, depth, msg, info, tostore, inbox, level>>
     ELSE Begin(task.qn, "repeat", task.i)
  /\ UNCHANGED <<script, deleg, glue, cache, replies, vq, vres, dialled, bankLog, acceptedBad, usedGlue,
                 acceptedRefs, usedForeign>>

(* later queries for the victim names, from another client *)
VictimQuery(n) ==
  /\ pc = "idle" /\ Len(script) = MaxMoves /\ vq <= Len(VictimQs) /\ n = VictimQs[vq]
  /\ vres' = Append(vres, [qn |-> n, rc |-> SubRc(n), ans |-> SubAns(n)])
  /\ usedForeign' = (usedForeign \/ \E k \in 1..Len(SubAns(n)) : SubAns(n)[k].by = "att")
  /\ SubEffects(n)
  /\ vq' = vq + 1
  /\ UNCHANGED <<script, level, pc, task, zone, srv, tries, tcp, depth, inbox, msg, info, out, hit, tostore, glue, replies,
                 acceptedBad, usedGlue, acceptedRefs>>

Done == pc = "idle" /\ Len(script) = MaxMoves /\ vq > Len(VictimQs)

Next ==
  \/ \E m \in Moves : ClientQuery(m)
  \/ AskZone \/ AcceptReply \/ Classify \/ ExtractDelegation \/ ValidReferral \/ ConcurrentCold \/ CheckGlue
  \/ ResolverAnswer \/ ChaseAlias \/ FilterCacheable \/ CacheStore \/ Fail \/ ClientReply \/ RepeatQuery
  \/ \E n \in {VictimQs[k] : k \in 1..Len(VictimQs)} : VictimQuery(n)
  \/ (Done /\ UNCHANGED vars)

Spec == Init /\ [][Next]_vars

-----------------------------------------------------------------------------
(* Containment, clause by clause *)
ReplyMatches == ~acceptedBad                  \* only a datagram with the outstanding ID and question is accepted
GlueSound == \A g \in usedGlue : IsSub(g.host, g.zone) /\ g.addr \notin Unroutable
ReferralSound == \A r \in acceptedRefs : r.coherent /\ r.classIN /\ r.below /\ r.onpath
NoForeignCached ==                             \* (i) cached under its own name
  /\ \A e \in cache : \A k \in 1..Len(e.rrs) : ~(Foreign(e.rrs[k]) /\ e.rrs[k].o = e.qn)
  /\ \A e \in cache : ~IsSub(e.qn, AttZ) => \A k \in 1..Len(e.rrs) : e.rrs[k].by # "att"
  /\ \A z \in DelegZones : ~IsSub(z, AttZ) => deleg[z] \subseteq TrueServers(z)
  /\ \A h \in Hosts : ~IsSub(h, AttZ) => glue[h] \subseteq {"a_bank"}
NoForeignUsed == ~usedForeign                  \* (ii) used to answer a different question
NoForeignRelayed ==                            \* (iii) relayed in the answer section
  \A k \in 1..Len(replies) : \A j \in 1..Len(replies[k].ans) : ~Foreign(replies[k].ans[j])
NeverDialled == dialled \cap ({Trap} \cup Unroutable) = {}
VictimTruth ==                                 \* later victim queries: the victim's real data or real non-existence
  \A k \in 1..Len(vres) : /\ vres[k].rc = Truth(vres[k].qn).rc
                          /\ vres[k].ans = Truth(vres[k].qn).ans
Containment == ReplyMatches /\ GlueSound /\ ReferralSound /\ NoForeignCached /\ NoForeignUsed
               /\ NoForeignRelayed /\ NeverDialled /\ VictimTruth

TypeOK ==
  /\ Len(script) <= MaxMoves /\ \A k \in 1..Len(script) : script[k] \in Moves
  /\ pc \in {"idle", "ask", "recv", "classify", "authority", "referral", "glue", "answer", "chase",
             "filter", "store", "fail", "reply", "repeat"}
  /\ tries \in 0..2 /\ depth \in 0..3 /\ vq \in 1..(Len(VictimQs) + 1) /\ level \in 0..8
  /\ \A z \in DelegZones : deleg[z] \subseteq {"a_test", "a_bank", "a_att", "a_sub1", "a_sub2", Trap} \cup Unroutable

(* what the replay compares with the real pipeline *)
Brief(s) == [k \in 1..Len(s) |-> [o |-> s[k].o, t |-> s[k].t, d |-> s[k].d, tn |-> s[k].tn]]
Broken == {c \in {"ReplyMatches", "GlueSound", "ReferralSound", "NoForeignCached", "NoForeignUsed",
                  "NoForeignRelayed", "NeverDialled", "VictimTruth"} :
             CASE c = "ReplyMatches" -> ~ReplyMatches [] c = "GlueSound" -> ~GlueSound
               [] c = "ReferralSound" -> ~ReferralSound [] c = "NoForeignCached" -> ~NoForeignCached
               [] c = "NoForeignUsed" -> ~NoForeignUsed [] c = "NoForeignRelayed" -> ~NoForeignRelayed
               [] c = "VictimTruth" -> ~VictimTruth
               [] OTHER -> ~NeverDialled}
Outcome == [script |-> script, deep |-> Deep,
            replies |-> [k \in 1..Len(replies) |-> [kind |-> replies[k].kind, i |-> replies[k].i,
                                                    rc |-> replies[k].rc, ans |-> Brief(replies[k].ans)]],
            victims |-> [k \in 1..Len(vres) |-> [qn |-> vres[k].qn, rc |-> vres[k].rc, ans |-> Brief(vres[k].ans)]],
            dialled |-> dialled, bankLog |-> bankLog, broken |-> Broken]
=============================================================================
