CONSTANTS
  MaxMoves = 1
  F <- F_noprogress
  PreSet <- NoPre
  KindSet <- AllKinds
INIT Init
NEXT Next
INVARIANTS NoForeignUsed
CHECK_DEADLOCK FALSE
