CONSTANTS
  MaxMoves = 1
  F <- F_noprogress
  PreSet <- NoPre
  KindSet <- AllKinds
  Deep = FALSE
  RaceSet <- NoRace
INIT Init
NEXT Next
INVARIANTS NoForeignUsed
CHECK_DEADLOCK FALSE
