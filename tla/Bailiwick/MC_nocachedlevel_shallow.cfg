CONSTANTS
  MaxMoves = 1
  F <- F_nocachedlevel
  PreSet <- NoPre
  KindSet <- AllKinds
  Deep = FALSE
  RaceSet <- AnyRace
INIT Init
NEXT Next
INVARIANTS TypeOK Containment
CHECK_DEADLOCK FALSE
