CONSTANTS
  MaxMoves = 1
  F <- F_nostreamid
  PreSet <- AllPre
  KindSet <- AllKinds
INIT Init
NEXT Next
INVARIANTS ReplyMatches
CHECK_DEADLOCK FALSE
