CONSTANTS
  MaxMoves = 1
  F <- F_sound
  PreSet <- AllPre
  KindSet <- AllKinds
  Deep = FALSE
  RaceSet <- NoRace
INIT Init
NEXT Next
INVARIANTS TypeOK ReplyMatches GlueSound ReferralSound NoForeignCached NoForeignUsed NeverDialled VictimTruth NoRelayOnHit NoForeignRelayed Emit
CHECK_DEADLOCK FALSE
