CONSTANTS
  MaxMoves = 1
  F <- F_noglueb
  PreSet <- NoPre
  KindSet <- AllKinds
INIT Init
NEXT Next
INVARIANTS GlueSound
CHECK_DEADLOCK FALSE
