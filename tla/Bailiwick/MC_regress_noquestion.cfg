CONSTANTS
  MaxMoves = 1
  F <- F_noquestion
  PreSet <- AllPre
  KindSet <- AllKinds
  Deep = FALSE
  RaceSet <- NoRace
INIT Init
NEXT Next
INVARIANTS NoForeignCached
CHECK_DEADLOCK FALSE
