CONSTANTS
  MaxMoves = 1
  F <- F_nogluer
  PreSet <- NoPre
  KindSet <- AllKinds
  Deep = FALSE
  RaceSet <- NoRace
INIT Init
NEXT Next
INVARIANTS GlueSound
CHECK_DEADLOCK FALSE
