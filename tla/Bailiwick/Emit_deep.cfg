CONSTANTS
  MaxMoves = 1
  F <- F_nocachedlevel
  PreSet <- NoPre
  KindSet <- AllKinds
  Deep = TRUE
  RaceSet <- AnyRace
INIT Init
NEXT Next
INVARIANTS TypeOK ReplyMatches ReferralSound NoRelayOnHit NoForeignRelayed Emit
CHECK_DEADLOCK FALSE
