CONSTANTS
  MaxMoves = 1
  F <- F_nocoherent
  PreSet <- NoPre
  KindSet <- AllKinds
  Deep = FALSE
  RaceSet <- NoRace
INIT Init
NEXT Next
INVARIANTS ReferralSound
CHECK_DEADLOCK FALSE
