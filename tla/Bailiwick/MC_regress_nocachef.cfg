CONSTANTS
  MaxMoves = 1
  F <- F_nocachef
  PreSet <- NoPre
  KindSet <- AllKinds
  Deep = FALSE
  RaceSet <- NoRace
INIT Init
NEXT Next
INVARIANTS NoRelayOnHit
CHECK_DEADLOCK FALSE
