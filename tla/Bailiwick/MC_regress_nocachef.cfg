CONSTANTS
  MaxMoves = 1
  F <- F_nocachef
  PreSet <- NoPre
  KindSet <- AllKinds
INIT Init
NEXT Next
INVARIANTS NoRelayOnHit
CHECK_DEADLOCK FALSE
