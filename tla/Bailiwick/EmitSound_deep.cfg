CONSTANTS
  MaxMoves = 1
  F <- F_sound
  PreSet <- NoPre
  KindSet <- AllKinds
  Deep = TRUE
  RaceSet <- AnyRace
INIT Init
NEXT Next
INVARIANTS TypeOK ReplyMatches ReferralSound NoForeignUsed NoRelayOnHit NoForeignRelayed Emit GlueSound NoForeignCached NeverDialled VictimTruth
CHECK_DEADLOCK FALSE
