CONSTANTS
  MaxMoves = 1
  F <- F_noid
  PreSet <- AllPre
  KindSet <- AllKinds
  Deep = FALSE
  RaceSet <- NoRace
INIT Init
NEXT Next
INVARIANTS ReplyMatches
CHECK_DEADLOCK FALSE
