---------------------------- MODULE MC_Bailiwick ----------------------------
(* constants for the C07 configs; Emit prints every terminal state (one per script) *)
EXTENDS Bailiwick, Json

AllPre   == {"none", "wrongid", "wrongq", "wrongidq", "tcpwrongid", "twoq", "flood"}
NoPre    == {"none"}
AllKinds == AnsKinds \cup RefKinds
NoRace   == {FALSE}
AnyRace  == {FALSE, TRUE}
OnlyRace == {TRUE}

(* every filter on: what the property demands *)
F_sound == [IdCheck |-> TRUE, StreamIdCheck |-> TRUE, QuestionCheck |-> TRUE, GlueBailiwick |-> TRUE, GlueRoutable |-> TRUE,
            Coherent |-> TRUE, ClassCheck |-> TRUE, Progress |-> TRUE, ParentDetect |-> TRUE,
            AnswerOwnerFilter |-> TRUE, ClearAdditional |-> TRUE, CacheOwnerFilter |-> TRUE,
            CachedLevel |-> TRUE]   \* resolveWithCachedNameservers sets level to the referral owner's label count
(* the pinned code: nothing filters the answer section by owner before it reaches the client *)
F_asis  == [F_sound EXCEPT !.AnswerOwnerFilter = FALSE]

(* one filter off each: the matching Containment clause must fail (non-vacuity of the model) *)
F_noid       == [F_sound EXCEPT !.IdCheck = FALSE]
F_nostreamid == [F_sound EXCEPT !.StreamIdCheck = FALSE]
F_noquestion_s == [F_sound EXCEPT !.QuestionCheck = FALSE]   \* with an owner filter: an empty answer lands under the victim name
F_noquestion == [F_asis EXCEPT !.QuestionCheck = FALSE]   \* on the pinned code: stored under the victim name
F_noglueb    == [F_sound EXCEPT !.GlueBailiwick = FALSE]
F_nogluer    == [F_sound EXCEPT !.GlueRoutable = FALSE]
F_nocoherent == [F_sound EXCEPT !.Coherent = FALSE]
F_noclass    == [F_sound EXCEPT !.ClassCheck = FALSE]
F_noprogress == [F_sound EXCEPT !.Progress = FALSE, !.ParentDetect = FALSE]
F_nocachef   == [F_asis EXCEPT !.CacheOwnerFilter = FALSE]
(* the pinned resolveWithCachedNameservers: rs.level++ where the fresh path assigns nlevel.  With Deep = TRUE and   *)
(* a race move GlueSound must fail (MC_regress_nocachedlevel); with Deep = FALSE the increment is exact and         *)
(* Containment holds (MC_nocachedlevel_shallow): the element is the label count, not the race.                      *)
F_nocachedlevel == [F_sound EXCEPT !.CachedLevel = FALSE]

Emit == Done => PrintT(ToJson(Outcome))
(* with the cache filter off the poisoned answer comes back on the cache-hit path too *)
NoRelayOnHit == \A k \in 1..Len(replies) :
                  replies[k].kind = "repeat" => \A j \in 1..Len(replies[k].ans) : ~Foreign(replies[k].ans[j])
=============================================================================
