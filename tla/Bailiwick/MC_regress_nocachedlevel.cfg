CONSTANTS
  MaxMoves = 1
  F <- F_nocachedlevel
  PreSet <- NoPre
  KindSet <- AllKinds
  Deep = TRUE
  RaceSet <- AnyRace
INIT Init
NEXT Next
INVARIANTS GlueSound
CHECK_DEADLOCK FALSE
