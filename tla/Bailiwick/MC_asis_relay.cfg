CONSTANTS
  MaxMoves = 1
  F <- F_asis
  PreSet <- NoPre
  KindSet <- AllKinds
  Deep = FALSE
  RaceSet <- NoRace
INIT Init
NEXT Next
INVARIANTS TypeOK NoForeignRelayed
CHECK_DEADLOCK FALSE
