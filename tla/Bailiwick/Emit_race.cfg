CONSTANTS
  MaxMoves = 1
  F <- F_nocachedlevel
  PreSet <- NoPre
  KindSet <- AllKinds
  Deep = FALSE
  RaceSet <- OnlyRace
INIT Init
NEXT Next
INVARIANTS TypeOK ReplyMatches ReferralSound NoForeignUsed NoRelayOnHit NoForeignRelayed Emit GlueSound NoForeignCached NeverDialled VictimTruth
CHECK_DEADLOCK FALSE
