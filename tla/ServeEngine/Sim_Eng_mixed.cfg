CONSTANTS
  Packets <- PktMixed
  Configs <- CfgTwo
  Contents <- ContMixed
  MaxQueries = 5
  Reflects = FALSE
  ScrubSlot = TRUE
  ZeroTxHdr = TRUE
  AuthScan = TRUE
INIT EInit
NEXT ENext

INVARIANTS ETypeOK

CHECK_DEADLOCK FALSE
