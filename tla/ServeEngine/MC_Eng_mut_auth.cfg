CONSTANTS
  Packets <- PktNeg
  Configs <- CfgOne
  Contents <- ContNeg
  MaxQueries = 3
  Reflects = FALSE
  ScrubSlot = TRUE
  ZeroTxHdr = TRUE
  AuthScan = FALSE
INIT EInit
NEXT ENext
VIEW EView
INVARIANTS ETypeOK
PROPERTIES DnssecAsked
CHECK_DEADLOCK FALSE
