CONSTANTS
  Packets <- PktReject
  Configs <- CfgOne
  Contents <- ContReject
  MaxQueries = 3
  Reflects = FALSE
  ScrubSlot = TRUE
  ZeroTxHdr = FALSE
  AuthScan = TRUE
INIT EInit
NEXT ENext
VIEW EView
INVARIANTS ETypeOK
PROPERTIES BareIsBare
CHECK_DEADLOCK FALSE
