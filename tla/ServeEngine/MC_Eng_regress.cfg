CONSTANTS
  Packets <- PktMixed
  Configs <- CfgTwo
  Contents <- ContMixed
  MaxQueries = 2
  Reflects = TRUE
  ScrubSlot = TRUE
  ZeroTxHdr = TRUE
  AuthScan = TRUE
INIT EInit
NEXT ENext
VIEW EView
INVARIANTS ETypeOK
PROPERTIES ReplyContract
CHECK_DEADLOCK FALSE
