CONSTANTS
  Packets <- PktMixed
  Configs <- CfgTwo
  Contents <- ContMixed
  MaxQueries = 2
  Reflects = FALSE
  ScrubSlot = FALSE
  ZeroTxHdr = FALSE
  AuthScan = FALSE
INIT EInit
NEXT ENext
VIEW EView
INVARIANTS ETypeOK
PROPERTIES EngineAgrees
CHECK_DEADLOCK FALSE
