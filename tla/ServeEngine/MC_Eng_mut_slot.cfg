CONSTANTS
  Packets <- PktSlot
  Configs <- CfgTwo
  Contents <- ContSlot
  MaxQueries = 3
  Reflects = FALSE
  ScrubSlot = FALSE
  ZeroTxHdr = TRUE
  AuthScan = TRUE
INIT EInit
NEXT ENext
VIEW EView
INVARIANTS ETypeOK
PROPERTIES CookieOwn
CHECK_DEADLOCK FALSE
