--------------------------- MODULE MC_ServeEngine ---------------------------
(* packet menus (histories are sequences over a menu), configurations and upstream contents of the engine families.
   A packet is a Serve.tla packet plus `client` (whose socket / cookie) and `newconn` (a TCP packet dials a fresh
   connection instead of writing on the open one). Menus are small: every (state, packet) edge is replayed. *)
EXTENDS ServeEngine, Json

B == [qr |-> FALSE, opcode |-> 0, qd |-> 1, an |-> 0, rd |-> TRUE, ad |-> FALSE, cd |-> FALSE,
      qtype |-> "A", qclass |-> "IN", opt |-> "ok", do |-> FALSE, size |-> 1232,
      cookie |-> "none", nsid |-> FALSE, keepalive |-> FALSE, ecs |-> "none",
      pad |-> FALSE, unk |-> FALSE, proto |-> "udp", name |-> "own", client |-> 1, newconn |-> FALSE]

T(r) == [r EXCEPT !.proto = "tcp"]
C2(r) == [r EXCEPT !.client = 2]
New(r) == [r EXCEPT !.newconn = TRUE]

NoOpt  == [B EXCEPT !.opt = "none"]
Opt    == B
Cookie == [B EXCEPT !.cookie = "c8"]
Do     == [B EXCEPT !.do = TRUE]

(* slot: a cookie query, then a cookie-less query with an OPT from another client, on the slab of either transport *)
PktSlot == { Cookie, C2(Opt), C2(NoOpt), C2([Cookie EXCEPT !.cookie = "valid"]), [C2(Opt) EXCEPT !.nsid = TRUE],
             T(Cookie), T(C2(Opt)), New(T(C2(Opt))), T(C2(NoOpt)), [T(C2(Opt)) EXCEPT !.keepalive = TRUE],
             [C2(Opt) EXCEPT !.opt = "ver1"], [C2(Opt) EXCEPT !.rd = FALSE] }

(* reject: a served query, then a header-level rejection (opcode, counts, undecodable body) or an ignored response,
   on the same connection and on a new one; the datagram listener for comparison *)
Op2  == [B EXCEPT !.opcode = 2]
Qd2  == [B EXCEPT !.qd = 2]
Qd0  == [B EXCEPT !.qd = 0, !.opt = "none"]
Bad  == [B EXCEPT !.opt = "badrdlen"]
Qr   == [B EXCEPT !.qr = TRUE]
PktReject == { T(Opt), New(T(NoOpt)), T(Op2), New(T(Op2)), T(Qd2), New(T(Qd0)), T(Bad), New(T(Bad)), T(Qr),
               T([Op2 EXCEPT !.qd = 0]), [T(Opt) EXCEPT !.opcode = 4],
               Opt, Op2, Qd2, Bad, Qr }

(* negcache: DO=1 fills the cache, then DO=0 / no-EDNS / CD clients ask the same question (served from stored bytes) *)
PktNeg == { Do, C2(Opt), C2(NoOpt), [C2(Opt) EXCEPT !.cd = TRUE], [C2(NoOpt) EXCEPT !.ad = TRUE],
            T(Do), T(C2(Opt)), New(T(C2(NoOpt))), [C2(Opt) EXCEPT !.qtype = "RRSIG"], [Do EXCEPT !.size = 512] }

(* mixed: a wider menu for simulation only *)
PktMixed == PktSlot \cup PktReject \cup PktNeg \cup
            { [B EXCEPT !.opt = "dup"], [B EXCEPT !.opt = "nonroot"], [B EXCEPT !.unk = TRUE], [B EXCEPT !.pad = TRUE],
              [B EXCEPT !.ecs = "v4_24"], [B EXCEPT !.ecs = "v4_32", !.opt = "ver1"], T([B EXCEPT !.ecs = "v6_56", !.cookie = "c8"]), [B EXCEPT !.qtype = "unknown"],
              [B EXCEPT !.qclass = "unknown"], [B EXCEPT !.an = 1], T([B EXCEPT !.cookie = "badlen"]),
              [Do EXCEPT !.size = 4096, !.cookie = "stale"], T([Do EXCEPT !.nsid = TRUE, !.keepalive = TRUE]) }

(* loopback clients are exempt from the client limiter (RateLimit.ServeDNS), so the engine families run without it *)
CfgPlain == [nsid |-> FALSE, ratelimit |-> FALSE, ecs |-> "off"]
CfgFull  == [nsid |-> TRUE, ratelimit |-> FALSE, ecs |-> "on"]
CfgOne == {CfgPlain}
CfgTwo == {CfgPlain, CfgFull}

ContSlot   == {"pos", "nxsig"}
ContReject == {"pos", "big"}
ContNeg    == {"nxsig", "nodatasig", "signed"}
ContMixed  == {"pos", "signed", "nx", "nodata", "ede", "big", "servfail", "upecs", "upcookie", "cname", "cnamesplit",
               "panic", "hosts", "as112", "nxsig", "nodatasig"}

(* graph runs: one line per (state, packet) edge with the model's outcome; the key identifies the source state by its
   view (the hidden variables of a dumped node are those of whichever state reached the view first) *)
Parts == <<<<"A", "cd">>, <<"A", "nocd">>, <<"RRSIG", "cd">>, <<"RRSIG", "nocd">>, <<"unknown", "cd">>, <<"unknown", "nocd">>>>
StateKey == [cfg |-> cfg, content |-> content, cached |-> [i \in 1..6 |-> cached[Parts[i]]], n |-> n,
             su |-> slot["udp"], st |-> slot["tcp"], txd |-> txd, conn |-> conn]
GStep(p) == EQuery(p) /\ PrintT(ToJson([key |-> StateKey, pkt |-> p, exp |-> Exp(p)]))
GNext == \E p \in Packets : GStep(p)
=============================================================================
