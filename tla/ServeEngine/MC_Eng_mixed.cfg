CONSTANTS
  Packets <- PktMixed
  Configs <- CfgTwo
  Contents <- ContMixed
  MaxQueries = 3
  Reflects = FALSE
  ScrubSlot = TRUE
  ZeroTxHdr = TRUE
  AuthScan = TRUE
INIT EInit
NEXT ENext
VIEW EView
INVARIANTS ETypeOK
PROPERTIES PathsAgree ReplyContract NeverEcsToClient OneToken CookieOwn BareIsBare DnssecAsked EngineAgrees
CHECK_DEADLOCK FALSE
