CONSTANTS
  Packets <- PktNeg
  Configs <- CfgOne
  Contents <- ContNeg
  MaxQueries = 3
  Reflects = FALSE
  ScrubSlot = TRUE
  ZeroTxHdr = TRUE
  AuthScan = TRUE
INIT EInit
NEXT GNext
VIEW EView
INVARIANTS ETypeOK
PROPERTIES PathsAgree ReplyContract NeverEcsToClient OneToken CookieOwn BareIsBare DnssecAsked EngineAgrees
CHECK_DEADLOCK FALSE
