---------------------------- MODULE ServeEngine ----------------------------
(***************************************************************************)
(* Serve.tla histories served by the REAL datagram and stream listeners.   *)
(*                                                                         *)
(* Serve.tla describes one query through the front of the chain from the   *)
(* abstract state a later query can see (cache, limiter).  The owned       *)
(* engines add state of their own that survives BETWEEN two queries: a     *)
(* transport job (slab) is recycled, and with it                           *)
(*   - the job-owned edns.ResponseWriter handed out by StrictSlots         *)
(*     (udpJob.ednsWriter / tcpJob.ednsWriter): edns.serveWire fills it    *)
(*     from the wire-parsed OPT and zeroes it when the chain unwinds;      *)
(*   - the TX region of a tcpJob: a full reply is built there (leased      *)
(*     wire body or tcpJob.WriteMsg), and tcpJob.rejectInPlace stamps its  *)
(*     bare-header rejection over the first twelve bytes of it;            *)
(*   - the stored wire body of a cache entry and its admission-time        *)
(*     verdict (prepareWireServe: has-DNSSEC => a stripped twin for DO=0). *)
(* The three constants say whether the code does the scrubbing step that   *)
(* makes each of them invisible (TRUE = the code as read); the negative    *)
(* configs set one of them FALSE and must violate the named property.      *)
(*                                                                         *)
(* slot / txd / conn are GHOSTS of the history (what was last put there),  *)
(* kept in the state also when the scrub makes them unobservable, so that  *)
(* the state graph distinguishes "a cookie query was the last one on this  *)
(* slab" from "never": an edge cover then contains the orders that matter. *)
(***************************************************************************)
EXTENDS Serve

CONSTANTS ScrubSlot,   \* edns.serveWire zeroes the job-owned writer slot on unwind
          ZeroTxHdr,   \* tcpJob.rejectInPlace zeroes the 12 header bytes before stamping ID / flags / rcode
          AuthScan     \* prepareWireServe takes has-DNSSEC from answer AND authority

VARIABLES slot,   \* [{"udp","tcp"} -> 0..2]: client whose cookie a wire-born request last left in that transport's slab slot
          txd,    \* BOOLEAN: the TCP slab's TX region holds an earlier full reply
          conn,   \* 0..2: client that owns the open TCP connection (0 = none); the driver follows it
          eout    \* what the engine entry returned for the last packet (hidden by the view)

evars == <<cfg, content, cached, scookie, tokens, n, sibc, cut, failst, nenv, out, slot, txd, conn, eout>>

AuthOnly == {"nxsig", "nodatasig"}
Cookied(p) == p.cookie \in {"c8", "valid", "stale"}

(* the result record of the wire entry, as Serve.Query computes it *)
Base(p) ==
  LET acc == Accept(p) IN
  IF acc = "ignore" THEN R(NoReply, Nothing, FALSE, "")
  ELSE IF acc \in {"notimp", "formerr"} THEN R(BareHeader(acc), Nothing, FALSE, "")
  ELSE WirePass(p, content)

(* the request is wire-born and reaches edns.serveWire (EDNS.ServeDNS: undecoded, opcode 0, no OPT or version 0) *)
SlotReached(p) ==
  /\ Accept(p) = "ok" /\ WireEligible(p)
  /\ RLWire(p).v = "pass"
  /\ p.opt \in {"none", "ok"}

(* the reply goes out through the edns writer (not the recovery middleware's CancelWithRcode) *)
ThroughWriter(p, b) == b.o.kind = "reply" /\ ~(content = "panic" /\ b.tail)

StaleCookie(p, b) ==
  /\ ~ScrubSlot
  /\ SlotReached(p) /\ ThroughWriter(p, b) /\ b.o.opt
  /\ ~Cookied(p)
  /\ slot[p.proto] # 0

(* a hit served from the entry's stored bytes: wire-born, RD=1, no client subnet *)
BytesHit(p) ==
  /\ SlotReached(p) /\ p.rd /\ p.ecs = "none"
  /\ ~(content \in LocalContent)
  /\ MsgLadder(p, FALSE) = "hit"

UnstrippedAuth(p) ==
  /\ ~AuthScan
  /\ BytesHit(p) /\ Cached(p) \in AuthOnly
  /\ ~((HasOpt(p) /\ p.do) \/ p.qtype = "RRSIG")

EngO(p) ==
  LET b == Base(p) IN
  CASE b.o.kind = "none" -> [kind |-> "none"]
    [] b.o.kind = "bare" -> [kind |-> "bare", rcode |-> b.o.rcode,
                             counts |-> IF p.proto = "tcp" /\ txd /\ ~ZeroTxHdr THEN "stale" ELSE "zero"]
    [] OTHER -> [kind |-> "reply", base |-> b.o,
                 cookieFrom |-> (IF b.o.cookie THEN {p.client} ELSE {}) \cup (IF StaleCookie(p, b) THEN {slot[p.proto]} ELSE {}),
                 dnssec |-> b.o.dnssec \/ UnstrippedAuth(p)]

(* what the driver compares for drift (MC_ServeEngine.GStep prints it per edge of the state graph) *)
Exp(p) ==
  LET b == Base(p)
      e == EngO(p) IN
  [kind |-> e.kind,
   rcode |-> IF e.kind = "none" THEN "" ELSE IF e.kind = "bare" THEN e.rcode ELSE e.base.rcode,
   opt |-> e.kind = "reply" /\ e.base.opt,
   tc |-> e.kind = "reply" /\ e.base.tc,
   ad |-> e.kind = "reply" /\ e.base.ad,
   cookie |-> e.kind = "reply" /\ e.cookieFrom # {},
   dnssec |-> e.kind = "reply" /\ e.dnssec,
   tail |-> b.tail,
   same |-> p.proto = "tcp" /\ ~p.newconn /\ conn = p.client]

EInit ==
  /\ Init
  /\ slot = [t \in {"udp", "tcp"} |-> 0]
  /\ txd = FALSE
  /\ conn = 0
  /\ eout = [valid |-> FALSE]

EQuery(p) ==
  /\ Query(p)
  /\ eout' = [valid |-> TRUE, pkt |-> p, o |-> EngO(p)]
  /\ slot' = IF SlotReached(p) /\ Cookied(p) THEN [slot EXCEPT ![p.proto] = p.client] ELSE slot
  /\ txd' = (txd \/ (p.proto = "tcp" /\ Base(p).o.kind = "reply"))
  /\ conn' = IF p.proto = "tcp" THEN p.client ELSE conn

ENext == \E p \in Packets : EQuery(p)

ESpec == EInit /\ [][ENext]_evars

(* ------------------------------ properties ---------------------------- *)
(* C06 on what the ENGINE returned *)
CookieOwn ==       \* "the server cookie returned only against the client cookie sent"
  [][(eout'.valid /\ eout'.o.kind = "reply") =>
       /\ eout'.o.cookieFrom \subseteq {eout'.pkt.client}
       /\ (eout'.o.cookieFrom # {} => Cookied(eout'.pkt))]_evars

BareIsBare ==      \* a header-level rejection is a bare header: it claims no section it does not hold
  [][(eout'.valid /\ eout'.o.kind = "bare") => eout'.o.counts = "zero"]_evars

DnssecAsked ==     \* no RRSIG / NSEC / NSEC3 in answer or authority unless DO or RRSIG asked
  [][(eout'.valid /\ eout'.o.kind = "reply" /\ eout'.o.dnssec) =>
       ((HasOpt(eout'.pkt) /\ eout'.pkt.do) \/ eout'.pkt.qtype = "RRSIG")]_evars

(* C05: the engine entry is the decoded entry, observationally *)
EngineAgrees ==
  [][eout'.valid =>
       LET m == out'.msg.o
           e == eout'.o IN
       /\ e.kind = m.kind
       /\ e.kind = "bare" => (e.rcode = m.rcode /\ e.counts = "zero")
       /\ e.kind = "reply" =>
            /\ e.base = m
            /\ e.cookieFrom = (IF m.cookie THEN {eout'.pkt.client} ELSE {})
            /\ e.dnssec = m.dnssec]_evars

ETypeOK == TypeOK /\ slot \in [{"udp", "tcp"} -> 0..2] /\ txd \in BOOLEAN /\ conn \in 0..2

EView == <<cfg, content, cached, scookie, tokens, n, sibc, cut, failst, nenv, slot, txd, conn>>
=============================================================================
