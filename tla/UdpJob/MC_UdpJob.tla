------------------------------ MODULE MC_UdpJob ------------------------------
EXTENDS UdpJob
CONSTANTS c1, c2, c3, w1, w2, rp, rb
KQuick == {"hit", "miss", "malformed", "badOpcode", "panic", "ignoredByChain", "writeHandoff"}
KSmall == {"hit", "miss", "malformed", "panic"}
NoReaders == {}
KBatch == {"hit", "miss", "malformed", "ignoredByChain", "writeHandoff"}
KBatchQ == {"hit", "miss", "malformed", "writeHandoff"}
KBatchP == {"hit", "miss", "malformed", "panic", "ignoredByChain", "writeHandoff"}
KAllKinds == AllKinds
KMixedSmall == {"hit", "malformed"}
KMixed == {"hit", "miss", "malformed"}
KPortable == {"hit", "malformed", "panic"}
ONone == {"none"}
OAll == OptKinds
OCookie == {"plain", "cookie"}
KOptBatch == {"hit", "miss"}
KTrunc == {"hit", "miss", "malformed", "trunc"}           \* oversize datagrams between served ones
KTruncMixed == {"hit", "malformed", "trunc"}
KHdr == {"hit", "failhit", "malformed"}                   \* a reply composed in place after full replies on the slab
SymClients == Permutations(Clients)
=============================================================================
