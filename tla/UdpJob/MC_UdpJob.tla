------------------------------ MODULE MC_UdpJob ------------------------------
EXTENDS UdpJob
CONSTANTS c1, c2, c3, w1, w2, rp, rb
KQuick == {"hit", "miss", "malformed", "badOpcode", "panic", "ignoredByChain", "writeHandoff"}
KSmall == {"hit", "miss", "malformed", "panic"}
NoReaders == {}
=============================================================================
