CONSTANTS
  None = None
  c1 = c1  c2 = c2  c3 = c3  w1 = w1  w2 = w2  rp = rp  rb = rb
  NSlab = 3  Cap = 3  Q = 1  NPkt = 3
  Clients = {c1, c2}
  Kinds <- KMixedSmall
  Workers = {w1}
  PReaders = {rp}
  BReaders <- NoReaders
  B = 1  TXMax = 2
  Inline = FALSE  BatchTX = FALSE  Drops = TRUE
  ScrubTxLen = TRUE  ResetRawSA = TRUE  BothOnHandoff = FALSE
  ClearHdr = TRUE  TruncRelease = TRUE
  ResetSlot = TRUE  Opts <- ONone
SPECIFICATION Spec
SYMMETRY SymClients
INVARIANTS TypeOK SingleOwner ReleaseOnce ReplyIsOwn SilentStaysSilent AtMostOneSend LeaseBound QuiescedIff BurstBound HandoffClean FreeIsScrubbed NoHeldSlabs ReplyHeaderIsOwn
CHECK_DEADLOCK FALSE
