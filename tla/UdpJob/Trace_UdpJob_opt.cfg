CONSTANTS
  None = None
  ScrubTxLen = TRUE
  ResetRawSA = TRUE
  ResetSlot = TRUE
  ClearHdr = TRUE
  SilentRK <- TSilent
SPECIFICATION TraceSpec
INVARIANTS ReplyOptIsOwn ReplyIsOwn SilentStaysSilent AtMostOneSend ReplyHeaderIsOwn OwnershipWalk LeaseBound AllHome
POSTCONDITION TraceAccepted
CHECK_DEADLOCK FALSE
