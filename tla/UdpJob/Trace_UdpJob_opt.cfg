CONSTANTS
  None = None
  ScrubTxLen = TRUE
  ResetRawSA = TRUE
  ResetSlot = TRUE
  SilentRK <- TSilent
SPECIFICATION TraceSpec
INVARIANTS ReplyOptIsOwn ReplyIsOwn SilentStaysSilent AtMostOneSend OwnershipWalk LeaseBound AllHome
POSTCONDITION TraceAccepted
CHECK_DEADLOCK FALSE
