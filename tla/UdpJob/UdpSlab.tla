------------------------------ MODULE UdpSlab ------------------------------
(***************************************************************************)
(* The per-slab half of the UDP engine model: what each ownership step of  *)
(* server/udp_engine.go, udp_tx.go and udp_batch_linux.go does to ONE      *)
(* udpJob.  Pure operators over a slab record, no variables: UdpJob.tla    *)
(* (the whole engine, model-checked) and Trace_UdpJob.tla (recorded walks  *)
(* of the real engine) both apply exactly these.                           *)
(*                                                                         *)
(* A slab record:                                                          *)
(*   state   "free" | "reading" | "queued" | "serving"      udpJob.state   *)
(*   rx      the packet sitting in the RX buffer (None = rxLen 0)          *)
(*   raddr   the address parsed for that packet             udpJob.raddr   *)
(*   rawSA   the kernel sockaddr kept for sendmmsg (None = rawSALen 0)     *)
(*   tx      the packet the bytes in the TX buffer were produced for; the  *)
(*           buffer is never wiped, only txLen says whether it is staged   *)
(*   txLen   0 / 1   (1 = a reply is staged)                udpJob.txLen   *)
(*   replay  the inline pass handed this job off            udpJob.replay  *)
(*   jb      the burst the job stages into while served     udpJob.burst   *)
(*   ew      the client cookie sitting in the job-owned edns writer slot    *)
(*           (udpJob.ednsWriter.cookieRaw/hasCookieRaw; None = zeroed):     *)
(*           the packet it was copied from.  release() never touches it.    *)
(*   txck    the packet whose client cookie the COOKIE option of the bytes  *)
(*           in the TX buffer was built from (None = no COOKIE option)      *)
(*   txhd    the packet whose reply last WROTE the flags word (bytes 2..3)  *)
(*           of the TX buffer (None = never written: the zero bytes of a    *)
(*           fresh slab).  A reply copied / packed into TX overwrites it; a *)
(*           reply COMPOSED IN PLACE in the leased TX buffer (the failure   *)
(*           cache's byte rung, middleware/cache serveFailureFromWire) only *)
(*           ORs its own bits in (wire.ApplyReply keeps TC/AD/Z as found),  *)
(*           so the word is its own only if the composer cleared it first.  *)
(* and two per-lease ghosts: wrote (the serve of this lease wrote a reply) *)
(* and sends (datagrams transmitted from this slab during this lease).     *)
(***************************************************************************)
EXTENDS Naturals
CONSTANTS
  None,          \* "no packet / no address / no burst"
  ScrubTxLen,    \* release() does `j.txLen = 0`          (FALSE = mutant)
  ResetRawSA,    \* portable read does `j.rawSALen = 0`   (FALSE = mutant)
  ResetSlot,     \* edns serveWire's deferred `*rw = ResponseWriter{}` zeroes the whole job-owned
                 \* writer slot (FALSE = mutant: cookieRaw / hasCookieRaw survive the request)
  ClearHdr       \* serveFailureFromWire zeroes the 12 header bytes of its lease before it stamps
                 \* counts / id / flags (FALSE = mutant: the flags word is left as the slab's
                 \* previous reply wrote it)

FreshSlab ==
  [state |-> "free", rx |-> None, raddr |-> None, rawSA |-> None,
   tx |-> None, txLen |-> 0, replay |-> FALSE, jb |-> None,
   ew |-> None, txck |-> None, txhd |-> None,
   wrote |-> FALSE, sends |-> 0]

States == {"free", "reading", "queued", "serving"}

(* take() + transition(free, reading): the reader arms the slab *)
OpArm(s) == [s EXCEPT !.state = "reading"]

(* portable reader: ReadMsgUDPAddrPort + setRemote; rawSALen = 0 *)
OpReadPortable(s, p, from) ==
  [s EXCEPT !.rx = p, !.raddr = from,
            !.rawSA = IF ResetRawSA THEN None ELSE @]

(* batch reader finishRecv: setRemoteRaw + copy of the kernel sockaddr *)
OpReadBatch(s, p, from) == [s EXCEPT !.rx = p, !.raddr = from, !.rawSA = from]

(* enqueueCounted: j.state = udpJobQueued (no assertion in the code) *)
OpQueued(s) == [s EXCEPT !.state = "queued"]

(* serve(): transition(queued, serving); j.burst = burst *)
OpServeBegin(s, b) == [s EXCEPT !.state = "serving", !.jb = b]

(* serveInline(): transition(reading, serving); j.burst = reader's burst *)
OpInlineBegin(s, b) == [s EXCEPT !.state = "serving", !.jb = b]

(* udpJob.Write with a burst: the reply for the packet in RX is staged     *)
(* (an in-place rejection, or any reply without a COOKIE option)           *)
OpStage(s) == [s EXCEPT !.tx = s.rx, !.txLen = 1, !.wrote = TRUE, !.txck = None, !.txhd = s.rx]

(* What EDNS the packet carried: "none" | "plain" (an OPT, no cookie) |     *)
(* "cookie".  middleware/edns serveWire on the job-owned slot: every field  *)
(* but the cookie pair is assigned from the request, cookieRaw/hasCookieRaw *)
(* only when the request carries a cookie; the reply's OPT is built from    *)
(* the slot while the chain runs; the deferred reset zeroes the slot.       *)
(* The always-assigned fields (size, DO, NSID and keepalive wishes) are a   *)
(* function of the current request by construction and carry no state here; *)
(* the trace specs check them on the recorded bytes.                        *)
OpEdnsEnter(s, opt) == [s EXCEPT !.ew = IF opt = "cookie" THEN s.rx ELSE @]
OpEdnsLeave(s)      == [s EXCEPT !.ew = IF ResetSlot THEN None ELSE @]
ReplyCookie(s, opt) == IF opt = "none" THEN None ELSE s.ew
OpStageOpt(s, opt)  == [OpStage(s) EXCEPT !.txck = ReplyCookie(s, opt)]

(* a reply composed in place in the leased TX buffer (BeginWire / CommitWire): *)
(* question and counts are written, the flags word is only stamped over      *)
HdInPlace(s) == IF ClearHdr \/ s.txhd = None THEN s.rx ELSE s.txhd
OpStageInPlace(s, opt) == [OpStageOpt(s, opt) EXCEPT !.txhd = HdInPlace(s)]

(* the kernel filled RX with a datagram larger than the buffer (MSG_TRUNC):  *)
(* nothing else of it is copied into the job                                 *)
OpReadTrunc(s, p) == [s EXCEPT !.rx = p]

(* udpJob.Write without a burst (overflow goroutine): bytes leave at once *)
OpWriteNow(s) == [s EXCEPT !.wrote = TRUE, !.sends = @ + 1]

(* the deferred tail of serve / serveInline: j.burst = nil *)
OpServeEnd(s) == [s EXCEPT !.jb = None]

(* serveInline handoff: j.replay = true; transition(serving, reading) *)
OpHandoff(s) == [s EXCEPT !.jb = None, !.replay = TRUE, !.state = "reading"]

(* one staged reply leaving in flushTX *)
OpSent(s) == [s EXCEPT !.sends = @ + 1]

(* release(from): scrub, then the slab is parked *)
OpRelease(s) ==
  [s EXCEPT !.state = "free", !.rx = None, !.replay = FALSE,
            !.txLen = IF ScrubTxLen THEN 0 ELSE @,
            !.wrote = FALSE, !.sends = 0]

(* where flushTX addresses a staged reply: sendmmsg by the raw sockaddr    *)
(* when one is armed and batch TX is armed, the parsed address otherwise   *)
SendDest(s, batchTX) == IF batchTX /\ s.rawSA # None THEN s.rawSA ELSE s.raddr
=============================================================================
