------------------------------- MODULE UdpJob -------------------------------
(***************************************************************************)
(* The owned UDP engine of sdns (server/udp_engine.go, udp_tx.go,          *)
(* udp_batch_linux.go, slab_cache.go), one action per ownership step:      *)
(*                                                                         *)
(*   clients     ClientSend                                                *)
(*   portable    PTakeAdd PTakeCheck PShed PReadInto PReadDrop PEnqueue    *)
(*   batch       BTakeAdd BTakeCheck BArmed BShed BRecv BFinish            *)
(*               (-> InlineBegin | Enqueue) Chain InlineEnd InlineHandoff  *)
(*               BCycleEnd                                                 *)
(*   worker      WDequeue (ServeBegin) Chain ServeEnd WFlushStart          *)
(*               WMidFlush (FlushStaged)                                   *)
(*   overflow    OverflowSpawn (inside Enqueue) OvBegin OvChain OvEnd      *)
(*   burst       FlushSend FlushRel (flushTX: send every staged job, then  *)
(*               release it)                                               *)
(*                                                                         *)
(* What one step does to a slab is UdpSlab.tla (shared with the trace      *)
(* spec).  Packets are [client, id, kind]; the id is the packet's index.   *)
(* Ghosts: wire (every datagram the engine transmitted: destination, the   *)
(* packet its bytes were produced for, the packet sitting in the sending   *)
(* slab's RX) and err (an engine assertion that would have fired).         *)
(*                                                                         *)
(* Deliberate deviations: release() is one step (the code counts inFlight  *)
(* down after parking the slab: the barrier may read high, never low);     *)
(* serveInline's transition + inFlight.Add is one step; the idle cache is  *)
(* one LIFO shard; wildcard/pktinfo drops and read errors are PReadDrop.    *)
(* A datagram larger than the slab's RX buffer is the packet kind "trunc":  *)
(* the kernel fills the armed slab and flags MSG_TRUNC; both readers drop   *)
(* it and give the slab back (portable: PReadTrunc; batch: the first branch *)
(* of finishRecv = BFinish on a trunc packet).  TruncRelease = FALSE is the *)
(* batch reader that returns without release: the slot is consumed, the     *)
(* slab is nobody's, its lease is never counted down (NoHeldSlabs).         *)
(* The packet kind "failhit" is answered by the failure cache's byte rung:  *)
(* the reply is composed in place in the leased TX buffer (UdpSlab          *)
(* OpStageInPlace, ClearHdr): ReplyHeaderIsOwn.                             *)
(***************************************************************************)
EXTENDS Naturals, Sequences, FiniteSets, TLC, UdpSlab

CONSTANTS
  NSlab,         \* slab identities available to &udpJob{}
  Cap,           \* slabCap
  Q,             \* ready queue depth (IngressQueue)
  NPkt,          \* datagrams the clients send in one behaviour
  Clients,
  Kinds,         \* subset of AllKinds explored by this configuration
  Workers, PReaders, BReaders,
  B,             \* slots a batch reader arms (udpBatchSize)
  TXMax,         \* burst bound (udpTXMax)
  Inline,        \* engine.inline # nil (batch readers run the inline pass)
  BatchTX,       \* txConns armed: flushTX addresses by rawSA when present
  Drops,         \* the portable reader may drop a datagram after reading it
  BothOnHandoff, \* mutant: staged inline reply is added to the burst AND handed off
  Opts,          \* EDNS shapes of the packets that run the chain: subset of {"none", "plain", "cookie"}
  TruncRelease   \* udpBatchReader.finishRecv releases the slab of a kernel-truncated datagram (FALSE = mutant)

AllKinds == {"hit", "miss", "malformed", "qr", "badOpcode", "badCounts",
             "panic", "ignoredByChain", "writeHandoff", "trunc", "failhit"}

OptKinds == {"none", "plain", "cookie"}
ChainKinds == {"hit", "miss", "panic", "ignoredByChain", "writeHandoff", "failhit"}   \* reach the edns handler

ASSUME Kinds \subseteq AllKinds /\ TXMax >= B /\ Cap <= NSlab /\ Opts \subseteq OptKinds

Slabs   == 1..NSlab
Pkts    == 1..NPkt
Readers == PReaders \cup BReaders
Holders == Workers \cup BReaders          \* whoever owns a TX burst

VARIABLES
  slab, alloc, idle, ready, leased, inFlight,
  inbox, nsent, pinfo,
  rpc, rheld, rpend,
  hpc, cur, burst, fl, out,
  ov, oout,
  wire, err

vars == <<slab, alloc, idle, ready, leased, inFlight, inbox, nsent, pinfo,
          rpc, rheld, rpend, hpc, cur, burst, fl, out, ov, oout, wire, err>>

SilentKinds == {"malformed", "qr", "ignoredByChain"}

NoOut == [wrote |-> FALSE, handoff |-> FALSE, panic |-> FALSE, set |-> FALSE]
O(w, h, p) == [wrote |-> w, handoff |-> h, panic |-> p, set |-> TRUE]

(* what the header accept, the chain and the tail do with a packet, per pass *)
Allowed(kind, pass) ==
  CASE kind \in {"malformed", "qr"}          -> {O(FALSE, FALSE, FALSE)}
    [] kind \in {"badOpcode", "badCounts"}   -> {O(TRUE, FALSE, FALSE)}
    [] kind \in {"hit", "failhit"}           -> {O(TRUE, FALSE, FALSE)}
    [] kind = "trunc"                        -> {O(FALSE, FALSE, FALSE)}   \* never served (dropped by the reader)
    [] kind = "miss"  -> IF pass = "inline" THEN {O(FALSE, TRUE, FALSE)}
                                            ELSE {O(TRUE, FALSE, FALSE)}
    [] kind = "panic"                        -> {O(FALSE, FALSE, TRUE), O(TRUE, FALSE, TRUE)}
    [] kind = "ignoredByChain" ->
          IF pass = "inline" THEN {O(FALSE, FALSE, FALSE), O(FALSE, TRUE, FALSE)}
                             ELSE {O(FALSE, FALSE, FALSE)}
    [] kind = "writeHandoff" -> IF pass = "inline" THEN {O(TRUE, TRUE, FALSE)}
                                                   ELSE {O(TRUE, FALSE, FALSE)}

Range(s) == {s[i] : i \in 1..Len(s)}
NoPkt == [c |-> None, k |-> "hit", o |-> "none"]
KindOf(p) == pinfo[p].k
OptOf(p) == pinfo[p].o
ClientOf(p) == pinfo[p].c

Init ==
  /\ slab = [j \in Slabs |-> FreshSlab]
  /\ alloc = {} /\ idle = <<>> /\ ready = <<>>
  /\ leased = 0 /\ inFlight = 0
  /\ inbox = <<>> /\ nsent = 0
  /\ pinfo = [p \in Pkts |-> NoPkt]
  /\ rpc = [r \in Readers |-> "top"]
  /\ rheld = [r \in Readers |-> <<>>]
  /\ rpend = [r \in Readers |-> <<>>]
  /\ hpc = [h \in Holders |-> "poll"]
  /\ cur = [h \in Holders |-> 0]
  /\ burst = [h \in Holders |-> <<>>]
  /\ fl = [h \in Holders |-> "no"]
  /\ out = [h \in Holders |-> NoOut]
  /\ ov = [j \in Slabs |-> "no"]
  /\ oout = [j \in Slabs |-> NoOut]
  /\ wire = <<>> /\ err = ""

---------------------------------------------------------------------------
(* clients *)
ClientSend(c, k, o) ==
  /\ err = "" /\ nsent < NPkt
  /\ nsent' = nsent + 1
  /\ pinfo' = [pinfo EXCEPT ![nsent + 1] = [c |-> c, k |-> k, o |-> o]]
  /\ inbox' = Append(inbox, nsent + 1)
  /\ UNCHANGED <<slab, alloc, idle, ready, leased, inFlight, rpc, rheld, rpend,
                 hpc, cur, burst, fl, out, ov, oout, wire, err>>

---------------------------------------------------------------------------
(* take(): fetch-add, roll back above the cap, pop the idle cache (LIFO) or *)
(* allocate                                                                *)
TakeAdd(r) ==
  /\ leased' = leased + 1
  /\ rpc' = [rpc EXCEPT ![r] = "took"]

PopOrAlloc(j) ==
  IF idle # <<>>
    THEN /\ j = idle[Len(idle)]
         /\ idle' = SubSeq(idle, 1, Len(idle) - 1)
         /\ alloc' = alloc
    ELSE /\ j \in Slabs \ alloc
         /\ \A i \in Slabs \ alloc : j <= i      \* identities are interchangeable
         /\ alloc' = alloc \cup {j}
         /\ idle' = idle

(* transition(free, reading) asserts the state *)
ArmOrAssert(j) ==
  IF slab[j].state = "free"
    THEN slab' = [slab EXCEPT ![j] = OpArm(@)] /\ err' = err
    ELSE slab' = slab /\ err' = "ownership: arm of a slab that is not free"

(* release(from): the ownership assertion, the scrub, park, count down *)
Forget(ps) == [p \in Pkts |-> IF p \in ps THEN NoPkt ELSE pinfo[p]]

ReleaseTo(j, from, sl, more) ==
  IF sl[j].state # from
    THEN /\ err' = "ownership: release from a state the job is not in"
         /\ slab' = sl /\ idle' = idle /\ leased' = leased /\ inFlight' = inFlight
         /\ pinfo' = Forget(more)
    ELSE /\ err' = err
         /\ pinfo' = Forget({sl[j].rx} \cup more)
         /\ slab' = [sl EXCEPT ![j] = OpRelease(@)]
         /\ idle' = Append(idle, j)
         /\ leased' = leased - 1
         /\ inFlight' = IF from \in {"queued", "serving"} THEN inFlight - 1 ELSE inFlight

(* enqueueCounted: state = queued; the pool first, an overflow goroutine when *)
(* the queue is full                                                       *)
EnqueueCounted(j, sl) ==
  /\ slab' = [sl EXCEPT ![j] = OpQueued(@)]
  /\ IF Len(ready) < Q
       THEN ready' = Append(ready, j) /\ ov' = ov
       ELSE ready' = ready /\ ov' = [ov EXCEPT ![j] = "spawned"]

---------------------------------------------------------------------------
(* portable reader *)
PTakeAdd(r) ==
  /\ err = "" /\ r \in PReaders /\ rpc[r] = "top"
  /\ TakeAdd(r)
  /\ UNCHANGED <<slab, alloc, idle, ready, inFlight, inbox, nsent, pinfo, rheld, rpend,
                 hpc, cur, burst, fl, out, ov, oout, wire, err>>

PTakeCheck(r) ==
  /\ err = "" /\ r \in PReaders /\ rpc[r] = "took"
  /\ IF leased > Cap
       THEN /\ leased' = leased - 1
            /\ rpc' = [rpc EXCEPT ![r] = "shed"]
            /\ UNCHANGED <<slab, alloc, idle, rheld, err>>
       ELSE \E j \in Slabs :
            /\ PopOrAlloc(j)
            /\ ArmOrAssert(j)
            /\ rheld' = [rheld EXCEPT ![r] = <<j>>]
            /\ rpc' = [rpc EXCEPT ![r] = "armed"]
            /\ leased' = leased
  /\ UNCHANGED <<ready, inFlight, inbox, nsent, pinfo, rpend, hpc, cur, burst, fl, out, ov, oout, wire>>

PShed(r) ==
  /\ err = "" /\ r \in PReaders /\ rpc[r] = "shed" /\ inbox # <<>>
  /\ inbox' = Tail(inbox)
  /\ pinfo' = Forget({Head(inbox)})
  /\ rpc' = [rpc EXCEPT ![r] = "top"]
  /\ UNCHANGED <<slab, alloc, idle, ready, leased, inFlight, nsent, rheld, rpend,
                 hpc, cur, burst, fl, out, ov, oout, wire, err>>

PReadInto(r) ==
  /\ err = "" /\ r \in PReaders /\ rpc[r] = "armed" /\ inbox # <<>>
  /\ KindOf(Head(inbox)) # "trunc"
  /\ LET j == rheld[r][1] p == Head(inbox) IN
     slab' = [slab EXCEPT ![j] = OpReadPortable(@, p, ClientOf(p))]
  /\ inbox' = Tail(inbox)
  /\ rpc' = [rpc EXCEPT ![r] = "filled"]
  /\ UNCHANGED <<alloc, idle, ready, leased, inFlight, nsent, pinfo, rheld, rpend,
                 hpc, cur, burst, fl, out, ov, oout, wire, err>>

PReadDrop(r) ==      \* read error / MSG_TRUNC / control truncation: release(reading)
  /\ err = "" /\ Drops /\ r \in PReaders /\ rpc[r] = "armed" /\ inbox # <<>>
  /\ inbox' = Tail(inbox)
  /\ ReleaseTo(rheld[r][1], "reading", slab, {Head(inbox)})
  /\ rheld' = [rheld EXCEPT ![r] = <<>>]
  /\ rpc' = [rpc EXCEPT ![r] = "top"]
  /\ UNCHANGED <<alloc, ready, nsent, rpend, hpc, cur, burst, fl, out, ov, oout, wire>>

PReadTrunc(r) ==     \* flags&msgTrunc: release(reading), whatever Drops says
  /\ err = "" /\ r \in PReaders /\ rpc[r] = "armed" /\ inbox # <<>>
  /\ KindOf(Head(inbox)) = "trunc"
  /\ inbox' = Tail(inbox)
  /\ ReleaseTo(rheld[r][1], "reading", slab, {Head(inbox)})
  /\ rheld' = [rheld EXCEPT ![r] = <<>>]
  /\ rpc' = [rpc EXCEPT ![r] = "top"]
  /\ UNCHANGED <<alloc, ready, nsent, rpend, hpc, cur, burst, fl, out, ov, oout, wire>>

PEnqueue(r) ==
  /\ err = "" /\ r \in PReaders /\ rpc[r] = "filled"
  /\ inFlight' = inFlight + 1
  /\ EnqueueCounted(rheld[r][1], slab)
  /\ rheld' = [rheld EXCEPT ![r] = <<>>]
  /\ rpc' = [rpc EXCEPT ![r] = "top"]
  /\ UNCHANGED <<alloc, idle, leased, inbox, nsent, pinfo, rpend, hpc, cur, burst, fl, out,
                 wire, err, oout>>

---------------------------------------------------------------------------
(* batch reader: arms up to B slabs, recvmmsg fills a prefix, each filled   *)
(* slab takes the inline pass (or the counted enqueue), the cycle's staged *)
(* replies leave as one transmit batch, survivors stay armed               *)
BTakeAdd(r) ==
  /\ err = "" /\ r \in BReaders /\ rpc[r] = "top" /\ Len(rheld[r]) < B
  /\ TakeAdd(r)
  /\ UNCHANGED <<slab, alloc, idle, ready, inFlight, inbox, nsent, pinfo, rheld, rpend,
                 hpc, cur, burst, fl, out, ov, oout, wire, err>>

BTakeCheck(r) ==
  /\ err = "" /\ r \in BReaders /\ rpc[r] = "took"
  /\ IF leased > Cap
       THEN /\ leased' = leased - 1
            /\ rpc' = [rpc EXCEPT ![r] = IF rheld[r] = <<>> THEN "shed" ELSE "armed"]
            /\ UNCHANGED <<slab, alloc, idle, rheld, err>>
       ELSE \E j \in Slabs :
            /\ PopOrAlloc(j)
            /\ ArmOrAssert(j)
            /\ rheld' = [rheld EXCEPT ![r] = Append(@, j)]
            /\ rpc' = [rpc EXCEPT ![r] = "top"]
            /\ leased' = leased
  /\ UNCHANGED <<ready, inFlight, inbox, nsent, pinfo, rpend, hpc, cur, burst, fl, out, ov, oout, wire>>

BArmed(r) ==
  /\ err = "" /\ r \in BReaders /\ rpc[r] = "top" /\ Len(rheld[r]) = B
  /\ rpc' = [rpc EXCEPT ![r] = "armed"]
  /\ UNCHANGED <<slab, alloc, idle, ready, leased, inFlight, inbox, nsent, pinfo, rheld, rpend,
                 hpc, cur, burst, fl, out, ov, oout, wire, err>>

BShed(r) ==
  /\ err = "" /\ r \in BReaders /\ rpc[r] = "shed" /\ inbox # <<>>
  /\ \E n \in 1..Len(inbox) :
       /\ inbox' = SubSeq(inbox, n + 1, Len(inbox))
       /\ pinfo' = Forget({inbox[i] : i \in 1..n})
  /\ rpc' = [rpc EXCEPT ![r] = "top"]
  /\ UNCHANGED <<slab, alloc, idle, ready, leased, inFlight, nsent, rheld, rpend,
                 hpc, cur, burst, fl, out, ov, oout, wire, err>>

Min(a, b) == IF a < b THEN a ELSE b

BRecv(r) ==
  /\ err = "" /\ r \in BReaders /\ rpc[r] = "armed" /\ inbox # <<>>
  /\ \E n \in 1..Min(Len(inbox), Len(rheld[r])) :
       /\ slab' = [j \in Slabs |->
                     IF \E i \in 1..n : rheld[r][i] = j
                       THEN LET i == CHOOSE i \in 1..n : rheld[r][i] = j IN
                            IF KindOf(inbox[i]) = "trunc"
                              THEN OpReadTrunc(slab[j], inbox[i])
                              ELSE OpReadBatch(slab[j], inbox[i], ClientOf(inbox[i]))
                       ELSE slab[j]]
       /\ rpend' = [rpend EXCEPT ![r] = SubSeq(rheld[r], 1, n)]
       /\ rheld' = [rheld EXCEPT ![r] = SubSeq(@, n + 1, Len(@))]
       /\ inbox' = SubSeq(inbox, n + 1, Len(inbox))
  /\ rpc' = [rpc EXCEPT ![r] = "fin"]
  /\ UNCHANGED <<alloc, idle, ready, leased, inFlight, nsent, pinfo, hpc, cur, burst, fl, out,
                 ov, oout, wire, err>>

(* finishRecv of the next filled slot *)
BFinish(r) ==
  /\ err = "" /\ r \in BReaders /\ rpc[r] = "fin" /\ rpend[r] # <<>>
  /\ LET j == Head(rpend[r]) IN
     /\ rpend' = [rpend EXCEPT ![r] = Tail(@)]
     /\ IF KindOf(slab[j].rx) = "trunc"
          THEN \* h.hdr.Flags&MSG_TRUNC: the slot is consumed either way; the slab goes back or is lost
               /\ IF TruncRelease
                    THEN ReleaseTo(j, "reading", slab, {})
                    ELSE UNCHANGED <<slab, idle, leased, inFlight, pinfo, err>>
               /\ UNCHANGED <<ready, ov, cur, out, rpc>>
          ELSE /\ inFlight' = inFlight + 1
               /\ UNCHANGED <<idle, leased, pinfo>>
               /\ IF Inline
                    THEN /\ IF slab[j].state = "reading"                \* InlineBegin
                              THEN slab' = [slab EXCEPT ![j] = OpInlineBegin(@, r)] /\ err' = err
                              ELSE slab' = slab /\ err' = "ownership: inline serve of a slab not reading"
                         /\ cur' = [cur EXCEPT ![r] = j]
                         /\ out' = [out EXCEPT ![r] = NoOut]
                         /\ rpc' = [rpc EXCEPT ![r] = "inl"]
                         /\ UNCHANGED <<ready, ov>>
                    ELSE /\ EnqueueCounted(j, slab)
                         /\ UNCHANGED <<cur, out, rpc, err>>
  /\ UNCHANGED <<alloc, inbox, nsent, rheld, hpc, burst, fl, wire, oout>>

(* what one pass over the packet in RX does to its slab: an in-place        *)
(* rejection never reaches the chain; everything else enters the edns       *)
(* handler, which fills the job-owned writer slot, builds the reply's OPT   *)
(* from it if a reply is written, and zeroes it on the way out              *)
Served(s, wrote) ==
  IF KindOf(s.rx) \notin ChainKinds
    THEN (IF wrote THEN OpStage(s) ELSE s)
    ELSE LET e == OpEdnsEnter(s, OptOf(s.rx)) IN
         OpEdnsLeave(IF ~wrote THEN e
                     ELSE IF KindOf(s.rx) = "failhit" THEN OpStageInPlace(e, OptOf(s.rx))
                     ELSE OpStageOpt(e, OptOf(s.rx)))

(* the serve of the job the holder h has in hand: header accept, chain, tail *)
PassOf(h, j) == IF h \in BReaders THEN "inline"
                ELSE IF slab[j].replay THEN "replay" ELSE "worker"

Serving(h) == IF h \in BReaders THEN rpc[h] = "inl" ELSE hpc[h] = "serve"

Chain(h) ==
  /\ err = "" /\ h \in Holders /\ Serving(h) /\ fl[h] = "no" /\ ~out[h].set
  /\ LET j == cur[h] IN
     \E o \in Allowed(KindOf(slab[j].rx), PassOf(h, j)) :
       /\ out' = [out EXCEPT ![h] = o]
       /\ slab' = [slab EXCEPT ![j] = Served(@, o.wrote)]
  /\ UNCHANGED <<alloc, idle, ready, leased, inFlight, inbox, nsent, pinfo, rpc, rheld, rpend,
                 hpc, cur, burst, fl, ov, oout, wire, err>>

(* serveInline's deferred tail *)
InlineEnd(r) ==
  /\ err = "" /\ r \in BReaders /\ rpc[r] = "inl" /\ out[r].set /\ fl[r] = "no"
  /\ LET j  == cur[r]
         s  == OpServeEnd(slab[j])
         done == out[r].panic \/ ~out[r].handoff
     IN
     IF s.txLen > 0 /\ (done \/ ~BothOnHandoff)
       THEN \* a staged reply is terminal, handoff or not: it rides the cycle's batch
            /\ slab' = [slab EXCEPT ![j] = s]
            /\ burst' = [burst EXCEPT ![r] = Append(@, j)]
            /\ cur' = [cur EXCEPT ![r] = 0]
            /\ rpc' = [rpc EXCEPT ![r] = "fin"]
            /\ UNCHANGED <<idle, leased, inFlight, err, pinfo>>
       ELSE IF ~done
         THEN \* handoff: replay = true, transition(serving, reading); count carried
            /\ slab' = [slab EXCEPT ![j] = OpHandoff(s)]
            /\ burst' = IF s.txLen > 0 THEN [burst EXCEPT ![r] = Append(@, j)] ELSE burst
            /\ rpc' = [rpc EXCEPT ![r] = "hand"]
            /\ UNCHANGED <<cur, idle, leased, inFlight, err, pinfo>>
         ELSE /\ ReleaseTo(j, "serving", [slab EXCEPT ![j] = s], {})
              /\ cur' = [cur EXCEPT ![r] = 0]
              /\ rpc' = [rpc EXCEPT ![r] = "fin"]
              /\ burst' = burst
  /\ UNCHANGED <<alloc, ready, inbox, nsent, rheld, rpend, hpc, fl, out, ov, oout, wire>>

InlineHandoff(r) ==       \* finishRecv: enqueueCounted(j) after a declined inline pass
  /\ err = "" /\ r \in BReaders /\ rpc[r] = "hand"
  /\ EnqueueCounted(cur[r], slab)
  /\ cur' = [cur EXCEPT ![r] = 0]
  /\ rpc' = [rpc EXCEPT ![r] = "fin"]
  /\ UNCHANGED <<alloc, idle, leased, inFlight, inbox, nsent, pinfo, rheld, rpend, hpc, burst,
                 fl, out, wire, err, oout>>

BCycleEnd(r) ==
  /\ err = "" /\ r \in BReaders /\ rpc[r] = "fin" /\ rpend[r] = <<>> /\ fl[r] = "no"
  /\ IF burst[r] # <<>>
       THEN fl' = [fl EXCEPT ![r] = "send"] /\ rpc' = rpc
       ELSE fl' = fl /\ rpc' = [rpc EXCEPT ![r] = "top"]
  /\ UNCHANGED <<slab, alloc, idle, ready, leased, inFlight, inbox, nsent, pinfo, rheld, rpend,
                 hpc, cur, burst, out, ov, oout, wire, err>>

---------------------------------------------------------------------------
(* worker *)
WDequeue(w) ==
  /\ err = "" /\ w \in Workers /\ hpc[w] = "poll" /\ fl[w] = "no"
  /\ ready # <<>> /\ Len(burst[w]) < TXMax
  /\ LET j == Head(ready) IN
     /\ ready' = Tail(ready)
     /\ IF slab[j].state = "queued"
          THEN slab' = [slab EXCEPT ![j] = OpServeBegin(@, w)] /\ err' = err
          ELSE slab' = slab /\ err' = "ownership: serve of a slab not queued"
     /\ cur' = [cur EXCEPT ![w] = j]
  /\ out' = [out EXCEPT ![w] = NoOut]
  /\ hpc' = [hpc EXCEPT ![w] = "serve"]
  /\ UNCHANGED <<alloc, idle, leased, inFlight, inbox, nsent, pinfo, rpc, rheld, rpend, burst,
                 fl, ov, oout, wire>>

ServeEnd(w) ==          \* serve's deferred tail: burst.add or release, exactly once
  /\ err = "" /\ w \in Workers /\ hpc[w] = "serve" /\ out[w].set /\ fl[w] = "no"
  /\ LET j == cur[w] s == OpServeEnd(slab[j]) IN
     IF s.txLen > 0
       THEN /\ slab' = [slab EXCEPT ![j] = s]
            /\ burst' = [burst EXCEPT ![w] = Append(@, j)]
            /\ UNCHANGED <<idle, leased, inFlight, err, pinfo>>
       ELSE /\ ReleaseTo(j, "serving", [slab EXCEPT ![j] = s], {})
            /\ burst' = burst
  /\ cur' = [cur EXCEPT ![w] = 0]
  /\ hpc' = [hpc EXCEPT ![w] = "poll"]
  /\ UNCHANGED <<alloc, ready, inbox, nsent, rpc, rheld, rpend, fl, out, ov, oout, wire>>

WFlushStart(w) ==       \* burst full after a serve, or the worker would block
  /\ err = "" /\ w \in Workers /\ hpc[w] = "poll" /\ fl[w] = "no" /\ burst[w] # <<>>
  /\ ready = <<>> \/ Len(burst[w]) = TXMax
  /\ fl' = [fl EXCEPT ![w] = "send"]
  /\ UNCHANGED <<slab, alloc, idle, ready, leased, inFlight, inbox, nsent, pinfo, rpc, rheld,
                 rpend, hpc, cur, burst, out, ov, oout, wire, err>>

WMidFlush(w) ==         \* udpJob.FlushStaged from the decoded fallback, before the chain
  /\ err = "" /\ w \in Workers /\ hpc[w] = "serve" /\ ~out[w].set /\ fl[w] = "no"
  /\ burst[w] # <<>>
  /\ fl' = [fl EXCEPT ![w] = "send"]
  /\ UNCHANGED <<slab, alloc, idle, ready, leased, inFlight, inbox, nsent, pinfo, rpc, rheld,
                 rpend, hpc, cur, burst, out, ov, oout, wire, err>>

---------------------------------------------------------------------------
(* flushTX: every staged reply of the burst is sent, then every job released *)
Datagram(j, s, how) ==
  [to |-> IF how = "now" THEN s.raddr ELSE SendDest(s, BatchTX),
   tx |-> IF how = "now" THEN s.rx ELSE s.tx,
   ck |-> IF how = "now" THEN ReplyCookie(OpEdnsEnter(s, OptOf(s.rx)), OptOf(s.rx)) ELSE s.txck,
   want |-> IF s.rx # None /\ OptOf(s.rx) = "cookie" THEN s.rx ELSE None,
   hd |-> IF how = "now" THEN (IF KindOf(s.rx) = "failhit" THEN HdInPlace(s) ELSE s.rx) ELSE s.txhd,
   rx |-> s.rx,
   from |-> IF s.rx = None THEN None ELSE ClientOf(s.rx),
   kind |-> IF s.rx = None THEN "none" ELSE KindOf(s.rx),
   wrote |-> (how = "now") \/ s.wrote,
   nth |-> s.sends + 1, slab |-> j]

Own(d)    == d.rx # None /\ d.tx = d.rx /\ d.to = d.from
Earned(d) == d.wrote /\ d.kind \notin SilentKinds
Once(d)   == d.nth = 1
OptOwn(d) == d.ck = d.want
HdOwn(d)  == d.hd = d.rx
Sound(d)  == Own(d) /\ Earned(d) /\ Once(d) /\ OptOwn(d) /\ HdOwn(d)
(* the ghost keeps the datagrams that broke a predicate, so the predicates  *)
(* below are state invariants without a growing history: each holds at     *)
(* every send of every behaviour iff it holds of `wire` in every state     *)
Record(ds) == wire \o SelectSeq(ds, LAMBDA d : ~Sound(d))

FlushSend(h) ==
  /\ err = "" /\ h \in Holders /\ fl[h] = "send"
  /\ LET staged == SelectSeq(burst[h], LAMBDA j : slab[j].txLen > 0) IN
     /\ wire' = Record([i \in 1..Len(staged) |-> Datagram(staged[i], slab[staged[i]], "burst")])
     /\ slab' = [j \in Slabs |-> IF j \in Range(staged) THEN OpSent(slab[j]) ELSE slab[j]]
  /\ fl' = [fl EXCEPT ![h] = "rel"]
  /\ UNCHANGED <<alloc, idle, ready, leased, inFlight, inbox, nsent, pinfo, rpc, rheld, rpend,
                 hpc, cur, burst, out, ov, err, oout>>

FlushRel(h) ==
  /\ err = "" /\ h \in Holders /\ fl[h] = "rel"
  /\ IF burst[h] = <<>>
       THEN /\ fl' = [fl EXCEPT ![h] = "no"]
            /\ rpc' = IF h \in BReaders /\ rpc[h] = "fin" /\ rpend[h] = <<>>
                        THEN [rpc EXCEPT ![h] = "top"] ELSE rpc
            /\ UNCHANGED <<slab, idle, leased, inFlight, burst, err, pinfo>>
       ELSE /\ ReleaseTo(Head(burst[h]), "serving", slab, {})
            /\ burst' = [burst EXCEPT ![h] = Tail(@)]
            /\ UNCHANGED <<fl, rpc>>
  /\ UNCHANGED <<alloc, ready, inbox, nsent, rheld, rpend, hpc, cur, out, ov, oout, wire>>

---------------------------------------------------------------------------
(* overflow goroutine: serve(j, nil) -- no burst, a Write leaves at once *)
OvBegin(j) ==
  /\ err = "" /\ ov[j] = "spawned"
  /\ IF slab[j].state = "queued"
       THEN slab' = [slab EXCEPT ![j] = OpServeBegin(@, None)] /\ err' = err
       ELSE slab' = slab /\ err' = "ownership: serve of a slab not queued"
  /\ ov' = [ov EXCEPT ![j] = "serving"]
  /\ oout' = [oout EXCEPT ![j] = NoOut]
  /\ UNCHANGED <<alloc, idle, ready, leased, inFlight, inbox, nsent, pinfo, rpc, rheld, rpend,
                 hpc, cur, burst, fl, out, wire>>

OvChain(j) ==
  /\ err = "" /\ ov[j] = "serving" /\ ~oout[j].set
  /\ \E o \in Allowed(KindOf(slab[j].rx), IF slab[j].replay THEN "replay" ELSE "worker") :
       /\ oout' = [oout EXCEPT ![j] = o]
       /\ IF o.wrote
            THEN /\ wire' = Record(<<Datagram(j, slab[j], "now")>>)
                 /\ slab' = [slab EXCEPT ![j] = [OpWriteNow(Served(@, FALSE)) EXCEPT
                                                   !.txhd = IF KindOf(slab[j].rx) = "failhit" THEN HdInPlace(slab[j]) ELSE slab[j].rx]]
            ELSE /\ wire' = wire
                 /\ slab' = [slab EXCEPT ![j] = Served(@, FALSE)]
  /\ UNCHANGED <<alloc, idle, ready, leased, inFlight, inbox, nsent, pinfo, rpc, rheld, rpend,
                 hpc, cur, burst, fl, out, ov, err>>

OvEnd(j) ==
  /\ err = "" /\ ov[j] = "serving" /\ oout[j].set
  /\ LET s == OpServeEnd(slab[j]) IN
     IF s.txLen > 0
       THEN \* burst.add on the nil burst of an overflow serve
            /\ err' = "nil burst: a staged length on a job served without a burst"
            /\ UNCHANGED <<slab, idle, leased, inFlight, pinfo>>
       ELSE ReleaseTo(j, "serving", [slab EXCEPT ![j] = s], {})
  /\ ov' = [ov EXCEPT ![j] = "no"]
  /\ UNCHANGED <<alloc, ready, inbox, nsent, rpc, rheld, rpend, hpc, cur, burst, fl, out,
                 oout, wire>>

---------------------------------------------------------------------------
Next ==
  \/ \E c \in Clients, k \in Kinds, o \in OptKinds :
       /\ (IF k \in ChainKinds THEN o \in Opts ELSE o = "none")
       /\ ClientSend(c, k, o)
  \/ \E r \in PReaders : PTakeAdd(r) \/ PTakeCheck(r) \/ PShed(r) \/ PReadInto(r)
                         \/ PReadDrop(r) \/ PReadTrunc(r) \/ PEnqueue(r)
  \/ \E r \in BReaders : BTakeAdd(r) \/ BTakeCheck(r) \/ BArmed(r) \/ BShed(r) \/ BRecv(r)
                         \/ BFinish(r) \/ InlineEnd(r) \/ InlineHandoff(r) \/ BCycleEnd(r)
  \/ \E w \in Workers : WDequeue(w) \/ ServeEnd(w) \/ WFlushStart(w) \/ WMidFlush(w)
  \/ \E h \in Holders : Chain(h) \/ FlushSend(h) \/ FlushRel(h)
  \/ \E j \in Slabs : OvBegin(j) \/ OvChain(j) \/ OvEnd(j)

Spec == Init /\ [][Next]_vars

---------------------------------------------------------------------------
(* where a slab is *)
Places(j) ==
    (IF j \in Range(idle) THEN 1 ELSE 0)
  + (IF j \in Range(ready) THEN 1 ELSE 0)
  + Cardinality({r \in Readers : j \in Range(rheld[r]) \cup Range(rpend[r])})
  + Cardinality({h \in Holders : cur[h] = j})
  + Cardinality({h \in Holders : j \in Range(burst[h])})
  + (IF ov[j] # "no" THEN 1 ELSE 0)

TypeOK ==
  /\ \A j \in Slabs : slab[j].state \in States /\ slab[j].txLen \in {0, 1}
  /\ alloc \subseteq Slabs /\ leased \in 0..(Cap + Cardinality(Readers))
  /\ inFlight \in 0..NSlab /\ Len(ready) <= Q

(* every live slab has exactly one owner, and its state says who *)
SingleOwner ==
  err = "" =>
  \A j \in alloc :
    /\ Places(j) = 1
    /\ j \in Range(idle) => slab[j].state = "free"
    /\ j \in Range(ready) => slab[j].state = "queued"
    /\ (\E r \in Readers : j \in Range(rheld[r]) \cup Range(rpend[r])) => slab[j].state = "reading"
    /\ (\E h \in Holders : j \in Range(burst[h])) => slab[j].state = "serving" /\ slab[j].jb = None
    /\ (\E h \in Workers : cur[h] = j) => slab[j].state = "serving" /\ slab[j].jb = CHOOSE h \in Workers : cur[h] = j

(* no engine assertion fires: transition()'s guard, the nil burst *)
ReleaseOnce == err = ""

(* a Send(j) transmits bytes produced for j.rx, to the address j.rx came from *)
ReplyIsOwn == \A i \in 1..Len(wire) : Own(wire[i])

(* a reply's OPT options derive only from the request it answers: a COOKIE  *)
(* option appears iff the packet in RX carried a client cookie and is built *)
(* from that packet's own cookie bytes                                      *)
ReplyOptIsOwn == \A i \in 1..Len(wire) : OptOwn(wire[i])

(* the flags word of a reply (AD, TC, Z ...) is its own: written for the     *)
(* packet it answers, not left in the slab's TX buffer by an earlier reply  *)
ReplyHeaderIsOwn == \A i \in 1..Len(wire) : HdOwn(wire[i])

(* no held slabs: every slab that is out of the idle cache is in somebody's *)
(* hands -- armed or filled in a reader's ring, queued, being served, in a  *)
(* burst, on an overflow goroutine -- who will give it back; none is leased *)
(* to nobody                                                                *)
NoHeldSlabs == err = "" => \A j \in alloc \ Range(idle) : Places(j) >= 1

(* between requests the job-owned edns writer slot holds nothing of any     *)
(* request (the hazard ReplyOptIsOwn's failure grows from)                  *)
SlotIsZeroBetweenRequests == \A j \in Slabs : slab[j].ew = None

(* a request decided in silence causes no datagram *)
SilentStaysSilent == \A i \in 1..Len(wire) : Earned(wire[i])

(* a packet is answered at most once, inline-then-replay included; a reply  *)
(* resent from a later lease of the slab has tx # rx and is ReplyIsOwn's   *)
AtMostOneSend ==
  /\ \A i \in 1..Len(wire) : Once(wire[i])
  /\ \A j \in Slabs : slab[j].sends <= 1

Takers == Cardinality({r \in Readers : rpc[r] = "took"})
Live == alloc \ Range(idle)
LeaseBound ==
  err = "" =>
  /\ leased <= Cap + Takers
  /\ leased = Cardinality(Live) + Takers
  /\ Cardinality(Live) <= Cap

Outstanding ==
  {j \in alloc : slab[j].state \in {"queued", "serving"}}
    \cup {j \in alloc : \E r \in BReaders : rpc[r] = "hand" /\ cur[r] = j}
QuiescedIff ==
  err = "" =>
  /\ inFlight = Cardinality(Outstanding)
  /\ (inFlight = 0) <=> (Outstanding = {} /\ \A h \in Holders : burst[h] = <<>>)

BurstBound == \A h \in Holders : Len(burst[h]) <= TXMax

(* a handed-off job carries no staged reply (drift, not a property) *)
HandoffClean == \A r \in BReaders : rpc[r] = "hand" => slab[cur[r]].txLen = 0

(* released slabs are scrubbed (the hazard the stale-reply bug grows from) *)
FreeIsScrubbed == \A j \in Range(idle) : slab[j].txLen = 0 /\ slab[j].rx = None /\ ~slab[j].replay

(* everything sent eventually comes home: used as a reachability witness *)
AllHome == nsent = NPkt /\ inbox = <<>> /\ inFlight = 0
=============================================================================
